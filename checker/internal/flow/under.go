package flow

import (
	"go/constant"
	"go/token"

	"golang.org/x/tools/go/ssa"
)

// ReachedUnder is ReachableUnder for a set: the blocks an execution can enter
// after it has completed block `from` with the facts fs holding (on stable
// conditions) without entering a block of avoid.  (`from` itself is in the
// result only if it is entered again.)  Branches are decided as in
// ReachableUnder.
func ReachedUnder(from *ssa.BasicBlock, fs []Fact, avoid map[*ssa.BasicBlock]bool) map[*ssa.BasicBlock]bool {
	return reachedUnder(from, fs, avoid, false)
}

// ReachedUnderPhis is ReachedUnder that also decides a comparison one of whose operands is a phi of the block the
// comparison is in: on the way into that block the phi stands for the value of the edge taken (`err = h(); ...` in one
// arm of an if/else chain, `if err != nil` after the arms have joined: coming from the arm, err is h's result).
func ReachedUnderPhis(from *ssa.BasicBlock, fs []Fact, avoid map[*ssa.BasicBlock]bool) map[*ssa.BasicBlock]bool {
	return reachedUnder(from, fs, avoid, true)
}

func reachedUnder(from *ssa.BasicBlock, fs []Fact, avoid map[*ssa.BasicBlock]bool, phis bool) map[*ssa.BasicBlock]bool {
	var eval func(v ssa.Value, pred, b *ssa.BasicBlock, depth int) (val, known bool)
	eval = func(v ssa.Value, pred, b *ssa.BasicBlock, depth int) (bool, bool) {
		if depth > 6 {
			return false, false
		}
		if c, ok := v.(*ssa.Const); ok && c.Value != nil && c.Value.Kind() == constant.Bool {
			return constant.BoolVal(c.Value), true
		}
		for _, f := range fs {
			switch CondRel(v, f.Cond) {
			case 1:
				return f.True, true
			case -1:
				return !f.True, true
			}
		}
		switch x := v.(type) {
		case *ssa.UnOp:
			if x.Op == token.NOT {
				if val, known := eval(x.X, pred, b, depth+1); known {
					return !val, true
				}
			}
		case *ssa.Phi:
			if x.Block() == b && pred != nil {
				for i, p := range b.Preds {
					if p == pred {
						return eval(x.Edges[i], nil, nil, depth+1)
					}
				}
			}
		case *ssa.BinOp:
			if !phis || pred == nil || b == nil {
				break
			}
			subst := func(o ssa.Value) (ssa.Value, bool) {
				if ph, ok := o.(*ssa.Phi); ok && ph.Block() == b {
					for i, p := range b.Preds {
						if p == pred {
							return ph.Edges[i], true
						}
					}
				}
				return o, false
			}
			nx, cx := subst(x.X)
			ny, cy := subst(x.Y)
			if cx || cy {
				return eval(&ssa.BinOp{Op: x.Op, X: nx, Y: ny}, nil, nil, depth+1)
			}
		}
		return false, false
	}
	type state struct{ pred, b *ssa.BasicBlock }
	seen := map[state]bool{}
	out := map[*ssa.BasicBlock]bool{}
	var stack []state
	push := func(pred, b *ssa.BasicBlock) {
		if avoid[b] {
			return
		}
		s := state{pred, b}
		if !seen[s] {
			seen[s] = true
			out[b] = true
			stack = append(stack, s)
		}
	}
	next := func(pred, b *ssa.BasicBlock) {
		iff, ok := b.Instrs[len(b.Instrs)-1].(*ssa.If)
		if !ok {
			for _, s := range b.Succs {
				push(b, s)
			}
			return
		}
		if val, known := eval(iff.Cond, pred, b, 0); known {
			if val {
				push(b, b.Succs[0])
			} else {
				push(b, b.Succs[1])
			}
			return
		}
		push(b, b.Succs[0])
		push(b, b.Succs[1])
	}
	next(nil, from)
	for len(stack) > 0 {
		s := stack[len(stack)-1]
		stack = stack[:len(stack)-1]
		next(s.pred, s.b)
	}
	return out
}

// StableFacts keeps the facts whose condition keeps its value during one
// activation (as CoveredBy uses them).
func StableFacts(fs []Fact) []Fact {
	var out []Fact
	for _, f := range fs {
		if b, ok := f.Cond.(*ssa.BinOp); ok && Stable(b.X) && Stable(b.Y) {
			out = append(out, f)
		} else if Stable(f.Cond) {
			out = append(out, f)
		}
	}
	return out
}

// Package flow is engine E3: path facts over go/ssa control-flow graphs —
// dominance by edges, post-dominance, reachability avoiding a set, natural
// loops, cycles.
package flow

import (
	"go/constant"
	"go/token"
	"go/types"

	"golang.org/x/tools/go/ssa"
)

// EdgeDominates reports whether every path from the function entry to block x
// goes through the edge from -> from.Succs[succ].
func EdgeDominates(from *ssa.BasicBlock, succ int, x *ssa.BasicBlock) bool {
	if succ >= len(from.Succs) {
		return false
	}
	s := from.Succs[succ]
	if len(from.Succs) == 2 && from.Succs[0] == from.Succs[1] {
		return false
	}
	if !s.Dominates(x) {
		return false
	}
	for _, p := range s.Preds {
		if p == from {
			continue
		}
		if !s.Dominates(p) {
			return false
		}
	}
	return true
}

// InCycle reports whether block b lies on a CFG cycle.
func InCycle(b *ssa.BasicBlock) bool {
	seen := map[*ssa.BasicBlock]bool{}
	var stack []*ssa.BasicBlock
	stack = append(stack, b.Succs...)
	for len(stack) > 0 {
		x := stack[len(stack)-1]
		stack = stack[:len(stack)-1]
		if x == b {
			return true
		}
		if seen[x] {
			continue
		}
		seen[x] = true
		stack = append(stack, x.Succs...)
	}
	return false
}

// CondFacts lists the (condition value, polarity) facts that hold on entry to
// block x: for every If whose true (false) edge dominates x.
type Fact struct {
	Cond ssa.Value
	True bool
	If   *ssa.If
}

func FactsAt(x *ssa.BasicBlock) []Fact {
	return refine(expand(rawFactsAt(x), 0))
}

// refine: a fact on a bool phi that expand could not resolve (several edges
// could have delivered that truth value) is resolved when all but one of those
// edges contradict the other facts already known (e.g. `a && b` is false and a
// is known true: then b is false).
func refine(fs []Fact) []Fact {
	for iter := 0; iter < 4; iter++ {
		added := false
		for _, f := range fs {
			phi, ok := f.Cond.(*ssa.Phi)
			if !ok {
				continue
			}
			if b, isB := phi.Type().Underlying().(*types.Basic); !isB || b.Kind() != types.Bool {
				continue
			}
			var cands []int
			for i, e := range phi.Edges {
				if c, isC := e.(*ssa.Const); isC && c.Value != nil {
					if (c.Value.String() == "true") != f.True {
						continue // this edge delivers the other truth value
					}
				}
				if ContradictFacts(rawEdgeFacts(phi.Block().Preds[i], phi.Block()), fs) {
					continue
				}
				cands = append(cands, i)
			}
			if len(cands) != 1 {
				continue
			}
			i := cands[0]
			extra := []Fact{}
			if _, isC := phi.Edges[i].(*ssa.Const); !isC {
				extra = append(extra, Fact{phi.Edges[i], f.True, f.If})
			}
			extra = append(extra, rawEdgeFacts(phi.Block().Preds[i], phi.Block())...)
			for _, e := range expand(extra, 0) {
				dup := false
				for _, o := range fs {
					if o.Cond == e.Cond && o.True == e.True {
						dup = true
					}
				}
				if !dup {
					fs = append(fs, e)
					added = true
				}
			}
		}
		if !added {
			break
		}
	}
	return fs
}

// Expand is expand+refine for facts built by a caller.
func Expand(fs []Fact) []Fact { return refine(expand(fs, 0)) }

// expand adds what a fact on a short-circuit phi implies: `a && b` is a phi
// with constant false on every edge but one, so "phi is true" means control
// came along that one edge (all facts of that edge hold) and its value is true;
// dually for `a || b` being false.  `!a` facts are normalised to facts on a.
func expand(fs []Fact, depth int) []Fact {
	if depth > 4 {
		return fs
	}
	out := append([]Fact{}, fs...)
	for _, f := range fs {
		if u, ok := f.Cond.(*ssa.UnOp); ok && u.Op.String() == "!" {
			out = append(out, expand([]Fact{{u.X, !f.True, f.If}}, depth+1)...)
			continue
		}
		phi, ok := f.Cond.(*ssa.Phi)
		if !ok {
			continue
		}
		want := "false" // for a true && : the other edges are constant false
		if !f.True {
			want = "true"
		}
		var live []int
		okShape := true
		for i, e := range phi.Edges {
			if c, isC := e.(*ssa.Const); isC && c.Value != nil && c.Value.String() == want {
				continue
			}
			if c, isC := e.(*ssa.Const); isC && c.Value != nil {
				_ = c
				okShape = false // a constant of the polarity we hold: tells nothing
				continue
			}
			live = append(live, i)
		}
		if !okShape || len(live) != 1 {
			continue
		}
		i := live[0]
		pred := phi.Block().Preds[i]
		extra := []Fact{{phi.Edges[i], f.True, f.If}}
		extra = append(extra, rawEdgeFacts(pred, phi.Block())...)
		out = append(out, expand(extra, depth+1)...)
	}
	return out
}

func rawFactsAt(x *ssa.BasicBlock) []Fact {
	var out []Fact
	fn := x.Parent()
	for _, b := range fn.Blocks {
		if len(b.Instrs) == 0 {
			continue
		}
		iff, ok := b.Instrs[len(b.Instrs)-1].(*ssa.If)
		if !ok {
			continue
		}
		if EdgeDominates(b, 0, x) {
			out = append(out, Fact{iff.Cond, true, iff})
		}
		if EdgeDominates(b, 1, x) {
			out = append(out, Fact{iff.Cond, false, iff})
		}
	}
	return out
}

// stable reports whether an SSA value keeps one value during a single
// activation between two program points: constants, parameters, and
// instructions that are not on a cycle.
func Stable(v ssa.Value) bool {
	switch x := v.(type) {
	case *ssa.Const, *ssa.Parameter, *ssa.FreeVar:
		return true
	case ssa.Instruction:
		return x.Block() != nil && !InCycle(x.Block())
	}
	return false
}

// Contradict reports whether the facts holding at a and at b contradict each
// other on a stable condition (so no execution passes a and then b within one
// evaluation of that condition).
func Contradict(a, b *ssa.BasicBlock) bool {
	fa := FactsAt(a)
	if len(fa) == 0 {
		return false
	}
	fb := FactsAt(b)
	for _, x := range fa {
		if !Stable(x.Cond) {
			continue
		}
		for _, y := range fb {
			if x.Cond == y.Cond && x.True != y.True {
				return true
			}
		}
	}
	return false
}

// ---- post-dominators ----------------------------------------------------------

// PostDom holds the post-dominator relation of one function (virtual exit
// joining every Return/Panic block).
type PostDom struct {
	fn    *ssa.Function
	pdom  map[*ssa.BasicBlock]map[*ssa.BasicBlock]bool // pdom[b] = set of blocks post-dominating b (incl. b)
	exits []*ssa.BasicBlock
}

func NewPostDom(fn *ssa.Function) *PostDom {
	pd := &PostDom{fn: fn, pdom: map[*ssa.BasicBlock]map[*ssa.BasicBlock]bool{}}
	all := map[*ssa.BasicBlock]bool{}
	for _, b := range fn.Blocks {
		all[b] = true
	}
	for _, b := range fn.Blocks {
		if len(b.Succs) == 0 {
			pd.exits = append(pd.exits, b)
			pd.pdom[b] = map[*ssa.BasicBlock]bool{b: true}
		} else {
			m := map[*ssa.BasicBlock]bool{}
			for x := range all {
				m[x] = true
			}
			pd.pdom[b] = m
		}
	}
	changed := true
	for changed {
		changed = false
		for i := len(fn.Blocks) - 1; i >= 0; i-- {
			b := fn.Blocks[i]
			if len(b.Succs) == 0 {
				continue
			}
			// intersection over successors
			var inter map[*ssa.BasicBlock]bool
			for _, s := range b.Succs {
				if inter == nil {
					inter = map[*ssa.BasicBlock]bool{}
					for x := range pd.pdom[s] {
						inter[x] = true
					}
				} else {
					for x := range inter {
						if !pd.pdom[s][x] {
							delete(inter, x)
						}
					}
				}
			}
			inter[b] = true
			if len(inter) != len(pd.pdom[b]) {
				pd.pdom[b] = inter
				changed = true
			}
		}
	}
	return pd
}

// PostDominates: every path from b to an exit passes through a.
func (pd *PostDom) PostDominates(a, b *ssa.BasicBlock) bool { return pd.pdom[b][a] }

// ---- reachability ------------------------------------------------------------

// Reachable reports whether `to` is reachable from the start of block `from`
// without entering any block in avoid (from itself is allowed).
func Reachable(from, to *ssa.BasicBlock, avoid map[*ssa.BasicBlock]bool) bool {
	seen := map[*ssa.BasicBlock]bool{}
	stack := []*ssa.BasicBlock{from}
	for len(stack) > 0 {
		x := stack[len(stack)-1]
		stack = stack[:len(stack)-1]
		if seen[x] {
			continue
		}
		seen[x] = true
		if x == to {
			return true
		}
		for _, s := range x.Succs {
			if !avoid[s] || s == to {
				stack = append(stack, s)
			}
		}
	}
	return false
}

// ReachableSet returns all blocks reachable from the successors of `from`.
func ReachableFrom(from *ssa.BasicBlock, avoid map[*ssa.BasicBlock]bool) map[*ssa.BasicBlock]bool {
	seen := map[*ssa.BasicBlock]bool{}
	stack := append([]*ssa.BasicBlock{}, from.Succs...)
	for len(stack) > 0 {
		x := stack[len(stack)-1]
		stack = stack[:len(stack)-1]
		if seen[x] || avoid[x] {
			continue
		}
		seen[x] = true
		stack = append(stack, x.Succs...)
	}
	return seen
}

// ---- loops -------------------------------------------------------------------

// Loop is a natural loop.
type Loop struct {
	Header *ssa.BasicBlock
	Blocks map[*ssa.BasicBlock]bool
	Latch  []*ssa.BasicBlock // sources of back edges
}

// Loops finds the natural loops of fn (back edges b->h where h dominates b);
// loops sharing a header are merged.
func Loops(fn *ssa.Function) []*Loop {
	by := map[*ssa.BasicBlock]*Loop{}
	var order []*ssa.BasicBlock
	for _, b := range fn.Blocks {
		for _, s := range b.Succs {
			if s.Dominates(b) {
				l := by[s]
				if l == nil {
					l = &Loop{Header: s, Blocks: map[*ssa.BasicBlock]bool{s: true}}
					by[s] = l
					order = append(order, s)
				}
				l.Latch = append(l.Latch, b)
				// collect body: blocks that reach b without passing h
				stack := []*ssa.BasicBlock{b}
				for len(stack) > 0 {
					x := stack[len(stack)-1]
					stack = stack[:len(stack)-1]
					if l.Blocks[x] {
						continue
					}
					l.Blocks[x] = true
					stack = append(stack, x.Preds...)
				}
			}
		}
	}
	var out []*Loop
	for _, h := range order {
		out = append(out, by[h])
	}
	return out
}

// InnermostLoop returns the smallest loop containing b, or nil.
func InnermostLoop(loops []*Loop, b *ssa.BasicBlock) *Loop {
	var best *Loop
	for _, l := range loops {
		if l.Blocks[b] && (best == nil || len(l.Blocks) < len(best.Blocks)) {
			best = l
		}
	}
	return best
}

// Exits lists the edges leaving the loop as (from, to) pairs.
func (l *Loop) Exits() [][2]*ssa.BasicBlock {
	var out [][2]*ssa.BasicBlock
	for b := range l.Blocks {
		for _, s := range b.Succs {
			if !l.Blocks[s] {
				out = append(out, [2]*ssa.BasicBlock{b, s})
			}
		}
	}
	return out
}

// InstrDominates: instruction a is executed before b on every path reaching b.
func InstrDominates(a, b ssa.Instruction) bool {
	ba, bb := a.Block(), b.Block()
	if ba == bb {
		for _, in := range ba.Instrs {
			if in == a {
				return true
			}
			if in == b {
				return false
			}
		}
		return false
	}
	return ba.Dominates(bb)
}

// Index of an instruction inside its block.
func Index(in ssa.Instruction) int {
	for i, x := range in.Block().Instrs {
		if x == in {
			return i
		}
	}
	return -1
}

// EdgeFacts lists the facts that hold when control moves along pred->succ.
func EdgeFacts(pred, succ *ssa.BasicBlock) []Fact {
	return refine(expand(rawEdgeFacts(pred, succ), 0))
}

func rawEdgeFacts(pred, succ *ssa.BasicBlock) []Fact {
	out := rawFactsAt(pred)
	if len(pred.Instrs) > 0 {
		if iff, ok := pred.Instrs[len(pred.Instrs)-1].(*ssa.If); ok && len(pred.Succs) == 2 && pred.Succs[0] != pred.Succs[1] {
			if pred.Succs[0] == succ {
				out = append(out, Fact{iff.Cond, true, iff})
			} else if pred.Succs[1] == succ {
				out = append(out, Fact{iff.Cond, false, iff})
			}
		}
	}
	return out
}

// ContradictFacts reports whether two fact sets disagree on a stable condition.
func ContradictFacts(fa, fb []Fact) bool {
	for _, x := range fa {
		if !Stable(x.Cond) {
			continue
		}
		for _, y := range fb {
			if x.Cond == y.Cond && x.True != y.True {
				return true
			}
		}
	}
	return false
}

// ---- guarded coverage ----------------------------------------------------------

// valEq: the same SSA value, or equal constants.
func valEq(a, b ssa.Value) bool {
	if a == b {
		return true
	}
	ca, ok1 := a.(*ssa.Const)
	cb, ok2 := b.(*ssa.Const)
	if !ok1 || !ok2 {
		return false
	}
	if ca.Value == nil || cb.Value == nil {
		return ca.Value == nil && cb.Value == nil
	}
	return ca.Value.Kind() == cb.Value.Kind() && ca.Value.ExactString() == cb.Value.ExactString()
}

// CondRel compares two branch conditions structurally: +1 the same condition
// (same value, or the same comparison of the same stable operands), -1 its
// negation (== against != on the same operands), 0 unrelated.
func CondRel(a, b ssa.Value) int {
	if a == b {
		return 1
	}
	ba, ok1 := a.(*ssa.BinOp)
	bb, ok2 := b.(*ssa.BinOp)
	if !ok1 || !ok2 {
		return 0
	}
	same := valEq(ba.X, bb.X) && valEq(ba.Y, bb.Y)
	swapped := valEq(ba.X, bb.Y) && valEq(ba.Y, bb.X)
	if !same && !swapped {
		return 0
	}
	if !Stable(ba.X) || !Stable(ba.Y) || !Stable(bb.X) || !Stable(bb.Y) {
		return 0
	}
	neg := map[token.Token]token.Token{token.EQL: token.NEQ, token.NEQ: token.EQL, token.LSS: token.GEQ, token.GEQ: token.LSS, token.GTR: token.LEQ, token.LEQ: token.GTR}
	flip := map[token.Token]token.Token{token.EQL: token.EQL, token.NEQ: token.NEQ, token.LSS: token.GTR, token.GTR: token.LSS, token.LEQ: token.GEQ, token.GEQ: token.LEQ}
	opb := bb.Op
	if swapped && !same {
		var ok bool
		if opb, ok = flip[opb]; !ok {
			return 0
		}
	}
	switch {
	case ba.Op == opb:
		return 1
	case neg[ba.Op] == opb:
		return -1
	}
	return 0
}

// prunedSuccs: the successors of b an execution can take given that the facts
// fs hold throughout (edges of a branch whose condition is structurally decided
// by a fact are dropped).
func prunedSuccs(b *ssa.BasicBlock, fs []Fact) []*ssa.BasicBlock {
	iff, ok := b.Instrs[len(b.Instrs)-1].(*ssa.If)
	if !ok {
		return b.Succs
	}
	conds := Expand([]Fact{{Cond: iff.Cond, True: true, If: iff}})
	// only a single plain condition can be decided
	if len(conds) != 1 {
		return b.Succs
	}
	for _, f := range fs {
		switch CondRel(conds[0].Cond, f.Cond) {
		case 1:
			if f.True == conds[0].True {
				return b.Succs[:1]
			}
			return b.Succs[1:2]
		case -1:
			if f.True == conds[0].True {
				return b.Succs[1:2]
			}
			return b.Succs[:1]
		}
	}
	return b.Succs
}

// CoveredBy reports whether, in every execution in which the facts holding at
// block s hold, passing s implies passing r: either every fact-consistent path
// from the entry to s passes r, or every fact-consistent path from s to a
// return passes r.
func CoveredBy(s, r *ssa.BasicBlock) bool {
	if s == r {
		return true
	}
	fs := FactsAt(s)
	var stable []Fact
	for _, f := range fs {
		if b, ok := f.Cond.(*ssa.BinOp); ok && Stable(b.X) && Stable(b.Y) {
			stable = append(stable, f)
		} else if Stable(f.Cond) {
			stable = append(stable, f)
		}
	}
	reach := func(from *ssa.BasicBlock, goal func(*ssa.BasicBlock) bool) bool {
		seen := map[*ssa.BasicBlock]bool{from: true}
		stack := []*ssa.BasicBlock{from}
		first := true
		for len(stack) > 0 {
			x := stack[len(stack)-1]
			stack = stack[:len(stack)-1]
			if !first || x != from {
				if goal(x) {
					return true
				}
			}
			first = false
			for _, y := range prunedSuccs(x, stable) {
				if y == r || seen[y] {
					continue
				}
				seen[y] = true
				stack = append(stack, y)
			}
		}
		return false
	}
	fn := s.Parent()
	entry := fn.Blocks[0]
	var before bool
	switch entry {
	case r:
		before = true
	case s:
		before = false
	default:
		before = !reach(entry, func(b *ssa.BasicBlock) bool { return b == s })
	}
	if before {
		return true
	}
	isExit := func(b *ssa.BasicBlock) bool {
		_, ok := b.Instrs[len(b.Instrs)-1].(*ssa.Return)
		return ok
	}
	if isExit(s) {
		return false
	}
	return !reach(s, isExit)
}

// ReachableUnder reports whether an execution that has completed block `from`
// with the facts fs holding (on stable conditions) can reach block `to`.  A
// branch is followed in one direction only when its condition is decided: a
// constant, a condition the facts decide (CondRel), the negation of one, or a
// bool phi (`a && b`, `a || b`) whose operand for the edge the execution came
// along is decided.
func ReachableUnder(from *ssa.BasicBlock, fs []Fact, to *ssa.BasicBlock) bool {
	var eval func(v ssa.Value, pred, b *ssa.BasicBlock, depth int) (val, known bool)
	eval = func(v ssa.Value, pred, b *ssa.BasicBlock, depth int) (bool, bool) {
		if depth > 6 {
			return false, false
		}
		if c, ok := v.(*ssa.Const); ok && c.Value != nil && c.Value.Kind() == constant.Bool {
			return constant.BoolVal(c.Value), true
		}
		for _, f := range fs {
			switch CondRel(v, f.Cond) {
			case 1:
				return f.True, true
			case -1:
				return !f.True, true
			}
		}
		switch x := v.(type) {
		case *ssa.UnOp:
			if x.Op == token.NOT {
				if val, known := eval(x.X, pred, b, depth+1); known {
					return !val, true
				}
			}
		case *ssa.Phi:
			if x.Block() == b && pred != nil {
				for i, p := range b.Preds {
					if p == pred {
						return eval(x.Edges[i], nil, nil, depth+1)
					}
				}
			}
		}
		return false, false
	}
	type state struct{ pred, b *ssa.BasicBlock }
	seen := map[state]bool{}
	var stack []state
	push := func(pred, b *ssa.BasicBlock) {
		s := state{pred, b}
		if !seen[s] {
			seen[s] = true
			stack = append(stack, s)
		}
	}
	next := func(pred, b *ssa.BasicBlock) {
		iff, ok := b.Instrs[len(b.Instrs)-1].(*ssa.If)
		if !ok {
			for _, s := range b.Succs {
				push(b, s)
			}
			return
		}
		if val, known := eval(iff.Cond, pred, b, 0); known {
			if val {
				push(b, b.Succs[0])
			} else {
				push(b, b.Succs[1])
			}
			return
		}
		push(b, b.Succs[0])
		push(b, b.Succs[1])
	}
	next(nil, from)
	for len(stack) > 0 {
		s := stack[len(stack)-1]
		stack = stack[:len(stack)-1]
		if s.b == to {
			return true
		}
		next(s.pred, s.b)
	}
	return false
}

// Package lockset is engine E4: a must-held lock set per program point.
// Lock identity is type-level (owner type + mutex field): the guarded-by
// tables of this repository have one instance per owner.  Lock/RLock
// generate, Unlock/RUnlock kill, deferred unlocks hold to the exit.  The
// entry set of an unexported function is the intersection of the sets held at
// its static call sites; exported functions, goroutine entries and functions
// without callers start with the empty set.
package lockset

import (
	"go/types"
	"sort"
	"strings"

	"golang.org/x/tools/go/ssa"

	"sheensverif/internal/prog"
	"sheensverif/internal/ssau"
)

type Mode int

const (
	None Mode = iota
	R
	W
)

type Set map[string]Mode

func (s Set) clone() Set {
	o := Set{}
	for k, v := range s {
		o[k] = v
	}
	return o
}

func meet(a, b Set) Set {
	if a == nil {
		return b.clone()
	}
	if b == nil {
		return a.clone()
	}
	o := Set{}
	for k, va := range a {
		if vb, ok := b[k]; ok {
			if vb < va {
				o[k] = vb
			} else {
				o[k] = va
			}
		}
	}
	return o
}

func equal(a, b Set) bool {
	if (a == nil) != (b == nil) || len(a) != len(b) {
		return false
	}
	for k, v := range a {
		if b[k] != v {
			return false
		}
	}
	return true
}

func (s Set) String() string {
	var ks []string
	for k, v := range s {
		m := "W"
		if v == R {
			m = "R"
		}
		ks = append(ks, k+":"+m)
	}
	sort.Strings(ks)
	return "{" + strings.Join(ks, ", ") + "}"
}

// LockOp classifies a call as a lock operation: returns the lock id, the mode
// acquired (R/W) or None for a release, and ok.
func LockOp(ci ssa.CallInstruction) (id string, acquire bool, mode Mode, ok bool) {
	name := ssau.CalleeName(ci)
	switch name {
	case "(*sync.Mutex).Lock", "(*sync.RWMutex).Lock":
		acquire, mode = true, W
	case "(*sync.RWMutex).RLock":
		acquire, mode = true, R
	case "(*sync.Mutex).Unlock", "(*sync.RWMutex).Unlock", "(*sync.RWMutex).RUnlock":
		acquire = false
	default:
		return "", false, None, false
	}
	args := ci.Common().Args
	if len(args) == 0 {
		return "", false, None, false
	}
	return LockID(args[0]), acquire, mode, true
}

// LockID renders the type-level identity of a mutex address expression.
func LockID(addr ssa.Value) string {
	switch x := addr.(type) {
	case *ssa.FieldAddr:
		n, f, _, ok := ssau.FieldOf(x)
		if ok && n != nil {
			pk := ""
			if n.Obj().Pkg() != nil {
				pk = prog.Rel(n.Obj().Pkg().Path())
			}
			return pk + "." + n.Obj().Name() + "." + f
		}
	case *ssa.Global:
		return "global." + x.Name()
	case *ssa.UnOp:
		return LockID(x.X)
	}
	if n := ssau.NamedOf(addr.Type()); n != nil {
		return "value." + n.Obj().Name()
	}
	return "?"
}

// Analysis holds the lock sets of a group of functions.
type Analysis struct {
	Fns    []*ssa.Function
	inSet  map[*ssa.Function]bool
	Entry  map[*ssa.Function]Set
	before map[ssa.Instruction]Set
	// Async: closures / functions started with go (entry = empty set).
	Async map[*ssa.Function]bool
}

// New analyses the given functions (and their function literals).
func New(fns []*ssa.Function) *Analysis {
	a := &Analysis{inSet: map[*ssa.Function]bool{}, Entry: map[*ssa.Function]Set{}, before: map[ssa.Instruction]Set{}, Async: map[*ssa.Function]bool{}}
	for _, f := range fns {
		for _, g := range ssau.WithAnon(f) {
			if !a.inSet[g] && g.Blocks != nil {
				a.inSet[g] = true
				a.Fns = append(a.Fns, g)
			}
		}
	}
	sort.Slice(a.Fns, func(i, j int) bool { return prog.FuncName(a.Fns[i]) < prog.FuncName(a.Fns[j]) })
	// call sites
	type site struct {
		in    ssa.Instruction
		async bool
	}
	sites := map[*ssa.Function][]site{}
	for _, f := range a.Fns {
		ssau.Instrs(f, func(in ssa.Instruction) {
			switch x := in.(type) {
			case *ssa.Go:
				if callee := calleeOf(x.Common()); callee != nil && a.inSet[callee] {
					sites[callee] = append(sites[callee], site{in, true})
					a.Async[callee] = true
				}
			case *ssa.Defer:
				if callee := calleeOf(x.Common()); callee != nil && a.inSet[callee] {
					sites[callee] = append(sites[callee], site{in, false})
				}
			case *ssa.Call:
				if callee := calleeOf(x.Common()); callee != nil && a.inSet[callee] {
					sites[callee] = append(sites[callee], site{in, false})
				}
				// function literals passed as arguments run synchronously inside the call
				for ai, arg := range x.Common().Args {
					if mc, ok := arg.(*ssa.MakeClosure); ok {
						if m := boundMethod(mc); m != nil && a.inSet[m] {
							// a method value (x.m) handed to a function of the set: the method runs where that function
							// calls the parameter, with what is held there (started with go: nothing); handed to anything
							// else, it is treated like a literal
							if ins, ok := paramCalls(calleeOf(x.Common()), ai, a.inSet); ok {
								for _, pc := range ins {
									_, isGo := pc.(*ssa.Go)
									sites[m] = append(sites[m], site{pc, isGo})
									if isGo {
										a.Async[m] = true
									}
								}
							} else {
								async := strings.HasPrefix(ssau.CalleeName(x), "time.AfterFunc")
								sites[m] = append(sites[m], site{in, async})
								if async {
									a.Async[m] = true
								}
							}
							continue
						}
						if fn := mc.Fn.(*ssa.Function); a.inSet[fn] {
							async := strings.HasPrefix(ssau.CalleeName(x), "time.AfterFunc")
							sites[fn] = append(sites[fn], site{in, async})
							if async {
								a.Async[fn] = true
							}
						}
					}
				}
			}
		})
	}
	isRoot := func(f *ssa.Function) bool {
		if len(sites[f]) == 0 {
			return true
		}
		if f.Parent() == nil && f.Object() != nil && f.Object().Exported() {
			return true
		}
		return false
	}
	for _, f := range a.Fns {
		if isRoot(f) {
			a.Entry[f] = Set{}
		} else {
			a.Entry[f] = nil // top
		}
	}
	for iter := 0; iter < 20; iter++ {
		changed := false
		for _, f := range a.Fns {
			a.flow(f)
		}
		for _, f := range a.Fns {
			if isRoot(f) {
				continue
			}
			var e Set
			first := true
			for _, s := range sites[f] {
				var here Set
				if s.async {
					here = Set{}
				} else {
					here = a.before[s.in]
					if here == nil {
						continue // caller not yet evaluated (top)
					}
				}
				if first {
					e = here.clone()
					first = false
				} else {
					e = meet(e, here)
				}
			}
			if first {
				continue
			}
			if !equal(e, a.Entry[f]) {
				a.Entry[f] = e
				changed = true
			}
		}
		if !changed {
			break
		}
	}
	for _, f := range a.Fns {
		if a.Entry[f] == nil {
			a.Entry[f] = Set{}
		}
		a.flow(f)
	}
	return a
}

// boundMethod: the method a bound-method closure (the value of the expression x.m) calls; nil for anything else.
func boundMethod(mc *ssa.MakeClosure) *ssa.Function {
	w, ok := mc.Fn.(*ssa.Function)
	if !ok || w.Synthetic == "" || !strings.HasSuffix(w.Name(), "$bound") || len(mc.Bindings) != 1 {
		return nil
	}
	var m *ssa.Function
	ssau.Instrs(w, func(in ssa.Instruction) {
		if ci, ok := in.(ssa.CallInstruction); ok {
			if sc := ci.Common().StaticCallee(); sc != nil && sc.Name()+"$bound" == w.Name() {
				m = sc
			}
		}
	})
	return m
}

// paramCalls: the instructions of g that call its parameter number i (argument position, receiver included); ok is
// false when g is not analysed here or does anything else with the parameter (stores it, hands it on).
func paramCalls(g *ssa.Function, i int, inSet map[*ssa.Function]bool) ([]ssa.Instruction, bool) {
	if g == nil || !inSet[g] || g.Blocks == nil || i >= len(g.Params) {
		return nil, false
	}
	p := g.Params[i]
	var out []ssa.Instruction
	for _, r := range ssau.Referrers(p) {
		switch u := r.(type) {
		case *ssa.DebugRef:
		case ssa.CallInstruction:
			if u.Common().Value != ssa.Value(p) {
				return nil, false
			}
			for _, a := range u.Common().Args {
				if a == ssa.Value(p) {
					return nil, false
				}
			}
			out = append(out, u)
		default:
			return nil, false
		}
	}
	return out, len(out) > 0
}

func calleeOf(c *ssa.CallCommon) *ssa.Function {
	if c.IsInvoke() {
		return nil
	}
	if f := c.StaticCallee(); f != nil {
		return f
	}
	return nil
}

func (a *Analysis) flow(f *ssa.Function) {
	entry := a.Entry[f]
	if entry == nil {
		return
	}
	in := map[*ssa.BasicBlock]Set{}
	out := map[*ssa.BasicBlock]Set{}
	in[f.Blocks[0]] = entry.clone()
	work := []*ssa.BasicBlock{f.Blocks[0]}
	for len(work) > 0 {
		b := work[0]
		work = work[1:]
		cur := in[b].clone()
		for _, ins := range b.Instrs {
			a.before[ins] = cur.clone()
			if ci, ok := ins.(*ssa.Call); ok {
				if id, acq, mode, isLock := LockOp(ci); isLock {
					if acq {
						cur[id] = mode
					} else {
						delete(cur, id)
					}
				}
			}
		}
		if old, ok := out[b]; ok && equal(old, cur) {
			continue
		}
		out[b] = cur
		for _, s := range b.Succs {
			var n Set
			if old, ok := in[s]; ok {
				n = meet(old, cur)
				if equal(n, old) {
					continue
				}
			} else {
				n = cur.clone()
			}
			in[s] = n
			work = append(work, s)
		}
	}
}

// Held returns the locks held just before the instruction.
func (a *Analysis) Held(in ssa.Instruction) Set {
	if s, ok := a.before[in]; ok {
		return s
	}
	return Set{}
}

// Access is a use of a guarded field.
type Access struct {
	Instr ssa.Instruction
	Write bool
	Kind  string
	Fn    *ssa.Function
	Addr  *ssa.FieldAddr
}

// FieldAccesses finds reads and writes of the container stored in owner.field
// (a map or slice field), and stores to the field itself.
func (a *Analysis) FieldAccesses(pkgPath, owner, field string) []Access {
	var out []Access
	for _, f := range a.Fns {
		ssau.Instrs(f, func(in ssa.Instruction) {
			fa, ok := in.(*ssa.FieldAddr)
			if !ok || !ssau.IsField(fa, pkgPath, owner, field) {
				return
			}
			n0 := len(out)
			defer func() {
				for i := n0; i < len(out); i++ {
					out[i].Addr = fa
				}
			}()
			for _, r := range ssau.Referrers(fa) {
				switch u := r.(type) {
				case *ssa.Store:
					if u.Addr == ssa.Value(fa) {
						out = append(out, Access{Instr: u, Write: true, Kind: "assign field", Fn: f})
					}
				case *ssa.UnOp:
					// uses of the loaded container
					for _, r2 := range ssau.Referrers(u) {
						out = append(out, classify(r2, u, f)...)
					}
				case ssa.CallInstruction:
					// address handed to a callee (json.Unmarshal(&ts.Map)): a write
					out = append(out, a.addrPassed(u, fa, f, 0)...)
				case *ssa.MakeInterface:
					for _, r2 := range ssau.Referrers(u) {
						if ci, ok := r2.(ssa.CallInstruction); ok {
							out = append(out, a.addrPassed(ci, u, f, 0)...)
						}
					}
				}
			}
		})
	}
	return out
}

// addrPassed: the address of the field (addr, in function f) is an argument of the call ci.  A callee outside the
// analysed set writes through it.  A static callee that is analysed here is looked into: what it does with the
// parameter that holds the address is what is done to the field, at that place and with the locks held there
// (`recode(x, &ts.Map)` with json.Unmarshal(js, m) inside is judged like json.Unmarshal(js, &ts.Map)).
func (a *Analysis) addrPassed(ci ssa.CallInstruction, addr ssa.Value, f *ssa.Function, depth int) []Access {
	direct := []Access{{Instr: ci, Write: true, Kind: "address passed to " + ssau.CalleeName(ci), Fn: f}}
	h := calleeOf(ci.Common())
	if _, isCall := ci.(*ssa.Call); !isCall || h == nil || !a.inSet[h] || h.Blocks == nil || depth > 3 {
		return direct
	}
	var out []Access
	for i, arg := range ci.Common().Args {
		if arg != addr {
			continue
		}
		if i >= len(h.Params) {
			return direct
		}
		p := h.Params[i]
		for _, r := range ssau.Referrers(p) {
			switch u := r.(type) {
			case *ssa.DebugRef:
			case *ssa.Store:
				if u.Addr != ssa.Value(p) {
					return direct // the address itself is stored: not followed
				}
				out = append(out, Access{Instr: u, Write: true, Kind: "assign field", Fn: h})
			case *ssa.UnOp:
				for _, r2 := range ssau.Referrers(u) {
					out = append(out, classify(r2, u, h)...)
				}
			case ssa.CallInstruction:
				out = append(out, a.addrPassed(u, p, h, depth+1)...)
			case *ssa.MakeInterface:
				for _, r2 := range ssau.Referrers(u) {
					if c2, ok := r2.(ssa.CallInstruction); ok {
						out = append(out, a.addrPassed(c2, u, h, depth+1)...)
					} else {
						return direct
					}
				}
			default:
				return direct
			}
		}
	}
	if len(out) == 0 {
		return direct
	}
	return out
}

func classify(r ssa.Instruction, container ssa.Value, f *ssa.Function) []Access {
	switch u := r.(type) {
	case *ssa.MapUpdate:
		if u.Map == container {
			return []Access{{Instr: u, Write: true, Kind: "map update", Fn: f}}
		}
		return []Access{{Instr: u, Write: false, Kind: "container stored elsewhere (escapes)", Fn: f}}
	case *ssa.Lookup:
		return []Access{{Instr: u, Write: false, Kind: "map lookup", Fn: f}}
	case *ssa.Range:
		return []Access{{Instr: u, Write: false, Kind: "range", Fn: f}}
	case *ssa.IndexAddr:
		return []Access{{Instr: u, Write: false, Kind: "index", Fn: f}}
	case ssa.CallInstruction:
		if b, ok := u.Common().Value.(*ssa.Builtin); ok {
			switch b.Name() {
			case "delete":
				return []Access{{Instr: u, Write: true, Kind: "delete", Fn: f}}
			case "len", "cap":
				return []Access{{Instr: u, Write: false, Kind: b.Name(), Fn: f}}
			case "append":
				return []Access{{Instr: u, Write: false, Kind: "append", Fn: f}}
			}
		}
		return []Access{{Instr: u, Write: false, Kind: "passed to " + ssau.CalleeName(u), Fn: f}}
	case *ssa.Store:
		if u.Val == container {
			return []Access{{Instr: u, Write: false, Kind: "container stored elsewhere (escapes)", Fn: f}}
		}
	case *ssa.MakeInterface:
		var out []Access
		for _, r2 := range ssau.Referrers(u) {
			out = append(out, classify(r2, u, f)...)
		}
		if len(out) == 0 {
			out = append(out, Access{Instr: u, Write: false, Kind: "boxed", Fn: f})
		}
		return out
	case *ssa.ChangeType:
		var out []Access
		for _, r2 := range ssau.Referrers(u) {
			out = append(out, classify(r2, u, f)...)
		}
		return out
	}
	return nil
}

// TypeOf helper for callers.
func NamedString(t types.Type) string {
	if n := ssau.NamedOf(t); n != nil {
		return n.Obj().Name()
	}
	return t.String()
}

// Package ssau holds small helpers for matching SSA constructs by resolved
// types.Object / types.Type (never by source text or position).
package ssau

import (
	"go/constant"
	"go/types"
	"strings"

	"golang.org/x/tools/go/ssa"
)

// Instrs calls f for every instruction of fn.
func Instrs(fn *ssa.Function, f func(in ssa.Instruction)) {
	for _, b := range fn.Blocks {
		for _, in := range b.Instrs {
			f(in)
		}
	}
}

// NamedOf strips pointers and returns the named type, if any.
func NamedOf(t types.Type) *types.Named {
	for {
		switch x := t.(type) {
		case *types.Pointer:
			t = x.Elem()
			continue
		case *types.Named:
			return x
		}
		return nil
	}
}

// TypeIs reports whether t (or *t) is the named type pkgPath.name.
func TypeIs(t types.Type, pkgPath, name string) bool {
	n := NamedOf(t)
	return n != nil && n.Obj().Name() == name && n.Obj().Pkg() != nil && n.Obj().Pkg().Path() == pkgPath
}

// FieldOf describes a FieldAddr/Field: the struct's named type and the field name.
func FieldOf(v ssa.Value) (named *types.Named, field string, base ssa.Value, ok bool) {
	switch x := v.(type) {
	case *ssa.FieldAddr:
		t := x.X.Type().Underlying().(*types.Pointer).Elem()
		st, _ := t.Underlying().(*types.Struct)
		if st == nil {
			return nil, "", nil, false
		}
		return NamedOf(t), st.Field(x.Field).Name(), x.X, true
	case *ssa.Field:
		st, _ := x.X.Type().Underlying().(*types.Struct)
		if st == nil {
			return nil, "", nil, false
		}
		return NamedOf(x.X.Type()), st.Field(x.Field).Name(), x.X, true
	}
	return nil, "", nil, false
}

// IsField reports whether v is &x.field / x.field of the named struct type.
func IsField(v ssa.Value, pkgPath, typ, field string) bool {
	n, f, _, ok := FieldOf(v)
	return ok && n != nil && f == field && n.Obj().Name() == typ && n.Obj().Pkg() != nil && n.Obj().Pkg().Path() == pkgPath
}

// LoadOfField reports whether v is a load *(&x.field) of the given field and returns x.
func LoadOfField(v ssa.Value, pkgPath, typ, field string) (ssa.Value, bool) {
	u, ok := v.(*ssa.UnOp)
	if !ok || u.Op.String() != "*" {
		return nil, false
	}
	if IsField(u.X, pkgPath, typ, field) {
		_, _, base, _ := FieldOf(u.X)
		return base, true
	}
	return nil, false
}

// ConstString returns the string constant held by v (through MakeInterface).
func ConstString(v ssa.Value) (string, bool) {
	if mi, ok := v.(*ssa.MakeInterface); ok {
		v = mi.X
	}
	c, ok := v.(*ssa.Const)
	if !ok || c.Value == nil || c.Value.Kind() != constant.String {
		return "", false
	}
	return constant.StringVal(c.Value), true
}

// ConstInt returns the integer constant held by v.
func ConstInt(v ssa.Value) (int64, bool) {
	c, ok := v.(*ssa.Const)
	if !ok || c.Value == nil || c.Value.Kind() != constant.Int {
		return 0, false
	}
	n, ok := constant.Int64Val(c.Value)
	return n, ok
}

// IsNilConst reports whether v is the nil constant.
func IsNilConst(v ssa.Value) bool {
	c, ok := v.(*ssa.Const)
	return ok && c.Value == nil
}

// CalleeName gives "pkgpath.Func" or "(pkgpath.T).Method" for static callees and
// interface methods; "" for dynamic calls.
func CalleeName(site ssa.CallInstruction) string {
	c := site.Common()
	if c.IsInvoke() {
		return c.Method.FullName()
	}
	if b, ok := c.Value.(*ssa.Builtin); ok {
		return "builtin." + b.Name()
	}
	if f := c.StaticCallee(); f != nil {
		if f.Object() != nil {
			if fo, ok := f.Object().(*types.Func); ok {
				return fo.FullName()
			}
		}
		return f.String()
	}
	return ""
}

// Calls returns the call instructions of fn whose CalleeName satisfies pred.
func Calls(fn *ssa.Function, pred func(name string) bool) []ssa.CallInstruction {
	var out []ssa.CallInstruction
	Instrs(fn, func(in ssa.Instruction) {
		if ci, ok := in.(ssa.CallInstruction); ok {
			if pred(CalleeName(ci)) {
				out = append(out, ci)
			}
		}
	})
	return out
}

// CallsNamed: calls whose callee name equals one of names.
func CallsNamed(fn *ssa.Function, names ...string) []ssa.CallInstruction {
	return Calls(fn, func(n string) bool {
		for _, x := range names {
			if n == x {
				return true
			}
		}
		return false
	})
}

// Strip removes value-preserving wrappers (ChangeType, MakeInterface, Convert
// between reference types, ChangeInterface).
func Strip(v ssa.Value) ssa.Value {
	for {
		switch x := v.(type) {
		case *ssa.ChangeType:
			v = x.X
		case *ssa.MakeInterface:
			v = x.X
		case *ssa.ChangeInterface:
			v = x.X
		default:
			return v
		}
	}
}

// WithAnon returns fn and all anonymous functions nested in it.
func WithAnon(fn *ssa.Function) []*ssa.Function {
	out := []*ssa.Function{fn}
	for _, a := range fn.AnonFuncs {
		out = append(out, WithAnon(a)...)
	}
	return out
}

// HasPrefixAny
func HasPrefixAny(s string, ps ...string) bool {
	for _, p := range ps {
		if strings.HasPrefix(s, p) {
			return true
		}
	}
	return false
}

// Referrers returns the instructions using v (nil-safe).
func Referrers(v ssa.Value) []ssa.Instruction {
	r := v.Referrers()
	if r == nil {
		return nil
	}
	return *r
}

// Package pta is engine E1: an inclusion-based (Andersen), flow- and
// context-insensitive, field-sensitive points-to and write-effect analysis
// over go/ssa, written for this checker because x/tools v0.29.0 ships no
// go/pointer.
//
// Abstract objects: allocation sites, one levelled summary object per
// protected root (parameter/receiver of an entry function), one object per
// package-level variable, one "owned by the callee" object per external or
// callback call site.  Locations are (object, field path) pairs; summary
// objects collapse all paths.
package pta

import (
	"fmt"
	"go/token"
	"go/types"
	"sort"
	"strings"

	"golang.org/x/tools/go/ssa"

	"sheensverif/internal/flow"
	"sheensverif/internal/prog"
)

type ObjKind int

const (
	KAlloc     ObjKind = iota // allocation site inside analysed code
	KRoot                     // protected root, levelled
	KGlobal                   // package-level variable storage
	KGlobalSub                // anything reachable from a global (closed)
	KExternal                 // result owned by an external function / callback (closed)
	KFunc                     // function value
	KClosure                  // closure object
	KSynth                    // storage of a struct-valued SSA register
	KWorld                    // the script world of an external runtime (closed)
)

type Obj struct {
	ID     int
	Kind   ObjKind
	Name   string
	Site   ssa.Value // allocation / call site (may be nil)
	Instr  ssa.Instruction
	Type   types.Type
	Root   string // root name for KRoot
	Level  int    // depth for KRoot
	Closed bool   // all paths collapse; loads yield Next
	Next   *Obj   // for closed objects: what a load yields (self for fully closed)
	Fn     *ssa.Function
	InFunc *ssa.Function
	// Unknown objects (roots, callback/external results) have no known
	// structure: their cells are created on demand, each initially holding a
	// child unknown object, down to MaxDepth where the object is closed.
	Unknown  bool
	Depth    int
	MaxDepth int
}

func (o *Obj) String() string { return o.Name }

type LocID int32
type NodeID int32

type Loc struct {
	Obj  *Obj
	Path string
}

type cellKey struct {
	obj  int
	path string
}

type node struct {
	typ     types.Type // static type filter (nil: none)
	pts     map[LocID]struct{}
	copyTo  map[NodeID]struct{}
	complex []constraint
	desc    string
}

type ckind int

const (
	cLoad ckind = iota
	cStore
	cOffset
	cCallDyn
	cLoadStruct
	cStoreStruct
)

type constraint struct {
	kind   ckind
	suffix string
	other  NodeID // dst for load/offset, src for store
	// struct copies
	leaves []string
	sobj   *Obj // synthetic object for struct load/store
	spre   string
	// dynamic calls
	call ssa.CallInstruction
	done map[LocID]bool
}

// WriteSite is a store-like instruction and the node holding the addresses it may write.
type WriteSite struct {
	Instr  ssa.Instruction
	Ptr    NodeID
	Suffix string
	Kind   string // store, mapupdate, delete, copy, send
	Fn     *ssa.Function
}

// Escape is a value handed to an external sink (e.g. goja Runtime.Set).
type Escape struct {
	Instr ssa.CallInstruction
	Arg   int
	Node  NodeID
	To    string
}

type RootSpec struct {
	Name   string
	Levels int // how many distinct depth levels (>=1); the last one is closed under loads
}

type Config struct {
	Prog       *prog.Program
	EnginePkgs map[string]bool // relative package paths whose function bodies are analysed
	Entries    []*ssa.Function
	// Roots: for entry function i, parameter index -> root spec (receiver is parameter 0 for methods)
	Roots map[*ssa.Function]map[int]RootSpec
	// External: optional model for calls that leave the engine packages.
	External func(a *Analysis, site ssa.CallInstruction, callee *ssa.Function) bool
	// Fresh: engine functions analysed per call site as "returns storage of its own, touches nothing it is
	// given" (copy constructors such as a JSON round trip); the rule that uses this must check the claim.
	Fresh map[*ssa.Function]bool
	// CutCallbacks: dynamic calls through function values loaded from closed
	// objects are treated as callbacks (assumption A2).
	Log func(string)
}

type Analysis struct {
	cfg         Config
	P           *prog.Program
	objs        []*Obj
	locs        []Loc
	locIndex    map[cellKey]LocID
	cellNode    map[LocID]NodeID
	nodes       []*node
	valNode     map[ssa.Value]NodeID
	tupNode     map[tupKey]NodeID
	synth       map[ssa.Value]*Obj
	tupSynth    map[tupKey]*Obj
	funcObj     map[*ssa.Function]*Obj
	globalObj   map[*ssa.Global]*Obj
	retNode     map[retKey]NodeID
	retSynth    map[retKey]*Obj
	work        []NodeID
	inWork      map[NodeID]bool
	Reached     map[*ssa.Function]bool
	queue       []*ssa.Function
	Writes      []WriteSite
	Escapes     []Escape
	Callbacks   []ssa.CallInstruction // dynamic calls treated as callbacks (A2)
	Externals   map[string]int        // external callee name -> call count
	CallEdges   map[ssa.CallInstruction][]*ssa.Function
	Callers     map[*ssa.Function][]ssa.CallInstruction
	rootObjs    map[string][]*Obj
	World       *Obj
	extObjs     map[ssa.Instruction]*Obj
	worlds      map[string]*Obj
	worldCalled map[*Obj]bool
	cbSite      map[ssa.CallInstruction]bool // call sites treated as callbacks (A2)
	// WorldCalled: engine functions that escaped to an external world and are
	// therefore analysed as called from it.
	WorldCalled []*ssa.Function
	phiNodes    map[phiKey]NodeID
	phiPruned   map[phiKey]bool
	// PrunedPhis counts phi uses refined by guarded-phi pruning.
	PrunedPhis int
}

type tupKey struct {
	v ssa.Value
	i int
}
type retKey struct {
	fn *ssa.Function
	i  int
}

// PointerLike reports whether values of type t carry a reference.
func PointerLike(t types.Type) bool {
	switch u := t.Underlying().(type) {
	case *types.Pointer, *types.Map, *types.Slice, *types.Chan, *types.Signature, *types.Interface:
		return true
	case *types.Basic:
		return u.Kind() == types.UnsafePointer
	}
	return false
}

// leaves lists the paths of pointer-like leaves inside a value of type t
// (structs and arrays are flattened; pointers are not followed).
func leaves(t types.Type) []string {
	var out []string
	var rec func(t types.Type, pre string, depth int)
	rec = func(t types.Type, pre string, depth int) {
		if depth > 6 {
			return
		}
		switch u := t.Underlying().(type) {
		case *types.Struct:
			for i := 0; i < u.NumFields(); i++ {
				rec(u.Field(i).Type(), pre+"."+u.Field(i).Name(), depth+1)
			}
		case *types.Array:
			rec(u.Elem(), pre+"[]", depth+1)
		default:
			if PointerLike(t) {
				out = append(out, pre)
			}
		}
	}
	rec(t, "", 0)
	return out
}

func isAggregate(t types.Type) bool {
	switch t.Underlying().(type) {
	case *types.Struct, *types.Array:
		return true
	}
	return false
}

func New(cfg Config) *Analysis {
	a := &Analysis{cfg: cfg, P: cfg.Prog,
		locIndex: map[cellKey]LocID{}, cellNode: map[LocID]NodeID{}, valNode: map[ssa.Value]NodeID{}, tupNode: map[tupKey]NodeID{},
		synth: map[ssa.Value]*Obj{}, tupSynth: map[tupKey]*Obj{}, funcObj: map[*ssa.Function]*Obj{}, globalObj: map[*ssa.Global]*Obj{},
		retNode: map[retKey]NodeID{}, retSynth: map[retKey]*Obj{}, inWork: map[NodeID]bool{}, Reached: map[*ssa.Function]bool{},
		Externals: map[string]int{}, CallEdges: map[ssa.CallInstruction][]*ssa.Function{}, Callers: map[*ssa.Function][]ssa.CallInstruction{},
		rootObjs: map[string][]*Obj{}, extObjs: map[ssa.Instruction]*Obj{}}
	a.World = a.newObj(KWorld, "external-runtime-world", nil)
	a.World.Closed = true
	a.World.Next = a.World
	return a
}

func (a *Analysis) newObj(k ObjKind, name string, t types.Type) *Obj {
	o := &Obj{ID: len(a.objs), Kind: k, Name: name, Type: t}
	a.objs = append(a.objs, o)
	return o
}

func (a *Analysis) newNode(desc string) NodeID {
	a.nodes = append(a.nodes, &node{pts: map[LocID]struct{}{}, copyTo: map[NodeID]struct{}{}, desc: desc})
	return NodeID(len(a.nodes) - 1)
}

func (a *Analysis) loc(o *Obj, path string) LocID {
	if o.Closed {
		path = ""
	}
	k := cellKey{o.ID, path}
	if id, ok := a.locIndex[k]; ok {
		return id
	}
	id := LocID(len(a.locs))
	a.locs = append(a.locs, Loc{o, path})
	a.locIndex[k] = id
	return id
}

// cell returns the node holding the contents of a location.
func (a *Analysis) cell(l LocID) NodeID {
	if n, ok := a.cellNode[l]; ok {
		return n
	}
	L := a.locs[l]
	n := a.newNode("cell " + L.Obj.Name + L.Path)
	a.cellNode[l] = n
	if L.Obj.Closed && L.Obj.Next != nil {
		a.addLoc(n, a.loc(L.Obj.Next, ""))
	} else if L.Obj.Unknown {
		a.addLoc(n, a.loc(a.childOf(L.Obj, L.Path), ""))
	}
	return n
}

// childOf creates the unknown object initially held by cell (o,path).
func (a *Analysis) childOf(o *Obj, path string) *Obj {
	c := a.newObj(o.Kind, o.Name+path, nil)
	c.Root, c.Unknown, c.Depth, c.MaxDepth = o.Root, true, o.Depth+1, o.MaxDepth
	c.Instr, c.InFunc, c.Level = o.Instr, o.InFunc, o.Depth+1
	if c.Depth >= c.MaxDepth {
		c.Closed, c.Next = true, c
	}
	return c
}

func (a *Analysis) addLoc(n NodeID, l LocID) {
	nd := a.nodes[n]
	if _, ok := nd.pts[l]; ok {
		return
	}
	if nd.typ != nil && !a.compatible(nd.typ, a.locs[l]) {
		return
	}
	nd.pts[l] = struct{}{}
	if !a.inWork[n] {
		a.inWork[n] = true
		a.work = append(a.work, n)
	}
}

func (a *Analysis) addCopy(src, dst NodeID) {
	if src == dst {
		return
	}
	s := a.nodes[src]
	if _, ok := s.copyTo[dst]; ok {
		return
	}
	s.copyTo[dst] = struct{}{}
	for l := range s.pts {
		a.addLoc(dst, l)
	}
}

func (a *Analysis) addComplex(n NodeID, c constraint) {
	c.done = map[LocID]bool{}
	a.nodes[n].complex = append(a.nodes[n].complex, c)
	if len(a.nodes[n].pts) > 0 && !a.inWork[n] {
		a.inWork[n] = true
		a.work = append(a.work, n)
	}
}

// typeAt resolves the type of the variable at (t, path); nil if unknown.
func typeAt(t types.Type, path string) types.Type {
	for path != "" && t != nil {
		switch {
		case strings.HasPrefix(path, "[]"):
			switch u := t.Underlying().(type) {
			case *types.Slice:
				t = u.Elem()
			case *types.Array:
				t = u.Elem()
			case *types.Map:
				t = u.Elem()
			case *types.Chan:
				t = u.Elem()
			default:
				return nil
			}
			path = path[2:]
		case strings.HasPrefix(path, "[k]"):
			u, ok := t.Underlying().(*types.Map)
			if !ok {
				return nil
			}
			t = u.Key()
			path = path[3:]
		case path[0] == '.':
			end := 1
			for end < len(path) && path[end] != '.' && path[end] != '[' {
				end++
			}
			name := path[1:end]
			st, ok := t.Underlying().(*types.Struct)
			if !ok {
				return nil
			}
			var ft types.Type
			for i := 0; i < st.NumFields(); i++ {
				if st.Field(i).Name() == name {
					ft = st.Field(i).Type()
				}
			}
			if ft == nil {
				return nil
			}
			t = ft
			path = path[end:]
		default:
			return nil
		}
	}
	return t
}

// compatible is a conservative static-type filter: a value of static type t
// cannot hold a location whose known type is of a clearly different shape.
func (a *Analysis) compatible(t types.Type, L Loc) bool {
	o := L.Obj
	if o.Type == nil || o.Closed || o.Unknown {
		return true
	}
	lt := typeAt(o.Type, L.Path)
	if lt == nil {
		return true
	}
	switch u := t.Underlying().(type) {
	case *types.Pointer:
		switch o.Kind {
		case KFunc, KClosure:
			return false
		}
		if _, isIface := u.Elem().Underlying().(*types.Interface); isIface {
			_, ok := lt.Underlying().(*types.Interface)
			return ok
		}
		return types.Identical(u.Elem(), lt) || types.Identical(u.Elem().Underlying(), lt.Underlying())
	case *types.Map:
		m, ok := lt.Underlying().(*types.Map)
		return ok && types.Identical(m.Key(), u.Key()) && types.Identical(m.Elem(), u.Elem())
	case *types.Slice:
		switch l := lt.Underlying().(type) {
		case *types.Slice:
			return types.Identical(l.Elem(), u.Elem())
		case *types.Array:
			return types.Identical(l.Elem(), u.Elem())
		}
		return false
	case *types.Chan:
		_, ok := lt.Underlying().(*types.Chan)
		return ok
	case *types.Signature:
		_, ok := lt.Underlying().(*types.Signature)
		return ok
	}
	return true
}

// ---- roots ----------------------------------------------------------------

func (a *Analysis) makeRoot(spec RootSpec) *Obj {
	if os, ok := a.rootObjs[spec.Name]; ok {
		return os[0]
	}
	n := spec.Levels
	if n < 1 {
		n = 1
	}
	o := a.newObj(KRoot, "root:"+spec.Name, nil)
	o.Root, o.Unknown, o.Depth, o.MaxDepth = spec.Name, true, 0, n-1
	if o.MaxDepth <= 0 {
		o.Closed, o.Next = true, o
	}
	a.rootObjs[spec.Name] = []*Obj{o}
	return o
}

// RootObj returns the object named root:<name><path>, e.g. RootObj("state", ".Bs").
func (a *Analysis) RootObj(name, path string) *Obj {
	want := "root:" + name + path
	for _, o := range a.objs {
		if o.Kind == KRoot && o.Name == want {
			return o
		}
	}
	return nil
}

// ---- value representation ---------------------------------------------------

func (a *Analysis) nodeOf(v ssa.Value) NodeID {
	if n, ok := a.valNode[v]; ok {
		return n
	}
	n := a.newNode(v.Name())
	a.nodes[n].typ = v.Type()
	a.valNode[v] = n
	switch x := v.(type) {
	case *ssa.Global:
		a.addLoc(n, a.loc(a.globalOf(x), ""))
	case *ssa.Function:
		a.addLoc(n, a.loc(a.funcObjOf(x), ""))
	case *ssa.Const:
		// nil / scalars: nothing
	}
	return n
}

type phiKey struct {
	phi *ssa.Phi
	blk *ssa.BasicBlock
}

// nodeAt is nodeOf refined for a use inside block `user`: incoming edges of a
// phi that contradict the branch conditions guarding the use (same stable SSA
// condition, opposite polarity) cannot deliver their value there and are
// dropped (guarded-phi pruning; the only path-sensitivity of this engine).
func (a *Analysis) nodeAt(v ssa.Value, user *ssa.BasicBlock) NodeID {
	if _, ok := v.(*ssa.Phi); !ok || user == nil || !PointerLike(v.Type()) {
		return a.nodeOf(v)
	}
	uf := flow.FactsAt(user)
	if len(uf) == 0 {
		return a.nodeOf(v)
	}
	n, _ := a.refinePhi(v, user, uf, map[*ssa.Phi]bool{})
	return n
}

// refinePhi returns a node for v as seen from block user, and whether any
// (nested) phi edge was pruned.
func (a *Analysis) refinePhi(v ssa.Value, user *ssa.BasicBlock, uf []flow.Fact, onPath map[*ssa.Phi]bool) (NodeID, bool) {
	phi, ok := v.(*ssa.Phi)
	if !ok || onPath[phi] {
		return a.nodeOf(v), false
	}
	if a.phiNodes == nil {
		a.phiNodes = map[phiKey]NodeID{}
		a.phiPruned = map[phiKey]bool{}
	}
	k := phiKey{phi, user}
	if n, ok := a.phiNodes[k]; ok {
		return n, a.phiPruned[k]
	}
	onPath[phi] = true
	defer delete(onPath, phi)
	pruned := false
	var keep []NodeID
	for i, e := range phi.Edges {
		pred := phi.Block().Preds[i]
		if flow.ContradictFacts(flow.EdgeFacts(pred, phi.Block()), uf) {
			pruned = true
			continue
		}
		n, p := a.refinePhi(e, user, uf, onPath)
		if p {
			pruned = true
		}
		keep = append(keep, n)
	}
	if !pruned {
		n := a.nodeOf(v)
		a.phiNodes[k], a.phiPruned[k] = n, false
		return n, false
	}
	n := a.newNode(v.Name() + "@" + user.String())
	a.nodes[n].typ = v.Type()
	a.phiNodes[k], a.phiPruned[k] = n, true
	a.PrunedPhis++
	for _, kn := range keep {
		a.addCopy(kn, n)
	}
	return n, true
}

func (a *Analysis) globalOf(g *ssa.Global) *Obj {
	if o, ok := a.globalObj[g]; ok {
		return o
	}
	name := g.Name()
	if g.Pkg != nil {
		name = prog.Rel(g.Pkg.Pkg.Path()) + "." + name
	}
	o := a.newObj(KGlobal, "global:"+name, g.Type())
	sub := a.newObj(KGlobalSub, "global:"+name+"/*", nil)
	sub.Closed, sub.Next = true, sub
	sub.Root = name
	o.Closed, o.Next = true, sub
	o.Root = name
	a.globalObj[g] = o
	return o
}

func (a *Analysis) funcObjOf(f *ssa.Function) *Obj {
	if o, ok := a.funcObj[f]; ok {
		return o
	}
	o := a.newObj(KFunc, "func:"+prog.FuncName(f), f.Type())
	o.Fn = f
	a.funcObj[f] = o
	return o
}

func (a *Analysis) synthOf(v ssa.Value) *Obj {
	if o, ok := a.synth[v]; ok {
		return o
	}
	fn := ""
	if in, ok := v.(ssa.Instruction); ok && in.Parent() != nil {
		fn = prog.FuncName(in.Parent())
	} else if p, ok := v.(*ssa.Parameter); ok {
		fn = prog.FuncName(p.Parent())
	}
	o := a.newObj(KSynth, "val:"+fn+":"+v.Name(), v.Type())
	a.synth[v] = o
	return o
}

func (a *Analysis) tupNodeOf(v ssa.Value, i int) NodeID {
	k := tupKey{v, i}
	if n, ok := a.tupNode[k]; ok {
		return n
	}
	n := a.newNode(fmt.Sprintf("%s#%d", v.Name(), i))
	if tt, ok := v.Type().(*types.Tuple); ok && i < tt.Len() {
		a.nodes[n].typ = tt.At(i).Type()
	}
	a.tupNode[k] = n
	return n
}
func (a *Analysis) tupSynthOf(v ssa.Value, i int) *Obj {
	k := tupKey{v, i}
	if o, ok := a.tupSynth[k]; ok {
		return o
	}
	o := a.newObj(KSynth, fmt.Sprintf("val:%s#%d", v.Name(), i), nil)
	a.tupSynth[k] = o
	return o
}

// copyVal: dst ⊇ src for a value of type t (pointer-like or aggregate).
func (a *Analysis) copyVal(src, dst ssa.Value, t types.Type) {
	if PointerLike(t) {
		a.addCopy(a.nodeOf(src), a.nodeOf(dst))
	} else if isAggregate(t) {
		so, do := a.synthOf(src), a.synthOf(dst)
		for _, lf := range leaves(t) {
			a.addCopy(a.cell(a.loc(so, lf)), a.cell(a.loc(do, lf)))
		}
	}
}

// into abstracts "a place a value of type t can be copied into / out of".
type place struct {
	node NodeID // for pointer-like
	obj  *Obj   // for aggregates
	pre  string
}

func nodePlace(n NodeID) place          { return place{node: n} }
func objPlace(o *Obj, pre string) place { return place{node: -1, obj: o, pre: pre} }

func (a *Analysis) placeOfValue(v ssa.Value) place {
	if PointerLike(v.Type()) {
		return nodePlace(a.nodeOf(v))
	}
	if isAggregate(v.Type()) {
		return objPlace(a.synthOf(v), "")
	}
	return place{node: -1}
}

// placeAt is placeOfValue with guarded-phi pruning for a use in block user.
func (a *Analysis) placeAt(v ssa.Value, user *ssa.BasicBlock) place {
	if PointerLike(v.Type()) {
		return nodePlace(a.nodeAt(v, user))
	}
	return a.placeOfValue(v)
}

func (a *Analysis) placeOfTuple(v ssa.Value, i int, t types.Type) place {
	if PointerLike(t) {
		return nodePlace(a.tupNodeOf(v, i))
	}
	if isAggregate(t) {
		return objPlace(a.tupSynthOf(v, i), "")
	}
	return place{node: -1}
}
func (a *Analysis) placeOfRet(fn *ssa.Function, i int, t types.Type) place {
	k := retKey{fn, i}
	if PointerLike(t) {
		n, ok := a.retNode[k]
		if !ok {
			n = a.newNode(fmt.Sprintf("ret %s#%d", prog.FuncName(fn), i))
			a.nodes[n].typ = t
			a.retNode[k] = n
		}
		return nodePlace(n)
	}
	if isAggregate(t) {
		o, ok := a.retSynth[k]
		if !ok {
			o = a.newObj(KSynth, fmt.Sprintf("ret:%s#%d", prog.FuncName(fn), i), t)
			a.retSynth[k] = o
		}
		return objPlace(o, "")
	}
	return place{node: -1}
}

func (a *Analysis) copyPlace(src, dst place, t types.Type) {
	if PointerLike(t) {
		if src.node >= 0 && dst.node >= 0 {
			a.addCopy(src.node, dst.node)
		}
	} else if isAggregate(t) && src.obj != nil && dst.obj != nil {
		for _, lf := range leaves(t) {
			a.addCopy(a.cell(a.loc(src.obj, src.pre+lf)), a.cell(a.loc(dst.obj, dst.pre+lf)))
		}
	}
}

// load: dst ⊇ *(ptr+suffix) for a value of type t.
func (a *Analysis) load(ptr NodeID, suffix string, dst place, t types.Type) {
	if PointerLike(t) {
		if dst.node >= 0 {
			a.addComplex(ptr, constraint{kind: cLoad, suffix: suffix, other: dst.node})
		}
	} else if isAggregate(t) && dst.obj != nil {
		lv := leaves(t)
		if len(lv) > 0 {
			a.addComplex(ptr, constraint{kind: cLoadStruct, suffix: suffix, leaves: lv, sobj: dst.obj, spre: dst.pre})
		}
	}
}

// store: *(ptr+suffix) ⊇ src.
func (a *Analysis) store(ptr NodeID, suffix string, src place, t types.Type) {
	if PointerLike(t) {
		if src.node >= 0 {
			a.addComplex(ptr, constraint{kind: cStore, suffix: suffix, other: src.node})
		}
	} else if isAggregate(t) && src.obj != nil {
		lv := leaves(t)
		if len(lv) > 0 {
			a.addComplex(ptr, constraint{kind: cStoreStruct, suffix: suffix, leaves: lv, sobj: src.obj, spre: src.pre})
		}
	}
}

// ---- driver ---------------------------------------------------------------

func (a *Analysis) Run() {
	for _, e := range a.cfg.Entries {
		a.reach(e)
		if rs, ok := a.cfg.Roots[e]; ok {
			for idx, spec := range rs {
				if idx >= len(e.Params) {
					continue
				}
				p := e.Params[idx]
				ro := a.makeRoot(spec)
				if PointerLike(p.Type()) {
					a.addLoc(a.nodeOf(p), a.loc(ro, ""))
				} else if isAggregate(p.Type()) {
					so := a.synthOf(p)
					for _, lf := range leaves(p.Type()) {
						a.addLoc(a.cell(a.loc(so, lf)), a.loc(ro, ""))
					}
				}
			}
		}
	}
	for len(a.queue) > 0 || len(a.work) > 0 || a.worldCalls() {
		for len(a.queue) > 0 {
			f := a.queue[0]
			a.queue = a.queue[1:]
			a.genFunc(f)
		}
		for len(a.work) > 0 {
			n := a.work[len(a.work)-1]
			a.work = a.work[:len(a.work)-1]
			a.inWork[n] = false
			a.process(n)
			if len(a.queue) > 0 {
				break
			}
		}
	}
}

// worldCalls: functions and closures that escaped to an external world (the
// script runtime, a pool) may be called from there with arguments from that
// world.  Returns true if new work was created.
func (a *Analysis) worldCalls() bool {
	if a.worldCalled == nil {
		a.worldCalled = map[*Obj]bool{}
	}
	worlds := []*Obj{a.World}
	for _, w := range a.worlds {
		worlds = append(worlds, w)
	}
	added := false
	for _, w := range worlds {
		l, ok := a.locIndex[cellKey{w.ID, ""}]
		if !ok {
			continue
		}
		cn, ok := a.cellNode[l]
		if !ok {
			continue
		}
		for o := range a.Reach(a.locsOf(cn)) {
			if (o.Kind != KClosure && o.Kind != KFunc) || o.Fn == nil || a.worldCalled[o] || !a.inEngine(o.Fn) {
				continue
			}
			a.worldCalled[o] = true
			a.WorldCalled = append(a.WorldCalled, o.Fn)
			added = true
			a.reach(o.Fn)
			for _, p := range o.Fn.Params {
				if PointerLike(p.Type()) {
					a.addLoc(a.nodeOf(p), a.loc(w, ""))
				}
			}
			// results flow back into the world
			sig := o.Fn.Signature
			for i := 0; i < sig.Results().Len(); i++ {
				t := sig.Results().At(i).Type()
				if PointerLike(t) {
					a.addCopy(a.placeOfRet(o.Fn, i, t).node, a.cell(a.loc(w, "")))
				}
			}
		}
	}
	return added
}

func (a *Analysis) reach(f *ssa.Function) {
	if f == nil || a.Reached[f] {
		return
	}
	a.Reached[f] = true
	a.queue = append(a.queue, f)
}

func (a *Analysis) inEngine(f *ssa.Function) bool {
	if f == nil || f.Blocks == nil {
		return false
	}
	return a.cfg.EnginePkgs[prog.PkgOf(f)]
}

func (a *Analysis) process(n NodeID) {
	nd := a.nodes[n]
	// snapshot pts
	locs := make([]LocID, 0, len(nd.pts))
	for l := range nd.pts {
		locs = append(locs, l)
	}
	for ci := 0; ci < len(nd.complex); ci++ {
		c := &nd.complex[ci]
		for _, l := range locs {
			if c.done[l] {
				continue
			}
			c.done[l] = true
			L := a.locs[l]
			switch c.kind {
			case cLoad:
				a.addCopy(a.cell(a.loc(L.Obj, L.Path+c.suffix)), c.other)
				// A2 (weakened): what a callback returns is its own, except that it may hand back — at any
				// depth — a value it was given (an action that returns the bindings it received; the
				// in-repository noop interpreter does).  A load from a callback's result of static type T
				// can therefore also yield any argument of that call whose static type is T.
				if L.Obj.Kind == KExternal && L.Obj.Instr != nil {
					if site, ok := L.Obj.Instr.(ssa.CallInstruction); ok && a.cbSite[site] {
						if dt := a.nodes[c.other].typ; dt != nil {
							for _, arg := range site.Common().Args {
								if PointerLike(arg.Type()) && types.Identical(arg.Type(), dt) {
									a.addCopy(a.nodeOf(arg), c.other)
								}
							}
						}
					}
				}
			case cStore:
				a.addCopy(c.other, a.cell(a.loc(L.Obj, L.Path+c.suffix)))
			case cOffset:
				a.addLoc(c.other, a.loc(L.Obj, L.Path+c.suffix))
			case cLoadStruct:
				for _, lf := range c.leaves {
					a.addCopy(a.cell(a.loc(L.Obj, L.Path+c.suffix+lf)), a.cell(a.loc(c.sobj, c.spre+lf)))
				}
			case cStoreStruct:
				for _, lf := range c.leaves {
					a.addCopy(a.cell(a.loc(c.sobj, c.spre+lf)), a.cell(a.loc(L.Obj, L.Path+c.suffix+lf)))
				}
			case cCallDyn:
				a.dynCall(c.call, L.Obj)
			}
		}
	}
	for d := range nd.copyTo {
		for _, l := range locs {
			a.addLoc(d, l)
		}
	}
}

// ---- constraint generation ---------------------------------------------------

func (a *Analysis) genFunc(f *ssa.Function) {
	if f.Blocks == nil {
		return
	}
	for _, b := range f.Blocks {
		for _, in := range b.Instrs {
			a.genInstr(f, in)
		}
	}
}

// FieldName renders the i-th field of a (pointer to) struct type as ".Name".
func FieldName(t types.Type, i int) string { return fieldName(t, i) }

func fieldName(t types.Type, i int) string {
	if p, ok := t.Underlying().(*types.Pointer); ok {
		t = p.Elem()
	}
	st, ok := t.Underlying().(*types.Struct)
	if !ok || i >= st.NumFields() {
		return fmt.Sprintf(".f%d", i)
	}
	return "." + st.Field(i).Name()
}

func (a *Analysis) allocObj(v ssa.Value, in ssa.Instruction, what string, t types.Type) *Obj {
	fn := in.Parent()
	o := a.newObj(KAlloc, fmt.Sprintf("%s@%s:%s", what, prog.FuncName(fn), v.Name()), t)
	o.Site, o.Instr, o.InFunc = v, in, fn
	return o
}

func (a *Analysis) genInstr(f *ssa.Function, in ssa.Instruction) {
	switch x := in.(type) {
	case *ssa.Alloc:
		o := a.allocObj(x, x, "alloc", x.Type().Underlying().(*types.Pointer).Elem())
		a.addLoc(a.nodeOf(x), a.loc(o, ""))
	case *ssa.MakeMap:
		a.addLoc(a.nodeOf(x), a.loc(a.allocObj(x, x, "makemap", x.Type()), ""))
	case *ssa.MakeSlice:
		a.addLoc(a.nodeOf(x), a.loc(a.allocObj(x, x, "makeslice", x.Type()), ""))
	case *ssa.MakeChan:
		a.addLoc(a.nodeOf(x), a.loc(a.allocObj(x, x, "makechan", x.Type()), ""))
	case *ssa.MakeClosure:
		fn := x.Fn.(*ssa.Function)
		o := a.allocObj(x, x, "closure", x.Type())
		o.Kind, o.Fn = KClosure, fn
		a.addLoc(a.nodeOf(x), a.loc(o, ""))
		for i, b := range x.Bindings {
			if i < len(fn.FreeVars) {
				a.copyVal(b, fn.FreeVars[i], b.Type())
			}
		}
	case *ssa.MakeInterface:
		t := x.X.Type()
		if PointerLike(t) {
			a.addCopy(a.nodeOf(x.X), a.nodeOf(x))
		} else if isAggregate(t) {
			o := a.allocObj(x, x, "box", t)
			a.copyPlace(objPlace(a.synthOf(x.X), ""), objPlace(o, ""), t)
			a.addLoc(a.nodeOf(x), a.loc(o, ""))
		}
	case *ssa.FieldAddr:
		a.addComplex(a.nodeOf(x.X), constraint{kind: cOffset, suffix: fieldName(x.X.Type(), x.Field), other: a.nodeOf(x)})
	case *ssa.Field:
		fn := fieldName(x.X.Type(), x.Field)
		so := a.synthOf(x.X)
		if PointerLike(x.Type()) {
			a.addCopy(a.cell(a.loc(so, fn)), a.nodeOf(x))
		} else {
			a.copyPlace(objPlace(so, fn), a.placeOfValue(x), x.Type())
		}
	case *ssa.IndexAddr:
		a.addComplex(a.nodeOf(x.X), constraint{kind: cOffset, suffix: "[]", other: a.nodeOf(x)})
	case *ssa.Index:
		if isAggregate(x.X.Type()) {
			so := a.synthOf(x.X)
			if PointerLike(x.Type()) {
				a.addCopy(a.cell(a.loc(so, "[]")), a.nodeOf(x))
			} else {
				a.copyPlace(objPlace(so, "[]"), a.placeOfValue(x), x.Type())
			}
		}
	case *ssa.Lookup:
		if _, ok := x.X.Type().Underlying().(*types.Map); ok {
			et := x.X.Type().Underlying().(*types.Map).Elem()
			if x.CommaOk {
				a.load(a.nodeOf(x.X), "[]", a.placeOfTuple(x, 0, et), et)
			} else {
				a.load(a.nodeOf(x.X), "[]", a.placeOfValue(x), et)
			}
		}
	case *ssa.MapUpdate:
		mt := x.Map.Type().Underlying().(*types.Map)
		mn := a.nodeAt(x.Map, x.Block())
		a.store(mn, "[k]", a.placeAt(x.Key, x.Block()), mt.Key())
		a.store(mn, "[]", a.placeAt(x.Value, x.Block()), mt.Elem())
		a.Writes = append(a.Writes, WriteSite{Instr: x, Ptr: mn, Kind: "mapupdate", Fn: f})
	case *ssa.Store:
		an := a.nodeAt(x.Addr, x.Block())
		a.store(an, "", a.placeAt(x.Val, x.Block()), x.Val.Type())
		a.Writes = append(a.Writes, WriteSite{Instr: x, Ptr: an, Kind: "store", Fn: f})
	case *ssa.UnOp:
		switch x.Op {
		case token.MUL:
			a.load(a.nodeOf(x.X), "", a.placeOfValue(x), x.Type())
		case token.ARROW:
			ct := x.X.Type().Underlying().(*types.Chan)
			if x.CommaOk {
				a.load(a.nodeOf(x.X), "[]", a.placeOfTuple(x, 0, ct.Elem()), ct.Elem())
			} else {
				a.load(a.nodeOf(x.X), "[]", a.placeOfValue(x), ct.Elem())
			}
		}
	case *ssa.Send:
		ct := x.Chan.Type().Underlying().(*types.Chan)
		a.store(a.nodeOf(x.Chan), "[]", a.placeOfValue(x.X), ct.Elem())
		a.Writes = append(a.Writes, WriteSite{Instr: x, Ptr: a.nodeOf(x.Chan), Kind: "send", Fn: f})
	case *ssa.Phi:
		for _, e := range x.Edges {
			a.copyVal(e, x, x.Type())
		}
	case *ssa.ChangeType:
		a.copyVal(x.X, x, x.Type())
	case *ssa.ChangeInterface:
		a.copyVal(x.X, x, x.Type())
	case *ssa.Convert:
		if PointerLike(x.Type()) && PointerLike(x.X.Type()) {
			a.addCopy(a.nodeOf(x.X), a.nodeOf(x))
		} else if PointerLike(x.Type()) {
			// e.g. string -> []byte: fresh storage
			a.addLoc(a.nodeOf(x), a.loc(a.allocObj(x, x, "convert", x.Type()), ""))
		}
	case *ssa.SliceToArrayPointer:
		a.addCopy(a.nodeOf(x.X), a.nodeOf(x))
	case *ssa.Slice:
		if PointerLike(x.X.Type()) && PointerLike(x.Type()) {
			a.addCopy(a.nodeOf(x.X), a.nodeOf(x))
		}
	case *ssa.TypeAssert:
		t := x.AssertedType
		var dst place
		if x.CommaOk {
			dst = a.placeOfTuple(x, 0, t)
		} else {
			dst = a.placeOfValue(x)
		}
		if PointerLike(t) {
			if dst.node >= 0 {
				a.addCopy(a.nodeOf(x.X), dst.node)
			}
		} else if isAggregate(t) {
			a.load(a.nodeOf(x.X), "", dst, t)
		}
	case *ssa.Extract:
		tt := x.Tuple.Type().(*types.Tuple)
		et := tt.At(x.Index).Type()
		a.copyPlace(a.placeOfTuple(x.Tuple, x.Index, et), a.placeOfValue(x), et)
	case *ssa.Range:
		// iterator over map/string: keep a reference to the map
		if PointerLike(x.X.Type()) {
			a.addCopy(a.nodeOf(x.X), a.nodeOf(x))
		}
	case *ssa.Next:
		if x.IsString {
			return
		}
		rng, ok := x.Iter.(*ssa.Range)
		if !ok {
			return
		}
		mt, ok := rng.X.Type().Underlying().(*types.Map)
		if !ok {
			return
		}
		a.load(a.nodeOf(rng.X), "[k]", a.placeOfTuple(x, 1, mt.Key()), mt.Key())
		a.load(a.nodeOf(rng.X), "[]", a.placeOfTuple(x, 2, mt.Elem()), mt.Elem())
	case *ssa.Select:
		for i, st := range x.States {
			ct := st.Chan.Type().Underlying().(*types.Chan)
			if st.Dir == types.SendOnly {
				a.store(a.nodeOf(st.Chan), "[]", a.placeOfValue(st.Send), ct.Elem())
			} else {
				// received values are tuple components 2..; count recv states
				ri := 2
				for j := 0; j < i; j++ {
					if x.States[j].Dir == types.RecvOnly {
						ri++
					}
				}
				a.load(a.nodeOf(st.Chan), "[]", a.placeOfTuple(x, ri, ct.Elem()), ct.Elem())
			}
		}
	case *ssa.Return:
		for i, r := range x.Results {
			a.copyPlace(a.placeAt(r, x.Block()), a.placeOfRet(f, i, r.Type()), r.Type())
		}
	case *ssa.Call:
		a.genCall(f, x)
	case *ssa.Go:
		a.genCall(f, x)
	case *ssa.Defer:
		a.genCall(f, x)
	case *ssa.BinOp, *ssa.If, *ssa.Jump, *ssa.Panic, *ssa.RunDefers, *ssa.DebugRef:
	}
}

// callResultPlace: where the i-th result of a call instruction lands.
func (a *Analysis) callResultPlace(site ssa.CallInstruction, i int, t types.Type, n int) place {
	v := site.Value()
	if v == nil {
		return place{node: -1}
	}
	if n == 1 {
		return a.placeOfValue(v)
	}
	return a.placeOfTuple(v, i, t)
}

func (a *Analysis) genCall(f *ssa.Function, site ssa.CallInstruction) {
	c := site.Common()
	if c.IsInvoke() {
		callees := a.P.Callees(site)
		any := false
		for _, callee := range callees {
			if a.inEngine(callee) {
				a.bindCall(site, callee, true)
				any = true
			} else if callee != nil {
				a.external(site, callee)
				any = true
			}
		}
		if !any {
			a.external(site, nil)
		}
		// receivers that are closed (root / external) objects may carry
		// implementations the call graph cannot see: callback result.
		a.addComplex(a.nodeOf(c.Value), constraint{kind: cCallDyn, call: site})
		return
	}
	if b, ok := c.Value.(*ssa.Builtin); ok {
		a.builtin(f, site, b)
		return
	}
	if callee := c.StaticCallee(); callee != nil {
		if a.cfg.Fresh[callee] {
			a.freshResult(site, "fresh")
			return
		}
		if a.inEngine(callee) {
			a.bindCall(site, callee, false)
		} else {
			a.external(site, callee)
		}
		return
	}
	// dynamic call through a function value
	a.addComplex(a.nodeOf(c.Value), constraint{kind: cCallDyn, call: site})
}

func (a *Analysis) dynCall(site ssa.CallInstruction, o *Obj) {
	c := site.Common()
	if c.IsInvoke() {
		if o.Closed || o.Unknown {
			a.callback(site)
		}
		return
	}
	switch o.Kind {
	case KFunc, KClosure:
		if a.inEngine(o.Fn) {
			a.bindCall(site, o.Fn, false)
		} else {
			a.external(site, o.Fn)
		}
	default:
		if o.Closed || o.Unknown {
			a.callback(site)
		}
	}
}

// callback: assumption A2 — result owned by the callback, arguments not written.
func (a *Analysis) callback(site ssa.CallInstruction) {
	if _, ok := a.extObjs[site]; ok {
		return
	}
	a.Callbacks = append(a.Callbacks, site)
	if a.cbSite == nil {
		a.cbSite = map[ssa.CallInstruction]bool{}
	}
	a.cbSite[site] = true
	a.freshResult(site, "callback")
}

func (a *Analysis) freshResult(site ssa.CallInstruction, what string) *Obj {
	if o, ok := a.extObjs[site]; ok {
		return o
	}
	name := what
	if sc := site.Common().StaticCallee(); sc != nil {
		name = what + ":" + prog.FuncName(sc)
		if sc.Package() == nil || !strings.HasPrefix(sc.Package().Pkg.Path(), prog.ModPath) {
			name = what + ":" + sc.String()
		}
	} else if site.Common().IsInvoke() {
		name = what + ":" + site.Common().Method.FullName()
	}
	o := a.newObj(KExternal, fmt.Sprintf("%s@%s", name, prog.FuncName(site.Parent())), nil)
	o.Unknown, o.Depth, o.MaxDepth = true, 0, 3
	o.Instr = site
	o.InFunc = site.Parent()
	a.extObjs[site] = o
	sig := site.Common().Signature()
	n := sig.Results().Len()
	for i := 0; i < n; i++ {
		t := sig.Results().At(i).Type()
		pl := a.callResultPlace(site, i, t, n)
		if PointerLike(t) && pl.node >= 0 {
			a.addLoc(pl.node, a.loc(o, ""))
		} else if isAggregate(t) && pl.obj != nil {
			for _, lf := range leaves(t) {
				a.addLoc(a.cell(a.loc(pl.obj, lf)), a.loc(o, ""))
			}
		}
	}
	return o
}

func (a *Analysis) external(site ssa.CallInstruction, callee *ssa.Function) {
	name := "<unresolved>"
	if callee != nil {
		name = callee.String()
	} else if site.Common().IsInvoke() {
		name = site.Common().Method.FullName()
	}
	if _, seen := a.extObjs[site]; !seen {
		a.Externals[name]++
	}
	if a.cfg.External != nil && a.cfg.External(a, site, callee) {
		return
	}
	a.freshResult(site, "ext")
}

// Args returns the actual arguments including the receiver for invoke calls.
func Args(site ssa.CallInstruction) []ssa.Value {
	c := site.Common()
	if c.IsInvoke() {
		return append([]ssa.Value{c.Value}, c.Args...)
	}
	return c.Args
}

func (a *Analysis) bindCall(site ssa.CallInstruction, callee *ssa.Function, invoke bool) {
	for _, e := range a.CallEdges[site] {
		if e == callee {
			return
		}
	}
	a.CallEdges[site] = append(a.CallEdges[site], callee)
	a.Callers[callee] = append(a.Callers[callee], site)
	a.reach(callee)
	args := Args(site)
	for i, p := range callee.Params {
		if i >= len(args) {
			break
		}
		arg := args[i]
		if invoke && i == 0 {
			// interface receiver -> concrete receiver
			if PointerLike(p.Type()) {
				a.addCopy(a.nodeAt(arg, site.Block()), a.nodeOf(p))
			} else if isAggregate(p.Type()) {
				a.load(a.nodeOf(arg), "", a.placeOfValue(p), p.Type())
			}
			continue
		}
		if PointerLike(p.Type()) {
			a.addCopy(a.nodeAt(arg, site.Block()), a.nodeOf(p))
		} else {
			a.copyVal(arg, p, p.Type())
		}
	}
	// closure free variables are bound at MakeClosure
	sig := callee.Signature
	n := sig.Results().Len()
	if _, isCall := site.(*ssa.Call); isCall {
		for i := 0; i < n; i++ {
			t := sig.Results().At(i).Type()
			a.copyPlace(a.placeOfRet(callee, i, t), a.callResultPlace(site, i, t, n), t)
		}
	}
}

func (a *Analysis) builtin(f *ssa.Function, site ssa.CallInstruction, b *ssa.Builtin) {
	c := site.Common()
	v := site.Value()
	switch b.Name() {
	case "append":
		if v == nil {
			return
		}
		o := a.allocObj(v, site, "append", v.Type())
		res := a.nodeOf(v)
		a.addLoc(res, a.loc(o, ""))
		a.addCopy(a.nodeOf(c.Args[0]), res)
		// append may write into the spare capacity (or, after s[:0], over the
		// visible elements) of its first operand's backing array
		a.Writes = append(a.Writes, WriteSite{Instr: site, Ptr: a.nodeOf(c.Args[0]), Kind: "append", Fn: f})
		st, _ := v.Type().Underlying().(*types.Slice)
		if st == nil {
			return
		}
		et := st.Elem()
		// elements of both operands flow into every possible result array
		tmp := place{node: -1}
		if PointerLike(et) {
			tmp = nodePlace(a.newNode("append-elems"))
		} else if isAggregate(et) {
			tmp = objPlace(a.newObj(KSynth, "append-elems", et), "")
		} else {
			return
		}
		a.load(a.nodeOf(c.Args[0]), "[]", tmp, et)
		if len(c.Args) > 1 && PointerLike(c.Args[1].Type()) {
			a.load(a.nodeOf(c.Args[1]), "[]", tmp, et)
		}
		a.store(res, "[]", tmp, et)
	case "copy":
		st, _ := c.Args[0].Type().Underlying().(*types.Slice)
		if st != nil && (PointerLike(st.Elem()) || isAggregate(st.Elem())) && PointerLike(c.Args[1].Type()) {
			et := st.Elem()
			tmp := place{node: -1}
			if PointerLike(et) {
				tmp = nodePlace(a.newNode("copy-elems"))
			} else {
				tmp = objPlace(a.newObj(KSynth, "copy-elems", et), "")
			}
			a.load(a.nodeOf(c.Args[1]), "[]", tmp, et)
			a.store(a.nodeOf(c.Args[0]), "[]", tmp, et)
		}
		a.Writes = append(a.Writes, WriteSite{Instr: site, Ptr: a.nodeOf(c.Args[0]), Kind: "copy", Fn: f})
	case "delete":
		a.Writes = append(a.Writes, WriteSite{Instr: site, Ptr: a.nodeOf(c.Args[0]), Kind: "delete", Fn: f})
	case "clear":
		a.Writes = append(a.Writes, WriteSite{Instr: site, Ptr: a.nodeOf(c.Args[0]), Kind: "clear", Fn: f})
	case "close":
		a.Writes = append(a.Writes, WriteSite{Instr: site, Ptr: a.nodeOf(c.Args[0]), Kind: "close", Fn: f})
	}
}

// ---- helpers for external models -----------------------------------------------

// ArgNode returns the node of the i-th actual argument (receiver first for invoke).
func (a *Analysis) ArgNode(site ssa.CallInstruction, i int) (NodeID, bool) {
	args := Args(site)
	if i >= len(args) || !PointerLike(args[i].Type()) {
		return -1, false
	}
	return a.nodeOf(args[i]), true
}

// ResultAlias makes result i of the call include everything argument j points to.
func (a *Analysis) ResultAlias(site ssa.CallInstruction, i, j int) {
	sig := site.Common().Signature()
	n := sig.Results().Len()
	if i >= n {
		return
	}
	t := sig.Results().At(i).Type()
	pl := a.callResultPlace(site, i, t, n)
	if an, ok := a.ArgNode(site, j); ok && pl.node >= 0 {
		a.addCopy(an, pl.node)
	}
}

// ResultLoadsArg makes result i of the call include what the pointer argument j points to holds (an atomic load:
// `p := atomic.LoadPointer(&x.f)` is `p := x.f`).
func (a *Analysis) ResultLoadsArg(site ssa.CallInstruction, i, j int) {
	sig := site.Common().Signature()
	n := sig.Results().Len()
	if i >= n {
		return
	}
	t := sig.Results().At(i).Type()
	pl := a.callResultPlace(site, i, t, n)
	if an, ok := a.ArgNode(site, j); ok && pl.node >= 0 {
		a.addComplex(an, constraint{kind: cLoad, suffix: "", other: pl.node})
	}
}

// WriteArgThrough models `*arg_j = arg_k` (an atomic store of a pointer).
func (a *Analysis) WriteArgThrough(site ssa.CallInstruction, j, k int) {
	an, ok := a.ArgNode(site, j)
	kn, ok2 := a.ArgNode(site, k)
	if ok && ok2 {
		a.addComplex(an, constraint{kind: cStore, suffix: "", other: kn})
	}
}

// FreshResult gives the call a result object owned by the callee.
func (a *Analysis) FreshResult(site ssa.CallInstruction) { a.freshResult(site, "ext") }

// EscapeTo records that argument j escapes to the closed world object w, and
// makes w's contents include it.
func (a *Analysis) EscapeTo(site ssa.CallInstruction, j int, what string) {
	a.EscapeToWorld(site, j, what, "")
}

// WorldObj returns the closed object standing for an external container
// ("" is the script runtime world).
func (a *Analysis) WorldObj(world string) *Obj {
	if world == "" {
		return a.World
	}
	if a.worlds == nil {
		a.worlds = map[string]*Obj{}
	}
	if o, ok := a.worlds[world]; ok {
		return o
	}
	o := a.newObj(KWorld, "external-container:"+world, nil)
	o.Closed, o.Next = true, o
	a.worlds[world] = o
	return o
}

func (a *Analysis) EscapeToWorld(site ssa.CallInstruction, j int, what, world string) {
	if an, ok := a.ArgNode(site, j); ok {
		a.Escapes = append(a.Escapes, Escape{Instr: site, Arg: j, Node: an, To: what})
		a.addCopy(an, a.cell(a.loc(a.WorldObj(world), "")))
	}
}

// ResultFromWorldNamed: results may be anything that escaped to the named container.
func (a *Analysis) ResultFromWorldNamed(site ssa.CallInstruction, world string) {
	w := a.WorldObj(world)
	sig := site.Common().Signature()
	n := sig.Results().Len()
	for i := 0; i < n; i++ {
		t := sig.Results().At(i).Type()
		pl := a.callResultPlace(site, i, t, n)
		if PointerLike(t) && pl.node >= 0 {
			a.addLoc(pl.node, a.loc(w, ""))
			a.addCopy(a.cell(a.loc(w, "")), pl.node)
		}
	}
}

// ResultFromWorld: results may be anything that escaped to the world.
func (a *Analysis) ResultFromWorld(site ssa.CallInstruction) {
	sig := site.Common().Signature()
	n := sig.Results().Len()
	for i := 0; i < n; i++ {
		t := sig.Results().At(i).Type()
		pl := a.callResultPlace(site, i, t, n)
		if PointerLike(t) && pl.node >= 0 {
			a.addLoc(pl.node, a.loc(a.World, ""))
			a.addCopy(a.cell(a.loc(a.World, "")), pl.node)
		}
	}
}

// WriteThrough models an external function that writes a fresh value through
// pointer argument j (json.Unmarshal style).
func (a *Analysis) WriteThrough(f *ssa.Function, site ssa.CallInstruction, j int) {
	an, ok := a.ArgNode(site, j)
	if !ok {
		return
	}
	o := a.freshResult(site, "ext")
	tmp := a.newNode("ext-written")
	a.addLoc(tmp, a.loc(o, ""))
	a.addComplex(an, constraint{kind: cStore, suffix: "", other: tmp})
	a.Writes = append(a.Writes, WriteSite{Instr: site, Ptr: an, Kind: "extwrite", Fn: f})
}

// ExternalWrite records that an external callee mutates the object argument j
// points to (e.g. sync.Map.Store on its receiver).
func (a *Analysis) ExternalWrite(site ssa.CallInstruction, j int, kind string) {
	if an, ok := a.ArgNode(site, j); ok {
		a.Writes = append(a.Writes, WriteSite{Instr: site, Ptr: an, Kind: kind, Fn: site.Parent()})
	}
}

// ---- queries -----------------------------------------------------------------

// PointsTo returns the locations a pointer-like SSA value may hold.
func (a *Analysis) PointsTo(v ssa.Value) []Loc {
	n, ok := a.valNode[v]
	if !ok {
		return nil
	}
	return a.locsOf(n)
}

func (a *Analysis) locsOf(n NodeID) []Loc {
	var out []Loc
	for l := range a.nodes[n].pts {
		out = append(out, a.locs[l])
	}
	sort.Slice(out, func(i, j int) bool {
		if out[i].Obj.ID != out[j].Obj.ID {
			return out[i].Obj.ID < out[j].Obj.ID
		}
		return out[i].Path < out[j].Path
	})
	return out
}

func (a *Analysis) NodeLocs(n NodeID) []Loc { return a.locsOf(n) }

// Contents returns what the cell (o, path) may hold.
func (a *Analysis) Contents(o *Obj, path string) []Loc {
	k := cellKey{o.ID, path}
	if o.Closed {
		k.path = ""
	}
	l, ok := a.locIndex[k]
	if !ok {
		if o.Closed && o.Next != nil {
			return []Loc{{o.Next, ""}}
		}
		return nil
	}
	n, ok := a.cellNode[l]
	if !ok {
		if o.Closed && o.Next != nil {
			return []Loc{{o.Next, ""}}
		}
		return nil
	}
	return a.locsOf(n)
}

// Deref follows a field path from a set of locations: for each loc (o,p) the
// contents of (o, p+path).
func (a *Analysis) Deref(locs []Loc, path string) []Loc {
	seen := map[cellKey]bool{}
	var out []Loc
	for _, l := range locs {
		for _, c := range a.Contents(l.Obj, l.Path+path) {
			k := cellKey{c.Obj.ID, c.Path}
			if !seen[k] {
				seen[k] = true
				out = append(out, c)
			}
		}
	}
	return out
}

// ReturnLocs returns what result i of fn may hold.
func (a *Analysis) ReturnLocs(fn *ssa.Function, i int) []Loc {
	n, ok := a.retNode[retKey{fn, i}]
	if !ok {
		return nil
	}
	return a.locsOf(n)
}

// Reach computes every object reachable from the given locations through any cell.
func (a *Analysis) Reach(start []Loc) map[*Obj]bool {
	seen := map[*Obj]bool{}
	var stack []*Obj
	for _, l := range start {
		if !seen[l.Obj] {
			seen[l.Obj] = true
			stack = append(stack, l.Obj)
		}
	}
	// index cells by object
	byObj := map[int][]LocID{}
	for id, L := range a.locs {
		byObj[L.Obj.ID] = append(byObj[L.Obj.ID], LocID(id))
	}
	for len(stack) > 0 {
		o := stack[len(stack)-1]
		stack = stack[:len(stack)-1]
		if o.Closed && o.Next != nil && !seen[o.Next] {
			seen[o.Next] = true
			stack = append(stack, o.Next)
		}
		for _, l := range byObj[o.ID] {
			n, ok := a.cellNode[l]
			if !ok {
				continue
			}
			for t := range a.nodes[n].pts {
				to := a.locs[t].Obj
				if !seen[to] {
					seen[to] = true
					stack = append(stack, to)
				}
			}
		}
	}
	return seen
}

// Effect is a write whose target may be a protected root or a global.
type Effect struct {
	Site   WriteSite
	Target *Obj
	Path   string
	Origin []string // blame chain, outermost first
	Key    string   // position-free descriptor of the origin
}

// Effects lists writes to roots / globals, one per (write, target, origin).
func (a *Analysis) Effects() []Effect {
	var out []Effect
	dedup := map[string]bool{}
	for _, w := range a.Writes {
		if !a.Reached[w.Fn] {
			continue
		}
		seen := map[string]bool{}
		for _, L := range a.locsOf(w.Ptr) {
			switch L.Obj.Kind {
			case KRoot, KGlobal, KGlobalSub:
			default:
				continue
			}
			k := L.Obj.Name
			if seen[k] {
				continue
			}
			seen[k] = true
			for _, b := range a.blame(w, L.Obj) {
				dk := b.key + "|" + L.Obj.Name
				if dedup[dk] {
					continue
				}
				dedup[dk] = true
				out = append(out, Effect{Site: w, Target: L.Obj, Path: L.Path, Origin: b.chain, Key: b.key})
			}
		}
	}
	sort.Slice(out, func(i, j int) bool { return out[i].Key+out[i].Target.Name < out[j].Key+out[j].Target.Name })
	return out
}

// mayHold reports whether node n may hold a location of object o (or, for
// roots, of any level of the same root).
func (a *Analysis) mayHold(n NodeID, o *Obj) bool {
	for l := range a.nodes[n].pts {
		if a.locs[l].Obj == o {
			return true
		}
	}
	return false
}

// describeWrite: position-free descriptor of a write instruction.
func describeWrite(in ssa.Instruction) string {
	switch x := in.(type) {
	case *ssa.MapUpdate:
		if c, ok := x.Key.(*ssa.Const); ok && c.Value != nil {
			return "map[" + c.Value.ExactString() + "]="
		}
		return "map[...]="
	case *ssa.Store:
		switch ad := x.Addr.(type) {
		case *ssa.FieldAddr:
			return "store" + fieldName(ad.X.Type(), ad.Field)
		case *ssa.IndexAddr:
			return "store[]"
		case *ssa.Global:
			return "store global " + ad.Name()
		}
		return "store"
	case ssa.CallInstruction:
		if b, ok := x.Common().Value.(*ssa.Builtin); ok {
			return b.Name()
		}
		if sc := x.Common().StaticCallee(); sc != nil {
			return "call " + sc.Name()
		}
		return "call"
	case *ssa.Send:
		return "send"
	}
	return fmt.Sprintf("%T", in)
}

// DescribeCall: callee name plus constant string arguments, position-free.
func DescribeCall(site ssa.CallInstruction) string {
	c := site.Common()
	name := "dyn"
	if sc := c.StaticCallee(); sc != nil {
		name = sc.Name()
	} else if c.IsInvoke() {
		name = c.Method.Name()
	}
	var cs []string
	for _, arg := range c.Args {
		if k, ok := arg.(*ssa.Const); ok && k.Value != nil && k.Value.Kind().String() == "String" {
			cs = append(cs, k.Value.ExactString())
		}
	}
	if len(cs) > 0 {
		return name + "(" + strings.Join(cs, ",") + ")"
	}
	return name
}

type blamed struct {
	chain []string
	key   string
}

// blame walks from the written pointer back to the functions in which the
// protected object is first obtained (not received as a parameter), following
// parameters up to every caller that passes it down.  Each key names such a
// function and the call through which the object is handed down.
func (a *Analysis) blame(w WriteSite, o *Obj) []blamed {
	var out []blamed
	isEntry := func(fn *ssa.Function) bool {
		for _, e := range a.cfg.Entries {
			if e == fn {
				return true
			}
		}
		return false
	}
	holds := func(v ssa.Value) bool {
		if n, ok := a.valNode[v]; ok && a.mayHold(n, o) {
			return true
		}
		if so, ok := a.synth[v]; ok {
			for _, lf := range leaves(v.Type()) {
				if l, ok := a.locIndex[cellKey{so.ID, lf}]; ok {
					if n, ok := a.cellNode[l]; ok && a.mayHold(n, o) {
						return true
					}
				}
			}
		}
		return false
	}
	var rec func(fn *ssa.Function, desc string, chain []string, visited map[*ssa.Function]bool, depth int)
	rec = func(fn *ssa.Function, desc string, chain []string, visited map[*ssa.Function]bool, depth int) {
		viaParam := false
		for _, p := range fn.Params {
			if holds(p) {
				viaParam = true
			}
		}
		for _, fv := range fn.FreeVars {
			if holds(fv) {
				viaParam = true
			}
		}
		var sites []ssa.CallInstruction
		if viaParam && !isEntry(fn) && depth < 10 {
			for _, s := range a.Callers[fn] {
				if visited[s.Parent()] {
					continue
				}
				hit := false
				for _, arg := range Args(s) {
					if holds(arg) {
						hit = true
					}
				}
				if mc, ok := s.Common().Value.(*ssa.MakeClosure); ok {
					for _, b := range mc.Bindings {
						if holds(b) {
							hit = true
						}
					}
				}
				if hit {
					sites = append(sites, s)
				}
			}
		}
		if len(sites) == 0 {
			rev := make([]string, len(chain))
			for i := range chain {
				rev[len(chain)-1-i] = chain[i]
			}
			out = append(out, blamed{chain: rev, key: prog.FuncName(fn) + ":" + desc})
			return
		}
		sort.Slice(sites, func(i, j int) bool { return sites[i].Pos() < sites[j].Pos() })
		for _, s := range sites {
			nd := "call " + DescribeCall(s)
			v2 := map[*ssa.Function]bool{}
			for k := range visited {
				v2[k] = true
			}
			v2[fn] = true
			rec(s.Parent(), nd, append(append([]string{}, chain...), fmt.Sprintf("%s: %s at %s", prog.FuncName(s.Parent()), nd, a.P.InstrPos(s))), v2, depth+1)
		}
	}
	desc := describeWrite(w.Instr)
	rec(w.Fn, desc, []string{fmt.Sprintf("%s: %s at %s", prog.FuncName(w.Fn), desc, a.P.InstrPos(w.Instr))}, map[*ssa.Function]bool{}, 0)
	return out
}

// ReachedNames lists the analysed functions.
func (a *Analysis) ReachedNames() []string {
	var out []string
	for f := range a.Reached {
		out = append(out, prog.FuncName(f))
	}
	sort.Strings(out)
	return out
}

// LocString renders a location.
func LocString(l Loc) string { return l.Obj.Name + l.Path }

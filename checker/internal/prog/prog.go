// Package prog loads /repo's current working tree into a type-checked,
// SSA-form program and resolves anchors by types.Object (never by text).
package prog

import (
	"fmt"
	"go/token"
	"go/types"
	"os"
	"path/filepath"
	"sort"
	"strings"

	"golang.org/x/tools/go/callgraph"
	"golang.org/x/tools/go/callgraph/cha"
	"golang.org/x/tools/go/callgraph/vta"
	"golang.org/x/tools/go/packages"
	"golang.org/x/tools/go/ssa"
	"golang.org/x/tools/go/ssa/ssautil"
)

const ModPath = "github.com/Comcast/sheens"

// Program is the resolved program every engine works on.
type Program struct {
	Dir     string
	Fset    *token.FileSet
	Pkgs    []*packages.Package
	ByPath  map[string]*packages.Package
	SSA     *ssa.Program
	SSAPkgs map[string]*ssa.Package
	// AllFuncs: every function (incl. anonymous) with a body in a repo package.
	AllFuncs []*ssa.Function

	cg *callgraph.Graph
}

// Load type-checks dir/./... and builds SSA. overlay maps absolute file
// names to replacement contents (used by the mutant self-test only).
func Load(dir string, tests bool, overlay map[string][]byte) (*Program, error) {
	os.Unsetenv("GOWORK")
	env := append(os.Environ(), "GOFLAGS=-mod=mod", "GOPROXY=off", "GOSUMDB=off", "GOTOOLCHAIN=local", "GOWORK=off")
	fset := token.NewFileSet()
	cfg := &packages.Config{
		Mode: packages.NeedName | packages.NeedFiles | packages.NeedCompiledGoFiles | packages.NeedImports |
			packages.NeedTypes | packages.NeedTypesSizes | packages.NeedSyntax | packages.NeedTypesInfo | packages.NeedModule,
		Dir:     dir,
		Fset:    fset,
		Env:     env,
		Tests:   tests,
		Overlay: overlay,
	}
	// LoadSyntax: bodies of std / third-party code are not analysed (external
	// model, DESIGN A3); their types come from export data.
	pkgs, err := packages.Load(cfg, "./...")
	if err != nil {
		return nil, fmt.Errorf("load: %v", err)
	}
	if len(pkgs) == 0 {
		return nil, fmt.Errorf("load: zero packages matched ./... in %s", dir)
	}
	var errs []string
	packages.Visit(pkgs, nil, func(p *packages.Package) {
		if p.Module != nil && p.Module.Path == ModPath || strings.HasPrefix(p.PkgPath, ModPath) {
			for _, e := range p.Errors {
				errs = append(errs, e.Error())
			}
		}
	})
	if len(errs) > 0 {
		sort.Strings(errs)
		if len(errs) > 10 {
			errs = errs[:10]
		}
		return nil, fmt.Errorf("type-check failed: %s", strings.Join(errs, "; "))
	}
	p := &Program{Dir: dir, Fset: fset, Pkgs: pkgs, ByPath: map[string]*packages.Package{}, SSAPkgs: map[string]*ssa.Package{}}
	sprog, spkgs := ssautil.Packages(pkgs, ssa.InstantiateGenerics)
	p.SSA = sprog
	for i, sp := range spkgs {
		if sp == nil {
			continue
		}
		_ = i
	}
	sprog.Build()
	for _, sp := range sprog.AllPackages() {
		if strings.HasPrefix(sp.Pkg.Path(), ModPath) {
			// with Tests=true the same path may appear as the test variant; prefer the one with more members
			if old, ok := p.SSAPkgs[sp.Pkg.Path()]; !ok || len(sp.Members) > len(old.Members) {
				p.SSAPkgs[sp.Pkg.Path()] = sp
			}
		}
	}
	for _, pk := range pkgs {
		if old, ok := p.ByPath[pk.PkgPath]; !ok || len(pk.Syntax) > len(old.Syntax) {
			p.ByPath[pk.PkgPath] = pk
		}
	}
	if len(p.SSAPkgs) == 0 {
		return nil, fmt.Errorf("no SSA packages for %s", ModPath)
	}
	for fn := range ssautil.AllFunctions(sprog) {
		if fn.Blocks == nil {
			continue
		}
		if fn.Pkg == nil && fn.Package() == nil {
			continue
		}
		pk := fn.Package()
		if pk == nil || !strings.HasPrefix(pk.Pkg.Path(), ModPath) {
			continue
		}
		p.AllFuncs = append(p.AllFuncs, fn)
	}
	sort.Slice(p.AllFuncs, func(i, j int) bool { return FuncName(p.AllFuncs[i]) < FuncName(p.AllFuncs[j]) })
	return p, nil
}

// CallGraph returns the VTA-over-CHA call graph (built lazily).
func (p *Program) CallGraph() *callgraph.Graph {
	if p.cg == nil {
		p.cg = vta.CallGraph(ssautil.AllFunctions(p.SSA), cha.CallGraph(p.SSA))
	}
	return p.cg
}

// Callees returns the call-graph callees of a call instruction.
func (p *Program) Callees(site ssa.CallInstruction) []*ssa.Function {
	if f := site.Common().StaticCallee(); f != nil {
		return []*ssa.Function{f}
	}
	cg := p.CallGraph()
	n := cg.Nodes[site.Parent()]
	if n == nil {
		return nil
	}
	var out []*ssa.Function
	seen := map[*ssa.Function]bool{}
	for _, e := range n.Out {
		if e.Site == site && !seen[e.Callee.Func] {
			seen[e.Callee.Func] = true
			out = append(out, e.Callee.Func)
		}
	}
	sort.Slice(out, func(i, j int) bool { return FuncName(out[i]) < FuncName(out[j]) })
	return out
}

// Rel is a package path relative to the module ("core", "cmd/mcrew").
func Rel(pkgPath string) string {
	if pkgPath == ModPath {
		return "."
	}
	return strings.TrimPrefix(pkgPath, ModPath+"/")
}

func Abs(rel string) string {
	if rel == "." || rel == "" {
		return ModPath
	}
	return ModPath + "/" + rel
}

// FuncName is a stable, position-free name: pkg.(Recv).Name or pkg.Name$1.
func FuncName(fn *ssa.Function) string {
	if fn == nil {
		return "<nil>"
	}
	pk := ""
	if fn.Package() != nil {
		pk = Rel(fn.Package().Pkg.Path())
	} else if fn.Pkg != nil {
		pk = Rel(fn.Pkg.Pkg.Path())
	}
	if fn.Parent() != nil {
		// anonymous: parent$N
		return FuncName(fn.Parent()) + "$" + strings.TrimPrefix(fn.Name(), fn.Parent().Name()+"$")
	}
	if recv := fn.Signature.Recv(); recv != nil {
		t := recv.Type()
		ptr := ""
		if pt, ok := t.(*types.Pointer); ok {
			t = pt.Elem()
			ptr = "*"
		}
		name := t.String()
		if nt, ok := t.(*types.Named); ok {
			name = nt.Obj().Name()
			if nt.Obj().Pkg() != nil {
				pk = Rel(nt.Obj().Pkg().Path())
			}
		}
		return pk + ".(" + ptr + name + ")." + fn.Name()
	}
	return pk + "." + fn.Name()
}

// Func resolves a package-level function or a method. recv=="" for functions;
// recv "T" resolves the method on T or *T.
func (p *Program) Func(relPkg, recv, name string) *ssa.Function {
	sp := p.SSAPkgs[Abs(relPkg)]
	if sp == nil {
		return nil
	}
	if recv == "" {
		return sp.Func(name)
	}
	tm := sp.Type(recv)
	if tm == nil {
		return nil
	}
	T := tm.Type()
	for _, t := range []types.Type{T, types.NewPointer(T)} {
		ms := p.SSA.MethodSets.MethodSet(t)
		for i := 0; i < ms.Len(); i++ {
			sel := ms.At(i)
			if sel.Obj().Name() == name {
				if f := p.SSA.MethodValue(sel); f != nil {
					return f
				}
			}
		}
	}
	return nil
}

// NamedType resolves a named type of a repo package.
func (p *Program) NamedType(relPkg, name string) *types.Named {
	sp := p.SSAPkgs[Abs(relPkg)]
	if sp == nil {
		return nil
	}
	tm := sp.Type(name)
	if tm == nil {
		return nil
	}
	n, _ := tm.Type().(*types.Named)
	return n
}

// Pos renders a position relative to the repo dir.
func (p *Program) Pos(pos token.Pos) string {
	if !pos.IsValid() {
		return "-"
	}
	ps := p.Fset.Position(pos)
	f := ps.Filename
	if r, err := filepath.Rel(p.Dir, f); err == nil && !strings.HasPrefix(r, "..") {
		f = r
	}
	return fmt.Sprintf("%s:%d", f, ps.Line)
}

// InstrPos gives the best position for an instruction (falls back to
// neighbouring instructions / function position when NoPos).
func (p *Program) InstrPos(in ssa.Instruction) string {
	if in == nil {
		return "-"
	}
	if in.Pos().IsValid() {
		return p.Pos(in.Pos())
	}
	if v, ok := in.(ssa.Value); ok {
		_ = v
	}
	b := in.Block()
	if b != nil {
		idx := -1
		for i, x := range b.Instrs {
			if x == in {
				idx = i
			}
		}
		for d := 1; d < len(b.Instrs); d++ {
			for _, j := range []int{idx - d, idx + d} {
				if j >= 0 && j < len(b.Instrs) && b.Instrs[j].Pos().IsValid() {
					return p.Pos(b.Instrs[j].Pos()) + "~"
				}
			}
		}
	}
	if in.Parent() != nil {
		return p.Pos(in.Parent().Pos()) + "~"
	}
	return "-"
}

// FuncsIn returns all functions with bodies whose package (relative) is in rels.
func (p *Program) FuncsIn(rels ...string) []*ssa.Function {
	set := map[string]bool{}
	for _, r := range rels {
		set[r] = true
	}
	var out []*ssa.Function
	for _, f := range p.AllFuncs {
		if set[PkgOf(f)] {
			out = append(out, f)
		}
	}
	return out
}

// PkgOf: relative package path of a function ("" if none).
func PkgOf(f *ssa.Function) string {
	if f == nil {
		return ""
	}
	if f.Package() != nil {
		return Rel(f.Package().Pkg.Path())
	}
	if f.Parent() != nil {
		return PkgOf(f.Parent())
	}
	if f.Signature.Recv() != nil {
		t := f.Signature.Recv().Type()
		if pt, ok := t.(*types.Pointer); ok {
			t = pt.Elem()
		}
		if nt, ok := t.(*types.Named); ok && nt.Obj().Pkg() != nil {
			return Rel(nt.Obj().Pkg().Path())
		}
	}
	// bound-method closures and thunks: the package of the method they wrap
	if f.Synthetic != "" {
		if o := f.Object(); o != nil && o.Pkg() != nil {
			return Rel(o.Pkg().Path())
		}
	}
	return ""
}

// InRepo reports whether the function belongs to the analysed module and has a body.
func InRepo(f *ssa.Function) bool {
	if f == nil || f.Blocks == nil {
		return false
	}
	pk := f.Package()
	if pk == nil {
		if f.Parent() != nil {
			return InRepo(f.Parent())
		}
		// synthetic wrappers / instantiations
		if f.Signature.Recv() != nil {
			t := f.Signature.Recv().Type()
			if pt, ok := t.(*types.Pointer); ok {
				t = pt.Elem()
			}
			if nt, ok := t.(*types.Named); ok && nt.Obj().Pkg() != nil {
				return strings.HasPrefix(nt.Obj().Pkg().Path(), ModPath)
			}
		}
		return false
	}
	return strings.HasPrefix(pk.Pkg.Path(), ModPath)
}

// Package patch applies a unified diff to file contents in memory, so that a
// seeded change can be analysed through a go/packages overlay without touching
// the repository.
package patch

import (
	"fmt"
	"os"
	"path/filepath"
	"regexp"
	"strconv"
	"strings"
)

type hunk struct {
	oldStart int
	lines    []string // with leading ' ', '+', '-'
}

type filePatch struct {
	path  string
	hunks []hunk
}

var hunkRe = regexp.MustCompile(`^@@ -(\d+)(?:,(\d+))? \+(\d+)(?:,(\d+))? @@`)

func parse(diff string) ([]filePatch, error) {
	var out []filePatch
	var cur *filePatch
	var h *hunk
	for _, ln := range strings.Split(diff, "\n") {
		switch {
		case strings.HasPrefix(ln, "diff --git"):
			cur, h = nil, nil
		case strings.HasPrefix(ln, "+++ "):
			p := strings.TrimPrefix(ln, "+++ ")
			p = strings.TrimPrefix(p, "b/")
			out = append(out, filePatch{path: p})
			cur = &out[len(out)-1]
			h = nil
		case strings.HasPrefix(ln, "--- "), strings.HasPrefix(ln, "index "), strings.HasPrefix(ln, "new file"), strings.HasPrefix(ln, "deleted file"):
		case strings.HasPrefix(ln, "@@"):
			if cur == nil {
				return nil, fmt.Errorf("hunk without file")
			}
			m := hunkRe.FindStringSubmatch(ln)
			if m == nil {
				return nil, fmt.Errorf("bad hunk header %q", ln)
			}
			s, _ := strconv.Atoi(m[1])
			cur.hunks = append(cur.hunks, hunk{oldStart: s})
			h = &cur.hunks[len(cur.hunks)-1]
		default:
			if h != nil && (strings.HasPrefix(ln, " ") || strings.HasPrefix(ln, "+") || strings.HasPrefix(ln, "-")) {
				h.lines = append(h.lines, ln)
			} else if h != nil && ln == "" {
				// blank context line without the leading space (some tools strip it)
				h.lines = append(h.lines, " ")
			}
		}
	}
	return out, nil
}

// Apply returns an overlay (absolute file name -> new contents) for the diff
// applied to the files under dir.
func Apply(dir, diffFile string) (map[string][]byte, error) {
	b, err := os.ReadFile(diffFile)
	if err != nil {
		return nil, err
	}
	fps, err := parse(string(b))
	if err != nil {
		return nil, err
	}
	if len(fps) == 0 {
		return nil, fmt.Errorf("empty patch")
	}
	overlay := map[string][]byte{}
	for _, fp := range fps {
		abs := filepath.Join(dir, fp.path)
		src, err := os.ReadFile(abs)
		if err != nil {
			if os.IsNotExist(err) && len(fp.hunks) == 1 && fp.hunks[0].oldStart == 0 {
				// a file the patch adds: every line of its one hunk is an addition
				var res []string
				for _, l := range fp.hunks[0].lines {
					if len(l) > 0 && l[0] == '+' {
						res = append(res, l[1:])
					}
				}
				overlay[abs] = []byte(strings.Join(res, "\n") + "\n")
				continue
			}
			return nil, fmt.Errorf("%s: %v", fp.path, err)
		}
		lines := strings.Split(string(src), "\n")
		var res []string
		pos := 0 // index into lines
		for hi, h := range fp.hunks {
			var old []string
			for _, l := range h.lines {
				if l[0] == ' ' || l[0] == '-' {
					old = append(old, l[1:])
				}
			}
			// trailing blank pseudo-context produced by splitting on the final newline
			for len(old) > 0 && old[len(old)-1] == "" && len(h.lines) > 0 && h.lines[len(h.lines)-1] == " " {
				old = old[:len(old)-1]
				h.lines = h.lines[:len(h.lines)-1]
			}
			at := -1
			want := h.oldStart - 1
			for delta := 0; delta < 400 && at < 0; delta++ {
				for _, cand := range []int{want + delta, want - delta} {
					if cand < pos || cand+len(old) > len(lines) {
						continue
					}
					ok := true
					for i, o := range old {
						if lines[cand+i] != o {
							ok = false
							break
						}
					}
					if ok {
						at = cand
						break
					}
				}
			}
			if at < 0 {
				return nil, fmt.Errorf("%s: hunk %d does not apply", fp.path, hi+1)
			}
			res = append(res, lines[pos:at]...)
			for _, l := range h.lines {
				if l[0] == ' ' || l[0] == '+' {
					res = append(res, l[1:])
				}
			}
			pos = at + len(old)
		}
		res = append(res, lines[pos:]...)
		overlay[abs] = []byte(strings.Join(res, "\n"))
	}
	return overlay, nil
}

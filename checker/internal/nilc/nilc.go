// Package nilc is engine E2: a nil-contract analysis.  Given a frozen table of
// SSA values that the API contract allows to be nil, it follows each value
// through copies, phis, local variables, static calls and closures and
// requires every dereferencing use to be dominated by evidence that the value
// is not nil on that path: a nil comparison of the same value (or of the same
// field access path), or — for the value half of a (value, error) result pair
// — the err == nil edge of the same call.
package nilc

import (
	"fmt"
	"go/token"
	"go/types"
	"sort"

	"golang.org/x/tools/go/ssa"

	"sheensverif/internal/flow"
	"sheensverif/internal/prog"
	"sheensverif/internal/ssau"
)

type Source struct {
	V          ssa.Value
	Why        string // clause of the property's quantifier that makes it nullable
	WritesOnly bool   // nil map: only map updates are faults
	Label      string // position-free descriptor
	// PairContract: also report a return of the value together with a constant nil error
	PairContract bool
}

type Finding struct {
	Instr  ssa.Instruction
	Src    Source
	Kind   string
	Chain  []string
	Holder ssa.Value
}

type Result struct {
	Findings []Finding
	// Uses: dereferencing uses examined and found guarded, per source label.
	Guarded []Guarded
}

type Guarded struct {
	Instr ssa.Instruction
	Src   Source
	Kind  string
	By    string
}

type Config struct {
	Prog   *prog.Program
	Engine map[string]bool // packages whose functions are followed into
	// PairRule: accept the err == nil edge of the producing call as evidence for result #0.
	PairRule bool
	// FollowDynamic: follow calls through function values using the call graph.
	FollowDynamic bool
}

type item struct {
	v     ssa.Value
	src   Source
	chain []string
}

// accessPath returns (base, typeName.field) if v is a load of a struct field.
func accessPath(v ssa.Value) (ssa.Value, string, bool) {
	u, ok := v.(*ssa.UnOp)
	if !ok || u.Op != token.MUL {
		return nil, "", false
	}
	n, f, base, ok := ssau.FieldOf(u.X)
	if !ok || n == nil {
		return nil, "", false
	}
	return base, n.Obj().Name() + "." + f, true
}

// elemPath returns (slice, index) if v is a load of an element of a slice or array (`bs[i]`).
func elemPath(v ssa.Value) (ssa.Value, ssa.Value, bool) {
	u, ok := v.(*ssa.UnOp)
	if !ok || u.Op != token.MUL {
		return nil, nil, false
	}
	ia, ok := u.X.(*ssa.IndexAddr)
	if !ok {
		return nil, nil, false
	}
	return ia.X, ia.Index, true
}

// elemsStored: the function of v assigns an element of a slice or array with elements of v's type (then two reads
// of the same element need not see the same value).
func elemsStored(v ssa.Value) bool {
	in, ok := v.(ssa.Instruction)
	if !ok || in.Parent() == nil {
		return true
	}
	found := false
	for _, g := range ssau.WithAnon(in.Parent()) {
		ssau.Instrs(g, func(x ssa.Instruction) {
			if st, isSt := x.(*ssa.Store); isSt {
				if _, isIA := st.Addr.(*ssa.IndexAddr); isIA && types.Identical(st.Val.Type(), v.Type()) {
					found = true
				}
			}
		})
	}
	return found
}

// nonNilAt reports evidence that v is not nil at block b.
func nonNilAt(v ssa.Value, b *ssa.BasicBlock, facts []flow.Fact, pair bool) string {
	vb, vp, vIsPath := accessPath(v)
	for _, f := range facts {
		bo, ok := f.Cond.(*ssa.BinOp)
		if !ok || (bo.Op != token.EQL && bo.Op != token.NEQ) {
			continue
		}
		x, y := bo.X, bo.Y
		if ssau.IsNilConst(x) {
			x, y = y, x
		}
		if !ssau.IsNilConst(y) {
			continue
		}
		nonnil := (bo.Op == token.NEQ && f.True) || (bo.Op == token.EQL && !f.True)
		isnil := !nonnil
		if x == v && nonnil {
			return "nil test of the value"
		}
		if vIsPath && nonnil {
			if xb, xp, ok := accessPath(x); ok && xb == vb && xp == vp {
				return "nil test of the same field (" + vp + ")"
			}
		}
		if nonnil {
			// the same element of the same slice read again (`if bs[i] == nil { continue }; use(bs[i].f)`)
			if vs, vi, ok := elemPath(v); ok {
				if xs, xi, ok2 := elemPath(x); ok2 && xs == vs && xi == vi && !elemsStored(v) {
					return "nil test of the same element"
				}
			}
		}
		if pair && isnil {
			// x is the error of the call that produced v
			if ex, ok := x.(*ssa.Extract); ok {
				if vx, ok := v.(*ssa.Extract); ok && vx.Tuple == ex.Tuple && vx.Index == 0 && ex.Index == ex.Tuple.Type().(*types.Tuple).Len()-1 {
					return "err == nil edge of the producing call"
				}
			}
		}
	}
	return ""
}

// sameValue: a and b are the same SSA value or loads of the same field of the same base value.
func sameValue(a, b ssa.Value) bool {
	if a == b {
		return true
	}
	ab, ap, ok := accessPath(a)
	if !ok {
		return false
	}
	bb, bp, ok2 := accessPath(b)
	return ok2 && ab == bb && ap == bp
}

// storesField: h or a function it statically calls inside the engine (a few levels) assigns the named field of
// some value of the struct type: then a fact about a field read before the call says nothing about a read after it.
func storesField(h *ssa.Function, path string, inEngine func(*ssa.Function) bool, seen map[*ssa.Function]bool, depth int) bool {
	if h == nil || seen[h] {
		return false
	}
	seen[h] = true
	if !inEngine(h) || depth > 4 {
		return true // not visible: assume it may
	}
	found := false
	for _, g := range ssau.WithAnon(h) {
		ssau.Instrs(g, func(in ssa.Instruction) {
			switch x := in.(type) {
			case *ssa.Store:
				if n, f, _, ok := ssau.FieldOf(x.Addr); ok && n != nil && n.Obj().Name()+"."+f == path {
					found = true
				}
			case ssa.CallInstruction:
				if x.Common().IsInvoke() {
					return
				}
				if sc := x.Common().StaticCallee(); sc != nil && sc.Blocks != nil && inEngine(sc) {
					if storesField(sc, path, inEngine, seen, depth+1) {
						found = true
					}
				}
			}
		})
	}
	return found
}

// answerEvidence: evidence for v from what a helper that was handed v has answered.  A fact in facts says that a
// result of a static in-engine call is true (a bool verdict: `if !wanted(src, cur) { return }`) or not nil (an
// error: `if err := compileInto(src, &dst); err != nil { ... }`); v is an argument of that call (the same value, or a
// load of the same field of the same base when the helper assigns no such field); and inside the helper every return
// that can deliver such an answer lies where the corresponding parameter is known not to be nil.
func answerEvidence(v ssa.Value, facts []flow.Fact, pair bool, inEngine func(*ssa.Function) bool, depth int) string {
	if depth > 3 {
		return ""
	}
	for _, f := range facts {
		var res ssa.Value // the call result the fact is about
		switch x := f.Cond.(type) {
		case *ssa.Call, *ssa.Extract:
			if bt, isB := x.Type().Underlying().(*types.Basic); !isB || bt.Kind() != types.Bool || !f.True {
				continue
			}
			res = x
		case *ssa.BinOp:
			if x.Op != token.EQL && x.Op != token.NEQ {
				continue
			}
			a, b := x.X, x.Y
			if ssau.IsNilConst(a) {
				a, b = b, a
			}
			if !ssau.IsNilConst(b) || (x.Op == token.NEQ) != f.True {
				continue
			}
			res = a
		default:
			continue
		}
		var cl *ssa.Call
		idx := 0
		switch r := res.(type) {
		case *ssa.Call:
			cl = r
		case *ssa.Extract:
			cl, _ = r.Tuple.(*ssa.Call)
			idx = r.Index
		}
		if cl == nil || cl.Common().IsInvoke() {
			continue
		}
		h := cl.Common().StaticCallee()
		if h == nil || h.Blocks == nil || !inEngine(h) {
			continue
		}
		for ai, a := range cl.Common().Args {
			if ai >= len(h.Params) || !sameValue(a, v) {
				continue
			}
			if a != v {
				_, path, _ := accessPath(v)
				if storesField(h, path, inEngine, map[*ssa.Function]bool{}, 0) {
					continue
				}
			}
			if answerImpliesNonNil(h, idx, h.Params[ai], pair, inEngine, depth) {
				return "answer of " + prog.FuncName(h) + " (it gives that answer only for a non-nil argument)"
			}
		}
	}
	return ""
}

// answerImpliesNonNil: every return of h whose result #idx can be true (a bool) or non-nil (anything else) lies
// where the parameter p is known not to be nil.
func answerImpliesNonNil(h *ssa.Function, idx int, p *ssa.Parameter, pair bool, inEngine func(*ssa.Function) bool, depth int) bool {
	n := 0
	var edges func(v ssa.Value, b *ssa.BasicBlock, facts []flow.Fact, d int) bool
	edges = func(v ssa.Value, b *ssa.BasicBlock, facts []flow.Fact, d int) bool {
		if phi, ok := v.(*ssa.Phi); ok && d < 6 {
			for i, e := range phi.Edges {
				pred := phi.Block().Preds[i]
				if !edges(e, pred, flow.EdgeFacts(pred, phi.Block()), d+1) {
					return false
				}
			}
			return true
		}
		if c, ok := v.(*ssa.Const); ok {
			if c.Value == nil || c.Value.String() == "false" {
				return true // this way delivers false / nil: not the answer in question
			}
		}
		n++
		if bt, isB := v.Type().Underlying().(*types.Basic); isB && bt.Kind() == types.Bool {
			if _, isC := v.(*ssa.Const); !isC {
				facts = flow.Expand(append(append([]flow.Fact{}, facts...), flow.Fact{Cond: v, True: true}))
			}
		}
		if nonNilAt(p, b, facts, pair) != "" {
			return true
		}
		return answerEvidence(p, facts, pair, inEngine, depth+1) != ""
	}
	for _, b := range h.Blocks {
		ret, ok := b.Instrs[len(b.Instrs)-1].(*ssa.Return)
		if !ok {
			continue
		}
		if idx >= len(ret.Results) {
			return false
		}
		if !edges(ret.Results[idx], b, flow.FactsAt(b), 0) {
			return false
		}
	}
	return n > 0
}

func Check(cfg Config, sources []Source) *Result {
	res := &Result{}
	type vk struct {
		v   ssa.Value
		lbl string
	}
	seen := map[vk]bool{}
	aliasOf := map[ssa.Value][]ssa.Value{}
	// loads of a private cell that can see a nullable value only on ways on which the cell was tested
	preGuarded := map[ssa.Value]string{}
	var work []item
	push := func(v ssa.Value, src Source, chain []string, note string) {
		if v == nil {
			return
		}
		k := vk{v, src.Label}
		if seen[k] {
			return
		}
		seen[k] = true
		nc := append(append([]string{}, chain...), note)
		work = append(work, item{v, src, nc})
	}
	for _, s := range sources {
		push(s.V, s, nil, "source "+s.Label)
	}
	inEngine := func(f *ssa.Function) bool {
		return f != nil && f.Blocks != nil && cfg.Engine[prog.PkgOf(f)]
	}
	// callers index for return propagation
	for len(work) > 0 {
		it := work[len(work)-1]
		work = work[:len(work)-1]
		v := it.v
		for _, r := range ssau.Referrers(v) {
			b := r.Block()
			if b == nil {
				continue
			}
			facts := flow.FactsAt(b)
			ev := nonNilAt(v, b, facts, cfg.PairRule)
			if ev == "" {
				// a load of a private local cell (a field of a local struct that stands for a local variable)
				ev = cellEvidence(v, r, facts)
			}
			if ev == "" && cfg.PairRule {
				ev = pairCellEvidence(v, facts)
			}
			if ev == "" {
				ev = preGuarded[v]
			}
			if ev == "" {
				// a load of a variable that is assigned once: what is known about the assigned value holds for the load
				for _, o := range aliasOf[v] {
					if e2 := nonNilAt(o, b, facts, cfg.PairRule); e2 != "" {
						ev = e2 + " (of the value the variable was assigned)"
					}
				}
			}
			if ev == "" {
				// the verdict (or the error) of a helper that was handed the value
				ev = answerEvidence(v, facts, cfg.PairRule, inEngine, 0)
			}
			fault := func(kind string) {
				if ev != "" {
					res.Guarded = append(res.Guarded, Guarded{r, it.src, kind, ev})
					return
				}
				res.Findings = append(res.Findings, Finding{Instr: r, Src: it.src, Kind: kind, Chain: it.chain, Holder: v})
			}
			isMap := false
			if _, ok := v.Type().Underlying().(*types.Map); ok {
				isMap = true
			}
			switch u := r.(type) {
			case *ssa.FieldAddr:
				if u.X == v {
					fault("field access through nil pointer")
				}
			case *ssa.IndexAddr:
				if u.X == v {
					if _, isPtr := v.Type().Underlying().(*types.Pointer); isPtr {
						fault("index through nil array pointer")
					}
				}
			case *ssa.UnOp:
				if u.X == v && u.Op == token.MUL {
					fault("load through nil pointer")
				}
			case *ssa.Store:
				if u.Addr == v {
					fault("store through nil pointer")
				} else if u.Val == v {
					// a field of a local struct that is only read and written in place is a local variable too: the
					// loads that this store can reach become nullable; those that it reaches only past a nil test of
					// the cell are examined as guarded
					if k, isCell := privCellOf(u.Addr); isCell && ev == "" {
						null := reachedLoads(u, k, true)
						for _, ld := range sortedLoads(reachedLoads(u, k, false)) {
							if !null[ld] {
								if _, already := preGuarded[ld]; !already {
									preGuarded[ld] = "nil test of the variable on every way from its assignment"
								}
							} else {
								if preGuarded[ld] != "" {
									delete(seen, vk{ld, it.src.Label}) // examined as guarded before: examine again
								}
								preGuarded[ld] = ""
							}
							push(ld, it.src, it.chain, "via field of local variable "+k.al.Comment)
						}
					}
					// local variable cell: loads become nullable
					if al, ok := u.Addr.(*ssa.Alloc); ok && ev == "" {
						nstores := 0
						for _, r2 := range ssau.Referrers(al) {
							if st2, isSt := r2.(*ssa.Store); isSt && st2.Addr == ssa.Value(al) {
								nstores++
							}
						}
						for _, r2 := range ssau.Referrers(al) {
							if ld, ok := r2.(*ssa.UnOp); ok && ld.Op == token.MUL {
								if nstores == 1 && ld.Parent() == u.Parent() {
									aliasOf[ld] = append(append(aliasOf[ld], v), aliasOf[v]...)
								}
								push(ld, it.src, it.chain, "via variable "+al.Comment)
							}
							if mc, ok := r2.(*ssa.MakeClosure); ok {
								fn := mc.Fn.(*ssa.Function)
								for i, bd := range mc.Bindings {
									if bd == ssa.Value(al) && i < len(fn.FreeVars) && inEngine(fn) {
										// a variable that is assigned once, before the literal is made, and made where the
										// assigned value is known not to be nil (`te, err := admit(); if err != nil { return }; go
										// func() { use(te) }()`): what the literal reads is that value
										if nstores == 1 && assignedOnce(al) && dominatesInstr(u, mc) {
											if e2 := nonNilAt(v, mc.Block(), flow.FactsAt(mc.Block()), cfg.PairRule); e2 != "" {
												continue
											}
										}
										for _, r3 := range ssau.Referrers(fn.FreeVars[i]) {
											if ld, ok := r3.(*ssa.UnOp); ok && ld.Op == token.MUL {
												push(ld, it.src, it.chain, "via captured variable "+al.Comment)
											}
										}
									}
								}
							}
						}
					}
				}
			case *ssa.MapUpdate:
				if u.Map == v && isMap {
					fault("assignment to entry in nil map")
				}
				if u.Value == v && ev == "" {
					// kept in a map: what readers inside the engine take out of it is nullable
					for _, e := range mapElems(cfg, u.Map, inEngine, map[ssa.Value]bool{}) {
						push(e, it.src, it.chain, "kept in a map in "+prog.FuncName(u.Parent())+" and read in "+prog.FuncName(e.(ssa.Instruction).Parent()))
					}
				}
			case *ssa.Slice:
				if u.X == v {
					if _, isPtr := v.Type().Underlying().(*types.Pointer); isPtr {
						fault("slice of nil array pointer")
					}
				}
			case *ssa.Phi:
				if ev != "" {
					continue
				}
				for i, e := range u.Edges {
					if e != v {
						continue
					}
					pred := u.Block().Preds[i]
					if ef := flow.EdgeFacts(pred, u.Block()); nonNilAt(v, pred, ef, cfg.PairRule) == "" && answerEvidence(v, ef, cfg.PairRule, inEngine, 0) == "" {
						push(u, it.src, it.chain, "phi "+u.Name()+" in "+prog.FuncName(u.Parent()))
					}
				}
			case *ssa.ChangeType:
				if ev == "" {
					push(u, it.src, it.chain, "conversion")
				}
			case *ssa.Convert:
				if ev == "" {
					push(u, it.src, it.chain, "conversion")
				}
			case *ssa.MakeInterface, *ssa.ChangeInterface:
				// a nil pointer inside a non-nil interface: method calls reach the callee with a nil receiver; not followed
			case *ssa.TypeAssert:
			case ssa.CallInstruction:
				c := u.Common()
				if c.IsInvoke() {
					if c.Value == v && !it.src.WritesOnly {
						fault("method call on nil interface")
					}
					continue
				}
				if c.Value == v && !isMap {
					if _, isSig := v.Type().Underlying().(*types.Signature); isSig && !it.src.WritesOnly {
						fault("call of nil function")
					}
					continue
				}
				if ev != "" {
					continue // proven non-nil at the call
				}
				var callees []*ssa.Function
				if callee := c.StaticCallee(); callee != nil {
					callees = []*ssa.Function{callee}
				} else if cfg.FollowDynamic {
					// function literals kept in (captured) variables: resolved through the call graph
					callees = cfg.Prog.Callees(u)
				}
				for _, callee := range callees {
					if !inEngine(callee) {
						continue
					}
					for i, a := range c.Args {
						if a == v && i < len(callee.Params) {
							push(callee.Params[i], it.src, it.chain, fmt.Sprintf("argument %d of %s called from %s", i, prog.FuncName(callee), prog.FuncName(u.Parent())))
						}
					}
				}
			case *ssa.MakeClosure:
				if ev != "" {
					continue
				}
				fn := u.Fn.(*ssa.Function)
				for i, bd := range u.Bindings {
					if bd == v && i < len(fn.FreeVars) && inEngine(fn) {
						push(fn.FreeVars[i], it.src, it.chain, "captured by "+prog.FuncName(fn))
					}
				}
			case *ssa.Return:
				// result nullable at static call sites inside the engine: followed only for unexported helpers
				if ev != "" {
					continue
				}
				fn := u.Parent()
				idx := -1
				for i, rv := range u.Results {
					if rv == v {
						idx = i
					}
				}
				// the value half of a (value, error) result returned with a nil error: callers take the nil error as
				// proof that the value is there (the pair rule), so this return breaks the contract they rely on
				if idx == 0 && len(u.Results) == 2 && ssau.IsNilConst(u.Results[1]) && u.Results[1].Type().String() == "error" && it.src.PairContract {
					fault("returned as the value of a (value, nil error) pair")
				}
				if idx < 0 || fn.Object() == nil || fn.Object().Exported() {
					continue
				}
				for _, g := range cfg.Prog.AllFuncs {
					if !inEngine(g) {
						continue
					}
					ssau.Instrs(g, func(in ssa.Instruction) {
						cl, ok := in.(*ssa.Call)
						if !ok || cl.Common().StaticCallee() != fn {
							return
						}
						if len(u.Results) == 1 {
							push(cl, it.src, it.chain, "result of "+prog.FuncName(fn))
						} else {
							for _, r2 := range ssau.Referrers(cl) {
								if ex, ok := r2.(*ssa.Extract); ok && ex.Index == idx {
									push(ex, it.src, it.chain, "result of "+prog.FuncName(fn))
								}
							}
						}
					})
				}
			}
		}
	}
	sort.Slice(res.Findings, func(i, j int) bool {
		a, b := res.Findings[i], res.Findings[j]
		if a.Src.Label != b.Src.Label {
			return a.Src.Label < b.Src.Label
		}
		return a.Instr.Pos() < b.Instr.Pos()
	})
	return res
}

// assignedOnce: the local variable cell al is used for nothing but loads and stores in place in its function and
// loads in the function literals that capture it (literals in literals too): no literal assigns it and its address
// goes nowhere else.
func assignedOnce(al *ssa.Alloc) bool {
	var readOnly func(fv ssa.Value, depth int) bool
	readOnly = func(fv ssa.Value, depth int) bool {
		if depth > 4 {
			return false
		}
		for _, r := range ssau.Referrers(fv) {
			switch y := r.(type) {
			case *ssa.DebugRef:
			case *ssa.UnOp:
				if y.Op != token.MUL {
					return false
				}
			case *ssa.MakeClosure:
				fn, ok := y.Fn.(*ssa.Function)
				if !ok {
					return false
				}
				for i, bd := range y.Bindings {
					if bd == fv && (i >= len(fn.FreeVars) || !readOnly(fn.FreeVars[i], depth+1)) {
						return false
					}
				}
			default:
				return false
			}
		}
		return true
	}
	for _, r := range ssau.Referrers(al) {
		switch y := r.(type) {
		case *ssa.DebugRef:
		case *ssa.UnOp:
			if y.Op != token.MUL {
				return false
			}
		case *ssa.Store:
			if y.Addr != ssa.Value(al) || y.Val == ssa.Value(al) {
				return false
			}
		case *ssa.MakeClosure:
			fn, ok := y.Fn.(*ssa.Function)
			if !ok {
				return false
			}
			for i, bd := range y.Bindings {
				if bd == ssa.Value(al) && (i >= len(fn.FreeVars) || !readOnly(fn.FreeVars[i], 0)) {
					return false
				}
			}
		default:
			return false
		}
	}
	return true
}

// dominatesInstr: instruction a is executed before instruction b on every way to b (same function).
func dominatesInstr(a, b ssa.Instruction) bool {
	if a.Block() == nil || b.Block() == nil || a.Parent() != b.Parent() {
		return false
	}
	if a.Block() == b.Block() {
		return flow.Index(a) < flow.Index(b)
	}
	return a.Block().Dominates(b.Block())
}

// mapElems: the values that engine code reads out of the map m (lookups and range values), following m through
// phis, local variables and its return to static callers inside the engine.
func mapElems(cfg Config, m ssa.Value, inEngine func(*ssa.Function) bool, seen map[ssa.Value]bool) []ssa.Value {
	if m == nil || seen[m] {
		return nil
	}
	seen[m] = true
	var out []ssa.Value
	// a map kept in a field: every load of that field (of any value of the struct type) may be this map
	if ld, ok := m.(*ssa.UnOp); ok && ld.Op == token.MUL {
		if fa, isFA := ld.X.(*ssa.FieldAddr); isFA {
			for _, g := range cfg.Prog.AllFuncs {
				if !inEngine(g) {
					continue
				}
				ssau.Instrs(g, func(in ssa.Instruction) {
					l2, ok2 := in.(*ssa.UnOp)
					if !ok2 || l2.Op != token.MUL || seen[l2] {
						return
					}
					f2, isF2 := l2.X.(*ssa.FieldAddr)
					if !isF2 || f2.Field != fa.Field || !types.Identical(f2.X.Type(), fa.X.Type()) {
						return
					}
					out = append(out, mapElems(cfg, l2, inEngine, seen)...)
				})
			}
		}
	}
	for _, r := range ssau.Referrers(m) {
		switch u := r.(type) {
		case *ssa.Lookup:
			if u.X != m {
				continue
			}
			if u.CommaOk {
				for _, r2 := range ssau.Referrers(u) {
					if ex, ok := r2.(*ssa.Extract); ok && ex.Index == 0 {
						out = append(out, ex)
					}
				}
			} else {
				out = append(out, u)
			}
		case *ssa.Range:
			for _, r2 := range ssau.Referrers(u) {
				if nx, ok := r2.(*ssa.Next); ok {
					for _, r3 := range ssau.Referrers(nx) {
						if ex, ok := r3.(*ssa.Extract); ok && ex.Index == 2 {
							out = append(out, ex)
						}
					}
				}
			}
		case *ssa.Phi:
			out = append(out, mapElems(cfg, u, inEngine, seen)...)
		case *ssa.Store:
			if al, ok := u.Addr.(*ssa.Alloc); ok && u.Val == m {
				for _, r2 := range ssau.Referrers(al) {
					if ld, ok := r2.(*ssa.UnOp); ok && ld.Op == token.MUL {
						out = append(out, mapElems(cfg, ld, inEngine, seen)...)
					}
				}
			}
		case *ssa.Return:
			fn := u.Parent()
			idx := -1
			for i, rv := range u.Results {
				if rv == m {
					idx = i
				}
			}
			if idx < 0 {
				continue
			}
			for _, g := range cfg.Prog.AllFuncs {
				if !inEngine(g) {
					continue
				}
				ssau.Instrs(g, func(in ssa.Instruction) {
					cl, ok := in.(*ssa.Call)
					if !ok || cl.Common().StaticCallee() != fn {
						return
					}
					if len(u.Results) == 1 {
						out = append(out, mapElems(cfg, cl, inEngine, seen)...)
					} else {
						for _, r2 := range ssau.Referrers(cl) {
							if ex, ok := r2.(*ssa.Extract); ok && ex.Index == idx {
								out = append(out, mapElems(cfg, ex, inEngine, seen)...)
							}
						}
					}
				})
			}
		}
	}
	return out
}

// FieldLoads lists every load of typ.field in the given functions.
func FieldLoads(fns []*ssa.Function, pkgPath, typ, field string) []ssa.Value {
	var out []ssa.Value
	for _, f := range fns {
		ssau.Instrs(f, func(in ssa.Instruction) {
			if u, ok := in.(*ssa.UnOp); ok && u.Op == token.MUL && ssau.IsField(u.X, pkgPath, typ, field) {
				out = append(out, u)
			}
		})
	}
	return out
}

// ---- private cells: fields of a local struct that stand for local variables -------------------------------

type cellKey struct {
	al    *ssa.Alloc
	field int
}

// privCellOf: addr is the address of a field of a local struct whose address is used for nothing but field loads
// and stores in place (`var run struct{exe *Execution; err error}` with run.exe read and written): a local variable
// that go/ssa could not lift to a register.
func privCellOf(addr ssa.Value) (cellKey, bool) {
	fa, ok := addr.(*ssa.FieldAddr)
	if !ok {
		return cellKey{}, false
	}
	al, ok := fa.X.(*ssa.Alloc)
	if !ok {
		return cellKey{}, false
	}
	for _, r := range ssau.Referrers(al) {
		switch y := r.(type) {
		case *ssa.DebugRef:
		case *ssa.FieldAddr:
			for _, r2 := range ssau.Referrers(y) {
				switch z := r2.(type) {
				case *ssa.DebugRef:
				case *ssa.UnOp:
					if z.Op != token.MUL {
						return cellKey{}, false
					}
				case *ssa.Store:
					if z.Addr != ssa.Value(y) || z.Val == ssa.Value(y) {
						return cellKey{}, false
					}
				default:
					return cellKey{}, false
				}
			}
		default:
			return cellKey{}, false
		}
	}
	return cellKey{al, fa.Field}, true
}

// cellOfLoad: v is a load of a private cell.
func cellOfLoad(v ssa.Value) (cellKey, bool) {
	ld, ok := v.(*ssa.UnOp)
	if !ok || ld.Op != token.MUL {
		return cellKey{}, false
	}
	return privCellOf(ld.X)
}

func (k cellKey) isStore(in ssa.Instruction) bool {
	st, ok := in.(*ssa.Store)
	if !ok {
		return false
	}
	fa, ok := st.Addr.(*ssa.FieldAddr)
	return ok && fa.X == ssa.Value(k.al) && fa.Field == k.field
}

func (k cellKey) isLoad(in ssa.Instruction) (*ssa.UnOp, bool) {
	ld, ok := in.(*ssa.UnOp)
	if !ok || ld.Op != token.MUL {
		return nil, false
	}
	fa, ok := ld.X.(*ssa.FieldAddr)
	return ld, ok && fa.X == ssa.Value(k.al) && fa.Field == k.field
}

func (k cellKey) stores() []*ssa.Store {
	var out []*ssa.Store
	for _, r := range ssau.Referrers(k.al) {
		if fa, ok := r.(*ssa.FieldAddr); ok && fa.Field == k.field {
			for _, r2 := range ssau.Referrers(fa) {
				if st, isSt := r2.(*ssa.Store); isSt {
					out = append(out, st)
				}
			}
		}
	}
	return out
}

// mayPrecede: instruction a can be executed before instruction b in one activation.
func mayPrecede(a, b ssa.Instruction) bool {
	if a.Block() == b.Block() && flow.Index(a) < flow.Index(b) {
		return true
	}
	for _, s := range a.Block().Succs {
		if flow.Reachable(s, b.Block(), nil) {
			return true
		}
	}
	return false
}

// unchangedBetween: no store into the cell can be executed after `from` and before `to`.
func (k cellKey) unchangedBetween(from, to ssa.Instruction) bool {
	for _, st := range k.stores() {
		if mayPrecede(from, st) && mayPrecede(st, to) {
			return false
		}
	}
	return true
}

// provenBy: one of the facts says that the cell is not nil: a nil test of a load of the cell, with no store into the
// cell between that load and `at`.
func (k cellKey) provenBy(facts []flow.Fact, at ssa.Instruction) bool {
	for _, f := range facts {
		bo, ok := f.Cond.(*ssa.BinOp)
		if !ok || (bo.Op != token.EQL && bo.Op != token.NEQ) {
			continue
		}
		x, y := bo.X, bo.Y
		if ssau.IsNilConst(x) {
			x, y = y, x
		}
		if !ssau.IsNilConst(y) || (bo.Op == token.NEQ) != f.True {
			continue
		}
		xk, isCell := cellOfLoad(x)
		if !isCell || xk != k {
			continue
		}
		if k.unchangedBetween(x.(ssa.Instruction), at) {
			return true
		}
	}
	return false
}

// cellEvidence: v is a load of a private cell and the facts at the use r hold a nil test of (another load of) the
// cell that no store separates from the use.
func cellEvidence(v ssa.Value, r ssa.Instruction, facts []flow.Fact) string {
	k, ok := cellOfLoad(v)
	if !ok {
		return ""
	}
	// the tested load and v must see the same value: nothing is stored between the tested load and v, nor up to r
	for _, f := range facts {
		if k.provenBy([]flow.Fact{f}, v.(ssa.Instruction)) && k.provenBy([]flow.Fact{f}, r) {
			return "nil test of the variable"
		}
	}
	return ""
}

// onlyStoreBefore: the cell has one store in all, it stores result #idx (-1: the last) of a call, and it is executed
// before the load ld on every way to it.
func (k cellKey) onlyStoreBefore(ld ssa.Instruction, idx int) (*ssa.Store, *ssa.Extract) {
	sts := k.stores()
	if len(sts) != 1 {
		return nil, nil
	}
	st := sts[0]
	ex, ok := st.Val.(*ssa.Extract)
	if !ok {
		return nil, nil
	}
	if _, isCall := ex.Tuple.(*ssa.Call); !isCall {
		return nil, nil
	}
	want := idx
	if idx < 0 {
		want = ex.Tuple.Type().(*types.Tuple).Len() - 1
	}
	if ex.Index != want {
		return nil, nil
	}
	if st.Block() == ld.Block() {
		if flow.Index(st) > flow.Index(ld) {
			return nil, nil
		}
	} else if !st.Block().Dominates(ld.Block()) {
		return nil, nil
	}
	return st, ex
}

// pairCellEvidence is the pair rule (`exe, err := f(); if err == nil { use exe }`) for results that are kept in the
// fields of a private local record (`act.exe, act.err = f(); if act.err == nil { use act.exe }`): v reads a cell whose
// only store keeps result #0 of a call, a fact says that a read of another cell is nil, that cell's only store keeps
// the error of the same call, both stores are executed together and before the reads.
func pairCellEvidence(v ssa.Value, facts []flow.Fact) string {
	k, ok := cellOfLoad(v)
	if !ok {
		return ""
	}
	stV, exV := k.onlyStoreBefore(v.(ssa.Instruction), 0)
	if stV == nil {
		return ""
	}
	for _, f := range facts {
		bo, ok := f.Cond.(*ssa.BinOp)
		if !ok || (bo.Op != token.EQL && bo.Op != token.NEQ) {
			continue
		}
		x, y := bo.X, bo.Y
		if ssau.IsNilConst(x) {
			x, y = y, x
		}
		if !ssau.IsNilConst(y) || (bo.Op == token.EQL) != f.True {
			continue
		}
		ke, isCell := cellOfLoad(x)
		if !isCell || ke == k || x.Type().String() != "error" {
			continue
		}
		stE, exE := ke.onlyStoreBefore(x.(ssa.Instruction), -1)
		if stE == nil || exE.Tuple != exV.Tuple || stE.Block() != stV.Block() || exE.Index == exV.Index {
			continue
		}
		return "err == nil edge of the producing call (results kept in a local record)"
	}
	return ""
}

// reachedLoads: the loads of the cell that can see what store st put there: reached from st on a way that passes
// no other store into the cell and — with prune — no branch edge on which the cell is known not to be nil.
func reachedLoads(st *ssa.Store, k cellKey, prune bool) map[*ssa.UnOp]bool {
	out := map[*ssa.UnOp]bool{}
	seen := map[*ssa.BasicBlock]bool{}
	var stack []*ssa.BasicBlock
	leave := func(b *ssa.BasicBlock) {
		for _, s := range b.Succs {
			if prune && len(b.Instrs) > 0 && k.provenBy(flow.EdgeFacts(b, s), b.Instrs[len(b.Instrs)-1]) {
				continue
			}
			stack = append(stack, s)
		}
	}
	// the rest of the store's own block
	past, killed := false, false
	for _, in := range st.Block().Instrs {
		if in == ssa.Instruction(st) {
			past = true
			continue
		}
		if !past {
			continue
		}
		if ld, ok := k.isLoad(in); ok {
			out[ld] = true
		}
		if k.isStore(in) {
			killed = true
			break
		}
	}
	if !killed {
		leave(st.Block())
	}
	for len(stack) > 0 {
		b := stack[len(stack)-1]
		stack = stack[:len(stack)-1]
		if seen[b] {
			continue
		}
		seen[b] = true
		killed := false
		for _, in := range b.Instrs {
			if ld, ok := k.isLoad(in); ok {
				out[ld] = true
			}
			if k.isStore(in) {
				killed = true
				break
			}
		}
		if !killed {
			leave(b)
		}
	}
	return out
}

func sortedLoads(m map[*ssa.UnOp]bool) []*ssa.UnOp {
	var out []*ssa.UnOp
	for ld := range m {
		out = append(out, ld)
	}
	sort.Slice(out, func(i, j int) bool {
		return out[i].Pos() < out[j].Pos() || (out[i].Pos() == out[j].Pos() && out[i].Name() < out[j].Name())
	})
	return out
}

// Package report does the obligation bookkeeping: every rule produces
// obligations keyed by rule + construct (never by line); a check fails when an
// obligation is violated and not listed as a known finding, when an anchor is
// unresolved, or when a rule matched fewer instances than confirmed by hand.
package report

import (
	"encoding/json"
	"fmt"
	"os"
	"path/filepath"
	"sort"
	"strings"
	"time"
)

type Status string

const (
	OK        Status = "discharged"
	Violated  Status = "violated"
	Undecided Status = "undecided"
)

// Obligation is one rule instance.
type Obligation struct {
	Rule   string `json:"rule"`
	Key    string `json:"key"`    // rule|construct descriptor, position-free
	Pos    string `json:"pos"`    // file:line, informational only
	Status Status `json:"status"` //
	Arg    string `json:"argument,omitempty"`
	Detail string `json:"detail,omitempty"`
	Known  bool   `json:"known_finding,omitempty"`
}

type RuleInfo struct {
	ID        string `json:"id"`
	Engine    string `json:"engine"`
	Text      string `json:"text"`
	Min       int    `json:"min_instances"`
	Instances int    `json:"instances"`
	Violated  int    `json:"violated"`
}

type Result struct {
	Property    string
	Tier        string
	Seed        int
	Start       time.Time
	Rules       []*RuleInfo
	rulesByID   map[string]*RuleInfo
	Obls        []*Obligation
	Broken      []string // checker-level failures (unresolved anchors, vacuity)
	Functions   map[string]bool
	Remarks     []string
	Explanation string
	Assumptions []string
	Extra       map[string]interface{}
	Fixture     []string // fixture positives confirmed this run
}

func New(property, tier string, seed int) *Result {
	return &Result{Property: property, Tier: tier, Seed: seed, Start: time.Now(), rulesByID: map[string]*RuleInfo{}, Functions: map[string]bool{}, Extra: map[string]interface{}{}}
}

// Rule declares a rule (id, engine, text, minimum instance count).
func (r *Result) Rule(id, engine, text string, min int) *RuleInfo {
	if ri, ok := r.rulesByID[id]; ok {
		return ri
	}
	ri := &RuleInfo{ID: id, Engine: engine, Text: text, Min: min}
	r.rulesByID[id] = ri
	r.Rules = append(r.Rules, ri)
	return ri
}

func (r *Result) add(rule, key, pos string, st Status, arg, detail string) *Obligation {
	ri := r.rulesByID[rule]
	if ri == nil {
		ri = r.Rule(rule, "?", "(undeclared)", 0)
	}
	fullKey := rule + "|" + key
	// de-duplicate identical keys: keep the worst status
	for _, o := range r.Obls {
		if o.Key == fullKey {
			if st == Violated && o.Status != Violated {
				o.Status, o.Pos, o.Arg, o.Detail = st, pos, arg, detail
				ri.Violated++
			}
			return o
		}
	}
	o := &Obligation{Rule: rule, Key: fullKey, Pos: pos, Status: st, Arg: arg, Detail: detail}
	r.Obls = append(r.Obls, o)
	ri.Instances++
	if st != OK {
		ri.Violated++
	}
	return o
}

func (r *Result) Discharge(rule, key, pos, argument string) {
	r.add(rule, key, pos, OK, argument, "")
}
func (r *Result) Violate(rule, key, pos, detail string) { r.add(rule, key, pos, Violated, "", detail) }
func (r *Result) Undecide(rule, key, pos, detail string) {
	r.add(rule, key, pos, Undecided, "", detail)
}

// Check adds an obligation that is discharged iff ok.
func (r *Result) Check(ok bool, rule, key, pos, argument, detail string) {
	if ok {
		r.Discharge(rule, key, pos, argument)
	} else {
		r.Violate(rule, key, pos, detail)
	}
}

// Break records a checker-level failure (anchor unresolved, analysis panic).
func (r *Result) Break(format string, a ...interface{}) {
	r.Broken = append(r.Broken, fmt.Sprintf(format, a...))
}
func (r *Result) Remark(format string, a ...interface{}) {
	r.Remarks = append(r.Remarks, fmt.Sprintf(format, a...))
}
func (r *Result) Fn(names ...string) {
	for _, n := range names {
		r.Functions[n] = true
	}
}

// ---- known findings -------------------------------------------------------

type Finding struct {
	Property string `json:"property"`
	Rule     string `json:"rule"`
	Key      string `json:"key"`
	Status   string `json:"status"` // "known" | "fixed"
	Commit   string `json:"commit,omitempty"`
	What     string `json:"what"`
}

func LoadFindings(path string) ([]Finding, error) {
	b, err := os.ReadFile(path)
	if err != nil {
		if os.IsNotExist(err) {
			return nil, nil
		}
		return nil, err
	}
	var fs []Finding
	if err := json.Unmarshal(b, &fs); err != nil {
		return nil, fmt.Errorf("%s: %v", path, err)
	}
	return fs, nil
}

// MinFailures lists the rules that matched fewer instances than confirmed by hand.
func (r *Result) MinFailures() []string {
	var out []string
	for _, ri := range r.Rules {
		if ri.Instances < ri.Min {
			out = append(out, fmt.Sprintf("rule %s matched %d instances, fewer than %d", ri.ID, ri.Instances, ri.Min))
		}
	}
	return out
}

// Finish applies known findings, checks minimum counts, writes evidence and
// replay files, prints the verdict lines and returns the exit code.
func (r *Result) Finish(verifDir string, findings []Finding) int {
	known := map[string]Finding{}
	for _, f := range findings {
		if f.Property == r.Property && f.Status == "known" {
			known[f.Key] = f
		}
	}
	for _, ri := range r.Rules {
		if ri.Instances < ri.Min {
			r.Break("rule %s matched %d instances, fewer than the %d confirmed by hand (vacuous or anchor lost)", ri.ID, ri.Instances, ri.Min)
		}
	}
	sort.SliceStable(r.Obls, func(i, j int) bool { return r.Obls[i].Key < r.Obls[j].Key })
	var viol, knownHit []*Obligation
	discharged := 0
	for _, o := range r.Obls {
		switch o.Status {
		case OK:
			discharged++
		default:
			if f, ok := known[o.Key]; ok && o.Status == Violated {
				o.Known = true
				knownHit = append(knownHit, o)
				_ = f
			} else {
				viol = append(viol, o)
			}
		}
	}
	evDir := filepath.Join(verifDir, "evidence")
	os.MkdirAll(filepath.Join(evDir, "replay"), 0o755)
	// remove stale replay files of this property
	if old, _ := filepath.Glob(filepath.Join(evDir, "replay", r.Property+"-*.json")); old != nil {
		for _, f := range old {
			os.Remove(f)
		}
	}
	exit := 0
	for _, o := range knownHit {
		fmt.Printf("KNOWN-FINDING: property=%s %s [%s] at %s\n", r.Property, known[o.Key].What, o.Key, o.Pos)
	}
	for i, o := range viol {
		path := filepath.Join(evDir, "replay", fmt.Sprintf("%s-%d.json", r.Property, i+1))
		b, _ := json.MarshalIndent(map[string]interface{}{"property": r.Property, "rule": o.Rule, "key": o.Key, "pos": o.Pos, "status": o.Status, "detail": o.Detail,
			"rule_text": r.rulesByID[o.Rule].Text}, "", " ")
		os.WriteFile(path, b, 0o644)
		fmt.Printf("  %s %s at %s: %s\n", strings.ToUpper(string(o.Status)), o.Key, o.Pos, o.Detail)
		fmt.Printf("VIOLATION property=%s replay=%s\n", r.Property, path)
		exit = 1
	}
	for i, b := range r.Broken {
		// an unresolved anchor, a vacuous rule or an analysis failure is reported
		// like a violation: the rule's necessary condition could not be established.
		path := filepath.Join(evDir, "replay", fmt.Sprintf("%s-broken-%d.json", r.Property, i+1))
		bb, _ := json.MarshalIndent(map[string]interface{}{"property": r.Property, "rule": "CHECKER", "detail": b}, "", " ")
		os.WriteFile(path, bb, 0o644)
		fmt.Printf("  UNDECIDED %s\n", b)
		fmt.Printf("VIOLATION property=%s replay=%s\n", r.Property, path)
		exit = 1
	}
	// evidence
	var fns []string
	for f := range r.Functions {
		fns = append(fns, f)
	}
	sort.Strings(fns)
	samples := []interface{}{}
	perRule := map[string]int{}
	for _, o := range r.Obls {
		if o.Status != OK || perRule[o.Rule] < 6 {
			samples = append(samples, o)
			perRule[o.Rule]++
		}
	}
	cov := map[string]interface{}{
		"explanation":        r.Explanation,
		"obligations":        len(r.Obls),
		"discharged":         discharged,
		"known_findings":     len(knownHit),
		"violated":           len(viol),
		"functions_analysed": fns,
		"functions_count":    len(fns),
		"rules":              r.Rules,
		"samples":            samples,
		"all_obligation_keys": func() []string {
			var ks []string
			for _, o := range r.Obls {
				ks = append(ks, o.Key+" @"+o.Pos+" ["+string(o.Status)+"]")
			}
			return ks
		}(),
		"remarks":           r.Remarks,
		"fixture_positives": r.Fixture,
		"checker_failures":  r.Broken,
		"exhaustive":        true,
		"rule":              "every obligation is one rule instance enumerated from /repo's current type-checked SSA/AST; exhaustive over the analysed functions",
		"checker_cmd":       "sheens-verif check " + r.Property + " --tier " + r.Tier,
		"trusted_base":      []string{"go/types, go/ssa, VTA call graph of golang.org/x/tools v0.29.0", "external-call model A3", "callback contract A2"},
	}
	for k, v := range r.Extra {
		cov[k] = v
	}
	ev := map[string]interface{}{
		"property_id": r.Property,
		"tier":        r.Tier,
		"seed":        r.Seed,
		"level":       "other",
		"coverage":    cov,
		"assumptions": r.Assumptions,
		"wall_s":      time.Since(r.Start).Seconds(),
		"violations":  len(viol),
	}
	b, _ := json.MarshalIndent(ev, "", " ")
	if err := os.WriteFile(filepath.Join(evDir, r.Property+".json"), b, 0o644); err != nil {
		fmt.Printf("BROKEN-CHECK property=%s cannot write evidence: %v\n", r.Property, err)
		exit = 1
	}
	fmt.Printf("%s %s: %d obligations, %d discharged, %d known findings, %d violations, %d checker failures, %d functions, %.1fs\n",
		r.Property, r.Tier, len(r.Obls), discharged, len(knownHit), len(viol), len(r.Broken), len(fns), time.Since(r.Start).Seconds())
	return exit
}

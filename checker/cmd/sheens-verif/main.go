// sheens-verif decides the properties of /verif/properties.jsonl for the
// Comcast/sheens tree in /repo by static analysis only.
package main

import (
	"encoding/json"
	"flag"
	"fmt"
	"os"
	"path/filepath"
	"runtime/debug"
	"sort"
	"strconv"

	"sheensverif/internal/patch"
	"sheensverif/internal/prog"
	"sheensverif/internal/report"
	"sheensverif/rules"
)

func usage() {
	fmt.Fprintln(os.Stderr, "usage: sheens-verif check <Cxx> [--tier quick|thorough] [--repo /repo] [--verif /verif]")
	os.Exit(2)
}

func main() {
	if len(os.Args) < 3 {
		usage()
	}
	cmd, id := os.Args[1], os.Args[2]
	fs := flag.NewFlagSet("check", flag.ExitOnError)
	tier := fs.String("tier", envOr("VERIF_TIER", "quick"), "quick|thorough")
	repo := fs.String("repo", envOr("VERIF_REPO", "/repo"), "repository to analyse")
	verif := fs.String("verif", envOr("VERIF_DIR", "/verif"), "verif directory (evidence, known findings)")
	fs.Parse(os.Args[3:])
	seed, _ := strconv.Atoi(os.Getenv("VERIF_SEED"))
	switch cmd {
	case "check":
		os.Exit(check(id, *tier, *repo, *verif, seed))
	case "list":
		var ids []string
		for k := range rules.Registry {
			ids = append(ids, k)
		}
		sort.Strings(ids)
		fmt.Println(ids)
	default:
		usage()
	}
}

func envOr(k, d string) string {
	if v := os.Getenv(k); v != "" {
		return v
	}
	return d
}

func check(id, tier, repo, verif string, seed int) (exit int) {
	rf, ok := rules.Registry[id]
	if !ok {
		fmt.Fprintf(os.Stderr, "no check for %s\n", id)
		return 2
	}
	if tier != "quick" && tier != "thorough" {
		tier = "quick"
	}
	res := report.New(id, tier, seed)
	res.Assumptions = rules.Assumptions
	findings, err := report.LoadFindings(filepath.Join(verif, "known_findings.json"))
	if err != nil {
		res.Break("known_findings.json unreadable: %v", err)
	}
	p, err := prog.Load(repo, false, nil)
	if err != nil {
		res.Break("cannot load %s: %v", repo, err)
		return res.Finish(verif, findings)
	}
	res.Extra["packages_loaded"] = len(p.SSAPkgs)
	res.Extra["repo_functions"] = len(p.AllFuncs)
	func() {
		defer func() {
			if r := recover(); r != nil {
				if os.Getenv("VERIF_TRACE") != "" {
					fmt.Fprintf(os.Stderr, "%s\n", debug.Stack())
				}
				res.Break("analysis panic: %v", r)
			}
		}()
		rf(&rules.Ctx{P: p, R: res, Tier: tier})
	}()
	if tier == "thorough" {
		selfTest(id, repo, verif, res, findings, rf)
	}
	return res.Finish(verif, findings)
}

// selfTest (thorough tier): every seeded breaking change kept under
// <verif>/seeded is applied in memory (go/packages overlay — /repo is not
// touched) and the property's rules are run on the result.  A change that
// targets this property and is not reported is a weakness of the checker; it is
// recorded in the evidence and never turns into a verdict about /repo.
func selfTest(id, repo, verif string, res *report.Result, findings []report.Finding, rf rules.RuleFunc) {
	dirs, _ := filepath.Glob(filepath.Join(verif, "seeded", "C*-*"))
	sort.Strings(dirs)
	known := map[string]bool{}
	for _, f := range findings {
		if f.Property == id && f.Status == "known" {
			known[f.Key] = true
		}
	}
	type outcome struct {
		Seed    string   `json:"seed"`
		Targets string   `json:"targets"`
		Status  string   `json:"status"` // killed | alive | stale
		Reports []string `json:"reports,omitempty"`
	}
	var outs []outcome
	killedT, totalT, stale := 0, 0, 0
	for _, d := range dirs {
		name := filepath.Base(d)
		target := name[:3]
		// a seed whose defect changed character when /repo was repaired names the property it breaks now
		if js, err := os.ReadFile(filepath.Join(d, "meta.json")); err == nil {
			var meta struct {
				Retargeted string `json:"retargeted"`
			}
			if json.Unmarshal(js, &meta) == nil && meta.Retargeted != "" {
				target = meta.Retargeted
			}
		}
		if target != id {
			continue
		}
		ov, err := patch.Apply(repo, filepath.Join(d, "patch.diff"))
		if err != nil {
			outs = append(outs, outcome{name, target, "stale", []string{err.Error()}})
			stale++
			continue
		}
		p, err := prog.Load(repo, false, ov)
		if err != nil {
			outs = append(outs, outcome{name, target, "stale", []string{err.Error()}})
			stale++
			continue
		}
		r2 := report.New(id, "thorough", 0)
		func() {
			defer func() {
				if r := recover(); r != nil {
					r2.Break("analysis panic: %v", r)
				}
			}()
			rf(&rules.Ctx{P: p, R: r2, Tier: "quick"})
		}()
		var reps []string
		for _, o := range r2.Obls {
			if o.Status != report.OK && !known[o.Key] {
				reps = append(reps, o.Key)
			}
		}
		reps = append(reps, r2.Broken...)
		reps = append(reps, r2.MinFailures()...)
		totalT++
		st := "alive"
		if len(reps) > 0 {
			st = "killed"
			killedT++
		}
		if len(reps) > 4 {
			reps = reps[:4]
		}
		outs = append(outs, outcome{name, target, st, reps})
	}
	// the other direction: behaviour-preserving refactorings of the code this property talks about must stay silent
	rdirs, _ := filepath.Glob(filepath.Join(verif, "refactors", id+"-*"))
	sort.Strings(rdirs)
	var routs []outcome
	silent, totalR := 0, 0
	for _, d := range rdirs {
		name := filepath.Base(d)
		ov, err := patch.Apply(repo, filepath.Join(d, "patch.diff"))
		if err != nil {
			routs = append(routs, outcome{name, id, "stale", []string{err.Error()}})
			continue
		}
		p, err := prog.Load(repo, false, ov)
		if err != nil {
			routs = append(routs, outcome{name, id, "stale", []string{err.Error()}})
			continue
		}
		r2 := report.New(id, "thorough", 0)
		func() {
			defer func() {
				if r := recover(); r != nil {
					r2.Break("analysis panic: %v", r)
				}
			}()
			rf(&rules.Ctx{P: p, R: r2, Tier: "quick"})
		}()
		var reps []string
		for _, o := range r2.Obls {
			if o.Status != report.OK && !known[o.Key] {
				reps = append(reps, o.Key)
			}
		}
		reps = append(reps, r2.Broken...)
		reps = append(reps, r2.MinFailures()...)
		totalR++
		st := "silent"
		if len(reps) > 0 {
			st = "false-alarm"
		} else {
			silent++
		}
		if len(reps) > 4 {
			reps = reps[:4]
		}
		routs = append(routs, outcome{name, id, st, reps})
	}
	res.Extra["selftest_refactorings"] = map[string]interface{}{
		"what":         "behaviour-preserving refactorings of the code this property talks about (confirmed: compile, pass the suite) analysed through an in-memory overlay; every one must stay silent",
		"total":        totalR,
		"silent":       silent,
		"false_alarms": totalR - silent,
		"outcomes":     routs,
	}
	fmt.Printf("%s selftest: %d/%d behaviour-preserving refactorings stay silent\n", id, silent, totalR)
	res.Extra["selftest"] = map[string]interface{}{
		"what":             "seeded breaking changes for this property (confirmed: compile, pass the suite, demonstration fails) analysed through an in-memory overlay",
		"mutants_total":    totalT,
		"mutants_killed":   killedT,
		"mutants_stale":    stale,
		"outcomes":         outs,
		"checker_weakness": totalT - killedT,
	}
	fmt.Printf("%s selftest: %d/%d seeded changes for this property reported, %d stale\n", id, killedT, totalT, stale)
}

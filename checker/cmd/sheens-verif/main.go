// sheens-verif decides the properties of /verif/properties.jsonl for the
// Comcast/sheens tree in /repo by static analysis only.
package main

import (
	"flag"
	"fmt"
	"os"
	"path/filepath"
	"sort"
	"strconv"

	"sheensverif/internal/prog"
	"sheensverif/internal/report"
	"sheensverif/rules"
)

func usage() {
	fmt.Fprintln(os.Stderr, "usage: sheens-verif check <Cxx> [--tier quick|thorough] [--repo /repo] [--verif /verif]")
	os.Exit(2)
}

func main() {
	if len(os.Args) < 3 {
		usage()
	}
	cmd, id := os.Args[1], os.Args[2]
	fs := flag.NewFlagSet("check", flag.ExitOnError)
	tier := fs.String("tier", envOr("VERIF_TIER", "quick"), "quick|thorough")
	repo := fs.String("repo", envOr("VERIF_REPO", "/repo"), "repository to analyse")
	verif := fs.String("verif", envOr("VERIF_DIR", "/verif"), "verif directory (evidence, known findings)")
	fs.Parse(os.Args[3:])
	seed, _ := strconv.Atoi(os.Getenv("VERIF_SEED"))
	switch cmd {
	case "check":
		os.Exit(check(id, *tier, *repo, *verif, seed))
	case "list":
		var ids []string
		for k := range rules.Registry {
			ids = append(ids, k)
		}
		sort.Strings(ids)
		fmt.Println(ids)
	default:
		usage()
	}
}

func envOr(k, d string) string {
	if v := os.Getenv(k); v != "" {
		return v
	}
	return d
}

func check(id, tier, repo, verif string, seed int) (exit int) {
	rf, ok := rules.Registry[id]
	if !ok {
		fmt.Fprintf(os.Stderr, "no check for %s\n", id)
		return 2
	}
	if tier != "quick" && tier != "thorough" {
		tier = "quick"
	}
	res := report.New(id, tier, seed)
	res.Assumptions = rules.Assumptions
	findings, err := report.LoadFindings(filepath.Join(verif, "known_findings.json"))
	if err != nil {
		res.Break("known_findings.json unreadable: %v", err)
	}
	p, err := prog.Load(repo, tier == "thorough", nil)
	if err != nil {
		res.Break("cannot load %s: %v", repo, err)
		return res.Finish(verif, findings)
	}
	res.Extra["packages_loaded"] = len(p.SSAPkgs)
	res.Extra["repo_functions"] = len(p.AllFuncs)
	func() {
		defer func() {
			if r := recover(); r != nil {
				res.Break("analysis panic: %v", r)
			}
		}()
		rf(&rules.Ctx{P: p, R: res, Tier: tier})
	}()
	return res.Finish(verif, findings)
}

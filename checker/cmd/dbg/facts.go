package main

import (
	"fmt"

	"golang.org/x/tools/go/ssa"

	"sheensverif/internal/flow"
)

func dumpFacts(fn *ssa.Function) {
	for _, b := range fn.Blocks {
		fs := flow.FactsAt(b)
		if len(fs) > 0 {
			fmt.Printf("block %d facts:", b.Index)
			for _, f := range fs {
				fmt.Printf(" (%s,%v)", f.Cond.Name(), f.True)
			}
			fmt.Println()
		}
	}
}

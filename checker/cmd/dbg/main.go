package main

import (
	"fmt"
	"os"

	"golang.org/x/tools/go/ssa"

	"sheensverif/internal/prog"
	"sheensverif/internal/pta"
	"sheensverif/internal/ssau"
)

func main() {
	p, err := prog.Load("/repo", false, nil)
	if err != nil {
		panic(err)
	}
	step := p.Func("core", "Spec", "Step")
	walk := p.Func("core", "Spec", "Walk")
	names := []string{"spec", "", "state", "pending", "control", "props"}
	levels := []int{4, 0, 3, 2, 2, 2}
	r := map[int]pta.RootSpec{}
	for i, n := range names {
		if n != "" {
			r[i] = pta.RootSpec{Name: n, Levels: levels[i]}
		}
	}
	a := pta.New(pta.Config{Prog: p, EnginePkgs: map[string]bool{"core": true, "match": true}, Entries: []*ssa.Function{step, walk},
		Roots: map[*ssa.Function]map[int]pta.RootSpec{step: r, walk: r}})
	a.Run()
	fn := p.Func(os.Args[1], os.Args[2], os.Args[3])
	if len(os.Args) > 4 {
		for _, an := range ssau.WithAnon(fn) {
			if an.Name() == os.Args[4] {
				fn = an
			}
		}
	}
	fn.WriteTo(os.Stdout)
	dumpFacts(fn)
	fmt.Println("pruned", a.PrunedPhis)
	for _, b := range fn.Blocks {
		for _, in := range b.Instrs {
			if v, ok := in.(ssa.Value); ok && pta.PointerLike(v.Type()) {
				fmt.Printf("%s = ", v.Name())
				for _, l := range a.PointsTo(v) {
					fmt.Printf("%s ", pta.LocString(l))
				}
				fmt.Println()
			}
		}
	}
	for _, pr := range fn.Params {
		fmt.Printf("param %s = ", pr.Name())
		for _, l := range a.PointsTo(pr) {
			fmt.Printf("%s ", pta.LocString(l))
		}
		fmt.Println()
	}
}

package rules

import (
	"fmt"
	"go/token"
	"go/types"
	"sort"
	"strings"

	"golang.org/x/tools/go/ssa"

	"sheensverif/internal/flow"
	"sheensverif/internal/prog"
	"sheensverif/internal/ssau"
)

func C15(c *Ctx) {
	c.R.Explanation = "Decides structural necessary conditions of 'reported changes suffice' for package sio: (R1) report and apply are paired — in RunMachine every path from the assignment of the live machine's state to a return also records that state in the change cache (and vice versa), SetMachine applies a given state to an existing machine as well as recording it, DeleteMachine both removes the machine and records the deletion, and one crew operation performs its updates before its deletions (a deletion flag is never cleared by a later update within the same report); (R2) every persisted field of Changed is propagated by GetChanged, a reported deletion also forgets the last-reported record used for duplicate suppression, the reference consumer applies every persisted field, and the boot path hands every persisted field of a stored machine to SetMachine. (R3) anywhere in package sio, an assignment of the State or SpecSource of a machine that can be a member of Crew.Machines is covered, under the facts holding at the assignment, by a record of the same field in the change cache in the same function (before it on every path, or after it on every path), except the initialisation of an absent (nil) field. (R4) every successful return of RunMachine returns the result of its core Walk call (no live-only shortcut can answer for the machine), and that walk starts from the machine's recorded State with the machine's current spec. (R5) crew.SpecSource.Copy — through which the reference consumer stores a reported spec source — gives every persisted field of the copy the receiver's own field value (a pointer may be shared, or copied by a function that is itself faithful in this sense), so what a rebuilt crew loads is what was reported. Equality of a rebuilt crew's behaviour is not decided."
	c.R.Rule("C15-R1", "E3", "report and apply are paired", 5)
	c.R.Rule("C15-R2", "E6", "field exhaustiveness of the change report and its consumers", 6)
	c.R.Rule("C15-R5", "E6", "the copy the store keeps of a reported spec source is faithful", 1)
	c.shareRule("C09", "C09-R2", "C15-R9", "what a script returns is stored as it will be read back: bindings are brought into their JSON form before they become the state")
	c.shareRule("C10", "C10-R2", "C15-R12", "a live machine's bindings change only through a reported transition: nothing a script is given shares structure with them")
	c.shareRule("C14", "C14-R10", "C15-R16", "every result, with the changes it reports, is handed to the consumer: the hand-off is under no condition that arises after processing (no give-up on a slow consumer)")
	c.R.Rule("C15-R15", "E1", "SetMachine installs the state it is given as it is", 1)
	c15SetMachineInstallsAsGiven(c, "C15-R15")
	c.R.Rule("C15-R14", "E3", "an entry leaves the report only as a duplicate, and none of its fields is cleared", 3)
	c15ReportNotTrimmed(c, "C15-R14")
	c.R.Rule("C15-R13", "E3", "every change of the pending timers is reported", 3)
	c15TimersChangeReported(c, "C15-R13")
	c.shareRule("C09", "C09-R11", "C15-R11", "the crew keeps nothing about a machine outside what it reports")
	c.shareRule("C16", "C16-R9", "C15-R10", "mcrew's store keeps every machine's specification source: each record Process writes carries it")
	c.shareRule("C09", "C09-R1", "C15-R7", "what the engine puts into bindings survives the store's JSON form unchanged (a state equal as text behaves equally)")
	c.R.Rule("C15-R8", "E5", "the stdio host's store starts from what the crew is rebuilt from: Read decodes into the field the output loop updates and writeState writes", 1)
	c15StoreSeeded(c, "C15-R8")
	c.R.Rule("C15-R6", "E1", "nothing behaviour-relevant lives outside the reported node and bindings: no script runtime outlives an execution", 3)
	if ea, ex := c.ecmaAnalysis(); ea != nil {
		c.runtimeFresh("C15-R6", ea, ex)
	}
	c.R.Rule("C15-R4", "E3", "a crew's reaction is a walk from the recorded state: RunMachine returns only what Walk returned, walked from Machine.State", 2)
	c.R.Rule("C15-R3", "E3", "who may change a live machine: every assignment of a crew machine's persisted fields anywhere in package sio is covered by a change record", 3)
	runM := c.fn("sio", "Crew", "RunMachine")
	setM := c.fn("sio", "Crew", "SetMachine")
	delM := c.fn("sio", "Crew", "DeleteMachine")
	getC := c.fn("sio", "Crew", "GetChanged")
	// (the get-or-create helper of the change cache is one way to obtain the cache entry for a machine; the entry is
	// recognised as a construct, see changeRecordKey, so the helper need not exist)
	change := c.P.Func("sio", "Crew", "change")
	if change != nil && change.Blocks == nil {
		change = nil
	}
	doOp := c.fn("sio", "Crew", "DoOp")
	if runM == nil || setM == nil || delM == nil || getC == nil || doOp == nil {
		return
	}
	c.R.Fn(fname(runM), fname(setM), fname(delM), fname(getC), fname(doOp))
	if change != nil {
		c.R.Fn(fname(change))
	}
	isChangeField := func(addr ssa.Value, field string) bool {
		if !ssau.IsField(addr, prog.Abs("sio"), "Changed", field) {
			return false
		}
		_, _, base, _ := ssau.FieldOf(addr)
		return isChangeRecord(base)
	}
	// ---- R1 RunMachine
	// (in RunMachine, or in the helper of package sio it hands the walk to)
	var applies, reports []*ssa.Store
	for _, rf := range pkgClosure(runM) {
		if prog.PkgOf(rf) != "sio" || (change != nil && rf == change) || rf == setM || rf == delM {
			continue
		}
		ssau.Instrs(rf, func(in ssa.Instruction) {
			st, ok := in.(*ssa.Store)
			if !ok {
				return
			}
			if ssau.IsField(st.Addr, prog.Abs("crew"), "Machine", "State") {
				applies = append(applies, st)
			}
			if isChangeField(st.Addr, "State") {
				reports = append(reports, st)
			}
		})
	}
	okPair := len(applies) == 1 && len(reports) == 1
	why := fmt.Sprintf("%d assignments of the live state, %d records in the change cache", len(applies), len(reports))
	if okPair && applies[0].Parent() != reports[0].Parent() {
		okPair, why = false, "the live state is assigned in "+applies[0].Parent().Name()+" and the change recorded in "+reports[0].Parent().Name()
	}
	runM0 := runM
	if okPair {
		runM = applies[0].Parent()
	}
	if okPair {
		a, r := applies[0], reports[0]
		// no return reachable between them: every path from the first to a return passes the second, both ways
		first, second := ssa.Instruction(a), ssa.Instruction(r)
		if !flow.InstrDominates(first, second) {
			first, second = second, first
		}
		if !flow.InstrDominates(first, second) {
			okPair, why = false, "neither dominates the other"
		} else if first.Block() != second.Block() {
			// returns reachable from first avoiding second's block
			for _, b := range runM.Blocks {
				if _, isRet := b.Instrs[len(b.Instrs)-1].(*ssa.Return); isRet && b != second.Block() {
					if flow.Reachable(first.Block(), b, map[*ssa.BasicBlock]bool{second.Block(): true}) {
						okPair, why = false, "a return at "+c.pos(b.Instrs[len(b.Instrs)-1])+" lies between applying the new state and reporting it"
					}
				}
			}
		} else {
			for i := flow.Index(first) + 1; i < flow.Index(second); i++ {
				if _, isRet := first.Block().Instrs[i].(*ssa.Return); isRet {
					okPair = false
				}
			}
		}
		// both derive from the walk's final state
		for _, st := range []*ssa.Store{a, r} {
			cl, isC := st.Val.(*ssa.Call)
			if !isC || cl.Common().StaticCallee() == nil || cl.Common().StaticCallee().Name() != "Copy" {
				okPair, why = false, "the state applied / reported is not a copy of the walk's final state"
			}
		}
	}
	runM = runM0
	c.R.Check(okPair, "C15-R1", "RunMachine: state applied iff reported", c.P.Pos(runM.Pos()), "one assignment of Machine.State and one record of Changed.State, with no exit in between", "a machine can move without the move being reported (or be reported without moving): "+why)
	// SetMachine: state recorded and applied
	// (setScope: SetMachine and the helpers of package sio it hands parts of its work to; a construct in a helper is
	// judged under the facts of the way that leads to it, see framePaths)
	setScope := []*ssa.Function{setM}
	for _, f := range pkgClosure(setM) {
		if f != setM && prog.PkgOf(f) == "sio" {
			setScope = append(setScope, f)
		}
	}
	inSetScope := func(visit func(in ssa.Instruction)) {
		for _, f := range setScope {
			ssau.Instrs(f, visit)
		}
	}
	var recState, recSrc bool
	var applyExisting, applyNew bool
	ssau.Instrs(setM, func(in ssa.Instruction) {
		st, ok := in.(*ssa.Store)
		if !ok {
			return
		}
		if isChangeField(st.Addr, "State") {
			recState = true
		}
		if isChangeField(st.Addr, "SpecSrc") {
			recSrc = true
		}
		if ssau.IsField(st.Addr, prog.Abs("crew"), "Machine", "State") {
			_, _, base, _ := ssau.FieldOf(st.Addr)
			if localFresh(base) {
				applyNew = true
			} else {
				// existing machine: under have == true and state != nil
				for _, f := range flow.FactsAt(st.Block()) {
					if ex, isEx := f.Cond.(*ssa.Extract); isEx && ex.Index == 1 && f.True {
						if lk, isLk := ex.Tuple.(*ssa.Lookup); isLk {
							if _, is := ssau.LoadOfField(lk.X, prog.Abs("sio"), "Crew", "Machines"); is {
								applyExisting = true
							}
						}
					}
				}
			}
		}
	})
	// a spec source is reported only once it is in effect: no error return is reachable after the record
	{
		okLate, whyLate := true, ""
		nrec := 0
		ssau.Instrs(setM, func(in ssa.Instruction) {
			st, ok := in.(*ssa.Store)
			if !ok || !isChangeField(st.Addr, "SpecSrc") {
				return
			}
			nrec++
			after := flow.ReachableFrom(st.Block(), nil)
			after[st.Block()] = true
			for b := range after {
				ret, isRet := b.Instrs[len(b.Instrs)-1].(*ssa.Return)
				if !isRet || len(ret.Results) == 0 {
					continue
				}
				if b == st.Block() {
					// same block: the return follows the record; only its value matters
				}
				if !provablyNil(ret.Results[len(ret.Results)-1], b) {
					okLate, whyLate = false, "SetMachine can still fail ("+c.pos(ret)+") after it recorded the new spec source ("+c.pos(st)+"): the rejected source is reported and stored although the live machine keeps its old spec"
				}
			}
		})
		c.R.Check(okLate && nrec > 0, "C15-R1", "SetMachine: a spec source is reported only when it is in effect", c.P.Pos(setM.Pos()), "no error return is reachable after the record of Changed.SpecSrc", whyLate)
	}
	// a machine created anew under an id whose deletion is still pending: what the store holds for the id is the
	// deleted machine's state, so the new machine's state is recorded with the change (whether or not the caller
	// gave one)
	{
		okRe, whyRe := false, "where SetMachine finds a pending deletion for a machine it has just created it records no state: the store keeps the deleted machine's state under the id, and a crew rebuilt from it resumes the old machine"
		inSetScope(func(in ssa.Instruction) {
			st, ok := in.(*ssa.Store)
			if !ok || !ssau.IsField(st.Addr, prog.Abs("sio"), "Changed", "State") {
				return
			}
			// the value: the (new) machine's own state
			isMachineState := false
			for _, d := range deepDefs(st.Val, setScope) {
				if _, is := ssau.LoadOfField(d, prog.Abs("crew"), "Machine", "State"); is {
					isMachineState = true
				}
			}
			if !isMachineState {
				return
			}
			// under "Deleted is set" on the pending record
			for _, p := range framePaths(st, setM, setScope) {
				for _, f := range p.facts {
					if ld, isLd := f.Cond.(*ssa.UnOp); isLd && f.True && ssau.IsField(ld.X, prog.Abs("sio"), "Changed", "Deleted") {
						okRe = true
					}
				}
			}
		})
		c.R.Check(okRe, "C15-R1", "SetMachine: a machine created over a pending deletion has its state reported", c.P.Pos(setM.Pos()), "Changed.State = the machine's State where the pending record says Deleted", whyRe)
	}
	// a machine that exists again is not reported as deleted: SetMachine withdraws a pending deletion
	{
		okUndel := false
		inSetScope(func(in ssa.Instruction) {
			st, ok := in.(*ssa.Store)
			if !ok || !ssau.IsField(st.Addr, prog.Abs("sio"), "Changed", "Deleted") {
				return
			}
			cst, isC := st.Val.(*ssa.Const)
			if !isC || cst.Value == nil || cst.Value.String() != "false" {
				return
			}
			isPendingTest := func(f flow.Fact) bool {
				cond := f.Cond
				if u, isU := cond.(*ssa.UnOp); isU && u.Op == token.NOT {
					cond = u.X // (the expanded fact on u.X carries the polarity)
				}
				if ex, isEx := cond.(*ssa.Extract); isEx && ex.Index == 1 {
					if lk, isLk := ex.Tuple.(*ssa.Lookup); isLk {
						if _, is := ssau.LoadOfField(lk.X, prog.Abs("sio"), "Crew", "changed"); is {
							return true
						}
					}
				}
				return false
			}
			// on every path through SetMachine on which a change record for the machine is pending (the store may sit
			// in a helper: then the facts are those of the way from SetMachine to it)
			for _, p := range framePaths(st, setM, setScope) {
				pending := false
				for _, f := range p.facts {
					if _, isEx := f.Cond.(*ssa.Extract); isEx && isPendingTest(f) && f.True {
						pending = true
					}
				}
				_, _, base, _ := ssau.FieldOf(st.Addr)
				if isChangeRecord(base) {
					pending = true // c.change(mid).Deleted = false
				}
				if pending && !p.inCycle {
					// not behind any other condition
					extra := 0
					for _, f := range p.facts {
						if isPendingTest(f) {
							continue
						}
						extra++
					}
					if extra == 0 {
						okUndel = true
					}
				}
			}
		})
		c.R.Check(okUndel, "C15-R1", "SetMachine: a pending deletion of the machine is withdrawn", c.P.Pos(setM.Pos()), "Changed.Deleted = false for a pending change record, unconditionally", "a machine deleted and re-created before the changes are collected is reported as deleted only: the store loses a machine that is live")
	}
	c.R.Check(recState && recSrc, "C15-R1", "SetMachine: given state and spec source are reported", c.P.Pos(setM.Pos()), "Changed.State and Changed.SpecSrc recorded", "SetMachine does not report the state / spec source it was given")
	// the state installed is the normalised one (DefaultState gives a node name to a state that has none: the
	// timers machine reports its state without one and relies on this when it is restored)
	{
		defState := c.P.Func("sio", "", "DefaultState")
		nst, bad := 0, ""
		for _, st := range storesToPkg(setM, "crew", "Machine", "State") {
			nst++
			for _, d := range deepDefs(st.Val, []*ssa.Function{setM}) {
				cl, isC := d.(*ssa.Call)
				if !isC || defState == nil || cl.Common().StaticCallee() != defState {
					bad = c.pos(st)
				}
			}
		}
		// (a new machine's State is given in the literal that creates it)
		ssau.Instrs(setM, func(in ssa.Instruction) {
			st, ok := in.(*ssa.Store)
			if !ok || !ssau.IsField(st.Addr, prog.Abs("crew"), "Machine", "State") {
				return
			}
			nst++
		})
		c.R.Check(bad == "" && nst > 0, "C15-R1", "SetMachine: the state installed is normalised", c.P.Pos(setM.Pos()), "every Machine.State assigned is a DefaultState(...) result", "SetMachine installs a state that did not go through DefaultState ("+bad+"): a state stored without a node name (the timers machine's) comes back as a machine at node \"\", which no specification has")
	}
	c.R.Check(applyNew && applyExisting, "C15-R1", "SetMachine: given state is applied to new and to existing machines", c.P.Pos(setM.Pos()), "Machine.State assigned for a new machine and for an existing one", fmt.Sprintf("a reported state is not applied (new machine=%v, existing machine=%v)", applyNew, applyExisting))
	// the spec source is applied (m.SpecSource / m.Specter set from ResolveSpecSource) when given
	specApplied := false
	inSetScope(func(in ssa.Instruction) {
		if st, ok := in.(*ssa.Store); ok && ssau.IsField(st.Addr, prog.Abs("crew"), "Machine", "Specter") && len(framePaths(st, setM, setScope)) > 0 {
			specApplied = true
		}
	})
	c.R.Check(specApplied, "C15-R1", "SetMachine: spec is installed", c.P.Pos(setM.Pos()), "Machine.Specter assigned", "a reported spec source is not installed")
	// ... and what is installed is resolved from the source given to this call, never taken from something the crew kept
	{
		scope := []*ssa.Function{setM}
		for _, f := range pkgClosure(setM) {
			if f != setM && prog.PkgOf(f) == "sio" {
				scope = append(scope, f)
			}
		}
		var bad []string
		n := 0
		for _, f := range scope {
			ssau.Instrs(f, func(in ssa.Instruction) {
				st, ok := in.(*ssa.Store)
				if !ok || !ssau.IsField(st.Addr, prog.Abs("crew"), "Machine", "Specter") {
					return
				}
				n++
				for _, d := range deepDefs(st.Val, scope) {
					switch x := d.(type) {
					case *ssa.Extract:
						if _, isLk := x.Tuple.(*ssa.Lookup); isLk {
							bad = append(bad, "a map lookup ("+c.pos(x)+")")
						}
					case *ssa.Lookup:
						bad = append(bad, "a map lookup ("+c.pos(x)+")")
					case *ssa.UnOp:
						if fa, isFA := x.X.(*ssa.FieldAddr); isFA && x.Op == token.MUL && !localFresh(fa.X) {
							bad = append(bad, "a stored field ("+c.pos(x)+")")
						}
					}
				}
			})
		}
		sort.Strings(bad)
		c.R.Check(len(bad) == 0 && n > 0, "C15-R1", "SetMachine: the installed spec is resolved from the given source", c.P.Pos(setM.Pos()), fmt.Sprintf("%d assignments of Machine.Specter, none from a container that outlives the call", n), "the compiled spec installed for a machine can come from "+strings.Join(bad, ", ")+": the live machine can run a spec that differs from the reported (and stored) source")
	}
	// DeleteMachine
	delApply, delReport := false, false
	// (unconditionally: the block is the entry or lies on every way from the entry to a return — the get-or-create of
	// the cache entry may branch in between)
	delPD := flow.NewPostDom(delM)
	always := func(in ssa.Instruction) bool {
		return in.Parent() == delM && (in.Block() == delM.Blocks[0] || delPD.PostDominates(in.Block(), delM.Blocks[0]))
	}
	ssau.Instrs(delM, func(in ssa.Instruction) {
		if ci, ok := in.(ssa.CallInstruction); ok {
			if b, isB := ci.Common().Value.(*ssa.Builtin); isB && b.Name() == "delete" {
				if _, is := ssau.LoadOfField(ci.Common().Args[0], prog.Abs("sio"), "Crew", "Machines"); is && always(in) {
					delApply = true
				}
			}
		}
		if st, ok := in.(*ssa.Store); ok && isChangeField(st.Addr, "Deleted") && always(in) {
			if cst, isC := st.Val.(*ssa.Const); isC && cst.Value != nil && cst.Value.String() == "true" {
				delReport = true
			}
		}
	})
	c.R.Check(delApply && delReport, "C15-R1", "DeleteMachine: removed and reported", c.P.Pos(delM.Pos()), "delete from the crew and Changed.Deleted = true, unconditionally", "a deletion is not both applied and reported")
	// every removal of a crew member anywhere in package sio is reported as a deletion on every path that follows
	nrem := 0
	for _, f := range c.P.FuncsIn("sio") {
		var pd *flow.PostDom
		ssau.Instrs(f, func(in ssa.Instruction) {
			ci, ok := in.(ssa.CallInstruction)
			if !ok {
				return
			}
			b, isB := ci.Common().Value.(*ssa.Builtin)
			if !isB || b.Name() != "delete" {
				return
			}
			if _, is := ssau.LoadOfField(ci.Common().Args[0], prog.Abs("sio"), "Crew", "Machines"); !is {
				return
			}
			nrem++
			if pd == nil {
				pd = flow.NewPostDom(f)
			}
			reported := false
			ssau.Instrs(f, func(in2 ssa.Instruction) {
				st, isSt := in2.(*ssa.Store)
				if !isSt || !isChangeField(st.Addr, "Deleted") {
					return
				}
				cst, isC := st.Val.(*ssa.Const)
				if !isC || cst.Value == nil || cst.Value.String() != "true" {
					return
				}
				_, _, base, _ := ssau.FieldOf(st.Addr)
				if k, isRec := changeRecordKey(base, 0); !isRec || !sameKeyValue(k, ci.Common().Args[1]) {
					return
				}
				if st.Block() == in.Block() && flow.Index(in) < flow.Index(st) || st.Block() != in.Block() && pd.PostDominates(st.Block(), in.Block()) {
					reported = true
				}
			})
			c.R.Check(reported, "C15-R1", fmt.Sprintf("%s: removal of a crew member #%d is reported as a deletion", fname(f), nrem), c.pos(in), "delete(Machines, id) is followed on every path by change(id).Deleted = true", "a machine is removed from the crew without a deletion being recorded for it: the store keeps (or is still sent) a record of a machine that the crew no longer has")
		})
	}
	// (The order of deletions and updates inside one crew operation is not checked: since SetMachine withdraws a
	// pending deletion — rule "a pending deletion of the machine is withdrawn" above — either order is reported
	// faithfully.  An earlier rule demanded updates before deletions; it had become a false alarm.)
	_ = doOp
	c15Writers(c, change)
	c15Copies(c)
	c15Walks(c, runM)
	// ---- R2 exhaustiveness
	sioPkg := c.P.ByPath[prog.Abs("sio")]
	chT, _ := sioPkg.Types.Scope().Lookup("Changed").Type().Underlying().(*types.Struct)
	if chT == nil {
		c.R.Break("C15-R2: sio.Changed not found")
		return
	}
	stdio := c.P.Func("sio", "Stdio", "IO")
	var consumers []*ssa.Function
	if stdio != nil {
		consumers = pkgClosure(stdio)
		for _, f := range consumers {
			c.R.Fn(fname(f))
		}
	}
	for i := 0; i < chT.NumFields(); i++ {
		f := chT.Field(i)
		tag := chT.Tag(i)
		if strings.Contains(tag, `json:"-"`) {
			continue
		}
		// GetChanged reads change.F and produces it
		reads, writes := false, false
		for _, gf := range pkgClosure(getC) {
			if change != nil && gf == change {
				continue
			}
			ssau.Instrs(gf, func(in ssa.Instruction) {
				if fa, ok := in.(*ssa.FieldAddr); ok && ssau.IsField(fa, prog.Abs("sio"), "Changed", f.Name()) {
					for _, r := range ssau.Referrers(fa) {
						if _, isLd := r.(*ssa.UnOp); isLd {
							reads = true
						}
						if st, isSt := r.(*ssa.Store); isSt && st.Addr == ssa.Value(fa) {
							writes = true
						}
					}
				}
			})
		}
		c.R.Check(reads && writes, "C15-R2", "GetChanged: propagates Changed."+f.Name(), c.P.Pos(getC.Pos()), "read from the cache and written to the report", "Changed."+f.Name()+" is not carried from the change cache into the report")
		// consumer
		used := false
		for _, cf := range consumers {
			ssau.Instrs(cf, func(in ssa.Instruction) {
				if fa, ok := in.(*ssa.FieldAddr); ok && ssau.IsField(fa, prog.Abs("sio"), "Changed", f.Name()) {
					used = true
				}
			})
		}
		c.R.Check(used, "C15-R2", "Stdio: applies Changed."+f.Name(), c.P.Pos(getC.Pos()), "the reference consumer reads the field", "the reference consumer ignores Changed."+f.Name())
	}
	// a reported deletion forgets the last-reported record
	okForget := false
	for _, gf := range pkgClosure(getC) {
		ssau.Instrs(gf, func(in ssa.Instruction) {
			ci, ok := in.(ssa.CallInstruction)
			if !ok {
				return
			}
			b, isB := ci.Common().Value.(*ssa.Builtin)
			if !isB || b.Name() != "delete" {
				return
			}
			if _, is := ssau.LoadOfField(ci.Common().Args[0], prog.Abs("sio"), "Crew", "previous"); !is {
				return
			}
			for _, f := range flow.FactsAt(in.Block()) {
				if _, is := ssau.LoadOfField(f.Cond, prog.Abs("sio"), "Changed", "Deleted"); is && f.True {
					okForget = true
				}
			}
		})
	}
	c.R.Check(okForget, "C15-R2", "GetChanged: a deletion clears the duplicate-suppression record", c.P.Pos(getC.Pos()), "delete(previous, mid) under Deleted", "after a reported deletion the last-reported record survives: re-creating the machine with the same content is suppressed as a duplicate and never reaches the store")
	// suppression compares the full serialised change
	okCmp := false
	for _, gf := range pkgClosure(getC) {
		ssau.Instrs(gf, func(in ssa.Instruction) {
			if bo, ok := in.(*ssa.BinOp); ok && bo.Op == token.EQL {
				if b, isB := bo.X.Type().Underlying().(*types.Basic); isB && b.Kind() == types.String {
					okCmp = true
				}
			}
		})
	}
	c.R.Check(okCmp, "C15-R2", "GetChanged: suppression compares the serialised change", c.P.Pos(getC.Pos()), "string comparison of the JSON forms", "duplicate suppression no longer compares the whole change")
	// boot path
	nboot := 0
	for _, f := range c.P.FuncsIn("sio/siostd", "sio/siomq", "cmd/sheensio") {
		ssau.Instrs(f, func(in ssa.Instruction) {
			ci, ok := in.(ssa.CallInstruction)
			if !ok || ci.Common().StaticCallee() != setM {
				return
			}
			args := ci.Common().Args
			if len(args) != 5 {
				return
			}
			_, srcOK := ssau.LoadOfField(args[3], prog.Abs("crew"), "Machine", "SpecSource")
			_, stOK := ssau.LoadOfField(args[4], prog.Abs("crew"), "Machine", "State")
			if !srcOK && !stOK {
				return
			}
			nboot++
			c.R.Fn(fname(f))
			c.R.Check(srcOK && stOK, "C15-R2", fmt.Sprintf("%s: boot hands spec source and state to SetMachine #%d", fname(f), nboot), c.pos(in), "both persisted fields of the stored machine", "a stored machine is restored without its spec source or without its state")
		})
	}
	if nboot == 0 {
		c.R.Break("C15-R2: no boot path calling SetMachine with a stored machine found")
	}
}

// c15Writers: C15-R3.
func c15Writers(c *Ctx, change *ssa.Function) {
	fns := c.P.FuncsIn("sio")
	var all []*ssa.Function
	seenFn := map[*ssa.Function]bool{}
	for _, f := range fns {
		for _, g := range ssau.WithAnon(f) {
			if !seenFn[g] && g.Blocks != nil {
				seenFn[g] = true
				all = append(all, g)
			}
		}
	}
	sort.Slice(all, func(i, j int) bool { return fname(all[i]) < fname(all[j]) })
	isCrewMachines := func(m ssa.Value) bool {
		for _, d := range deepDefs(m, all) {
			if _, is := ssau.LoadOfField(d, prog.Abs("sio"), "Crew", "Machines"); is {
				return true
			}
		}
		return false
	}
	// classify the machine whose field is assigned
	type origin int
	const (
		fresh origin = iota
		live
		other
	)
	classify := func(base ssa.Value) (origin, string) {
		res, why := fresh, "a machine allocated here"
		for _, d := range deepDefs(base, all) {
			switch x := d.(type) {
			case *ssa.Alloc:
			case *ssa.Extract:
				switch t := x.Tuple.(type) {
				case *ssa.Lookup:
					if isCrewMachines(t.X) {
						return live, "a member of Crew.Machines"
					}
					res, why = other, "a member of another map"
				case *ssa.Next:
					if rg, ok := t.Iter.(*ssa.Range); ok && isCrewMachines(rg.X) {
						return live, "a member of Crew.Machines"
					}
					res, why = other, "a member of another map"
				default:
					return live, "a machine of unknown origin (" + d.String() + ")"
				}
			case *ssa.Lookup:
				if isCrewMachines(x.X) {
					return live, "a member of Crew.Machines"
				}
				res, why = other, "a member of another map"
			case *ssa.Parameter:
				return live, "a machine handed in by a caller outside the package"
			default:
				return live, "a machine of unknown origin (" + d.String() + ")"
			}
		}
		return res, why
	}
	reportField := map[string]string{"State": "State", "SpecSource": "SpecSrc"}
	counts := map[string]int{}
	for _, f := range all {
		ssau.Instrs(f, func(in ssa.Instruction) {
			st, ok := in.(*ssa.Store)
			if !ok {
				return
			}
			for mf, rf := range reportField {
				if !ssau.IsField(st.Addr, prog.Abs("crew"), "Machine", mf) {
					continue
				}
				_, _, base, _ := ssau.FieldOf(st.Addr)
				counts[fname(f)+mf]++
				key := fmt.Sprintf("%s: assignment #%d of Machine.%s", fname(f), counts[fname(f)+mf], mf)
				org, why := classify(base)
				if org != live {
					c.R.Discharge("C15-R3", key, c.pos(in), "not a live crew member: "+why)
					continue
				}
				// initialisation of an absent field
				absent := false
				for _, fct := range flow.FactsAt(in.Block()) {
					bo, isB := fct.Cond.(*ssa.BinOp)
					if !isB || !((bo.Op == token.EQL && fct.True) || (bo.Op == token.NEQ && !fct.True)) {
						continue
					}
					var v ssa.Value
					switch {
					case ssau.IsNilConst(bo.Y):
						v = bo.X
					case ssau.IsNilConst(bo.X):
						v = bo.Y
					}
					if v == nil {
						continue
					}
					if b2, is := ssau.LoadOfField(v, prog.Abs("crew"), "Machine", mf); is && b2 == base {
						absent = true
					}
				}
				if absent {
					c.R.Discharge("C15-R3", key, c.pos(in), "initialises an absent (nil) "+mf+"; a store without it describes the same default")
					continue
				}
				covered := false
				ssau.Instrs(f, func(in2 ssa.Instruction) {
					r, ok := in2.(*ssa.Store)
					if !ok || !ssau.IsField(r.Addr, prog.Abs("sio"), "Changed", rf) {
						return
					}
					_, _, rb, _ := ssau.FieldOf(r.Addr)
					if !isChangeRecord(rb) {
						return
					}
					if flow.CoveredBy(st.Block(), r.Block()) {
						covered = true
					}
				})
				if !covered {
					// the assignment sits in a helper whose callers are all known, and each of them records the
					// change on every way on from the helper's return (under what the helper knew at the assignment
					// and what it returned)
					isRecord := func(in2 ssa.Instruction) bool {
						r, ok := in2.(*ssa.Store)
						if !ok || !ssau.IsField(r.Addr, prog.Abs("sio"), "Changed", rf) {
							return false
						}
						_, _, rb, _ := ssau.FieldOf(r.Addr)
						return isChangeRecord(rb)
					}
					if f.Parent() == nil && !flow.InCycle(st.Block()) {
						covered = coveredAfter(f, st.Block(), flow.Index(st), flow.StableFacts(flow.FactsAt(st.Block())), isRecord, all, 0)
					}
				}
				c.R.Check(covered, "C15-R3", key, c.pos(in), "covered by a record of Changed."+rf+" in the same function", "the "+mf+" of "+why+" is assigned without the assignment being recorded in the change cache on that path: the store keeps the old "+mf)
			}
		})
	}
}

// c15Walks: C15-R4.
func c15Walks(c *Ctx, runM *ssa.Function) {
	walk := c.P.Func("core", "Spec", "Walk")
	scope := pkgClosure(runM)
	var calls []*ssa.Call
	for _, f := range scope {
		if prog.PkgOf(f) != "sio" {
			continue
		}
		ssau.Instrs(f, func(in ssa.Instruction) {
			if cl, ok := in.(*ssa.Call); ok {
				if cl.Common().StaticCallee() == walk {
					calls = append(calls, cl)
				} else if cl.Common().IsInvoke() && cl.Common().Method.Name() == "Walk" {
					// the spec handed through an interface: resolved by the call graph
					for _, cal := range c.P.Callees(cl) {
						if cal == walk {
							calls = append(calls, cl)
						}
					}
				}
			}
		})
	}
	if len(calls) == 0 {
		c.R.Break("C15-R4: RunMachine does not reach core Spec.Walk")
		return
	}
	isWalkResult := func(v ssa.Value) bool {
		ex, ok := v.(*ssa.Extract)
		if !ok || ex.Index != 0 {
			return false
		}
		for _, cl := range calls {
			if ex.Tuple == ssa.Value(cl) {
				return true
			}
		}
		return false
	}
	ri := 0
	for _, b := range runM.Blocks {
		ret, ok := b.Instrs[len(b.Instrs)-1].(*ssa.Return)
		if !ok || len(ret.Results) != 2 {
			continue
		}
		ri++
		key := fmt.Sprintf("RunMachine:return#%d", ri)
		if provablyNil(ret.Results[0], b) {
			c.R.Discharge("C15-R4", key, c.pos(ret), "returns no walk (error path)")
			continue
		}
		okAll := true
		ds := deepDefs(ret.Results[0], scope)
		for _, d := range ds {
			if !isWalkResult(d) && !ssau.IsNilConst(d) {
				okAll = false
			}
		}
		c.R.Check(okAll && len(ds) > 0, "C15-R4", key, c.pos(ret), "the returned walk is the result of core Walk", "RunMachine can answer for a machine without walking it from its recorded state (the answer then depends on crew-internal state that a store cannot reproduce)")
	}
	for i, cl := range calls {
		args := cl.Common().Args // spec, ctx, st, msgs, ctl, props
		if cl.Common().IsInvoke() {
			args = append([]ssa.Value{cl.Common().Value}, args...) // an invoke has no receiver operand
		}
		okState := false
		if len(args) >= 3 {
			okState = true
			ds := deepDefs(args[2], scope)
			for _, d := range ds {
				if _, is := ssau.LoadOfField(d, prog.Abs("crew"), "Machine", "State"); !is {
					okState = false
				}
			}
			okState = okState && len(ds) > 0
		}
		c.R.Check(okState, "C15-R4", fmt.Sprintf("RunMachine:Walk#%d starts from Machine.State", i+1), c.pos(cl), "state operand is the machine's State field", "the walk does not start from the machine's recorded state")
	}
}

// c15Copies: C15-R5.
func c15Copies(c *Ctx) {
	cp := c.fn("crew", "SpecSource", "Copy")
	if cp == nil {
		return
	}
	c.R.Fn(fname(cp))
	ok, why := faithfulCopy(c, cp, 0)
	c.R.Check(ok, "C15-R5", "SpecSource.Copy: every persisted field is carried over unchanged", c.P.Pos(cp.Pos()), "each persisted field of the result is the receiver's field (or a faithful copy of it)", why)
}

// faithfulCopy: f is a method `func (x *T) ...() *T` whose result is a fresh T
// in which every persisted (not json:"-", exported) field is stored from the
// receiver's same field, or from a faithful copy of it.
func faithfulCopy(c *Ctx, f *ssa.Function, depth int) (bool, string) {
	if f == nil || f.Blocks == nil || len(f.Params) == 0 || depth > 1 {
		return false, "not a copy method"
	}
	recv := f.Params[0]
	pt, isPtr := recv.Type().Underlying().(*types.Pointer)
	if !isPtr {
		return false, "receiver is not a pointer"
	}
	st, isSt := pt.Elem().Underlying().(*types.Struct)
	if !isSt {
		return false, "receiver is not a struct"
	}
	tname := types.TypeString(pt.Elem(), func(p *types.Package) string { return p.Name() })
	// the result objects
	var results []*ssa.Alloc
	for _, b := range f.Blocks {
		ret, isRet := b.Instrs[len(b.Instrs)-1].(*ssa.Return)
		if !isRet || len(ret.Results) != 1 {
			continue
		}
		for _, d := range phiDefs(ret.Results[0], nil, map[ssa.Value]bool{}) {
			if ssau.IsNilConst(d) {
				continue
			}
			al, isAl := d.(*ssa.Alloc)
			if !isAl {
				return false, fmt.Sprintf("%s.%s can return %s, which is not a value built here", tname, f.Name(), d.String())
			}
			results = append(results, al)
		}
	}
	if len(results) == 0 {
		return false, tname + "." + f.Name() + " builds no result"
	}
	for _, al := range results {
		for i := 0; i < st.NumFields(); i++ {
			fld := st.Field(i)
			if !fld.Exported() || strings.Contains(st.Tag(i), `json:"-"`) {
				continue
			}
			stored := false
			for _, r := range ssau.Referrers(al) {
				fa, isFA := r.(*ssa.FieldAddr)
				if !isFA || fa.Field != i {
					continue
				}
				for _, r2 := range ssau.Referrers(fa) {
					sto, isS := r2.(*ssa.Store)
					if !isS || sto.Addr != ssa.Value(fa) {
						continue
					}
					stored = true
					// the value: the receiver's same field, or a faithful copy of it
					v := sto.Val
					if ld, isLd := v.(*ssa.UnOp); isLd && ld.Op == token.MUL {
						if fa2, is2 := ld.X.(*ssa.FieldAddr); is2 && fa2.Field == i && fa2.X == ssa.Value(recv) {
							continue
						}
					}
					if cl, isC := v.(*ssa.Call); isC && cl.Common().StaticCallee() != nil && len(cl.Common().Args) > 0 {
						if ld, isLd := cl.Common().Args[0].(*ssa.UnOp); isLd {
							if fa2, is2 := ld.X.(*ssa.FieldAddr); is2 && fa2.Field == i && fa2.X == ssa.Value(recv) {
								if ok2, why2 := faithfulCopy(c, cl.Common().StaticCallee(), depth+1); ok2 {
									continue
								} else {
									return false, fmt.Sprintf("%s.%s copies field %s with %s, which is not a faithful copy: %s", tname, f.Name(), fld.Name(), cl.Common().StaticCallee().Name(), why2)
								}
							}
						}
					}
					return false, fmt.Sprintf("%s.%s gives field %s a value that is not the receiver's %s (%s)", tname, f.Name(), fld.Name(), fld.Name(), c.pos(sto))
				}
			}
			if !stored {
				return false, fmt.Sprintf("%s.%s does not carry over the persisted field %s", tname, f.Name(), fld.Name())
			}
		}
	}
	return true, ""
}

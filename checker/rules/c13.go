package rules

import (
	"fmt"
	"go/token"
	"go/types"
	"reflect"
	"sort"
	"strings"

	"golang.org/x/tools/go/ssa"

	"sheensverif/internal/flow"
	"sheensverif/internal/prog"
	"sheensverif/internal/ssau"
)

func init() { Registry["C13"] = C13 }

// nonNilErrorReturn: block b returns with its last result provably non-nil or equal to errv.
func returnsErr(b *ssa.BasicBlock, errv ssa.Value) bool {
	ret, ok := b.Instrs[len(b.Instrs)-1].(*ssa.Return)
	if !ok || len(ret.Results) == 0 {
		return false
	}
	last := ret.Results[len(ret.Results)-1]
	if resultStruct(ret.Parent().Signature) != nil {
		// the function hands its results back in one struct: the error is the struct's error field
		lr := logicalResults(ret)
		ei := logicalResultIdx(ret.Parent().Signature, isErrorType)
		if lr == nil || ei < 0 {
			return false
		}
		last = lr[ei]
	}
	if last == errv {
		return true
	}
	// wrapped: errors.New(err.Error() + ...) or a MakeInterface of a fresh error
	if ssau.IsNilConst(last) {
		return false
	}
	switch x := last.(type) {
	case *ssa.Call:
		n := ssau.CalleeName(x)
		return n == "errors.New" || n == "fmt.Errorf"
	case *ssa.MakeInterface:
		return true
	case *ssa.UnOp:
		_, isG := x.X.(*ssa.Global)
		return isG
	}
	return false
}

// errPropagated: the error result errv of a call is tested and the non-nil edge leads only to returns of a non-nil error.
func errPropagated(fn *ssa.Function, errv ssa.Value) bool {
	if errv == nil {
		return false
	}
	// handed on as it is: `return helper(...)`
	direct, other := false, false
	for _, r := range ssau.Referrers(errv) {
		switch x := r.(type) {
		case *ssa.Return:
			if len(x.Results) > 0 && x.Results[len(x.Results)-1] == errv {
				direct = true
			} else {
				other = true
			}
		case *ssa.DebugRef:
		default:
			other = true
		}
	}
	if direct && !other {
		return true
	}
	found := false
	for _, b := range fn.Blocks {
		iff, ok := b.Instrs[len(b.Instrs)-1].(*ssa.If)
		if !ok {
			continue
		}
		bo, isB := iff.Cond.(*ssa.BinOp)
		if !isB || !ssau.IsNilConst(bo.Y) {
			continue
		}
		if bo.X != errv {
			// allow a phi of the error that includes errv? no: require the direct value
			continue
		}
		succ := b.Succs[0]
		if bo.Op == token.EQL {
			succ = b.Succs[1]
		}
		// every exit reachable from the non-nil edge must be an error return,
		// and control must not come back to the test
		region := flow.ReachableFrom(b, map[*ssa.BasicBlock]bool{b.Succs[0]: succ != b.Succs[0], b.Succs[1]: succ != b.Succs[1]})
		region[succ] = true
		for x := range flow.ReachableFrom(succ, nil) {
			region[x] = true
		}
		all := true
		exits := 0
		for x := range region {
			if x == b {
				all = false
			}
			if len(x.Succs) == 0 {
				exits++
				if !returnsErr(x, errv) {
					all = false
				}
			}
		}
		if all && exits > 0 {
			found = true
		}
	}
	return found
}

// c13RoundTripOfParser: the local variable al, read by ld, holds Canonicalize(parser result) without the call: it is
// written by nothing but json.Unmarshal (at least once, before ld), every such json.Unmarshal decodes the bytes
// json.Marshal produced (the shape canonFresh demands of Canonicalize itself: jsonRoundTrip), what was marshalled is
// the pattern parser's result (or the address of a variable holding nothing else), and the errors of both calls make
// ParsePatterns fail.
func c13RoundTripOfParser(al *ssa.Alloc, ld *ssa.UnOp, scope []*ssa.Function, isParserCall func(ssa.Instruction) (*ssa.Call, bool), propagatedUp func(*ssa.Function, ssa.Value, int) bool) (bool, string) {
	inScope := map[*ssa.Function]bool{}
	for _, f := range scope {
		inScope[f] = true
	}
	// who can write through a pointer to the variable: json.Unmarshal only (the pointer may be handed to a helper in scope)
	var fills []*ssa.Call
	var onlyFilled func(ptr ssa.Value, depth int) bool
	onlyFilled = func(ptr ssa.Value, depth int) bool {
		if depth > 3 {
			return false
		}
		for _, r := range ssau.Referrers(ptr) {
			switch x := r.(type) {
			case *ssa.DebugRef:
			case *ssa.UnOp:
				if x.Op != token.MUL {
					return false
				}
			case *ssa.MakeInterface, *ssa.ChangeType:
				if !onlyFilled(x.(ssa.Value), depth+1) {
					return false
				}
			case *ssa.Call:
				if ssau.CalleeName(x) == "encoding/json.Unmarshal" && len(x.Common().Args) == 2 && x.Common().Args[1] == ptr && x.Common().Args[0] != ptr {
					fills = append(fills, x)
					continue
				}
				sc := x.Common().StaticCallee()
				if sc == nil || !inScope[sc] || sc.Blocks == nil {
					return false
				}
				for i, a := range x.Common().Args {
					if a == ptr && (i >= len(sc.Params) || !onlyFilled(sc.Params[i], depth+1)) {
						return false
					}
				}
			default:
				return false
			}
		}
		return true
	}
	if !onlyFilled(al, 0) {
		return false, "the variable is written by something other than json.Unmarshal"
	}
	if len(fills) == 0 {
		return false, "the variable is never filled by json.Unmarshal"
	}
	before := false
	for _, um := range fills {
		dsts, marshals, ok := jsonRoundTrip(um, scope)
		if !ok || len(dsts) != 1 || dsts[0] != al {
			return false, "json.Unmarshal does not decode what json.Marshal wrote, into this variable alone"
		}
		if um.Parent() == ld.Parent() && flow.InstrDominates(um, ld) {
			before = true
		} else if um.Parent() != ld.Parent() {
			// filled in a helper that was handed the address: the helper call must come before the read
			for _, r := range ssau.Referrers(al) {
				if hc, isC := r.(*ssa.Call); isC && hc.Parent() == ld.Parent() && flow.InstrDominates(hc, ld) {
					before = true
				}
			}
		}
		if !propagatedUp(um.Parent(), um, 0) {
			return false, "json.Unmarshal error dropped"
		}
		for _, m := range marshals {
			if len(m.Common().Args) != 1 {
				return false, "unexpected json.Marshal call"
			}
			if !propagatedUp(m.Parent(), callResults(m)[1], 0) {
				return false, "json.Marshal error dropped"
			}
			// what is marshalled: the parser's result, or the address of a variable that holds only that
			var vals []ssa.Value
			for _, a := range deepDefs(m.Common().Args[0], scope) {
				src, isAl := a.(*ssa.Alloc)
				if !isAl {
					vals = append(vals, a)
					continue
				}
				n := 0
				for _, r := range ssau.Referrers(src) {
					switch y := r.(type) {
					case *ssa.Store:
						if y.Addr != ssa.Value(src) {
							return false, "the marshalled variable escapes"
						}
						n++
						vals = append(vals, deepDefs(y.Val, scope)...)
					case *ssa.UnOp, *ssa.DebugRef:
					case *ssa.MakeInterface:
						for _, r2 := range ssau.Referrers(y) {
							if cl, isC := r2.(*ssa.Call); !isC || ssau.CalleeName(cl) != "encoding/json.Marshal" {
								if _, isD := r2.(*ssa.DebugRef); !isD {
									return false, "the marshalled variable escapes"
								}
							}
						}
					default:
						return false, "the marshalled variable escapes"
					}
				}
				if n == 0 {
					return false, "the marshalled variable is never set"
				}
			}
			if len(vals) == 0 {
				return false, "nothing is marshalled"
			}
			for _, a := range vals {
				fromParser := false
				if ex2, is := a.(*ssa.Extract); is && ex2.Index == 0 {
					if pc, is := ex2.Tuple.(*ssa.Call); is {
						_, fromParser = isParserCall(pc)
					}
				}
				if !fromParser {
					return false, "json.Marshal is not applied to the parser's result (" + a.String() + ")"
				}
			}
		}
	}
	if !before {
		return false, "the variable is read before json.Unmarshal fills it"
	}
	return true, ""
}

func callResults(call *ssa.Call) map[int]ssa.Value {
	out := map[int]ssa.Value{}
	for _, r := range ssau.Referrers(call) {
		if ex, ok := r.(*ssa.Extract); ok {
			out[ex.Index] = ex
		}
	}
	return out
}

// valueCallSites lists the places inside `in` where fn runs: its static call sites and the calls of a function value
// that is fn itself (a literal) or fn's bound-method wrapper (`x.m` used as a value, directly or kept in a local
// variable).  complete is false when such a function value is also used for something else than being called (it
// escapes: it may be called from anywhere).
func valueCallSites(fn *ssa.Function, in []*ssa.Function) (sites []ssa.CallInstruction, complete bool) {
	sites = callSitesOf(fn, in)
	complete = true
	for _, f := range in {
		ssau.Instrs(f, func(ins ssa.Instruction) {
			mc, ok := ins.(*ssa.MakeClosure)
			if !ok {
				return
			}
			w, isF := mc.Fn.(*ssa.Function)
			if !isF || (w != fn && boundTarget(w) != fn) {
				return
			}
			var uses func(v ssa.Value, depth int)
			uses = func(v ssa.Value, depth int) {
				for _, r := range ssau.Referrers(v) {
					switch y := r.(type) {
					case *ssa.DebugRef:
					case ssa.CallInstruction:
						if y.Common().Value == v && !y.Common().IsInvoke() {
							isArg := false
							for _, a := range y.Common().Args {
								isArg = isArg || a == v
							}
							if !isArg {
								sites = append(sites, y)
								continue
							}
						}
						complete = false
					case *ssa.Store:
						// kept in a local variable that is only loaded from
						al, isAl := y.Addr.(*ssa.Alloc)
						if !isAl || y.Val != v || depth > 2 {
							complete = false
							continue
						}
						for _, r2 := range ssau.Referrers(al) {
							switch z := r2.(type) {
							case *ssa.DebugRef:
							case *ssa.Store:
								if z.Addr != ssa.Value(al) || z.Val == ssa.Value(al) {
									complete = false
								}
							case *ssa.UnOp:
								if z.Op != token.MUL {
									complete = false
									continue
								}
								if z2 := ssa.Value(z); z2 != v {
									uses(z2, depth+1)
								}
							default:
								complete = false
							}
						}
					case *ssa.Phi:
						if depth > 2 {
							complete = false
							continue
						}
						uses(y, depth+1)
					default:
						complete = false
					}
				}
			}
			uses(mc, 0)
		})
	}
	return sites, complete
}

// siteInFnVia is siteInFn that also finds the instruction of fn through which `in` is reached when the way leads
// through a function value: the call of a literal or of a method value whose function (or a function of its
// closure) holds the instruction.
func siteInFnVia(fn *ssa.Function, in ssa.Instruction) ssa.Instruction {
	if s := siteInFn(fn, in); s != nil {
		return s
	}
	target := in.Parent()
	var site ssa.Instruction
	for _, g := range pkgClosure(fn) {
		if site != nil {
			break
		}
		holds := false
		for _, h := range pkgClosure(g) {
			holds = holds || h == target
		}
		if !holds || g == fn {
			continue
		}
		sites, _ := valueCallSites(g, ssau.WithAnon(fn))
		for _, s := range sites {
			if s.Parent() == fn && site == nil {
				site = s
			}
		}
	}
	return site
}

func C13(c *Ctx) {
	c.R.Explanation = "Decides structural necessary conditions of representation independence and idempotent compilation: (R1) the pattern parser is applied at exactly one site (inside ParsePatterns' branch loop), every value stored into Branch.Pattern there is the canonicalised (JSON round-tripped) parser result, and a successful ParsePatterns records that patterns are in parsed form (PatternSyntax set to a pass-through constant) so that a second Compile or a Compile after reload cannot parse again; (R2) every field of type *ActionSource reachable from Spec has a Compile call on it inside Spec.Compile whose error is propagated, and no iteration of the node loop or branch loop can skip the branching-type check or the guard compilation; (R3) every nil-error return of Compile is dominated by the store compiled=true and that store is reached only past all compilation; (R4) unknown pattern syntax, branching type and interpreter each lead to a non-nil error; (R5) every host function that returns a spec it unmarshalled passes it through Compile with the error checked. Behavioural equivalence of the renderings is not decided."
	c.R.Rule("C13-R1", "E3+E5", "parse once, canonicalise, remember", 4)
	c13TextDecoded(c, "C13-R1")
	c13ParseAlways(c, "C13-R1")
	c13FindTypedNil(c, "C13-R4")
	c13UnknownSyntaxAlways(c, "C13-R4")
	c.R.Rule("C13-R2", "E6+E3", "every source compiled; no iteration skips validation", 6)
	c.R.Rule("C13-R3", "E3", "success implies compiled", 2)
	c.R.Rule("C13-R4", "E6", "rejection of unknown syntax, branching type, interpreter", 3)
	c.R.Rule("C13-R5", "E3", "loaders compile before handing a spec out", 2)
	c.R.Rule("C13-R6", "E6", "a loader of both representations decodes each with its own decoder", 1)
	c.R.Rule("C13-R8", "E5", "canonical form is the JSON round trip, for every value", 1)
	{
		canon := c.P.Func("core", "", "Canonicalize")
		if canon == nil {
			c.R.Break("C13-R8: core.Canonicalize not found")
		} else {
			c.R.Check(c.canonFresh() != nil, "C13-R8", "Canonicalize: every result is what json.Unmarshal read from what json.Marshal wrote", c.P.Pos(canon.Pos()), "each non-nil result is the variable json.Unmarshal filled from the bytes json.Marshal produced in the same call", "Canonicalize can answer with something other than the JSON round trip of its argument (a direct copy, say): a Go value that JSON writes differently (a float32, a nil map, an integer) then differs between a specification built in Go and the same specification read from JSON or YAML")
		}
	}
	c.R.Rule("C13-R7", "E6", "the copy of a specification that a store keeps carries every persisted field", 1)
	if cp := c.P.Func("crew", "SpecSource", "Copy"); cp != nil {
		ok, why := faithfulCopy(c, cp, 0)
		c.R.Check(ok, "C13-R7", "SpecSource.Copy: every persisted field is carried over unchanged", c.P.Pos(cp.Pos()), "each persisted field of the result is the receiver's field (or a faithful copy of it)", why+": a specification written out by the reference store and read back behaves differently (pattern syntax, error settings)")
	} else {
		c.R.Break("C13-R7: crew.SpecSource.Copy not found")
	}
	c13Decoders(c)
	c13OneDecoder(c, "cmd/mdb", "Host", "GetSpec")
	compile := c.fn("core", "Spec", "Compile")
	parse := c.fn("core", "Spec", "ParsePatterns")
	asCompile := c.fn("core", "ActionSource", "Compile")
	canon := c.fn("core", "", "Canonicalize")
	if compile == nil || parse == nil || asCompile == nil || canon == nil {
		return
	}
	c.R.Fn(fname(compile), fname(parse), fname(asCompile))

	// ---------------------------------------------------------------- R1
	isParserCall := func(in ssa.Instruction) (*ssa.Call, bool) {
		cl, ok := in.(*ssa.Call)
		if !ok || cl.Common().IsInvoke() || cl.Common().StaticCallee() != nil {
			return nil, false
		}
		if _, is := isFieldLoad(cl.Common().Value, "core", "Spec", "PatternParser"); is {
			return cl, true
		}
		return nil, false
	}
	// the parse closure: ParsePatterns and the unexported helpers of core that only it (transitively) calls
	coreFns := c.P.FuncsIn("core")
	inPC := map[*ssa.Function]bool{parse: true}
	for changed := true; changed; {
		changed = false
		for _, g := range pkgClosure(parse) {
			if inPC[g] || prog.PkgOf(g) != "core" || g.Parent() != nil || (g.Object() != nil && g.Object().Exported()) {
				continue
			}
			// (g may be a method that ParsePatterns uses as a method value: then it runs where that value is called)
			sites, complete := valueCallSites(g, coreFns)
			all := len(sites) > 0 && complete
			for _, st := range sites {
				top := st.Parent()
				for top.Parent() != nil {
					top = top.Parent()
				}
				if !inPC[top] {
					all = false
				}
			}
			if all {
				inPC[g] = true
				changed = true
			}
		}
	}
	var pcFns []*ssa.Function
	for f := range inPC {
		pcFns = append(pcFns, f)
	}
	sort.Slice(pcFns, func(i, j int) bool {
		return pcFns[i] == parse || (pcFns[j] != parse && fname(pcFns[i]) < fname(pcFns[j]))
	})
	var parserCalls []*ssa.Call
	for _, f := range coreFns {
		ssau.Instrs(f, func(in ssa.Instruction) {
			if cl, ok := isParserCall(in); ok {
				parserCalls = append(parserCalls, cl)
				if !inPC[f] {
					c.R.Violate("C13-R1", "parser applied outside ParsePatterns in "+fname(f), c.pos(in), "the pattern parser is applied again in "+fname(f)+" (patterns would be parsed twice)")
				}
			}
		})
	}
	inParse := 0
	for _, pc := range parserCalls {
		if inPC[pc.Parent()] {
			inParse++
		}
	}
	c.R.Check(inParse == 1, "C13-R1", "ParsePatterns: one parser application", c.P.Pos(parse.Pos()), "exactly one call site", fmt.Sprintf("%d parser call sites in ParsePatterns", inParse))
	// propagatedUp: a non-nil errv makes ParsePatterns return a non-nil error (through the helpers it is in)
	var propagatedUp func(f *ssa.Function, errv ssa.Value, depth int) bool
	propagatedUp = func(f *ssa.Function, errv ssa.Value, depth int) bool {
		if !errPropagated(f, errv) {
			return false
		}
		if f == parse || depth > 3 {
			return f == parse
		}
		sites, complete := valueCallSites(f, pcFns)
		if len(sites) == 0 || !complete {
			return false
		}
		for _, site := range sites {
			cl, isCall := site.(*ssa.Call)
			if !isCall {
				return false
			}
			var ev ssa.Value
			if tup, isTup := cl.Type().(*types.Tuple); isTup {
				ev = callResults(cl)[tup.Len()-1]
			} else {
				ev = cl
			}
			if ev == nil || !propagatedUp(site.Parent(), ev, depth+1) {
				return false
			}
		}
		return true
	}
	// Compile calls ParsePatterns exactly once, outside any loop
	var ppCalls []*ssa.Call
	ssau.Instrs(compile, func(in ssa.Instruction) {
		if cl, ok := in.(*ssa.Call); ok && cl.Common().StaticCallee() == parse {
			ppCalls = append(ppCalls, cl)
		}
	})
	okPP := len(ppCalls) == 1 && !flow.InCycle(ppCalls[0].Block()) && ppCalls[0].Block().Dominates(lastBlockWithStore(compile, "Spec", "compiled"))
	c.R.Check(okPP, "C13-R1", "Compile: parses patterns once, before everything else", c.P.Pos(compile.Pos()), "one ParsePatterns call, not in a loop, dominating the success exit", "Compile does not call ParsePatterns exactly once on every successful path")
	if len(ppCalls) == 1 {
		c.R.Check(errPropagated(compile, ppCalls[0]), "C13-R1", "Compile: ParsePatterns error propagated", c.pos(ppCalls[0]), "non-nil error returned", "a pattern parse error is dropped")
	}
	// stored patterns are canonicalised parser results
	var patStores []*ssa.Store
	for _, f := range pcFns {
		patStores = append(patStores, storesTo(f, "Branch", "Pattern")...)
	}
	for i, st := range patStores {
		ok := true
		var why string
		// a helper's `return nil, err` never reaches the store when the helper's error is propagated
		nilOK := false
		if ex0, isEx := st.Val.(*ssa.Extract); isEx {
			if hc, isC := ex0.Tuple.(*ssa.Call); isC && hc.Common().StaticCallee() != nil && inPC[hc.Common().StaticCallee()] {
				if tup, isTup := hc.Type().(*types.Tuple); isTup {
					nilOK = propagatedUp(st.Parent(), callResults(hc)[tup.Len()-1], 0)
				}
			}
		}
		for _, d := range deepDefs(st.Val, pcFns) {
			if nilOK && ssau.IsNilConst(d) {
				continue
			}
			// the construct Canonicalize consists of, written out in place: the variable json.Unmarshal filled from
			// the bytes json.Marshal made of the parser's result
			if ld, isLd := d.(*ssa.UnOp); isLd && ld.Op == token.MUL {
				if al, isAl := ld.X.(*ssa.Alloc); isAl {
					if okRT, whyRT := c13RoundTripOfParser(al, ld, pcFns, isParserCall, propagatedUp); !okRT {
						ok, why = false, "stored pattern may be "+d.String()+": "+whyRT
					}
					continue
				}
			}
			ex, isEx := d.(*ssa.Extract)
			if !isEx || ex.Index != 0 {
				ok, why = false, "stored pattern may be "+d.String()
				continue
			}
			cl, isCall := ex.Tuple.(*ssa.Call)
			if !isCall || cl.Common().StaticCallee() != canon {
				ok, why = false, "stored pattern is not a Canonicalize result ("+ex.Tuple.String()+")"
				continue
			}
			// argument derives from the parser call
			fromParser := false
			for _, a := range deepDefs(cl.Common().Args[0], pcFns) {
				if ex2, is := a.(*ssa.Extract); is && ex2.Index == 0 {
					if pc, is := ex2.Tuple.(*ssa.Call); is {
						if _, isP := isParserCall(pc); isP {
							fromParser = true
						}
					}
				}
			}
			if !fromParser {
				ok, why = false, "Canonicalize is not applied to the parser's result"
			}
			if !propagatedUp(cl.Parent(), callResults(cl)[1], 0) {
				ok, why = false, "Canonicalize error dropped"
			}
		}
		c.R.Check(ok, "C13-R1", fmt.Sprintf("ParsePatterns: stored pattern #%d is canonicalised parser output", i+1), c.pos(st), "Branch.Pattern = Canonicalize(parser(...))", why)
	}
	if len(patStores) == 0 {
		c.R.Violate("C13-R1", "ParsePatterns: stores parsed patterns", c.P.Pos(parse.Pos()), "ParsePatterns never stores into Branch.Pattern")
	}
	for _, pc := range parserCalls {
		if inPC[pc.Parent()] {
			c.R.Check(propagatedUp(pc.Parent(), callResults(pc)[1], 0), "C13-R1", "ParsePatterns: parser error propagated", c.pos(pc), "non-nil error returned", "a pattern syntax error is dropped")
		}
	}
	// remembered: a store of a pass-through syntax constant to Spec.PatternSyntax that every nil return after the parse loop passes
	var marks []*ssa.Store
	for _, st := range storesTo(parse, "Spec", "PatternSyntax") {
		if s, isS := ssau.ConstString(st.Val); isS && (s == "none" || s == "") {
			marks = append(marks, st)
		}
	}
	okMark := len(marks) >= 1
	if okMark && inParse == 1 {
		var pcBlock *ssa.BasicBlock
		for _, pc := range parserCalls {
			if inPC[pc.Parent()] {
				if site := siteInFnVia(parse, pc); site != nil {
					pcBlock = site.Block()
				}
			}
		}
		if pcBlock == nil {
			c.R.Break("C13-R1: cannot relate the parser call to ParsePatterns")
			return
		}
		// every nil-error return reachable from the parser call must be dominated by a mark
		for _, b := range parse.Blocks {
			ret, ok := b.Instrs[len(b.Instrs)-1].(*ssa.Return)
			if !ok || !ssau.IsNilConst(ret.Results[0]) || !flow.Reachable(pcBlock, b, nil) {
				continue
			}
			dom := false
			for _, m := range marks {
				if m.Block().Dominates(b) {
					dom = true
				}
			}
			if !dom {
				okMark = false
			}
		}
	}
	// who may write the mark: nothing outside ParsePatterns (and its helpers) assigns the PatternSyntax of an
	// existing spec — a later value would declare parsed patterns to be source text again
	{
		var bad []string
		for _, f := range c.P.AllFuncs {
			if !prog.InRepo(f) || inPC[f] {
				continue
			}
			top := f
			for top.Parent() != nil {
				top = top.Parent()
			}
			if inPC[top] {
				continue
			}
			for _, st := range storesTo(f, "Spec", "PatternSyntax") {
				if _, _, base, _ := ssau.FieldOf(st.Addr); localFresh(base) {
					continue // a Spec value built here
				}
				bad = append(bad, fname(f)+" ("+c.pos(st)+")")
			}
		}
		sort.Strings(bad)
		c.R.Check(len(bad) == 0, "C13-R1", "PatternSyntax of an existing spec is assigned only by ParsePatterns", c.P.Pos(parse.Pos()), "no other store in the repository", "the record that patterns are already parsed can be overwritten: "+strings.Join(bad, ", ")+" — a spec written out (or compiled again) afterwards has its parsed patterns parsed a second time")
	}
	c.R.Check(okMark, "C13-R1", "ParsePatterns: parsed form is recorded", c.P.Pos(parse.Pos()), "after parsing, PatternSyntax is set to a pass-through value on every successful exit", "after a successful parse nothing records that patterns are already parsed: a second Compile, or a Compile after serialising and reloading, parses the parsed patterns again")

	// ---------------------------------------------------------------- R2
	coreScope := c.P.ByPath[prog.Abs("core")].Types.Scope()
	type srcField struct{ typ, field string }
	var fields []srcField
	for _, tn := range []string{"Spec", "Node", "Branches", "Branch"} {
		obj := coreScope.Lookup(tn)
		if obj == nil {
			c.R.Break("C13-R2: type core.%s missing", tn)
			continue
		}
		st, _ := obj.Type().Underlying().(*types.Struct)
		for i := 0; st != nil && i < st.NumFields(); i++ {
			if ssau.TypeIs(st.Field(i).Type(), prog.Abs("core"), "ActionSource") {
				fields = append(fields, srcField{tn, st.Field(i).Name()})
			}
		}
	}
	closure := pkgClosure(compile)
	// errDeep: the error of call (made in fn) is propagated by fn and, if fn is a helper, by every caller up to Compile
	var errDeep func(fn *ssa.Function, errv ssa.Value, depth int) bool
	errDeep = func(fn *ssa.Function, errv ssa.Value, depth int) bool {
		if depth > 4 || !errPropagated(fn, errv) {
			return false
		}
		if fn == compile {
			return true
		}
		sites := callSitesOf(fn, closure)
		if len(sites) == 0 {
			return false
		}
		for _, s := range sites {
			cl, isCall := s.(*ssa.Call)
			if !isCall {
				return false
			}
			var ev ssa.Value = cl
			if tup, isTup := cl.Type().(*types.Tuple); isTup {
				ev = callResults(cl)[tup.Len()-1]
			}
			if !errDeep(s.Parent(), ev, depth+1) {
				return false
			}
		}
		return true
	}
	inClosure := map[*ssa.Function]bool{}
	for _, g := range closure {
		inClosure[g] = true
	}
	isAction := func(t types.Type) bool { return ssau.TypeIs(t, prog.Abs("core"), "Action") }
	// compilesParam: h is handed a source (parameter #pi) and every Action it hands out — returns, or stores anywhere
	// but into a variable of its own — is the result of compiling that source (or nil): an Action that comes from
	// somewhere else (a table of Actions compiled before, say) is not the compiled form of this source
	var compilesParam func(h *ssa.Function, pi int, depth int) bool
	compilesParam = func(h *ssa.Function, pi int, depth int) bool {
		if depth > 3 || pi >= len(h.Params) {
			return false
		}
		p := ssa.Value(h.Params[pi])
		isCompiled := func(v ssa.Value) bool {
			var cl *ssa.Call
			switch x := v.(type) {
			case *ssa.Extract:
				if x.Index == 0 {
					cl, _ = x.Tuple.(*ssa.Call)
				}
			case *ssa.Call:
				cl = x
			}
			if cl == nil || cl.Common().IsInvoke() {
				return false
			}
			sc := cl.Common().StaticCallee()
			if sc == asCompile {
				return cl.Common().Args[0] == p
			}
			if sc != nil && sc != h && inClosure[sc] {
				for j, a := range cl.Common().Args {
					if a == p && compilesParam(sc, j, depth+1) {
						return true
					}
				}
			}
			return false
		}
		var handed []ssa.Value
		ssau.Instrs(h, func(in ssa.Instruction) {
			switch x := in.(type) {
			case *ssa.Return:
				for _, r := range x.Results {
					if isAction(r.Type()) {
						handed = append(handed, r)
					}
				}
			case *ssa.Store:
				if _, isLocal := x.Addr.(*ssa.Alloc); !isLocal && isAction(x.Val.Type()) {
					handed = append(handed, x.Val)
				}
			}
		})
		n := 0
		for _, hv := range handed {
			for _, d := range phiDefs(hv, nil, map[ssa.Value]bool{}) {
				if ssau.IsNilConst(d) {
					continue
				}
				if !isCompiled(d) {
					return false
				}
				n++
			}
		}
		return n > 0
	}
	// handedDown: the receiver of a Compile call is a source field read on the spot, or a parameter of a helper that
	// hands out nothing but what it compiled from it, at every call of that helper up to where the field is read
	var handedDown func(v ssa.Value, depth int) bool
	handedDown = func(v ssa.Value, depth int) bool {
		if depth > 4 {
			return false
		}
		switch x := v.(type) {
		case *ssa.Parameter:
			h := x.Parent()
			idx := -1
			for i, hp := range h.Params {
				if hp == x {
					idx = i
				}
			}
			if idx < 0 || h == compile || !compilesParam(h, idx, 0) {
				return false
			}
			sites := callSitesOf(h, closure)
			for _, s := range sites {
				if idx >= len(s.Common().Args) || !handedDown(s.Common().Args[idx], depth+1) {
					return false
				}
			}
			return len(sites) > 0
		case *ssa.Phi:
			for _, e := range x.Edges {
				if !handedDown(e, depth+1) {
					return false
				}
			}
			return true
		case *ssa.UnOp:
			_, isFA := x.X.(*ssa.FieldAddr)
			return isFA && x.Op == token.MUL
		}
		return false
	}
	for _, f := range fields {
		ok := false
		why := "the source in " + f.typ + "." + f.field + " is never compiled (or its error is dropped)"
		var site ssa.Instruction
		for _, g := range closure {
			ssau.Instrs(g, func(in ssa.Instruction) {
				cl, isC := in.(*ssa.Call)
				if !isC || cl.Common().StaticCallee() != asCompile {
					return
				}
				// the receiver is the field itself, or a source handed down to the helper that compiles it
				// (`compileInto(spec.BootSource, &spec.Boot)`): the parameter is followed to its call sites
				is := false
				for _, d := range deepDefs(cl.Common().Args[0], closure) {
					if _, isF := isFieldLoad(d, "core", f.typ, f.field); isF {
						is = true
					}
				}
				if is {
					site = in
					if errDeep(g, callResults(cl)[1], 0) {
						if handedDown(cl.Common().Args[0], 0) {
							ok = true
						} else {
							why = "the source in " + f.typ + "." + f.field + " goes through " + fname(g) + ", which also hands out Actions that it did not compile from the source it was given"
						}
					}
				}
			})
		}
		pos := c.P.Pos(compile.Pos())
		if site != nil {
			pos = c.pos(site)
		}
		c.R.Check(ok, "C13-R2", "Compile: compiles "+f.typ+"."+f.field, pos, "ActionSource.Compile called on the field, error propagated", why)
	}
	// the compiled action is stored into the matching target field under the call's success
	// no iteration skips validation
	var typeLoad, guardLoad ssa.Instruction
	for _, g := range closure {
		ssau.Instrs(g, func(in ssa.Instruction) {
			if u, ok := in.(*ssa.UnOp); ok {
				if ssau.IsField(u.X, prog.Abs("core"), "Branches", "Type") && typeLoad == nil {
					typeLoad = in
				}
				if ssau.IsField(u.X, prog.Abs("core"), "Branch", "GuardSource") && guardLoad == nil {
					guardLoad = in
				}
			}
		})
	}
	checkNoSkip := func(what string, anchor ssa.Instruction, exempt func(b *ssa.BasicBlock) bool) {
		if anchor == nil {
			c.R.Violate("C13-R2", "Compile: "+what, c.P.Pos(compile.Pos()), "Compile does not read "+what)
			return
		}
		ok := true
		var bad []string
		inLoop := false
		// the anchor itself, then (when it lives in a helper) the call sites of the helper, up to Compile
		cur := []ssa.Instruction{anchor}
		for depth := 0; depth < 4 && len(cur) > 0; depth++ {
			var next []ssa.Instruction
			for _, a := range cur {
				fn := a.Parent()
				if L := flow.InnermostLoop(flow.Loops(fn), a.Block()); L != nil {
					inLoop = true
					for _, latch := range L.Latch {
						if a.Block().Dominates(latch) || exempt(latch) {
							continue
						}
						ok = false
						bad = append(bad, c.pos(latch.Instrs[len(latch.Instrs)-1]))
					}
				}
				if fn != compile {
					for _, s := range callSitesOf(fn, closure) {
						next = append(next, s)
					}
				}
			}
			cur = next
		}
		if !inLoop {
			c.R.Violate("C13-R2", "Compile: "+what+" inside the loop", c.pos(anchor), what+" is not checked per element")
			return
		}
		c.R.Check(ok, "C13-R2", "Compile: no iteration skips "+what, c.pos(anchor), "every way back to the loop head passes the check (or the element has nothing to check)", "an iteration can continue without "+what+" (skipping edge at "+strings.Join(bad, ", ")+")")
	}
	checkNoSkip("the branching-type validation", typeLoad, func(b *ssa.BasicBlock) bool {
		// exempt: the node has no Branches
		for _, f := range flow.EdgeFacts(b, b.Succs[0]) {
			if bo, ok := f.Cond.(*ssa.BinOp); ok && ssau.IsNilConst(bo.Y) {
				if _, is := isFieldLoad(bo.X, "core", "Node", "Branches"); is && ((bo.Op == token.EQL && f.True) || (bo.Op == token.NEQ && !f.True)) {
					return true
				}
			}
		}
		for _, f := range flow.FactsAt(b) {
			if bo, ok := f.Cond.(*ssa.BinOp); ok && ssau.IsNilConst(bo.Y) {
				if _, is := isFieldLoad(bo.X, "core", "Node", "Branches"); is && ((bo.Op == token.EQL && f.True) || (bo.Op == token.NEQ && !f.True)) {
					return true
				}
			}
		}
		return false
	})
	checkNoSkip("the guard compilation", guardLoad, func(b *ssa.BasicBlock) bool { return false })

	// ---------------------------------------------------------------- R3
	cstores := storesTo(compile, "Spec", "compiled")
	okC := len(cstores) == 1
	if okC {
		if cst, isC := cstores[0].Val.(*ssa.Const); !isC || cst.Value == nil || cst.Value.String() != "true" {
			okC = false
		}
	}
	c.R.Check(okC, "C13-R3", "Compile: single store compiled=true", c.P.Pos(compile.Pos()), "one store of true", fmt.Sprintf("%d stores to Spec.compiled (or not the constant true)", len(cstores)))
	if okC {
		nr := 0
		for _, b := range compile.Blocks {
			ret, ok := b.Instrs[len(b.Instrs)-1].(*ssa.Return)
			if !ok {
				continue
			}
			if ssau.IsNilConst(ret.Results[0]) {
				nr++
				c.R.Check(cstores[0].Block().Dominates(b), "C13-R3", fmt.Sprintf("Compile: nil return #%d after compiled=true", nr), c.pos(ret), "dominated by the store", "Compile can report success without marking the spec compiled")
			}
		}
		// the store is not inside a loop and every loop of Compile precedes it
		okEnd := !flow.InCycle(cstores[0].Block())
		for _, l := range flow.Loops(compile) {
			if !flow.Reachable(l.Header, cstores[0].Block(), nil) {
				okEnd = false
			}
			if flow.Reachable(cstores[0].Block(), l.Header, nil) {
				okEnd = false
			}
		}
		c.R.Check(okEnd, "C13-R3", "Compile: compiled=true only after all compilation", c.pos(cstores[0]), "past every loop, not in a loop", "the compiled flag can be set before all nodes and branches were processed")
	}
	// Step refuses uncompiled specs
	if step := c.P.Func("core", "Spec", "Step"); step != nil {
		// refuses(f): f tests Spec.compiled of the spec that is its parameter #pi and returns an error when it is false
		refuses := func(f *ssa.Function) (pi int, ok bool) {
			for _, b := range f.Blocks {
				iff, isIf := b.Instrs[len(b.Instrs)-1].(*ssa.If)
				if !isIf {
					continue
				}
				if base, is := isFieldLoad(iff.Cond, "core", "Spec", "compiled"); is {
					if returnsErr(b.Succs[1], nil) {
						for i, p := range f.Params {
							if p == base {
								return i, true
							}
						}
						return -1, true
					}
				}
			}
			return -1, false
		}
		_, ok := refuses(step)
		if !ok && len(step.Params) > 0 {
			// the precondition checks may live in a helper that is given Step's spec and whose error Step hands on
			ssau.Instrs(step, func(in ssa.Instruction) {
				cl, isC := in.(*ssa.Call)
				if !isC || ok {
					return
				}
				h := cl.Common().StaticCallee()
				if h == nil || h.Blocks == nil || prog.PkgOf(h) != "core" || h.Signature.Results().Len() == 0 {
					return
				}
				pi, is := refuses(h)
				if !is || pi < 0 || pi >= len(cl.Common().Args) || cl.Common().Args[pi] != step.Params[0] {
					return
				}
				var ev ssa.Value = cl
				if nres := h.Signature.Results().Len(); nres > 1 {
					ev = callResults(cl)[nres-1]
				}
				if ev != nil && errPropagated(step, ev) {
					ok = true
				}
			})
		}
		c.R.Check(ok, "C13-R3", "Step: refuses a spec that was not compiled", c.P.Pos(step.Pos()), "error return under !compiled", "Step no longer rejects uncompiled specs")
	}

	// ---------------------------------------------------------------- R4
	// unknown branching type
	okType := false
	if typeLoad != nil {
		// explore Compile from the point where the type is read under the assumption that it equals none of the
		// constants it is compared with: every way on must end in an error return before the next node is visited
		tv := typeLoad.(ssa.Value)
		tb := typeLoad.(ssa.Instruction).Block()
		tfn := typeLoad.(ssa.Instruction).Parent()
		var hdr *ssa.BasicBlock
		if L := flow.InnermostLoop(flow.Loops(tfn), tb); L != nil {
			hdr = L.Header
		}
		ncmp := 0
		okType = true
		seenB := map[*ssa.BasicBlock]bool{tb: true}
		stack := []*ssa.BasicBlock{tb}
		for len(stack) > 0 {
			x := stack[len(stack)-1]
			stack = stack[:len(stack)-1]
			last := x.Instrs[len(x.Instrs)-1]
			if _, isRet := last.(*ssa.Return); isRet {
				if !returnsErr(x, nil) {
					okType = false
				}
				continue
			}
			succs := x.Succs
			if iff, isIf := last.(*ssa.If); isIf {
				isTV := func(v ssa.Value) bool {
					if v == tv {
						return true
					}
					_, is := isFieldLoad(v, "core", "Branches", "Type") // the field read again
					return is
				}
				if bo, isB := iff.Cond.(*ssa.BinOp); isB && (isTV(bo.X) || isTV(bo.Y)) {
					other := bo.Y
					if isTV(bo.Y) {
						other = bo.X
					}
					if _, isC := other.(*ssa.Const); isC {
						switch bo.Op {
						case token.EQL:
							ncmp++
							succs = x.Succs[1:2]
						case token.NEQ:
							ncmp++
							succs = x.Succs[:1]
						}
					}
				}
			}
			for _, y := range succs {
				if y == hdr || (x != tb && y == tb) {
					okType = false // goes on to the next node (or round again) with an unknown type
					continue
				}
				if !seenB[y] {
					seenB[y] = true
					stack = append(stack, y)
				}
			}
		}
		if ncmp == 0 {
			okType = false
		}
		// the validation may sit in a helper: its error has to be handed on up to Compile
		for fn, depth := tfn, 0; fn != compile && okType; depth++ {
			sites := callSitesOf(fn, closure)
			if len(sites) != 1 || depth > 3 {
				okType = false
				break
			}
			cl, isCl := sites[0].(*ssa.Call)
			if !isCl {
				okType = false
				break
			}
			var errv ssa.Value = cl
			if tup, isT := cl.Type().(*types.Tuple); isT {
				errv = callResults(cl)[tup.Len()-1]
			}
			if !errPropagated(cl.Parent(), errv) {
				okType = false
			}
			fn = cl.Parent()
		}
	}
	c.R.Check(okType, "C13-R4", "Compile: unknown branching type rejected", c.P.Pos(compile.Pos()), "a type equal to none of the compared constants can only reach an error return", "an unknown branching type is accepted at compile time")
	// unknown interpreter
	okInt := false
	asClosure := pkgClosure(asCompile)
	// handedUp: an error return of fn reaches the caller of ActionSource.Compile (fn is Compile itself, or a helper
	// with one call site whose error result is handed on, helper by helper)
	handedUp := func(fn *ssa.Function) bool {
		for depth := 0; fn != asCompile; depth++ {
			sites := callSitesOf(fn, asClosure)
			if len(sites) != 1 || depth > 3 {
				return false
			}
			cl, isCl := sites[0].(*ssa.Call)
			if !isCl {
				return false
			}
			var errv ssa.Value = cl
			if tup, isT := cl.Type().(*types.Tuple); isT {
				errv = callResults(cl)[tup.Len()-1]
			}
			if !errPropagated(cl.Parent(), errv) {
				return false
			}
			fn = cl.Parent()
		}
		return true
	}
	for _, g := range asClosure {
		if g.Parent() != nil {
			continue // a function literal runs later, not at compile time
		}
		ssau.Instrs(g, func(in ssa.Instruction) {
			cl, isC := in.(*ssa.Call)
			if !isC || !cl.Common().IsInvoke() || cl.Common().Method.Name() != "Find" {
				return
			}
			for _, r := range throughVar(cl) {
				if bo, ok := r.(*ssa.BinOp); ok && ssau.IsNilConst(bo.Y) {
					for _, r2 := range ssau.Referrers(bo) {
						if iff, ok := r2.(*ssa.If); ok {
							s := iff.Block().Succs[0]
							if bo.Op == token.NEQ {
								s = iff.Block().Succs[1]
							}
							if returnsErr(s, nil) && handedUp(g) {
								okInt = true
							}
						}
					}
				}
			}
		})
	}
	c.R.Check(okInt, "C13-R4", "ActionSource.Compile: unknown interpreter rejected", c.P.Pos(asCompile.Pos()), "nil interpreter returns an error", "an unknown interpreter is accepted at compile time")
	// ... and "known" means registered under exactly that name: the registry's lookup is keyed by the name it is given,
	// and ActionSource.Compile asks for the name the action carries
	if find := c.P.Func("core", "InterpretersMap", "Find"); find != nil && len(find.Params) == 2 {
		c.R.Fn(fname(find))
		var bad []string
		nlk := 0
		ssau.Instrs(find, func(in ssa.Instruction) {
			switch x := in.(type) {
			case *ssa.Lookup:
				if _, isMap := x.X.Type().Underlying().(*types.Map); isMap {
					nlk++
					if x.Index != ssa.Value(find.Params[1]) {
						bad = append(bad, "a lookup keyed by "+x.Index.Name()+" instead of the given name ("+c.pos(x)+")")
					}
				}
			case *ssa.Call:
				if sc := x.Common().StaticCallee(); sc == find {
					bad = append(bad, "Find calls itself with another name ("+c.pos(x)+")")
				}
			case *ssa.Range:
				bad = append(bad, "Find searches the registry instead of looking the name up ("+c.pos(x)+")")
			}
		})
		sort.Strings(bad)
		c.R.Check(len(bad) == 0 && nlk > 0, "C13-R4", "InterpretersMap.Find: an interpreter is known under exactly its registered name", c.P.Pos(find.Pos()), fmt.Sprintf("%d lookup(s), each keyed by the given name", nlk), strings.Join(bad, "; ")+": a name the host did not register is resolved to some other interpreter, so a spec written for an interpreter this host lacks compiles here and fails (or behaves differently) at run time")
	} else {
		c.R.Break("C13-R4: core.InterpretersMap.Find not found")
	}
	ssau.Instrs(asCompile, func(in ssa.Instruction) {
		cl, isC := in.(*ssa.Call)
		if !isC || !cl.Common().IsInvoke() || cl.Common().Method.Name() != "Find" {
			return
		}
		is := true
		nleaf := 0
		for _, d := range deepDefs(cl.Common().Args[0], []*ssa.Function{asCompile}) {
			if _, isK := d.(*ssa.Const); isK {
				continue // a default for an action that names none
			}
			nleaf++
			if _, isF := isFieldLoad(d, "core", "ActionSource", "Interpreter"); !isF {
				is = false
			}
		}
		is = is && nleaf > 0
		c.R.Check(is, "C13-R4", "ActionSource.Compile: asks for the interpreter the action names", c.pos(cl), "Find(ActionSource.Interpreter)", "the interpreter is looked up under something else than the name the action carries")
	})
	// unknown syntax: the default parser's switch default returns an error
	okSyn := false
	if pf := defaultPatternParserFn(c); pf != nil {
		for _, f := range []*ssa.Function{pf} {
			c.R.Fn(fname(f))
			// a return of a non-nil error that is not an unmarshal error: errors.New with constant prefix
			for _, b := range f.Blocks {
				if ret, ok := b.Instrs[len(b.Instrs)-1].(*ssa.Return); ok && len(ret.Results) == 2 {
					if cl, isC := ret.Results[1].(*ssa.Call); isC && ssau.CalleeName(cl) == "errors.New" {
						// reached only when no syntax constant matched
						neg := 0
						for _, fa := range flow.FactsAt(b) {
							if bo, ok := fa.Cond.(*ssa.BinOp); ok && ((bo.Op == token.EQL && !fa.True) || (bo.Op == token.NEQ && fa.True)) {
								if _, isS := ssau.ConstString(bo.Y); isS {
									neg++
								}
							}
						}
						if neg >= 2 {
							okSyn = true
						}
					}
				}
			}
		}
	}
	c.R.Check(okSyn, "C13-R4", "DefaultPatternParser: unknown syntax rejected", c.P.Pos(compile.Pos()), "the default case returns an error", "an unknown pattern syntax is accepted")

	// ---------------------------------------------------------------- R5
	n5 := 0
	for _, f := range c.P.FuncsIn("sio", "cmd/mcrew", "cmd/msimple", "cmd/sheensio", "sio/siostd", "sio/siomq") {
		// does f unmarshal into a core.Spec (directly or inside crew.SpecSource)?
		var specAllocs []*ssa.Alloc
		// (the decode may sit in a helper of the same package that is handed the address of f's variable)
		lscope := []*ssa.Function{f}
		for _, g := range pkgClosure(f) {
			if g != f && prog.PkgOf(g) == prog.PkgOf(f) {
				lscope = append(lscope, g)
			}
		}
		for _, g := range lscope {
			ssau.Instrs(g, func(in ssa.Instruction) {
				ci, ok := in.(ssa.CallInstruction)
				if !ok {
					return
				}
				n := ssau.CalleeName(ci)
				if !strings.HasSuffix(n, ".Unmarshal") {
					return
				}
				dst := ci.Common().Args[len(ci.Common().Args)-1]
				if mi, ok := dst.(*ssa.MakeInterface); ok {
					dst = mi.X
				}
				for _, d := range deepDefs(dst, lscope) {
					if al, ok := d.(*ssa.Alloc); ok && al.Parent() == f {
						t := al.Type().Underlying().(*types.Pointer).Elem()
						if ssau.TypeIs(t, prog.Abs("core"), "Spec") || ssau.TypeIs(t, prog.Abs("crew"), "SpecSource") {
							specAllocs = append(specAllocs, al)
						}
					}
				}
			})
		}
		if len(specAllocs) == 0 {
			continue
		}
		c.R.Fn(fname(f))
		// a loader compiles what the document says: it does not fill in or change fields of the decoded specification
		// (a default that only one host applies makes the same document behave differently from host to host)
		for _, al := range specAllocs {
			if !ssau.TypeIs(al.Type().Underlying().(*types.Pointer).Elem(), prog.Abs("core"), "Spec") {
				continue
			}
			edited := ""
			for _, r := range ssau.Referrers(al) {
				if fa, isFA := r.(*ssa.FieldAddr); isFA {
					for _, r2 := range ssau.Referrers(fa) {
						if st, isSt := r2.(*ssa.Store); isSt && st.Addr == ssa.Value(fa) {
							_, fld, _, _ := ssau.FieldOf(fa)
							edited = fld + " (" + c.pos(st) + ")"
						}
					}
				}
			}
			c.R.Check(edited == "", "C13-R5", fname(f)+": the decoded specification is compiled as it was written", c.pos(al), "no field of the decoded core.Spec is assigned by the loader", "the loader assigns "+edited+" of the specification it has just decoded: the same document then means something else when this host loads it")
		}
		// every return that hands out a *core.Spec / Specter derived from those allocs must be dominated by a Compile call with its error checked
		var compiles []*ssa.Call
		ssau.Instrs(f, func(in ssa.Instruction) {
			if cl, ok := in.(*ssa.Call); ok && (cl.Common().StaticCallee() == compile || compileWrapper(cl.Common().StaticCallee(), compile)) {
				compiles = append(compiles, cl)
			}
		})
		for _, b := range f.Blocks {
			ret, ok := b.Instrs[len(b.Instrs)-1].(*ssa.Return)
			if !ok {
				continue
			}
			for _, rv := range ret.Results {
				if !(ssau.TypeIs(rv.Type(), prog.Abs("core"), "Spec") || ssau.TypeIs(rv.Type(), prog.Abs("core"), "Specter")) || ssau.IsNilConst(rv) {
					continue
				}
				n5++
				ok := false
				for _, cc := range compiles {
					if cc.Block().Dominates(b) && errChecked(f, cc, b) {
						ok = true
					}
				}
				c.R.Check(ok, "C13-R5", fmt.Sprintf("%s: spec returned only after Compile succeeded #%d", fname(f), n5), c.pos(ret), "dominated by a Compile call whose error was tested", "a loaded spec is handed out without a successful Compile")
			}
		}
	}
	if n5 == 0 {
		c.R.Break("C13-R5: no loader returning a spec found in the host packages")
	}
	_ = sort.Strings
}

// errChecked: the error result of call is compared with nil and block b lies on the nil side.
func errChecked(fn *ssa.Function, call *ssa.Call, b *ssa.BasicBlock) bool {
	var errv ssa.Value = call
	if tup, ok := call.Type().(*types.Tuple); ok {
		errv = callResults(call)[tup.Len()-1]
	}
	if errv == nil {
		return false
	}
	for _, f := range flow.FactsAt(b) {
		if bo, ok := f.Cond.(*ssa.BinOp); ok && ssau.IsNilConst(bo.Y) {
			match := bo.X == errv
			if !match {
				// the error may have been stored in a variable (err = spec.Compile(...)): accept a phi / load chain holding errv
				for _, d := range phiDefs(bo.X, nil, map[ssa.Value]bool{}) {
					if d == errv {
						match = true
					}
				}
			}
			if !match {
				// a named result that go/ssa keeps in memory (`if err = write(); err == nil {`): the load sees the call's
				// error when the store of it is the only one that can reach the load
				if defs, zero, isCell := reachingCellDefs(bo.X); isCell && !zero && len(defs) == 1 && defs[0].v == errv {
					match = true
				}
			}
			if match && ((bo.Op == token.EQL && f.True) || (bo.Op == token.NEQ && !f.True)) {
				return true
			}
		}
	}
	return false
}

func lastBlockWithStore(fn *ssa.Function, typ, field string) *ssa.BasicBlock {
	sts := storesTo(fn, typ, field)
	if len(sts) == 0 {
		return fn.Blocks[0]
	}
	return sts[len(sts)-1].Block()
}

// throughVar returns the users of v, looking through a local variable it is
// stored into (captured variables are heap cells in SSA).
func throughVar(v ssa.Value) []ssa.Instruction {
	var out []ssa.Instruction
	for _, r := range ssau.Referrers(v) {
		out = append(out, r)
		if st, ok := r.(*ssa.Store); ok && st.Val == v {
			if al, ok := st.Addr.(*ssa.Alloc); ok {
				for _, r2 := range ssau.Referrers(al) {
					if ld, ok := r2.(*ssa.UnOp); ok {
						out = append(out, ssau.Referrers(ld)...)
					}
				}
			}
		}
	}
	return out
}

// nameDisagreements lists the fields reachable from t that the JSON decoder and the YAML decoder know under
// different names (YAML's default name is the lower-cased field name, JSON's the field name matched without case).
func nameDisagreements(t types.Type) []string {
	var out []string
	seen := map[types.Type]bool{}
	var walk func(t types.Type, path string)
	walk = func(t types.Type, path string) {
		if seen[t] {
			return
		}
		seen[t] = true
		switch u := t.Underlying().(type) {
		case *types.Pointer:
			walk(u.Elem(), path)
		case *types.Slice:
			walk(u.Elem(), path)
		case *types.Array:
			walk(u.Elem(), path)
		case *types.Map:
			walk(u.Elem(), path)
		case *types.Struct:
			name := path
			if n, ok := t.(*types.Named); ok {
				name = n.Obj().Name()
			}
			for i := 0; i < u.NumFields(); i++ {
				f := u.Field(i)
				if !f.Exported() {
					continue
				}
				tag := reflect.StructTag(u.Tag(i))
				jn, yn := strings.Split(tag.Get("json"), ",")[0], strings.Split(tag.Get("yaml"), ",")[0]
				if jn == "-" || yn == "-" {
					continue
				}
				if jn == "" {
					jn = f.Name()
				}
				if yn == "" {
					yn = strings.ToLower(f.Name())
				}
				// yaml.v2 matches keys exactly; encoding/json matches them case-insensitively
				if yn != jn {
					out = append(out, fmt.Sprintf("%s.%s (JSON %q, YAML %q)", name, f.Name(), jn, yn))
				}
				if !f.Embedded() || true {
					walk(f.Type(), name+"."+f.Name())
				}
			}
		}
	}
	walk(t, "")
	sort.Strings(out)
	return out
}

// c13OneDecoder: another loader that takes both representations (cmd/mdb): no body goes through both decoders.
func c13OneDecoder(c *Ctx, pkg, recv, name string) {
	f := c.P.Func(pkg, recv, name)
	if f == nil || f.Blocks == nil {
		return // the tool is optional
	}
	var js, ys []ssa.Instruction
	ssau.Instrs(f, func(in ssa.Instruction) {
		ci, ok := in.(ssa.CallInstruction)
		if !ok || len(ci.Common().Args) == 0 {
			return
		}
		n := ssau.CalleeName(ci)
		dst := ci.Common().Args[len(ci.Common().Args)-1]
		if mi, isMI := dst.(*ssa.MakeInterface); isMI {
			dst = mi.X
		}
		pt, isP := dst.Type().Underlying().(*types.Pointer)
		if !isP || !ssau.TypeIs(pt.Elem(), prog.Abs("core"), "Spec") {
			return
		}
		switch {
		case n == "encoding/json.Unmarshal":
			js = append(js, in)
		case strings.Contains(n, "yaml") && strings.HasSuffix(n, ".Unmarshal"):
			ys = append(ys, in)
		}
	})
	if len(js) == 0 || len(ys) == 0 {
		return
	}
	c.R.Fn(fname(f))
	both := ""
	for _, a := range js {
		for _, b := range ys {
			if flow.InstrDominates(a, b) || flow.InstrDominates(b, a) || flow.Reachable(a.Block(), b.Block(), nil) && a.Block() != b.Block() {
				both = c.pos(b)
			}
		}
	}
	// which decoder: decided by what the body starts with, not by where it came from or how it is called
	untrimmed := map[ssa.Instruction]bool{}
	byContent := func(in ssa.Instruction) bool {
		for _, ft := range flow.FactsAt(in.Block()) {
			bo, isB := ft.Cond.(*ssa.BinOp)
			if !isB || (bo.Op != token.EQL && bo.Op != token.NEQ) {
				continue
			}
			if k, isC := ssau.ConstInt(bo.Y); !isC || k != '{' {
				continue
			}
			if ld, isLd := bo.X.(*ssa.UnOp); isLd {
				if ia, isIA := ld.X.(*ssa.IndexAddr); isIA {
					if sl, isSl := ia.X.Type().Underlying().(*types.Slice); isSl {
						if bt, isBt := sl.Elem().Underlying().(*types.Basic); isBt && bt.Kind() == types.Uint8 {
							trimmed := false
							for _, d := range varOrigins(f, ia.X) {
								if cl, isCl := d.(*ssa.Call); isCl {
									switch ssau.CalleeName(cl) {
									case "bytes.TrimSpace", "bytes.TrimLeft", "bytes.TrimLeftFunc":
										trimmed = true
										continue
									}
								}
								trimmed = false
								break
							}
							if !trimmed {
								untrimmed[bo] = true
							}
							return true
						}
					}
				}
			}
		}
		return false
	}
	if diffs := nameDisagreements(c.P.NamedType("core", "Spec")); len(diffs) > 0 {
		okSel := true
		for _, in := range append(append([]ssa.Instruction{}, js...), ys...) {
			if !byContent(in) {
				okSel = false
			}
		}
		if okSel {
			at := c.pos(js[0])
			for in := range untrimmed {
				at = c.pos(in)
			}
			c.R.Check(len(untrimmed) == 0, "C13-R6", fname(f)+": the representation is decided on the first byte that is not white space", at, "the body that is sniffed comes from bytes.TrimSpace / TrimLeft", "a JSON document that starts with white space (a newline, an indent) is taken for YAML and loses the fields whose JSON names the YAML decoder does not know")
		}
		c.R.Check(okSel, "C13-R6", fname(f)+": the decoder is chosen by the body's first byte", c.pos(js[0]), "each decode is under a comparison of a byte of the body with '{'", "the JSON or the YAML decoder is chosen by something else than the content (a file name, say): a JSON body that reaches the YAML decoder loses the fields whose JSON names it does not know ("+diffs[0]+", ...)")
	}
	c.R.Check(both == "", "C13-R6", fname(f)+": one decoder per body", c.pos(js[0]), "the JSON and the YAML decode are on different paths", "a body decoded as JSON also goes through the YAML decoder ("+both+"): the YAML reading of the JSON text replaces the nodes (numbers such as 1e3 become strings, legal JSON escapes are rejected)")
}

// c13Decoders: sio.ResolveSpecSource is the loader that takes a specification in either representation (property
// anchor "hosts load YAML or JSON and compile").  As long as the two decoders know some field of a specification
// under different names, a JSON body has to go through encoding/json, and no body through both.
func c13Decoders(c *Ctx) {
	rs := c.fn("sio", "", "ResolveSpecSource")
	if rs == nil {
		return
	}
	var specT types.Type
	if n := c.P.NamedType("core", "Spec"); n != nil {
		specT = n
	}
	if specT == nil {
		c.R.Break("C13-R6: core.Spec not found")
		return
	}
	diffs := nameDisagreements(specT)
	fns := pkgClosure(rs)
	type dec struct {
		in   ssa.Instruction
		json bool
	}
	var decs []dec
	for _, f := range fns {
		ssau.Instrs(f, func(in ssa.Instruction) {
			ci, ok := in.(ssa.CallInstruction)
			if !ok || len(ci.Common().Args) == 0 {
				return
			}
			n := ssau.CalleeName(ci)
			isJSON := n == "encoding/json.Unmarshal" || n == "(*encoding/json.Decoder).Decode"
			isYAML := strings.Contains(n, "yaml") && (strings.HasSuffix(n, ".Unmarshal") || strings.HasSuffix(n, ".UnmarshalStrict") || strings.HasSuffix(n, ".Decode"))
			if !isJSON && !isYAML {
				return
			}
			dst := ci.Common().Args[len(ci.Common().Args)-1]
			if mi, ok := dst.(*ssa.MakeInterface); ok {
				dst = mi.X
			}
			pt, ok := dst.Type().Underlying().(*types.Pointer)
			if !ok || !ssau.TypeIs(pt.Elem(), prog.Abs("core"), "Spec") {
				return
			}
			decs = append(decs, dec{in, isJSON})
		})
	}
	if len(decs) == 0 {
		c.R.Break("C13-R6: ResolveSpecSource never decodes a specification")
		return
	}
	c.R.Fn(fname(rs))
	if len(diffs) == 0 {
		c.R.Discharge("C13-R6", "ResolveSpecSource: a JSON body is decoded by encoding/json", c.P.Pos(rs.Pos()), "the two decoders know every field of a specification under the same name")
		return
	}
	hasJSON := false
	var firstYAML ssa.Instruction
	for _, d := range decs {
		if d.json {
			hasJSON = true
		} else if firstYAML == nil {
			firstYAML = d.in
		}
	}
	show := diffs
	if len(show) > 6 {
		show = append(append([]string{}, show[:6]...), fmt.Sprintf("and %d more", len(diffs)-6))
	}
	at := c.P.Pos(rs.Pos())
	if firstYAML != nil {
		at = c.pos(firstYAML)
	}
	c.R.Check(hasJSON, "C13-R6", "ResolveSpecSource: a JSON body is decoded by encoding/json", at, "encoding/json decodes into the core.Spec", "every body is decoded by the YAML decoder, which does not know these fields by their JSON names and drops them silently: "+strings.Join(show, "; "))
	both := ""
	for _, a := range decs {
		for _, b := range decs {
			if a.json && !b.json && a.in.Parent() == b.in.Parent() && (flow.InstrDominates(a.in, b.in) || flow.InstrDominates(b.in, a.in)) {
				both = c.pos(b.in)
			}
		}
	}
	// the byte that decides the representation is the first byte that is not white space (a JSON document may
	// start with a newline)
	nsniff := 0
	for _, f := range fns {
		ssau.Instrs(f, func(in ssa.Instruction) {
			bo, ok := in.(*ssa.BinOp)
			if !ok || (bo.Op != token.EQL && bo.Op != token.NEQ) {
				return
			}
			k, isC := ssau.ConstInt(bo.Y)
			if !isC || k != '{' {
				return
			}
			ld, isLd := bo.X.(*ssa.UnOp)
			if !isLd {
				return
			}
			ia, isIA := ld.X.(*ssa.IndexAddr)
			if !isIA {
				return
			}
			nsniff++
			trimmed := false
			for _, d := range varOrigins(rs, ia.X) {
				if cl, isCl := d.(*ssa.Call); isCl {
					switch ssau.CalleeName(cl) {
					case "bytes.TrimSpace", "bytes.TrimLeft", "bytes.TrimLeftFunc":
						trimmed = true
						continue
					}
				}
				trimmed = false
				break
			}
			c.R.Check(trimmed, "C13-R6", fmt.Sprintf("ResolveSpecSource: the representation is decided on the first byte that is not white space #%d", nsniff), c.pos(in), "the body that is sniffed comes from bytes.TrimSpace / TrimLeft", "a JSON document that starts with white space (a newline, an indent) is taken for YAML and loses the fields whose JSON names the YAML decoder does not know")
		})
	}
	c.R.Check(both == "", "C13-R6", "ResolveSpecSource: one decoder per body", at, "the JSON and the YAML decode are on different paths", "a body decoded as JSON also goes through the YAML decoder ("+both+")")
}

// compileWrapper: h calls Spec.Compile once and answers nil only when that call did: every return hands on the
// call's own error or an error made on the spot.
func compileWrapper(h, compile *ssa.Function) bool {
	if h == nil || h.Blocks == nil || h == compile {
		return false
	}
	res := h.Signature.Results()
	if res.Len() == 0 || !types.Identical(res.At(res.Len()-1).Type(), types.Universe.Lookup("error").Type()) {
		return false
	}
	var cc []*ssa.Call
	ssau.Instrs(h, func(in ssa.Instruction) {
		if cl, ok := in.(*ssa.Call); ok && cl.Common().StaticCallee() == compile {
			cc = append(cc, cl)
		}
	})
	if len(cc) != 1 {
		return false
	}
	for _, b := range h.Blocks {
		ret, ok := b.Instrs[len(b.Instrs)-1].(*ssa.Return)
		if !ok {
			continue
		}
		if !cc[0].Block().Dominates(b) {
			return false
		}
		for _, d := range phiDefs(ret.Results[len(ret.Results)-1], nil, map[ssa.Value]bool{}) {
			if d == ssa.Value(cc[0]) {
				continue
			}
			if cl, isC := d.(*ssa.Call); isC {
				if n := ssau.CalleeName(cl); n == "errors.New" || n == "fmt.Errorf" {
					continue
				}
			}
			if ssau.IsNilConst(d) && errChecked(h, cc[0], b) {
				continue
			}
			return false
		}
	}
	return true
}

package rules

import (
	"fmt"
	"go/token"
	"go/types"
	"strings"

	"golang.org/x/tools/go/ssa"

	"sheensverif/internal/flow"
	"sheensverif/internal/prog"
	"sheensverif/internal/ssau"
)

func init() { Registry["C11"] = C11 }

func isContext(t types.Type) bool { return ssau.TypeIs(t, "context", "Context") }

// loadOfCell: v is a load of the heap cell (Alloc / FreeVar) holding a variable; returns the cell.
func cellOf(v ssa.Value) ssa.Value {
	if u, ok := v.(*ssa.UnOp); ok && u.Op == token.MUL {
		switch u.X.(type) {
		case *ssa.Alloc, *ssa.FreeVar:
			return u.X
		}
	}
	return nil
}

// bindingOf maps a free variable of closure fn (made by mc) to the bound value.
func bindingOf(mc *ssa.MakeClosure, fv *ssa.FreeVar) ssa.Value {
	fn := mc.Fn.(*ssa.Function)
	for i, f := range fn.FreeVars {
		if f == fv && i < len(mc.Bindings) {
			return mc.Bindings[i]
		}
	}
	return nil
}

// sameVar: a and b denote the same variable: identical SSA value, or loads of / the same cell.
func sameVar(a, b ssa.Value) bool {
	if a == b {
		return true
	}
	ca, cb := cellOf(a), cellOf(b)
	if ca != nil && (ca == cb || ca == b) {
		return true
	}
	if cb != nil && cb == a {
		return true
	}
	return false
}

// storedInto returns the values stored into cell c.
func storedInto(c ssa.Value) []ssa.Value {
	var out []ssa.Value
	for _, r := range ssau.Referrers(c) {
		if st, ok := r.(*ssa.Store); ok && st.Addr == c {
			out = append(out, st.Val)
		}
	}
	return out
}

func C11(c *Ctx) {
	c.R.Explanation = "Decides structural necessary conditions of 'timeouts are enforced and nothing outlives the call' on the SSA form of the ECMAScript interpreter and of core's call chain: (R1) Exec starts, on every path to the point where the program runs, a goroutine that blocks on Done() of a context derived from Exec's own ctx and then interrupts the very runtime that runs the program; (R2) the cancel function of that derived context is called on every path from its creation to every return; (R3) the closure of Exec starts no other goroutine and creates no timer or ticker, and the watcher has no loop; (R4) an interrupted run is mapped to the package's Interrupted error; (R5) every context handed to an action, guard, interpreter or nested Step is the ctx parameter of the enclosing function — never a captured or background context — so a per-call deadline reaches the script. Promptness and goja honouring the interrupt are not decided."
	c.R.Rule("C11-R1", "E3+E5", "watcher goroutine interrupts the runtime when the derived context ends", 3)
	c.R.Rule("C11-R2", "E3", "cancel on every path", 1)
	c.R.Rule("C11-R3", "E7", "no other background work", 2)
	c.R.Rule("C11-R4", "E3", "interruption mapped to Interrupted", 1)
	c.R.Rule("C11-R5", "E5", "the caller's context reaches every execution", 5)
	c.R.Rule("C11-R6", "E3", "the runtime's call depth is bounded before the program runs", 1)
	c.R.Rule("C11-R7", "E3", "the call returns only after the watcher has ended", 1)
	c.R.Rule("C11-R8", "E5", "hosts hand on the context they are given", 3)
	c11HostContexts(c)
	c.R.Rule("C11-R11", "E7", "mcrew stores the routing of a stopped action: the store's write path does not consult the (by then ended) context", 1)
	c11StoreIgnoresCtx(c, "C11-R11")
	c.shareRule("C04", "C04-R17", "C11-R12", "a guard that times out fails the step: its error is handed on, not skipped")
	c.shareRule("C04", "C04-R18", "C11-R13", "the engine itself never consults the context: a timeout is reported by the execution that was stopped, and the call returns only when that execution has")
	c.shareRule("C04", "C04-R11", "C11-R10", "a timeout is routed like any other action error: after a failed action only the spec's routing settings choose the exit of Step")
	c.R.Rule("C11-R9", "E3", "an execution whose context has ended reports the timeout, whatever the runtime returned", 1)
	exec := c.fn("interpreters/ecmascript", "Interpreter", "Exec")
	if exec == nil {
		return
	}
	c.R.Fn(fname(exec))
	var ctxP *ssa.Parameter
	for _, p := range exec.Params {
		if isContext(p.Type()) {
			ctxP = p
		}
	}
	if ctxP == nil {
		c.R.Break("C11: Exec has no context parameter")
		return
	}
	pkgFns := pkgClosure(exec)
	traces := func(v ssa.Value, target ssa.Value) bool {
		leaves := resolveThroughLocals(v, pkgFns)
		if len(leaves) == 0 {
			return false
		}
		for _, l := range leaves {
			if l != target {
				// a captured variable cell: look at what is stored into it
				if cell := cellOf(l); cell != nil {
					okCell := false
					for _, root := range deepDefs(cell, pkgFns) {
						for _, sv := range storedInto(root) {
							for _, l2 := range deepDefs(sv, pkgFns) {
								if l2 == target {
									okCell = true
								}
							}
						}
					}
					if okCell {
						continue
					}
				}
				return false
			}
		}
		return true
	}
	// frame: the function in which "derive, start the watcher, run, cancel" is laid out.  It is Exec, or the
	// helper Exec delegates the run to when that helper also holds the derived context (see below).
	frame := exec
	// anchor: the instruction of the frame that leads to `in`
	var anchor func(in ssa.Instruction, depth int) ssa.Instruction
	anchor = func(in ssa.Instruction, depth int) ssa.Instruction {
		if in.Parent() == frame {
			return in
		}
		if depth > 4 {
			return nil
		}
		if par := in.Parent().Parent(); par != nil {
			// an instruction of a function literal: the place where the literal is made
			var mk ssa.Instruction
			ssau.Instrs(par, func(i2 ssa.Instruction) {
				if mc, ok := i2.(*ssa.MakeClosure); ok && mc.Fn == ssa.Value(in.Parent()) {
					mk = i2
				}
			})
			if mk != nil {
				return anchor(mk, depth+1)
			}
		}
		sites := callSitesOf(in.Parent(), pkgFns)
		if len(sites) != 1 {
			return nil
		}
		return anchor(sites[0], depth+1)
	}
	// mustAnchors: the instructions of the frame at which `in` is certainly executed: `in` itself when it is in the
	// frame; when it is in a helper (not a function literal), the helper executes it on every way from its entry
	// to a return, and the same holds for every call of the helper, up to the frame.  Nil if that cannot be shown.
	var mustAnchors func(in ssa.Instruction) []ssa.Instruction
	{
		var rec func(in ssa.Instruction, depth int) ([]ssa.Instruction, bool)
		rec = func(in ssa.Instruction, depth int) ([]ssa.Instruction, bool) {
			f := in.Parent()
			if f == frame {
				return []ssa.Instruction{in}, true
			}
			if _, isCall := in.(*ssa.Call); (!isCall && depth > 0) || depth > 4 || f.Parent() != nil {
				return nil, false
			}
			if !flow.NewPostDom(f).PostDominates(in.Block(), f.Blocks[0]) {
				return nil, false
			}
			sites := callSitesOf(f, pkgFns)
			if len(sites) == 0 {
				return nil, false
			}
			var out []ssa.Instruction
			for _, s := range sites {
				as, ok := rec(s, depth+1)
				if !ok {
					return nil, false
				}
				out = append(out, as...)
			}
			return out, true
		}
		mustAnchors = func(in ssa.Instruction) []ssa.Instruction {
			as, _ := rec(in, 0)
			return as
		}
	}
	// derived context: a With* call (in Exec or a helper) on a value that is Exec's ctx
	var derive *ssa.Call
	for _, g := range pkgFns {
		ssau.Instrs(g, func(in ssa.Instruction) {
			if cl, ok := in.(*ssa.Call); ok {
				switch ssau.CalleeName(cl) {
				case "context.WithCancel", "context.WithTimeout", "context.WithDeadline":
					if traces(cl.Common().Args[0], ctxP) {
						derive = cl
					}
				}
			}
		})
	}
	if derive == nil {
		c.R.Violate("C11-R1", "Exec: derives a cancellable context from its ctx", c.P.Pos(exec.Pos()), "no context.WithCancel/WithTimeout/WithDeadline on Exec's ctx parameter")
		return
	}
	ictx, cancel := callResults(derive)[0], callResults(derive)[1]
	// the call that runs the program
	fns := append([]*ssa.Function{}, pkgFns...)
	for _, f := range c.P.FuncsIn("interpreters/ecmascript") {
		fns = append(fns, f)
	}
	runs := runsProgram(fns)
	findRun := func(f *ssa.Function) (ssa.CallInstruction, ssa.Value) {
		var rc ssa.CallInstruction
		var rt ssa.Value
		ssau.Instrs(f, func(in ssa.Instruction) {
			ci, ok := in.(ssa.CallInstruction)
			if !ok {
				return
			}
			isRun := strings.HasPrefix(ssau.CalleeName(ci), "(*"+gojaRuntime+".Runtime).Run")
			if sc := ci.Common().StaticCallee(); sc != nil && runs[sc] {
				isRun = true
			}
			if !isRun {
				return
			}
			for _, a := range ci.Common().Args {
				if ssau.TypeIs(a.Type(), gojaRuntime, "Runtime") {
					rc, rt = ci, a
					break
				}
			}
		})
		return rc, rt
	}
	runCall, runtimeVal := findRun(frame)
	// descend into the helper that runs the program as long as the derived context is created inside it
	for i := 0; i < 3 && runCall != nil; i++ {
		g := runCall.Common().StaticCallee()
		if g == nil || g.Blocks == nil || prog.PkgOf(g) != "interpreters/ecmascript" {
			break
		}
		inside := false
		for _, h := range pkgClosure(g) {
			if h == derive.Parent() {
				inside = true
			}
		}
		if !inside {
			break
		}
		rc2, rt2 := findRun(g)
		if rc2 == nil {
			break
		}
		frame, runCall, runtimeVal = g, rc2, rt2
	}
	c.R.Fn(fname(frame))
	deriveAnchor := anchor(derive, 0)
	if runCall == nil || deriveAnchor == nil {
		c.R.Break("C11: Exec never runs a program (or the derived context cannot be related to Exec)")
		return
	}
	// norm: leaf definitions, looking through (captured) variable cells to the values stored into them
	var normRec func(v ssa.Value, depth int, seen map[ssa.Value]bool) []ssa.Value
	normRec = func(v ssa.Value, depth int, seen map[ssa.Value]bool) []ssa.Value {
		var out []ssa.Value
		if depth > 8 || seen[v] {
			return nil
		}
		seen[v] = true
		for _, l := range resolveThroughLocals(v, pkgFns) {
			cell := cellOf(l)
			if cell == nil {
				out = append(out, l)
				continue
			}
			for _, root := range deepDefs(cell, pkgFns) {
				svs := storedInto(root)
				if len(svs) == 0 {
					out = append(out, root)
				}
				for _, sv := range svs {
					out = append(out, normRec(sv, depth+1, seen)...)
				}
			}
		}
		return out
	}
	norm := func(v ssa.Value) []ssa.Value { return normRec(v, 0, map[ssa.Value]bool{}) }
	rtLeaves := norm(runtimeVal)
	sameRuntime := func(v ssa.Value) bool {
		ls := norm(v)
		if len(ls) == 0 || len(rtLeaves) == 0 {
			return false
		}
		for _, l := range ls {
			ok := false
			for _, r := range rtLeaves {
				if l == r || sameVar(l, r) {
					ok = true
				}
			}
			if !ok {
				return false
			}
		}
		return true
	}
	// ---- R1 / R3: go statements
	var gos []*ssa.Go
	timers := 0
	closure := map[*ssa.Function]bool{}
	var visit func(f *ssa.Function)
	visit = func(f *ssa.Function) {
		if f == nil || f.Blocks == nil || closure[f] || prog.PkgOf(f) != "interpreters/ecmascript" {
			return
		}
		closure[f] = true
		c.R.Fn(fname(f))
		for _, an := range f.AnonFuncs {
			visit(an)
		}
		ssau.Instrs(f, func(in ssa.Instruction) {
			if g, ok := in.(*ssa.Go); ok {
				gos = append(gos, g)
			}
			if ci, ok := in.(ssa.CallInstruction); ok {
				switch ssau.CalleeName(ci) {
				case "time.AfterFunc", "time.NewTimer", "time.NewTicker", "time.After", "time.Tick":
					timers++
					c.R.Violate("C11-R3", fmt.Sprintf("%s: timer #%d", fname(f), timers), c.pos(in), "the execution creates a timer/ticker ("+ssau.CalleeName(ci)+") in addition to the watcher: it can outlive the call or replace the cancellation watcher")
				}
				for _, cal := range c.P.Callees(ci) {
					visit(cal)
				}
			}
		})
	}
	visit(exec)
	c.R.Check(len(gos) == 1, "C11-R3", "Exec closure: exactly one goroutine", c.P.Pos(exec.Pos()), "one go statement (the watcher)", fmt.Sprintf("%d go statements in the closure of Exec", len(gos)))
	c.R.Check(timers == 0, "C11-R3", "Exec closure: no timers", c.P.Pos(exec.Pos()), "no time.AfterFunc/NewTimer/NewTicker/After", "timers created")
	okWatcher := false
	var watchFn *ssa.Function
	var watchGo *ssa.Go
	var watchIntr ssa.Instruction
	var watcherWhy = "no goroutine waits on the derived context and interrupts the runtime"
	for _, g := range gos {
		wfn := c11GoTarget(g, pkgFns)
		if wfn == nil || !closure[wfn] {
			continue
		}
		waits, interrupts, unconditional := false, false, false
		var intr ssa.Instruction
		pd := flow.NewPostDom(wfn)
		ssau.Instrs(wfn, func(in ssa.Instruction) {
			if u, ok := in.(*ssa.UnOp); ok && u.Op == token.ARROW {
				if cl, ok := u.X.(*ssa.Call); ok && cl.Common().IsInvoke() && cl.Common().Method.Name() == "Done" {
					if traces(cl.Common().Value, ictx) {
						waits = true
					}
				}
			}
			if ci, ok := in.(ssa.CallInstruction); ok && ssau.CalleeName(ci) == "(*"+gojaRuntime+".Runtime).Interrupt" {
				if sameRuntime(ci.Common().Args[0]) {
					interrupts = true
					intr = in
					if pd.PostDominates(in.Block(), wfn.Blocks[0]) {
						unconditional = true
					}
				}
			}
		})
		noLoop := len(flow.Loops(wfn)) == 0
		ga := anchor(g, 0)
		dominates := ga != nil && flow.InstrDominates(ga, runCall.(ssa.Instruction))
		if waits && interrupts && unconditional && noLoop && dominates {
			okWatcher = true
			watchFn, watchGo, watchIntr = wfn, g, intr
		} else {
			watcherWhy = fmt.Sprintf("watcher goroutine: waits on the derived context=%v, interrupts the running runtime=%v (unconditionally=%v), loop-free=%v, started on every path before the program runs=%v", waits, interrupts, unconditional, noLoop, dominates)
		}
		c.R.Check(noLoop, "C11-R3", "watcher has no loop", c.pos(g), "straight-line: wait, interrupt, exit", "the watcher loops")
	}
	c.R.Check(okWatcher, "C11-R1", "Exec: cancellation watcher", c.pos(runCall), "a goroutine started before the program runs blocks on Done() of the derived context and then calls Interrupt on the runtime running the program", watcherWhy)
	c.R.Check(flow.InstrDominates(deriveAnchor, runCall.(ssa.Instruction)), "C11-R1", "Exec: derived context exists before the program runs", c.pos(derive), "creation dominates the run", "the derived context is not always created before the program runs")
	c.R.Discharge("C11-R1", "Exec: derived from the caller's ctx", c.pos(derive), ssau.CalleeName(derive)+"(ctx)")

	// ---- R2 cancel on every path (in Exec, from the point where the derived context exists)
	if cancel == nil {
		c.R.Violate("C11-R2", "Exec: cancel function kept", c.pos(derive), "the cancel function of the derived context is discarded")
	} else {
		cancelBlocks := map[*ssa.BasicBlock]bool{}
		deferred := false
		for _, g := range pkgFns {
			ssau.Instrs(g, func(in ssa.Instruction) {
				switch u := in.(type) {
				case *ssa.Call:
					if u.Common().StaticCallee() == nil && !u.Common().IsInvoke() && traces(u.Common().Value, cancel) {
						// in the frame itself, or in a helper that cancels on every way through it: then the
						// frame cancels where it calls (or defers) that helper
						for _, a := range mustAnchors(in) {
							switch a.(type) {
							case *ssa.Call:
								cancelBlocks[a.Block()] = true
							case *ssa.Defer:
								if a.Block().Dominates(runCall.Block()) {
									deferred = true
								}
							}
						}
					}
				case *ssa.Defer:
					if g == frame && traces(u.Call.Value, cancel) && u.Block().Dominates(runCall.Block()) {
						deferred = true
					}
				}
			})
		}
		start := deriveAnchor.Block()
		ok := deferred
		if !deferred {
			ok = len(cancelBlocks) > 0
			for _, b := range frame.Blocks {
				if _, isRet := b.Instrs[len(b.Instrs)-1].(*ssa.Return); !isRet {
					continue
				}
				if !flow.Reachable(start, b, nil) || start == b {
					continue
				}
				if cancelBlocks[start] {
					continue
				}
				if flow.Reachable(start, b, cancelBlocks) && !cancelBlocks[b] {
					ok = false
				}
			}
		}
		c.R.Check(ok, "C11-R2", "Exec: cancel on every path to a return", c.pos(derive), "every return after the creation is preceded by cancel()", "a return can be reached without cancel(): the watcher goroutine and the derived context outlive the call")
	}

	// ---- R6 call depth.  goja nests one Go-level run per call from a built-in into script code (getter, forEach
	// callback, apply, string conversion) and re-raises an interrupt at every such level at a cost proportional to
	// the depth, so stopping a recursion of depth N costs N*N: without a bound on the depth a 200ms deadline is
	// honoured a minute late.
	{
		bounded := false
		for _, g := range pkgFns {
			ssau.Instrs(g, func(in ssa.Instruction) {
				ci, ok := in.(ssa.CallInstruction)
				if !ok || ssau.CalleeName(ci) != "(*"+gojaRuntime+".Runtime).SetMaxCallStackSize" {
					return
				}
				if _, isDefer := in.(*ssa.Defer); isDefer {
					return
				}
				a := anchor(in, 0)
				if a != nil && sameRuntime(ci.Common().Args[0]) && flow.InstrDominates(a, runCall.(ssa.Instruction)) {
					bounded = true
				}
			})
		}
		c.R.Check(bounded, "C11-R6", "Exec: the call depth of the runtime is bounded", c.pos(runCall), "SetMaxCallStackSize on the runtime before the program runs", "the runtime runs with goja's default call depth (unbounded): recursion through a getter, a callback of a built-in, apply or a string conversion is unwound at a cost quadratic in the depth reached, so it stops seconds to minutes after the deadline")
	}

	// ---- R7 the watcher has ended when the call returns
	if watchFn != nil {
		type sig struct {
			leaves []ssa.Value
			wg     bool
		}
		var sigs []sig
		shared := false
		wpd := flow.NewPostDom(watchFn)
		ssau.Instrs(watchFn, func(in ssa.Instruction) {
			var cm *ssa.CallCommon
			_, deferred := in.(*ssa.Defer)
			if ci, ok := in.(ssa.CallInstruction); ok {
				if _, isGo := in.(*ssa.Go); isGo {
					return
				}
				cm = ci.Common()
			}
			var x ssa.Value
			wg := false
			switch {
			case cm != nil:
				if b, isB := cm.Value.(*ssa.Builtin); isB && b.Name() == "close" {
					x = cm.Args[0]
				} else if cm.StaticCallee() != nil && cm.StaticCallee().String() == "(*sync.WaitGroup).Done" {
					x, wg = cm.Args[0], true
				}
			default:
				if sd, isSend := in.(*ssa.Send); isSend {
					x = sd.Chan
				}
			}
			if x == nil {
				return
			}
			// at the very end: deferred from a point every exit has passed, or after the interrupt on every path
			atEnd := false
			if deferred {
				atEnd = true
				for _, b := range watchFn.Blocks {
					if _, isRet := b.Instrs[len(b.Instrs)-1].(*ssa.Return); isRet && b != watchFn.Recover && !in.Block().Dominates(b) {
						atEnd = false
					}
				}
			} else if wpd.PostDominates(in.Block(), watchFn.Blocks[0]) && watchIntr != nil && flow.InstrDominates(watchIntr, in) {
				atEnd = true
			}
			if atEnd {
				// the signal belongs to this execution: a channel made, or a WaitGroup declared, in this call
				ls := norm(x)
				own := len(ls) > 0
				for _, l := range ls {
					switch d := l.(type) {
					case *ssa.MakeChan:
					case *ssa.Alloc:
						_ = d
					default:
						own = false
					}
				}
				if own {
					sigs = append(sigs, sig{ls, wg})
				} else {
					shared = true
				}
			}
		})
		same := func(a, b []ssa.Value) bool {
			if len(a) == 0 || len(b) == 0 {
				return false
			}
			for _, x := range a {
				ok := false
				for _, y := range b {
					if x == y || sameVar(x, y) {
						ok = true
					}
				}
				if !ok {
					return false
				}
			}
			return true
		}
		waitBlocks := map[*ssa.BasicBlock]bool{}
		for _, g := range pkgFns {
			ssau.Instrs(g, func(in ssa.Instruction) {
				var x ssa.Value
				wg := false
				switch u := in.(type) {
				case *ssa.UnOp:
					if u.Op == token.ARROW {
						x = u.X
					}
				case *ssa.Call:
					if sc := u.Common().StaticCallee(); sc != nil && sc.String() == "(*sync.WaitGroup).Wait" {
						x, wg = u.Common().Args[0], true
					}
				}
				if x == nil {
					return
				}
				if in.Parent() == watchFn {
					return
				}
				ls := norm(x)
				for _, sg := range sigs {
					if sg.wg == wg && same(ls, sg.leaves) {
						// in the frame, or in a helper that waits on every way through it
						for _, a := range mustAnchors(in) {
							if _, isCall := a.(*ssa.Call); isCall || a == in {
								waitBlocks[a.Block()] = true
							}
						}
					}
				}
			})
		}
		ga := anchor(watchGo, 0)
		ok := ga != nil && len(sigs) > 0 && len(waitBlocks) > 0
		why := "the watcher does not signal its end (close, send or WaitGroup.Done as its last act), or Exec never waits for that signal"
		if shared && len(sigs) == 0 {
			why = "the watcher signals its end through something that is not created in this execution (a field or a package-level WaitGroup / channel): executions running at the same time wait for each other's watchers"
		}
		if ok {
			start := ga.Block()
			for _, b := range frame.Blocks {
				if _, isRet := b.Instrs[len(b.Instrs)-1].(*ssa.Return); !isRet {
					continue
				}
				if start == b || b == frame.Recover || !flow.Reachable(start, b, nil) || waitBlocks[start] {
					continue
				}
				if flow.Reachable(start, b, waitBlocks) && !waitBlocks[b] {
					ok = false
					why = "a return (" + c.pos(b.Instrs[len(b.Instrs)-1]) + ") can be reached without waiting for the watcher's end signal"
				}
			}
		}
		c.R.Check(ok, "C11-R7", "Exec: returns only after the watcher has ended", c.pos(watchGo), "the watcher signals as its last act and every return after its start first waits for the signal", why+": the goroutine started for the execution is still alive (and about to interrupt a finished runtime) when the call has returned")
	} else {
		c.R.Violate("C11-R7", "Exec: returns only after the watcher has ended", c.P.Pos(exec.Pos()), "no watcher goroutine identified")
	}

	// ---- R9: every successful return lies under a test that the context has not ended (a short program can finish
	// before the interrupt is seen; the runtime can lose an interrupt).  The test may sit in the helper that runs
	// the program (the frame): then the helper answers with an error whenever the context has ended, and Exec's
	// success lies under that error being nil.
	{
		runSite := siteInFn(exec, runCall.(ssa.Instruction))
		// ctxAlive: facts say ctx.Err() == nil, tested at or after `after`
		ctxAlive := func(fs []flow.Fact, fn *ssa.Function, after ssa.Instruction) bool {
			for _, ft := range fs {
				bo, isB := ft.Cond.(*ssa.BinOp)
				if !isB || (bo.Op != token.EQL && bo.Op != token.NEQ) {
					continue
				}
				var v ssa.Value
				switch {
				case ssau.IsNilConst(bo.Y):
					v = bo.X
				case ssau.IsNilConst(bo.X):
					v = bo.Y
				}
				cl, isC := v.(*ssa.Call)
				if !isC || !cl.Common().IsInvoke() || cl.Common().Method.Name() != "Err" || !isContext(cl.Common().Value.Type()) {
					continue
				}
				if !traces(cl.Common().Value, ctxP) || (bo.Op == token.EQL) != ft.True {
					continue
				}
				if after == nil || cl.Parent() != fn || after.Block() == cl.Block() || flow.Reachable(after.Block(), cl.Block(), nil) {
					return true
				}
			}
			return false
		}
		inPkgFns := map[*ssa.Function]bool{}
		for _, g := range pkgFns {
			inPkgFns[g] = true
		}
		// errWheneverEnded: every return of helper h whose last result (an error) can be nil lies under a test, made
		// in h, that Exec's context has not ended.
		errWheneverEnded := func(h *ssa.Function) bool {
			res := h.Signature.Results()
			if h.Blocks == nil || res.Len() == 0 || !types.Identical(res.At(res.Len()-1).Type(), types.Universe.Lookup("error").Type()) {
				return false
			}
			n := 0
			for _, b := range h.Blocks {
				ret, ok := b.Instrs[len(b.Instrs)-1].(*ssa.Return)
				if !ok || len(ret.Results) == 0 || b == h.Recover {
					continue
				}
				n++
				last := ret.Results[len(ret.Results)-1]
				if !ssau.IsNilConst(last) && provablyNonNilErr(last) {
					continue
				}
				if !ctxAlive(flow.FactsAt(b), h, nil) {
					return false
				}
			}
			return n > 0
		}
		// does the frame (when it is a helper) report an ended context as an error?
		frameGuards := false
		var frameErr ssa.Value
		if frame != exec && runSite != nil {
			if fc, isCall := runSite.(*ssa.Call); isCall && fc.Common().StaticCallee() == frame {
				frameErr = errResultOf(fc)
				frameGuards = true
				for _, b := range frame.Blocks {
					ret, ok := b.Instrs[len(b.Instrs)-1].(*ssa.Return)
					if !ok || len(ret.Results) == 0 {
						continue
					}
					last := ret.Results[len(ret.Results)-1]
					if !ssau.IsNilConst(last) && provablyNonNilErr(last) {
						continue
					}
					if !ctxAlive(flow.FactsAt(b), frame, runCall.(ssa.Instruction)) {
						frameGuards = false
					}
				}
			}
		}
		n9, bad := 0, ""
		for _, b := range exec.Blocks {
			ret, ok := b.Instrs[len(b.Instrs)-1].(*ssa.Return)
			if !ok || len(ret.Results) != 2 || !ssau.IsNilConst(ret.Results[1]) {
				continue
			}
			n9++
			fs := withPhiWays(flow.FactsAt(b))
			tested := ctxAlive(fs, exec, runSite)
			if !tested {
				for _, ft := range fs {
					if bo, isB := ft.Cond.(*ssa.BinOp); isB && (bo.Op == token.EQL || bo.Op == token.NEQ) && ssau.IsNilConst(bo.Y) {
						for _, d := range phiDefs(bo.X, nil, map[ssa.Value]bool{}) {
							if (bo.Op == token.EQL) != ft.True {
								continue
							}
							if frameGuards && frameErr != nil && d == frameErr {
								tested = true
							}
							// the verdict of a helper that is called after the program ran and answers with an
							// error whenever the context has ended
							if cl := c11ErrCall(d); cl != nil && cl.Parent() == exec && runSite != nil && cl != runSite && (flow.InstrDominates(runSite, cl) || (runSite.Block() != cl.Block() && flow.Reachable(runSite.Block(), cl.Block(), nil))) {
								if h := cl.Common().StaticCallee(); h != nil && h != frame && inPkgFns[h] && errWheneverEnded(h) {
									tested = true
								}
							}
						}
					}
				}
			}
			if !tested {
				bad = c.pos(ret)
			}
		}
		c.R.Check(bad == "" && n9 > 0, "C11-R9", "Exec: success only if the context has not ended", c.P.Pos(exec.Pos()), "every return without an error lies under ctx.Err() == nil, tested after the program ran", "Exec can report success ("+bad+") although its context has ended: a short action or guard finishes before the interrupt is seen (an already expired deadline), and goja drops an interrupt that arrives while an iterator is being closed — the step goes on as if nothing had happened")
	}

	// ---- R4
	okMap := false
	r4Blocks := append([]*ssa.BasicBlock{}, exec.Blocks...)
	if frame != exec {
		r4Blocks = append(r4Blocks, frame.Blocks...)
	}
	for _, b := range r4Blocks {
		ret, ok := b.Instrs[len(b.Instrs)-1].(*ssa.Return)
		if !ok || len(ret.Results) != 2 {
			continue
		}
		if u, isU := ret.Results[1].(*ssa.UnOp); isU {
			if g, isG := u.X.(*ssa.Global); isG && g.Name() == "Interrupted" {
				for _, f := range flow.FactsAt(b) {
					if ex, isEx := f.Cond.(*ssa.Extract); isEx && f.True {
						if ta, isTA := ex.Tuple.(*ssa.TypeAssert); isTA && ssau.TypeIs(ta.AssertedType, gojaRuntime, "InterruptedError") {
							okMap = true
						}
					}
				}
				// the type test may be the verdict of a boolean helper (`case isInterruption(err):`)
				if !okMap && c11InterruptionVerdict(b, 0) {
					okMap = true
				}
				// or one of the assignments to a boolean variable that is tested afterwards
				// (`interrupted := ctx.Err() != nil; if !interrupted && err != nil { _, interrupted = err.(*T) }`)
				if !okMap {
					here := flow.FactsAt(b)
					for _, f := range here {
						ways, _ := phiWays(f, here)
						for _, w := range ways {
							for _, wf := range w {
								if ex, isEx := wf.Cond.(*ssa.Extract); isEx && wf.True && ex.Index == 1 {
									if ta, isTA := ex.Tuple.(*ssa.TypeAssert); isTA && ssau.TypeIs(ta.AssertedType, gojaRuntime, "InterruptedError") {
										okMap = true
									}
								}
							}
						}
					}
				}
			}
		}
	}
	// the mapping may sit in a helper whose verdict Exec returns: follow the error Exec returns to where it is chosen
	for _, b := range exec.Blocks {
		ret, ok := b.Instrs[len(b.Instrs)-1].(*ssa.Return)
		if !ok || len(ret.Results) != 2 || okMap {
			continue
		}
		here := flow.FactsAt(b)
		for _, src := range sourcesWithFactsAt(ret.Results[1], pkgFns, here) {
			u, isU := src.leaf.(*ssa.UnOp)
			if !isU || u.Op != token.MUL {
				continue
			}
			if g, isG := u.X.(*ssa.Global); !isG || g.Name() != "Interrupted" {
				continue
			}
			for _, f := range flow.Expand(append(append([]flow.Fact{}, here...), src.facts...)) {
				if ex, isEx := f.Cond.(*ssa.Extract); isEx && f.True {
					if ta, isTA := ex.Tuple.(*ssa.TypeAssert); isTA && ex.Index == 1 && ssau.TypeIs(ta.AssertedType, gojaRuntime, "InterruptedError") {
						okMap = true
					}
				}
			}
		}
	}
	c.R.Check(okMap, "C11-R4", "Exec: interrupted run returns Interrupted", c.P.Pos(exec.Pos()), "under a type test for goja's InterruptedError", "an interrupted run is no longer reported as the Interrupted (timeout) error")

	// ---- R5 context threading
	n5 := 0
	coreFns := c.P.FuncsIn("core")
	for _, f := range coreFns {
		ssau.Instrs(f, func(in ssa.Instruction) {
			ci, ok := in.(ssa.CallInstruction)
			if !ok {
				return
			}
			cm := ci.Common()
			isExecLike := false
			name := ""
			switch {
			case cm.IsInvoke() && cm.Method.Name() == "Exec" && (ssau.TypeIs(cm.Value.Type(), prog.Abs("core"), "Action") || ssau.TypeIs(cm.Value.Type(), prog.Abs("core"), "Interpreter")):
				isExecLike, name = true, cm.Method.FullName()
			case !cm.IsInvoke() && cm.StaticCallee() == nil:
				if _, is := isFieldLoad(cm.Value, "core", "FuncAction", "F"); is {
					isExecLike, name = true, "FuncAction.F"
				}
				if ssau.TypeIs(cm.Value.Type(), prog.Abs("core"), "Breakpoint") {
					isExecLike, name = true, "Breakpoint"
				}
			case cm.StaticCallee() != nil && prog.PkgOf(cm.StaticCallee()) == "core":
				switch cm.StaticCallee().Name() {
				case "Step", "consider", "try", "Exec":
					isExecLike, name = true, cm.StaticCallee().Name()
				}
			}
			if !isExecLike {
				return
			}
			var ctxArg ssa.Value
			for _, a := range cm.Args {
				if isContext(a.Type()) {
					ctxArg = a
					break
				}
			}
			if ctxArg == nil {
				return
			}
			n5++
			p, isParam := ctxArg.(*ssa.Parameter)
			if !(isParam && p.Parent() == f) && c11CallCtx(ctxArg, f, coreFns, 0, map[ssa.Value]bool{}) {
				// the ctx parameter of the call this helper belongs to, carried in a struct built for that call
				c.R.Discharge("C11-R5", fmt.Sprintf("%s: context passed to %s #%d", fname(f), name, n5), c.pos(in), "the ctx parameter of the enclosing call, carried in a per-call struct")
				return
			}
			c.R.Check(isParam && p.Parent() == f, "C11-R5", fmt.Sprintf("%s: context passed to %s #%d", fname(f), name, n5), c.pos(in), "the enclosing function's own ctx parameter", "the context handed on is not the ctx parameter of the enclosing call ("+ctxArg.String()+"): a per-call deadline or cancellation would not reach the script")
		})
	}
	if n5 < 5 {
		c.R.Break("C11-R5: expected at least 5 context hand-overs in core, found %d", n5)
	}
}

// c11InterruptionVerdict: block b lies under the true answer of a boolean helper of the package that answers true
// only under a successful type test for goja's InterruptedError.
func c11InterruptionVerdict(b *ssa.BasicBlock, depth int) bool {
	isTest := func(f flow.Fact) bool {
		if ex, isEx := f.Cond.(*ssa.Extract); isEx && f.True && ex.Index == 1 {
			if ta, isTA := ex.Tuple.(*ssa.TypeAssert); isTA && ssau.TypeIs(ta.AssertedType, gojaRuntime, "InterruptedError") {
				return true
			}
		}
		return false
	}
	for _, ci := range factCallTrueIdx(b) {
		h := ci.call.Common().StaticCallee()
		if h == nil || h.Blocks == nil || prog.PkgOf(h) != prog.PkgOf(b.Parent()) || depth > 2 {
			continue
		}
		ri := ci.idx
		if ri < 0 {
			if h.Signature.Results().Len() != 1 {
				continue
			}
			ri = 0
		}
		if trueImplies(h, ri, func(hb *ssa.BasicBlock, extra []flow.Fact) bool {
			for _, f := range append(append([]flow.Fact{}, extra...), flow.FactsAt(hb)...) {
				if isTest(f) {
					return true
				}
			}
			return c11InterruptionVerdict(hb, depth+1)
		}) {
			return true
		}
	}
	return false
}

// provablyNonNilErr: an error value that cannot be nil: a package sentinel, or an error made on the spot.
func provablyNonNilErr(v ssa.Value) bool {
	for _, d := range phiDefs(v, nil, map[ssa.Value]bool{}) {
		switch x := d.(type) {
		case *ssa.UnOp:
			if _, isG := x.X.(*ssa.Global); isG {
				continue
			}
		case *ssa.Call:
			if n := ssau.CalleeName(x); n == "errors.New" || n == "fmt.Errorf" {
				continue
			}
		case *ssa.MakeInterface:
			continue
		}
		return false
	}
	return true
}

// c11BoundMethod: the method behind a bound-method wrapper (`x.m` used as a function value); f itself otherwise.
func c11BoundMethod(f *ssa.Function) *ssa.Function {
	if f == nil || f.Synthetic == "" || !strings.HasSuffix(f.Name(), "$bound") {
		return f
	}
	var m *ssa.Function
	ssau.Instrs(f, func(in ssa.Instruction) {
		if ci, ok := in.(ssa.CallInstruction); ok {
			if sc := ci.Common().StaticCallee(); sc != nil && sc.Name()+"$bound" == f.Name() {
				m = sc
			}
		}
	})
	if m == nil {
		return f
	}
	return m
}

// c11GoTarget: the one function a go statement starts: a static callee, a function literal, or the method behind a
// method value (`go w.watch()` spelled `f := w.watch; go f()`); the function value may sit in a local variable.
func c11GoTarget(g *ssa.Go, scope []*ssa.Function) *ssa.Function {
	if g.Call.IsInvoke() {
		return nil
	}
	if sc := g.Call.StaticCallee(); sc != nil {
		return c11BoundMethod(sc)
	}
	var fn *ssa.Function
	for _, d := range deepDefs(g.Call.Value, scope) {
		var f *ssa.Function
		switch x := d.(type) {
		case *ssa.MakeClosure:
			f, _ = x.Fn.(*ssa.Function)
		case *ssa.Function:
			f = x
		}
		f = c11BoundMethod(f)
		if f == nil || (fn != nil && fn != f) {
			return nil
		}
		fn = f
	}
	return fn
}

// c11ErrCall: the call whose last (or only) result v is.
func c11ErrCall(v ssa.Value) *ssa.Call {
	switch x := v.(type) {
	case *ssa.Call:
		if _, isTup := x.Type().(*types.Tuple); !isTup {
			return x
		}
	case *ssa.Extract:
		if cl, ok := x.Tuple.(*ssa.Call); ok {
			if tup, isTup := cl.Type().(*types.Tuple); isTup && x.Index == tup.Len()-1 {
				return cl
			}
		}
	}
	return nil
}

// c11CallCtx: is v, used in function f, the context parameter of the call that f is part of?  That is f's own
// context parameter, or a field of a struct that was built for this call: f is an unexported helper that is only
// ever called directly (never used as a function value, started or deferred), the struct it reads the field of is
// handed in by every caller as a struct that the caller allocated itself (or got from its own caller the same
// way, or from a constructor that allocated it), and everything ever stored into that field of such a struct is,
// at the place of the store, that function's own context parameter in the same sense.  A captured variable, a
// field of a longer-lived object, a global or a fresh context is none of these.
func c11CallCtx(v ssa.Value, f *ssa.Function, fns []*ssa.Function, depth int, seen map[ssa.Value]bool) bool {
	if depth > 6 || f == nil {
		return false
	}
	switch x := v.(type) {
	case *ssa.Parameter:
		return x.Parent() == f && isContext(x.Type())
	case *ssa.Phi:
		if seen[x] {
			return true
		}
		seen[x] = true
		for _, e := range x.Edges {
			if !c11CallCtx(e, f, fns, depth, seen) {
				return false
			}
		}
		return len(x.Edges) > 0
	case *ssa.UnOp:
		if x.Op == token.MUL {
			if cell, owner := c11CapturedCell(x.X, f); cell != nil {
				// a variable of the enclosing call that a function literal of it captures (`guard := func(...) { ...
				// Exec(ctx, ...) }` called in place): every value it ever holds is that call's ctx parameter
				return c11CellHoldsCtx(cell, owner, fns, depth, seen)
			}
		}
		fa, isFA := x.X.(*ssa.FieldAddr)
		if x.Op != token.MUL || !isFA {
			return false
		}
		objs, ok := c11CallStructs(fa.X, f, fns, depth, map[ssa.Value]bool{})
		if !ok || len(objs) == 0 {
			return false
		}
		pt, isPtr := fa.X.Type().Underlying().(*types.Pointer)
		if !isPtr {
			return false
		}
		mine := map[*ssa.Alloc]bool{}
		for _, o := range objs {
			mine[o] = true
			// the struct is written field by field only
			for _, r := range ssau.Referrers(o) {
				if st, isSt := r.(*ssa.Store); isSt && st.Addr == ssa.Value(o) {
					return false
				}
			}
		}
		stores := map[*ssa.Alloc]int{}
		good := true
		for _, g := range fns {
			ssau.Instrs(g, func(in ssa.Instruction) {
				fb, isFB := in.(*ssa.FieldAddr)
				if !isFB || !good || fb.Field != fa.Field {
					return
				}
				pb, isPtr := fb.X.Type().Underlying().(*types.Pointer)
				if !isPtr || !types.Identical(pb.Elem(), pt.Elem()) {
					return
				}
				al, isAl := fb.X.(*ssa.Alloc)
				if isAl && !mine[al] {
					return // the same field of another struct that is a local of its function
				}
				for _, r := range ssau.Referrers(fb) {
					switch y := r.(type) {
					case *ssa.UnOp:
						if y.Op != token.MUL {
							good = false
						}
					case *ssa.Store:
						// a store through a pointer that is not the local itself could hit the struct in question
						if y.Addr != ssa.Value(fb) || !isAl || !c11CallCtx(y.Val, al.Parent(), fns, depth+1, map[ssa.Value]bool{}) {
							good = false
						} else {
							stores[al]++
						}
					case *ssa.DebugRef:
					default:
						good = false
					}
				}
			})
		}
		for _, o := range objs {
			if stores[o] == 0 {
				good = false
			}
		}
		return good
	}
	return false
}

// c11CallStructs: the structs, each a local allocation of a function on the current call chain, that the pointer
// p (used in f) can be; ok=false if p can be anything else.
func c11CallStructs(p ssa.Value, f *ssa.Function, fns []*ssa.Function, depth int, seen map[ssa.Value]bool) ([]*ssa.Alloc, bool) {
	if depth > 6 || f == nil {
		return nil, false
	}
	switch x := p.(type) {
	case *ssa.Alloc:
		return []*ssa.Alloc{x}, x.Parent() == f
	case *ssa.Phi:
		if seen[x] {
			return nil, true
		}
		seen[x] = true
		var out []*ssa.Alloc
		for _, e := range x.Edges {
			as, ok := c11CallStructs(e, f, fns, depth, seen)
			if !ok {
				return nil, false
			}
			out = append(out, as...)
		}
		return out, true
	case *ssa.Call:
		// a constructor of this package
		h := x.Common().StaticCallee()
		if h == nil || h.Blocks == nil || prog.PkgOf(h) != prog.PkgOf(f) || h.Signature.Results().Len() != 1 {
			return nil, false
		}
		var out []*ssa.Alloc
		for _, b := range h.Blocks {
			if ret, isRet := b.Instrs[len(b.Instrs)-1].(*ssa.Return); isRet && len(ret.Results) == 1 {
				as, ok := c11CallStructs(ret.Results[0], h, fns, depth+1, map[ssa.Value]bool{})
				if !ok {
					return nil, false
				}
				out = append(out, as...)
			}
		}
		return out, len(out) > 0
	case *ssa.Parameter:
		if x.Parent() != f || f.Parent() != nil || f.Synthetic != "" || token.IsExported(f.Name()) {
			return nil, false
		}
		idx := -1
		for i, q := range f.Params {
			if q == x {
				idx = i
			}
		}
		if idx < 0 {
			return nil, false
		}
		// f is only ever called directly, or through a method value that is only ever called directly where it is made
		type site struct {
			fn  *ssa.Function
			arg ssa.Value
		}
		var sites []site
		direct := true
		for _, g := range fns {
			ssau.Instrs(g, func(in ssa.Instruction) {
				if mc, isMC := in.(*ssa.MakeClosure); isMC {
					if w, isF := mc.Fn.(*ssa.Function); isF && w != f && c11BoundMethod(w) == f {
						if len(mc.Bindings) != 1 {
							direct = false
							return
						}
						for _, r := range ssau.Referrers(mc) {
							switch y := r.(type) {
							case *ssa.Call:
								if y.Call.Value != ssa.Value(mc) || idx-1 >= len(y.Call.Args) {
									direct = false
									continue
								}
								for _, a := range y.Call.Args {
									if a == ssa.Value(mc) {
										direct = false
									}
								}
								if idx == 0 {
									sites = append(sites, site{g, mc.Bindings[0]})
								} else {
									sites = append(sites, site{g, y.Call.Args[idx-1]})
								}
							case *ssa.DebugRef:
							default:
								direct = false
							}
						}
					}
				}
				var ops [12]*ssa.Value
				for _, op := range in.Operands(ops[:0]) {
					if *op != ssa.Value(f) {
						continue
					}
					cl, isCall := in.(*ssa.Call)
					if !isCall || cl.Call.Value != ssa.Value(f) {
						direct = false
						continue
					}
					for _, a := range cl.Call.Args {
						if a == ssa.Value(f) {
							direct = false
						}
					}
					if g.Synthetic != "" && c11BoundMethod(g) == f {
						continue // the call inside the bound-method wrapper: judged where the method value is made
					}
					if idx >= len(cl.Call.Args) {
						direct = false
						continue
					}
					sites = append(sites, site{g, cl.Call.Args[idx]})
				}
			})
		}
		if !direct || len(sites) == 0 {
			return nil, false
		}
		var out []*ssa.Alloc
		for _, s := range sites {
			as, ok := c11CallStructs(s.arg, s.fn, fns, depth+1, map[ssa.Value]bool{})
			if !ok {
				return nil, false
			}
			out = append(out, as...)
		}
		return out, len(out) > 0
	}
	return nil, false
}

// factsContradict: some fact of fa and some fact of fb give opposite answers to the same condition (the same value, or
// the same / the negated comparison of the same stable operands).
func factsContradict(fa, fb []flow.Fact) bool {
	for _, x := range fa {
		for _, y := range fb {
			switch flow.CondRel(x.Cond, y.Cond) {
			case 1:
				if x.True != y.True && flow.Stable(x.Cond) && flow.Stable(y.Cond) {
					return true
				}
			case -1:
				if x.True == y.True {
					return true
				}
			}
		}
	}
	return false
}

// phiWays: f is a fact on a boolean variable that several assignments merge into (a phi outside any loop:
// `interrupted := ctx.Err() != nil; if !interrupted && err != nil { _, interrupted = err.(*T) }`).  Returned are, for
// every way the variable can have got the value the fact gives it, the facts that hold on that way (the facts of
// the incoming edge and the fact on the value assigned there); ways that contradict themselves or the facts already
// known are left out.  ok is false when f is no such fact.
func phiWays(f flow.Fact, known []flow.Fact) (ways [][]flow.Fact, ok bool) {
	phi, isPhi := f.Cond.(*ssa.Phi)
	if !isPhi || flow.InCycle(phi.Block()) {
		return nil, false
	}
	if b, isB := phi.Type().Underlying().(*types.Basic); !isB || b.Kind() != types.Bool {
		return nil, false
	}
	for i, e := range phi.Edges {
		cand := append([]flow.Fact{}, flow.EdgeFacts(phi.Block().Preds[i], phi.Block())...)
		if k, isC := e.(*ssa.Const); isC && k.Value != nil {
			if (k.Value.String() == "true") != f.True {
				continue
			}
		} else {
			cand = flow.Expand(append(cand, flow.Fact{Cond: e, True: f.True, If: f.If}))
		}
		if factsContradict(cand, cand) || factsContradict(cand, known) {
			continue
		}
		ways = append(ways, cand)
	}
	return ways, true
}

// withPhiWays adds to the facts fs what holds on every way a merged boolean variable can have got its known value
// (see phiWays): under `!interrupted` above the context has not ended, whichever assignment said so.
func withPhiWays(fs []flow.Fact) []flow.Fact {
	out := append([]flow.Fact{}, fs...)
	has := func(set []flow.Fact, x flow.Fact) bool {
		for _, y := range set {
			if y.Cond == x.Cond && y.True == x.True {
				return true
			}
		}
		return false
	}
	for iter := 0; iter < 3; iter++ {
		added := false
		for _, f := range out {
			ways, ok := phiWays(f, out)
			if !ok || len(ways) == 0 {
				continue
			}
			for _, x := range ways[0] {
				if has(out, x) {
					continue
				}
				all := true
				for _, w := range ways[1:] {
					if !has(w, x) {
						all = false
					}
				}
				if all {
					out = append(out, x)
					added = true
				}
			}
		}
		if !added {
			break
		}
	}
	return out
}

// c11CapturedCell: addr (used in f) is the cell of a local variable of the call f belongs to: the Alloc itself in
// the function that declares it, or the free variable of a function literal that is only ever called in place by the
// function that makes it (so it runs during the same call).  Returns the Alloc and the function that declares it.
func c11CapturedCell(addr ssa.Value, f *ssa.Function) (*ssa.Alloc, *ssa.Function) {
	for depth := 0; depth < 6 && f != nil; depth++ {
		switch x := addr.(type) {
		case *ssa.Alloc:
			if x.Parent() != f {
				return nil, nil
			}
			return x, f
		case *ssa.FreeVar:
			if x.Parent() != f || f.Parent() == nil {
				return nil, nil
			}
			idx := -1
			for i, fv := range f.FreeVars {
				if fv == x {
					idx = i
				}
			}
			var next ssa.Value
			n := 0
			bad := false
			ssau.Instrs(f.Parent(), func(in ssa.Instruction) {
				mc, isMC := in.(*ssa.MakeClosure)
				if !isMC || mc.Fn != ssa.Value(f) {
					return
				}
				n++
				if idx < 0 || idx >= len(mc.Bindings) {
					bad = true
					return
				}
				next = mc.Bindings[idx]
				for _, r := range ssau.Referrers(mc) {
					switch y := r.(type) {
					case *ssa.Call:
						if y.Call.Value != ssa.Value(mc) {
							bad = true // handed to something: may run after the call is over
						}
						for _, a := range y.Call.Args {
							if a == ssa.Value(mc) {
								bad = true
							}
						}
					case *ssa.DebugRef:
					default:
						bad = true
					}
				}
			})
			if n != 1 || bad || next == nil {
				return nil, nil
			}
			addr, f = next, f.Parent()
		default:
			return nil, nil
		}
	}
	return nil, nil
}

// c11CellHoldsCtx: the captured variable cell (declared in owner) only ever holds owner's call context: it is
// written as a whole only, every value stored into it (in owner or in a literal that captures it) is the call's
// ctx, and its address goes nowhere else.
func c11CellHoldsCtx(cell *ssa.Alloc, owner *ssa.Function, fns []*ssa.Function, depth int, seen map[ssa.Value]bool) bool {
	if seen[cell] {
		return true
	}
	seen[cell] = true
	nstore := 0
	var okAddr func(addr ssa.Value, in *ssa.Function, d int) bool
	okAddr = func(addr ssa.Value, in *ssa.Function, d int) bool {
		if d > 6 {
			return false
		}
		for _, r := range ssau.Referrers(addr) {
			switch y := r.(type) {
			case *ssa.UnOp:
				if y.Op != token.MUL {
					return false
				}
			case *ssa.Store:
				if y.Addr != addr || !c11CallCtx(y.Val, owner, fns, depth+1, seen) {
					return false
				}
				nstore++
			case *ssa.MakeClosure:
				lit, isFn := y.Fn.(*ssa.Function)
				if !isFn {
					return false
				}
				for i, b := range y.Bindings {
					if b == addr && (i >= len(lit.FreeVars) || !okAddr(lit.FreeVars[i], lit, d+1)) {
						return false
					}
				}
			case *ssa.DebugRef:
			default:
				return false
			}
		}
		return true
	}
	return okAddr(cell, owner, 0) && nstore > 0
}

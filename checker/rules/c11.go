package rules

import (
	"fmt"
	"go/token"
	"go/types"
	"strings"

	"golang.org/x/tools/go/ssa"

	"sheensverif/internal/flow"
	"sheensverif/internal/prog"
	"sheensverif/internal/ssau"
)

func init() { Registry["C11"] = C11 }

func isContext(t types.Type) bool { return ssau.TypeIs(t, "context", "Context") }

// loadOfCell: v is a load of the heap cell (Alloc / FreeVar) holding a variable; returns the cell.
func cellOf(v ssa.Value) ssa.Value {
	if u, ok := v.(*ssa.UnOp); ok && u.Op == token.MUL {
		switch u.X.(type) {
		case *ssa.Alloc, *ssa.FreeVar:
			return u.X
		}
	}
	return nil
}

// bindingOf maps a free variable of closure fn (made by mc) to the bound value.
func bindingOf(mc *ssa.MakeClosure, fv *ssa.FreeVar) ssa.Value {
	fn := mc.Fn.(*ssa.Function)
	for i, f := range fn.FreeVars {
		if f == fv && i < len(mc.Bindings) {
			return mc.Bindings[i]
		}
	}
	return nil
}

// sameVar: a and b denote the same variable: identical SSA value, or loads of / the same cell.
func sameVar(a, b ssa.Value) bool {
	if a == b {
		return true
	}
	ca, cb := cellOf(a), cellOf(b)
	if ca != nil && (ca == cb || ca == b) {
		return true
	}
	if cb != nil && cb == a {
		return true
	}
	return false
}

// storedInto returns the values stored into cell c.
func storedInto(c ssa.Value) []ssa.Value {
	var out []ssa.Value
	for _, r := range ssau.Referrers(c) {
		if st, ok := r.(*ssa.Store); ok && st.Addr == c {
			out = append(out, st.Val)
		}
	}
	return out
}

func C11(c *Ctx) {
	c.R.Explanation = "Decides structural necessary conditions of 'timeouts are enforced and nothing outlives the call' on the SSA form of the ECMAScript interpreter and of core's call chain: (R1) Exec starts, on every path to the point where the program runs, a goroutine that blocks on Done() of a context derived from Exec's own ctx and then interrupts the very runtime that runs the program; (R2) the cancel function of that derived context is called on every path from its creation to every return; (R3) the closure of Exec starts no other goroutine and creates no timer or ticker, and the watcher has no loop; (R4) an interrupted run is mapped to the package's Interrupted error; (R5) every context handed to an action, guard, interpreter or nested Step is the ctx parameter of the enclosing function — never a captured or background context — so a per-call deadline reaches the script. Promptness and goja honouring the interrupt are not decided."
	c.R.Rule("C11-R1", "E3+E5", "watcher goroutine interrupts the runtime when the derived context ends", 3)
	c.R.Rule("C11-R2", "E3", "cancel on every path", 1)
	c.R.Rule("C11-R3", "E7", "no other background work", 2)
	c.R.Rule("C11-R4", "E3", "interruption mapped to Interrupted", 1)
	c.R.Rule("C11-R5", "E5", "the caller's context reaches every execution", 5)
	c.R.Rule("C11-R6", "E3", "the runtime's call depth is bounded before the program runs", 1)
	c.R.Rule("C11-R7", "E3", "the call returns only after the watcher has ended", 1)
	c.R.Rule("C11-R8", "E5", "hosts hand on the context they are given", 3)
	c11HostContexts(c)
	c.R.Rule("C11-R11", "E7", "mcrew stores the routing of a stopped action: the store's write path does not consult the (by then ended) context", 1)
	c11StoreIgnoresCtx(c, "C11-R11")
	c.shareRule("C04", "C04-R11", "C11-R10", "a timeout is routed like any other action error: after a failed action only the spec's routing settings choose the exit of Step")
	c.R.Rule("C11-R9", "E3", "an execution whose context has ended reports the timeout, whatever the runtime returned", 1)
	exec := c.fn("interpreters/ecmascript", "Interpreter", "Exec")
	if exec == nil {
		return
	}
	c.R.Fn(fname(exec))
	var ctxP *ssa.Parameter
	for _, p := range exec.Params {
		if isContext(p.Type()) {
			ctxP = p
		}
	}
	if ctxP == nil {
		c.R.Break("C11: Exec has no context parameter")
		return
	}
	pkgFns := pkgClosure(exec)
	traces := func(v ssa.Value, target ssa.Value) bool {
		leaves := resolveThroughLocals(v, pkgFns)
		if len(leaves) == 0 {
			return false
		}
		for _, l := range leaves {
			if l != target {
				// a captured variable cell: look at what is stored into it
				if cell := cellOf(l); cell != nil {
					okCell := false
					for _, root := range deepDefs(cell, pkgFns) {
						for _, sv := range storedInto(root) {
							for _, l2 := range deepDefs(sv, pkgFns) {
								if l2 == target {
									okCell = true
								}
							}
						}
					}
					if okCell {
						continue
					}
				}
				return false
			}
		}
		return true
	}
	// frame: the function in which "derive, start the watcher, run, cancel" is laid out.  It is Exec, or the
	// helper Exec delegates the run to when that helper also holds the derived context (see below).
	frame := exec
	// anchor: the instruction of the frame that leads to `in`
	var anchor func(in ssa.Instruction, depth int) ssa.Instruction
	anchor = func(in ssa.Instruction, depth int) ssa.Instruction {
		if in.Parent() == frame {
			return in
		}
		if depth > 4 {
			return nil
		}
		if par := in.Parent().Parent(); par != nil {
			// an instruction of a function literal: the place where the literal is made
			var mk ssa.Instruction
			ssau.Instrs(par, func(i2 ssa.Instruction) {
				if mc, ok := i2.(*ssa.MakeClosure); ok && mc.Fn == ssa.Value(in.Parent()) {
					mk = i2
				}
			})
			if mk != nil {
				return anchor(mk, depth+1)
			}
		}
		sites := callSitesOf(in.Parent(), pkgFns)
		if len(sites) != 1 {
			return nil
		}
		return anchor(sites[0], depth+1)
	}
	// derived context: a With* call (in Exec or a helper) on a value that is Exec's ctx
	var derive *ssa.Call
	for _, g := range pkgFns {
		ssau.Instrs(g, func(in ssa.Instruction) {
			if cl, ok := in.(*ssa.Call); ok {
				switch ssau.CalleeName(cl) {
				case "context.WithCancel", "context.WithTimeout", "context.WithDeadline":
					if traces(cl.Common().Args[0], ctxP) {
						derive = cl
					}
				}
			}
		})
	}
	if derive == nil {
		c.R.Violate("C11-R1", "Exec: derives a cancellable context from its ctx", c.P.Pos(exec.Pos()), "no context.WithCancel/WithTimeout/WithDeadline on Exec's ctx parameter")
		return
	}
	ictx, cancel := callResults(derive)[0], callResults(derive)[1]
	// the call that runs the program
	fns := append([]*ssa.Function{}, pkgFns...)
	for _, f := range c.P.FuncsIn("interpreters/ecmascript") {
		fns = append(fns, f)
	}
	runs := runsProgram(fns)
	findRun := func(f *ssa.Function) (ssa.CallInstruction, ssa.Value) {
		var rc ssa.CallInstruction
		var rt ssa.Value
		ssau.Instrs(f, func(in ssa.Instruction) {
			ci, ok := in.(ssa.CallInstruction)
			if !ok {
				return
			}
			isRun := strings.HasPrefix(ssau.CalleeName(ci), "(*"+gojaRuntime+".Runtime).Run")
			if sc := ci.Common().StaticCallee(); sc != nil && runs[sc] {
				isRun = true
			}
			if !isRun {
				return
			}
			for _, a := range ci.Common().Args {
				if ssau.TypeIs(a.Type(), gojaRuntime, "Runtime") {
					rc, rt = ci, a
					break
				}
			}
		})
		return rc, rt
	}
	runCall, runtimeVal := findRun(frame)
	// descend into the helper that runs the program as long as the derived context is created inside it
	for i := 0; i < 3 && runCall != nil; i++ {
		g := runCall.Common().StaticCallee()
		if g == nil || g.Blocks == nil || prog.PkgOf(g) != "interpreters/ecmascript" {
			break
		}
		inside := false
		for _, h := range pkgClosure(g) {
			if h == derive.Parent() {
				inside = true
			}
		}
		if !inside {
			break
		}
		rc2, rt2 := findRun(g)
		if rc2 == nil {
			break
		}
		frame, runCall, runtimeVal = g, rc2, rt2
	}
	c.R.Fn(fname(frame))
	deriveAnchor := anchor(derive, 0)
	if runCall == nil || deriveAnchor == nil {
		c.R.Break("C11: Exec never runs a program (or the derived context cannot be related to Exec)")
		return
	}
	// norm: leaf definitions, looking through (captured) variable cells to the values stored into them
	var normRec func(v ssa.Value, depth int, seen map[ssa.Value]bool) []ssa.Value
	normRec = func(v ssa.Value, depth int, seen map[ssa.Value]bool) []ssa.Value {
		var out []ssa.Value
		if depth > 8 || seen[v] {
			return nil
		}
		seen[v] = true
		for _, l := range resolveThroughLocals(v, pkgFns) {
			cell := cellOf(l)
			if cell == nil {
				out = append(out, l)
				continue
			}
			for _, root := range deepDefs(cell, pkgFns) {
				svs := storedInto(root)
				if len(svs) == 0 {
					out = append(out, root)
				}
				for _, sv := range svs {
					out = append(out, normRec(sv, depth+1, seen)...)
				}
			}
		}
		return out
	}
	norm := func(v ssa.Value) []ssa.Value { return normRec(v, 0, map[ssa.Value]bool{}) }
	rtLeaves := norm(runtimeVal)
	sameRuntime := func(v ssa.Value) bool {
		ls := norm(v)
		if len(ls) == 0 || len(rtLeaves) == 0 {
			return false
		}
		for _, l := range ls {
			ok := false
			for _, r := range rtLeaves {
				if l == r || sameVar(l, r) {
					ok = true
				}
			}
			if !ok {
				return false
			}
		}
		return true
	}
	// ---- R1 / R3: go statements
	var gos []*ssa.Go
	timers := 0
	closure := map[*ssa.Function]bool{}
	var visit func(f *ssa.Function)
	visit = func(f *ssa.Function) {
		if f == nil || f.Blocks == nil || closure[f] || prog.PkgOf(f) != "interpreters/ecmascript" {
			return
		}
		closure[f] = true
		c.R.Fn(fname(f))
		for _, an := range f.AnonFuncs {
			visit(an)
		}
		ssau.Instrs(f, func(in ssa.Instruction) {
			if g, ok := in.(*ssa.Go); ok {
				gos = append(gos, g)
			}
			if ci, ok := in.(ssa.CallInstruction); ok {
				switch ssau.CalleeName(ci) {
				case "time.AfterFunc", "time.NewTimer", "time.NewTicker", "time.After", "time.Tick":
					timers++
					c.R.Violate("C11-R3", fmt.Sprintf("%s: timer #%d", fname(f), timers), c.pos(in), "the execution creates a timer/ticker ("+ssau.CalleeName(ci)+") in addition to the watcher: it can outlive the call or replace the cancellation watcher")
				}
				for _, cal := range c.P.Callees(ci) {
					visit(cal)
				}
			}
		})
	}
	visit(exec)
	c.R.Check(len(gos) == 1, "C11-R3", "Exec closure: exactly one goroutine", c.P.Pos(exec.Pos()), "one go statement (the watcher)", fmt.Sprintf("%d go statements in the closure of Exec", len(gos)))
	c.R.Check(timers == 0, "C11-R3", "Exec closure: no timers", c.P.Pos(exec.Pos()), "no time.AfterFunc/NewTimer/NewTicker/After", "timers created")
	okWatcher := false
	var watchFn *ssa.Function
	var watchGo *ssa.Go
	var watchIntr ssa.Instruction
	var watcherWhy = "no goroutine waits on the derived context and interrupts the runtime"
	for _, g := range gos {
		var wfn *ssa.Function
		if mc, ok := g.Call.Value.(*ssa.MakeClosure); ok {
			wfn = mc.Fn.(*ssa.Function)
		} else if sc := g.Call.StaticCallee(); sc != nil {
			wfn = sc
		}
		if wfn == nil || !closure[wfn] {
			continue
		}
		waits, interrupts, unconditional := false, false, false
		var intr ssa.Instruction
		pd := flow.NewPostDom(wfn)
		ssau.Instrs(wfn, func(in ssa.Instruction) {
			if u, ok := in.(*ssa.UnOp); ok && u.Op == token.ARROW {
				if cl, ok := u.X.(*ssa.Call); ok && cl.Common().IsInvoke() && cl.Common().Method.Name() == "Done" {
					if traces(cl.Common().Value, ictx) {
						waits = true
					}
				}
			}
			if ci, ok := in.(ssa.CallInstruction); ok && ssau.CalleeName(ci) == "(*"+gojaRuntime+".Runtime).Interrupt" {
				if sameRuntime(ci.Common().Args[0]) {
					interrupts = true
					intr = in
					if pd.PostDominates(in.Block(), wfn.Blocks[0]) {
						unconditional = true
					}
				}
			}
		})
		noLoop := len(flow.Loops(wfn)) == 0
		ga := anchor(g, 0)
		dominates := ga != nil && flow.InstrDominates(ga, runCall.(ssa.Instruction))
		if waits && interrupts && unconditional && noLoop && dominates {
			okWatcher = true
			watchFn, watchGo, watchIntr = wfn, g, intr
		} else {
			watcherWhy = fmt.Sprintf("watcher goroutine: waits on the derived context=%v, interrupts the running runtime=%v (unconditionally=%v), loop-free=%v, started on every path before the program runs=%v", waits, interrupts, unconditional, noLoop, dominates)
		}
		c.R.Check(noLoop, "C11-R3", "watcher has no loop", c.pos(g), "straight-line: wait, interrupt, exit", "the watcher loops")
	}
	c.R.Check(okWatcher, "C11-R1", "Exec: cancellation watcher", c.pos(runCall), "a goroutine started before the program runs blocks on Done() of the derived context and then calls Interrupt on the runtime running the program", watcherWhy)
	c.R.Check(flow.InstrDominates(deriveAnchor, runCall.(ssa.Instruction)), "C11-R1", "Exec: derived context exists before the program runs", c.pos(derive), "creation dominates the run", "the derived context is not always created before the program runs")
	c.R.Discharge("C11-R1", "Exec: derived from the caller's ctx", c.pos(derive), ssau.CalleeName(derive)+"(ctx)")

	// ---- R2 cancel on every path (in Exec, from the point where the derived context exists)
	if cancel == nil {
		c.R.Violate("C11-R2", "Exec: cancel function kept", c.pos(derive), "the cancel function of the derived context is discarded")
	} else {
		cancelBlocks := map[*ssa.BasicBlock]bool{}
		deferred := false
		ssau.Instrs(frame, func(in ssa.Instruction) {
			switch u := in.(type) {
			case *ssa.Call:
				if u.Common().StaticCallee() == nil && !u.Common().IsInvoke() && traces(u.Common().Value, cancel) {
					cancelBlocks[u.Block()] = true
				}
			case *ssa.Defer:
				if traces(u.Call.Value, cancel) && u.Block().Dominates(runCall.Block()) {
					deferred = true
				}
			}
		})
		start := deriveAnchor.Block()
		ok := deferred
		if !deferred {
			ok = len(cancelBlocks) > 0
			for _, b := range frame.Blocks {
				if _, isRet := b.Instrs[len(b.Instrs)-1].(*ssa.Return); !isRet {
					continue
				}
				if !flow.Reachable(start, b, nil) || start == b {
					continue
				}
				if cancelBlocks[start] {
					continue
				}
				if flow.Reachable(start, b, cancelBlocks) && !cancelBlocks[b] {
					ok = false
				}
			}
		}
		c.R.Check(ok, "C11-R2", "Exec: cancel on every path to a return", c.pos(derive), "every return after the creation is preceded by cancel()", "a return can be reached without cancel(): the watcher goroutine and the derived context outlive the call")
	}

	// ---- R6 call depth.  goja nests one Go-level run per call from a built-in into script code (getter, forEach
	// callback, apply, string conversion) and re-raises an interrupt at every such level at a cost proportional to
	// the depth, so stopping a recursion of depth N costs N*N: without a bound on the depth a 200ms deadline is
	// honoured a minute late.
	{
		bounded := false
		for _, g := range pkgFns {
			ssau.Instrs(g, func(in ssa.Instruction) {
				ci, ok := in.(ssa.CallInstruction)
				if !ok || ssau.CalleeName(ci) != "(*"+gojaRuntime+".Runtime).SetMaxCallStackSize" {
					return
				}
				if _, isDefer := in.(*ssa.Defer); isDefer {
					return
				}
				a := anchor(in, 0)
				if a != nil && sameRuntime(ci.Common().Args[0]) && flow.InstrDominates(a, runCall.(ssa.Instruction)) {
					bounded = true
				}
			})
		}
		c.R.Check(bounded, "C11-R6", "Exec: the call depth of the runtime is bounded", c.pos(runCall), "SetMaxCallStackSize on the runtime before the program runs", "the runtime runs with goja's default call depth (unbounded): recursion through a getter, a callback of a built-in, apply or a string conversion is unwound at a cost quadratic in the depth reached, so it stops seconds to minutes after the deadline")
	}

	// ---- R7 the watcher has ended when the call returns
	if watchFn != nil {
		type sig struct {
			leaves []ssa.Value
			wg     bool
		}
		var sigs []sig
		shared := false
		wpd := flow.NewPostDom(watchFn)
		ssau.Instrs(watchFn, func(in ssa.Instruction) {
			var cm *ssa.CallCommon
			_, deferred := in.(*ssa.Defer)
			if ci, ok := in.(ssa.CallInstruction); ok {
				if _, isGo := in.(*ssa.Go); isGo {
					return
				}
				cm = ci.Common()
			}
			var x ssa.Value
			wg := false
			switch {
			case cm != nil:
				if b, isB := cm.Value.(*ssa.Builtin); isB && b.Name() == "close" {
					x = cm.Args[0]
				} else if cm.StaticCallee() != nil && cm.StaticCallee().String() == "(*sync.WaitGroup).Done" {
					x, wg = cm.Args[0], true
				}
			default:
				if sd, isSend := in.(*ssa.Send); isSend {
					x = sd.Chan
				}
			}
			if x == nil {
				return
			}
			// at the very end: deferred from a point every exit has passed, or after the interrupt on every path
			atEnd := false
			if deferred {
				atEnd = true
				for _, b := range watchFn.Blocks {
					if _, isRet := b.Instrs[len(b.Instrs)-1].(*ssa.Return); isRet && b != watchFn.Recover && !in.Block().Dominates(b) {
						atEnd = false
					}
				}
			} else if wpd.PostDominates(in.Block(), watchFn.Blocks[0]) && watchIntr != nil && flow.InstrDominates(watchIntr, in) {
				atEnd = true
			}
			if atEnd {
				// the signal belongs to this execution: a channel made, or a WaitGroup declared, in this call
				ls := norm(x)
				own := len(ls) > 0
				for _, l := range ls {
					switch d := l.(type) {
					case *ssa.MakeChan:
					case *ssa.Alloc:
						_ = d
					default:
						own = false
					}
				}
				if own {
					sigs = append(sigs, sig{ls, wg})
				} else {
					shared = true
				}
			}
		})
		same := func(a, b []ssa.Value) bool {
			if len(a) == 0 || len(b) == 0 {
				return false
			}
			for _, x := range a {
				ok := false
				for _, y := range b {
					if x == y || sameVar(x, y) {
						ok = true
					}
				}
				if !ok {
					return false
				}
			}
			return true
		}
		waitBlocks := map[*ssa.BasicBlock]bool{}
		for _, g := range pkgFns {
			ssau.Instrs(g, func(in ssa.Instruction) {
				var x ssa.Value
				wg := false
				switch u := in.(type) {
				case *ssa.UnOp:
					if u.Op == token.ARROW {
						x = u.X
					}
				case *ssa.Call:
					if sc := u.Common().StaticCallee(); sc != nil && sc.String() == "(*sync.WaitGroup).Wait" {
						x, wg = u.Common().Args[0], true
					}
				}
				if x == nil {
					return
				}
				if in.Parent() == watchFn {
					return
				}
				ls := norm(x)
				for _, sg := range sigs {
					if sg.wg == wg && same(ls, sg.leaves) {
						if a := anchor(in, 0); a != nil {
							if _, isMk := a.(*ssa.MakeClosure); !isMk {
								waitBlocks[a.Block()] = true
							}
						}
					}
				}
			})
		}
		ga := anchor(watchGo, 0)
		ok := ga != nil && len(sigs) > 0 && len(waitBlocks) > 0
		why := "the watcher does not signal its end (close, send or WaitGroup.Done as its last act), or Exec never waits for that signal"
		if shared && len(sigs) == 0 {
			why = "the watcher signals its end through something that is not created in this execution (a field or a package-level WaitGroup / channel): executions running at the same time wait for each other's watchers"
		}
		if ok {
			start := ga.Block()
			for _, b := range frame.Blocks {
				if _, isRet := b.Instrs[len(b.Instrs)-1].(*ssa.Return); !isRet {
					continue
				}
				if start == b || b == frame.Recover || !flow.Reachable(start, b, nil) || waitBlocks[start] {
					continue
				}
				if flow.Reachable(start, b, waitBlocks) && !waitBlocks[b] {
					ok = false
					why = "a return (" + c.pos(b.Instrs[len(b.Instrs)-1]) + ") can be reached without waiting for the watcher's end signal"
				}
			}
		}
		c.R.Check(ok, "C11-R7", "Exec: returns only after the watcher has ended", c.pos(watchGo), "the watcher signals as its last act and every return after its start first waits for the signal", why+": the goroutine started for the execution is still alive (and about to interrupt a finished runtime) when the call has returned")
	} else {
		c.R.Violate("C11-R7", "Exec: returns only after the watcher has ended", c.P.Pos(exec.Pos()), "no watcher goroutine identified")
	}

	// ---- R9: every successful return lies under a test that the context has not ended (a short program can finish
	// before the interrupt is seen; the runtime can lose an interrupt).  The test may sit in the helper that runs
	// the program (the frame): then the helper answers with an error whenever the context has ended, and Exec's
	// success lies under that error being nil.
	{
		runSite := siteInFn(exec, runCall.(ssa.Instruction))
		// ctxAlive: facts say ctx.Err() == nil, tested at or after `after`
		ctxAlive := func(fs []flow.Fact, fn *ssa.Function, after ssa.Instruction) bool {
			for _, ft := range fs {
				bo, isB := ft.Cond.(*ssa.BinOp)
				if !isB || (bo.Op != token.EQL && bo.Op != token.NEQ) {
					continue
				}
				var v ssa.Value
				switch {
				case ssau.IsNilConst(bo.Y):
					v = bo.X
				case ssau.IsNilConst(bo.X):
					v = bo.Y
				}
				cl, isC := v.(*ssa.Call)
				if !isC || !cl.Common().IsInvoke() || cl.Common().Method.Name() != "Err" || !isContext(cl.Common().Value.Type()) {
					continue
				}
				if !traces(cl.Common().Value, ctxP) || (bo.Op == token.EQL) != ft.True {
					continue
				}
				if after == nil || cl.Parent() != fn || after.Block() == cl.Block() || flow.Reachable(after.Block(), cl.Block(), nil) {
					return true
				}
			}
			return false
		}
		// does the frame (when it is a helper) report an ended context as an error?
		frameGuards := false
		var frameErr ssa.Value
		if frame != exec && runSite != nil {
			if fc, isCall := runSite.(*ssa.Call); isCall && fc.Common().StaticCallee() == frame {
				frameErr = errResultOf(fc)
				frameGuards = true
				for _, b := range frame.Blocks {
					ret, ok := b.Instrs[len(b.Instrs)-1].(*ssa.Return)
					if !ok || len(ret.Results) == 0 {
						continue
					}
					last := ret.Results[len(ret.Results)-1]
					if !ssau.IsNilConst(last) && provablyNonNilErr(last) {
						continue
					}
					if !ctxAlive(flow.FactsAt(b), frame, runCall.(ssa.Instruction)) {
						frameGuards = false
					}
				}
			}
		}
		n9, bad := 0, ""
		for _, b := range exec.Blocks {
			ret, ok := b.Instrs[len(b.Instrs)-1].(*ssa.Return)
			if !ok || len(ret.Results) != 2 || !ssau.IsNilConst(ret.Results[1]) {
				continue
			}
			n9++
			fs := flow.FactsAt(b)
			tested := ctxAlive(fs, exec, runSite)
			if !tested && frameGuards && frameErr != nil {
				for _, ft := range fs {
					if bo, isB := ft.Cond.(*ssa.BinOp); isB && (bo.Op == token.EQL || bo.Op == token.NEQ) && ssau.IsNilConst(bo.Y) {
						for _, d := range phiDefs(bo.X, nil, map[ssa.Value]bool{}) {
							if d == frameErr && (bo.Op == token.EQL) == ft.True {
								tested = true
							}
						}
					}
				}
			}
			if !tested {
				bad = c.pos(ret)
			}
		}
		c.R.Check(bad == "" && n9 > 0, "C11-R9", "Exec: success only if the context has not ended", c.P.Pos(exec.Pos()), "every return without an error lies under ctx.Err() == nil, tested after the program ran", "Exec can report success ("+bad+") although its context has ended: a short action or guard finishes before the interrupt is seen (an already expired deadline), and goja drops an interrupt that arrives while an iterator is being closed — the step goes on as if nothing had happened")
	}

	// ---- R4
	okMap := false
	r4Blocks := append([]*ssa.BasicBlock{}, exec.Blocks...)
	if frame != exec {
		r4Blocks = append(r4Blocks, frame.Blocks...)
	}
	for _, b := range r4Blocks {
		ret, ok := b.Instrs[len(b.Instrs)-1].(*ssa.Return)
		if !ok || len(ret.Results) != 2 {
			continue
		}
		if u, isU := ret.Results[1].(*ssa.UnOp); isU {
			if g, isG := u.X.(*ssa.Global); isG && g.Name() == "Interrupted" {
				for _, f := range flow.FactsAt(b) {
					if ex, isEx := f.Cond.(*ssa.Extract); isEx && f.True {
						if ta, isTA := ex.Tuple.(*ssa.TypeAssert); isTA && ssau.TypeIs(ta.AssertedType, gojaRuntime, "InterruptedError") {
							okMap = true
						}
					}
				}
			}
		}
	}
	c.R.Check(okMap, "C11-R4", "Exec: interrupted run returns Interrupted", c.P.Pos(exec.Pos()), "under a type test for goja's InterruptedError", "an interrupted run is no longer reported as the Interrupted (timeout) error")

	// ---- R5 context threading
	n5 := 0
	for _, f := range c.P.FuncsIn("core") {
		ssau.Instrs(f, func(in ssa.Instruction) {
			ci, ok := in.(ssa.CallInstruction)
			if !ok {
				return
			}
			cm := ci.Common()
			isExecLike := false
			name := ""
			switch {
			case cm.IsInvoke() && cm.Method.Name() == "Exec" && (ssau.TypeIs(cm.Value.Type(), prog.Abs("core"), "Action") || ssau.TypeIs(cm.Value.Type(), prog.Abs("core"), "Interpreter")):
				isExecLike, name = true, cm.Method.FullName()
			case !cm.IsInvoke() && cm.StaticCallee() == nil:
				if _, is := isFieldLoad(cm.Value, "core", "FuncAction", "F"); is {
					isExecLike, name = true, "FuncAction.F"
				}
				if ssau.TypeIs(cm.Value.Type(), prog.Abs("core"), "Breakpoint") {
					isExecLike, name = true, "Breakpoint"
				}
			case cm.StaticCallee() != nil && prog.PkgOf(cm.StaticCallee()) == "core":
				switch cm.StaticCallee().Name() {
				case "Step", "consider", "try", "Exec":
					isExecLike, name = true, cm.StaticCallee().Name()
				}
			}
			if !isExecLike {
				return
			}
			var ctxArg ssa.Value
			for _, a := range cm.Args {
				if isContext(a.Type()) {
					ctxArg = a
					break
				}
			}
			if ctxArg == nil {
				return
			}
			n5++
			p, isParam := ctxArg.(*ssa.Parameter)
			okCtx := isParam && p.Parent() == f
			if ld, isLd := ctxArg.(*ssa.UnOp); !okCtx && isLd && ld.Op == token.MUL {
				// the context may be kept in a per-call record: a field of a local struct that a caller in package core
				// built from its own ctx parameter and that is confined to that caller's activation (its methods do the work)
				if fa, isFA := ld.X.(*ssa.FieldAddr); isFA {
					coreFns := c.P.FuncsIn("core")
					// the records the field is read from: followed up through the callers that hand the record down
					type at struct {
						v  ssa.Value
						fn *ssa.Function
					}
					var recs []ssa.Value
					work := []at{{fa.X, f}}
					for depth := 0; len(work) > 0 && depth < 6; depth++ {
						var next []at
						for _, w := range work {
							for _, d := range deepDefs(w.v, append([]*ssa.Function{w.fn}, coreFns...)) {
								pr, isP := d.(*ssa.Parameter)
								if !isP || pr.Parent() != w.fn {
									recs = append(recs, d)
									continue
								}
								sites := callSitesOf(w.fn, coreFns)
								if len(sites) == 0 {
									recs = append(recs, d)
								}
								for _, s := range sites {
									for k, hp := range w.fn.Params {
										if hp == pr && k < len(s.Common().Args) {
											next = append(next, at{s.Common().Args[k], s.Parent()})
										}
									}
								}
							}
						}
						work = next
					}
					okCtx = len(recs) > 0
					var builder *ssa.Function
					for _, r := range recs {
						al, isAl := r.(*ssa.Alloc)
						if !isAl || !confinedPointer(al) || (builder != nil && builder != al.Parent()) {
							okCtx = false
							break
						}
						builder = al.Parent()
					}
					if okCtx {
						leaves := resolveThroughLocals(ctxArg, append([]*ssa.Function{builder}, coreFns...))
						if len(leaves) == 0 {
							okCtx = false
						}
						for _, l := range leaves {
							if lp, isP := l.(*ssa.Parameter); !isP || !isContext(lp.Type()) || lp.Parent() != builder {
								okCtx = false
							}
						}
					}
				}
			}
			c.R.Check(okCtx, "C11-R5", fmt.Sprintf("%s: context passed to %s #%d", fname(f), name, n5), c.pos(in), "the enclosing function's own ctx parameter", "the context handed on is not the ctx parameter of the enclosing call ("+ctxArg.String()+"): a per-call deadline or cancellation would not reach the script")
		})
	}
	if n5 < 5 {
		c.R.Break("C11-R5: expected at least 5 context hand-overs in core, found %d", n5)
	}
}

// provablyNonNilErr: an error value that cannot be nil: a package sentinel, or an error made on the spot.
func provablyNonNilErr(v ssa.Value) bool {
	for _, d := range phiDefs(v, nil, map[ssa.Value]bool{}) {
		switch x := d.(type) {
		case *ssa.UnOp:
			if _, isG := x.X.(*ssa.Global); isG {
				continue
			}
		case *ssa.Call:
			if n := ssau.CalleeName(x); n == "errors.New" || n == "fmt.Errorf" {
				continue
			}
		case *ssa.MakeInterface:
			continue
		}
		return false
	}
	return true
}

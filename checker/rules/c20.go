package rules

import (
	"fmt"
	"go/token"
	"go/types"
	"sort"
	"strings"

	"golang.org/x/tools/go/ssa"

	"sheensverif/internal/flow"
	"sheensverif/internal/nilc"
	"sheensverif/internal/prog"
	"sheensverif/internal/ssau"
)

func init() { Registry["C20"] = C20 }

// fprintfCalls: fmt.Fprintf calls of fn whose constant format contains sub.
func fprintfCalls(fn *ssa.Function, sub string) []*ssa.Call {
	var out []*ssa.Call
	ssau.Instrs(fn, func(in ssa.Instruction) {
		cl, ok := in.(*ssa.Call)
		if !ok || ssau.CalleeName(cl) != "fmt.Fprintf" || len(cl.Common().Args) < 2 {
			return
		}
		if f, isS := ssau.ConstString(cl.Common().Args[1]); isS && strings.Contains(f, sub) {
			out = append(out, cl)
		}
	})
	return out
}

// varargAt returns the value stored at index i of a variadic call's argument array.
func varargAt(cl *ssa.Call, argIdx int, i int64) ssa.Value {
	args := cl.Common().Args
	if argIdx >= len(args) {
		return nil
	}
	sl, ok := args[argIdx].(*ssa.Slice)
	if !ok {
		return nil
	}
	al, ok := sl.X.(*ssa.Alloc)
	if !ok {
		return nil
	}
	for _, r := range ssau.Referrers(al) {
		if ia, ok := r.(*ssa.IndexAddr); ok {
			if idx, isC := ssau.ConstInt(ia.Index); isC && idx == i {
				for _, r2 := range ssau.Referrers(ia) {
					if st, ok := r2.(*ssa.Store); ok {
						return ssau.Strip(st.Val)
					}
				}
			}
		}
	}
	return nil
}

func C20(c *Ctx) {
	c.R.Explanation = "Decides structural necessary conditions of faithful analysis and rendering in package tools: (R1) totality — the values a compilable spec allows to be nil (the action/guard source of a native action, absent branching, the node of a missing or variable target) are tested before every dereferencing use in Analyze, Dot and Mermaid, following function literals through the call graph; (R2) one edge per branch — in each renderer's per-branch loop no way back to the loop head bypasses the edge emission, and the loop is left early only on an error edge; (R3) one node per name — node emission is memoised in a map keyed by the node name itself, and the identifier written for a node is the name or a value stored under that key (an injective function of the name); (R4) Analyze's per-branch accounting (branch count, target set, guard test) is evaluated on every iteration of the branch loop, and its per-node accounting on every iteration of the node loop; every loop of Analyze and of the helpers it calls is left only by exhaustion (or with an error). Label contents and numeric fidelity of Analyze are not decided."
	c.R.Rule("C20-R1", "E2", "totality on native actions and missing targets", 8)
	c.R.Rule("C20-R2", "E3", "one edge per branch", 2)
	c.R.Rule("C20-R3", "E5", "one node per name, identified injectively", 4)
	c.R.Rule("C20-R4", "E3", "Analyze evaluates every accounting step on every iteration", 4)
	dot := c.fn("tools", "", "Dot")
	mer := c.fn("tools", "", "Mermaid")
	ana := c.fn("tools", "", "Analyze")
	if dot == nil || mer == nil || ana == nil {
		return
	}
	// each entry point with its function literals and the helpers / methods of the package it calls
	withHelpers := func(top *ssa.Function) []*ssa.Function {
		seen := map[*ssa.Function]bool{}
		var out []*ssa.Function
		for _, f := range append(ssau.WithAnon(top), pkgClosure(top)...) {
			if !seen[f] && f.Blocks != nil && prog.PkgOf(f) == "tools" {
				seen[f] = true
				out = append(out, f)
			}
		}
		return out
	}
	var fns []*ssa.Function
	{
		seen := map[*ssa.Function]bool{}
		for _, top := range []*ssa.Function{dot, mer, ana} {
			for _, f := range withHelpers(top) {
				if !seen[f] {
					seen[f] = true
					fns = append(fns, f)
				}
			}
		}
	}
	for _, f := range fns {
		c.R.Fn(fname(f))
	}
	// ---- R1
	var srcs []nilc.Source
	for _, fld := range []struct{ typ, field, why string }{
		{"Node", "ActionSource", "a native action has no source"},
		{"Branch", "GuardSource", "a native guard has no source"},
		{"Node", "Branches", "a node may have no branching"},
	} {
		for i, v := range nilc.FieldLoads(fns, prog.Abs("core"), fld.typ, fld.field) {
			srcs = append(srcs, nilc.Source{V: v, Why: fld.why, Label: fmt.Sprintf("%s.%s load#%d in %s", fld.typ, fld.field, i+1, fname(v.(ssa.Instruction).Parent()))})
		}
	}
	nl := 0
	for _, f := range fns {
		ssau.Instrs(f, func(in ssa.Instruction) {
			lk, ok := in.(*ssa.Lookup)
			if !ok || lk.CommaOk {
				return
			}
			if mt, isMap := lk.X.Type().Underlying().(*types.Map); isMap && ssau.TypeIs(mt.Elem(), prog.Abs("core"), "Node") {
				nl++
				srcs = append(srcs, nilc.Source{V: lk, Why: "a branch target may be missing from the spec or be a variable", Label: fmt.Sprintf("node of a branch target #%d in %s", nl, fname(f))})
			}
		})
	}
	if len(srcs) < 6 {
		c.R.Break("C20-R1: only %d nullable sources found in tools", len(srcs))
	}
	res := nilc.Check(nilc.Config{Prog: c.P, Engine: map[string]bool{"tools": true}, FollowDynamic: true}, srcs)
	c.reportNil("C20-R1", res)

	// ---- R2 / R3 per renderer
	for _, r := range []struct {
		name    string
		top     *ssa.Function
		edgeFmt string
		nodeFmt []string
	}{
		{"Dot", dot, " -> ", []string{"%s [shape="}},
		{"Mermaid", mer, " --> ", []string{"(\"%s\")", "[\"%s\"]"}},
	} {
		var edgeCall *ssa.Call
		var proc *ssa.Function
		for _, f := range withHelpers(r.top) {
			for _, cl := range fprintfCalls(f, r.edgeFmt) {
				edgeCall, proc = cl, f
			}
		}
		if edgeCall == nil {
			c.R.Violate("C20-R2", r.name+": edge emission", c.P.Pos(r.top.Pos()), "no edge is written")
			continue
		}
		L := flow.InnermostLoop(flow.Loops(proc), edgeCall.Block())
		okLoop := L != nil
		why := "the edge is not written inside the loop over the node's branches"
		if L != nil {
			op := loopOperand(L)
			_, overBranches := ssau.LoadOfField(op, prog.Abs("core"), "Branches", "Branches")
			if !overBranches {
				okLoop = false
			} else {
				// no way back to the header bypasses the edge
				body := L.Header.Succs[0]
				if !L.Blocks[body] {
					body = L.Header.Succs[1]
				}
				seen := map[*ssa.BasicBlock]bool{}
				stack := []*ssa.BasicBlock{body}
				for len(stack) > 0 {
					b := stack[len(stack)-1]
					stack = stack[:len(stack)-1]
					if seen[b] || b == edgeCall.Block() {
						continue
					}
					seen[b] = true
					for _, s := range b.Succs {
						if s == L.Header {
							okLoop, why = false, "an iteration can continue at "+c.pos(b.Instrs[len(b.Instrs)-1])+" without writing the branch's edge"
						}
						if L.Blocks[s] {
							stack = append(stack, s)
						}
					}
				}
				// early exits only under an error
				for _, ex := range L.Exits() {
					if ex[0] == L.Header {
						continue
					}
					isErr := false
					for _, f := range flow.EdgeFacts(ex[0], ex[1]) {
						if bo, ok := f.Cond.(*ssa.BinOp); ok && ssau.IsNilConst(bo.Y) && types.Identical(bo.X.Type(), types.Universe.Lookup("error").Type()) && ((bo.Op == token.NEQ && f.True) || (bo.Op == token.EQL && !f.True)) {
							isErr = true
						}
					}
					if !isErr {
						okLoop, why = false, "the branch loop is left at "+c.pos(ex[0].Instrs[len(ex[0].Instrs)-1])+" without an error: later branches get no edge"
						continue
					}
					// an error exit only counts if the renderer reports that error: can the error be non-nil, and if so,
					// does every caller of this function hand it on?
					var errv ssa.Value
					for _, f := range flow.EdgeFacts(ex[0], ex[1]) {
						if bo, ok := f.Cond.(*ssa.BinOp); ok && ssau.IsNilConst(bo.Y) && types.Identical(bo.X.Type(), types.Universe.Lookup("error").Type()) {
							errv = bo.X
						}
					}
					feasible := false
					fnsHere := append(ssau.WithAnon(r.top), pkgClosure(r.top)...)
					for _, d := range deepDefs(errv, fnsHere) {
						if ssau.IsNilConst(d) {
							continue
						}
						if exx, isEx := d.(*ssa.Extract); isEx {
							// the result of a local function literal that only ever returns a nil error
							if cl, isC := exx.Tuple.(*ssa.Call); isC && cl.Common().StaticCallee() == nil && !cl.Common().IsInvoke() {
								onlyNil, nlit := true, 0
								for _, cv := range deepDefs(cl.Common().Value, fnsHere) {
									mc, isMC := cv.(*ssa.MakeClosure)
									if !isMC {
										onlyNil = false
										continue
									}
									nlit++
									lit := mc.Fn.(*ssa.Function)
									for _, lb := range lit.Blocks {
										if ret, isRet := lb.Instrs[len(lb.Instrs)-1].(*ssa.Return); isRet && exx.Index < len(ret.Results) {
											for _, rd := range deepDefs(ret.Results[exx.Index], append([]*ssa.Function{lit}, fnsHere...)) {
												if !ssau.IsNilConst(rd) {
													onlyNil = false
												}
											}
										}
									}
								}
								if onlyNil && nlit > 0 {
									continue
								}
							}
							if cl, isC := exx.Tuple.(*ssa.Call); isC && strings.HasPrefix(ssau.CalleeName(cl), "encoding/json.Marshal") {
								fromPattern := false
								for _, a := range deepDefs(cl.Common().Args[0], fnsHere) {
									if _, is := ssau.LoadOfField(a, prog.Abs("core"), "Branch", "Pattern"); is {
										fromPattern = true
									}
								}
								if fromPattern {
									continue // a compiled spec's patterns are canonical JSON values (C13-R1): marshalling them cannot fail
								}
							}
						}
						feasible = true
					}
					if !feasible {
						continue
					}
					lf := ex[0].Parent()
					propagated := lf == r.top
					if !propagated {
						propagated = true
						n := 0
						for _, g := range fnsHere {
							ssau.Instrs(g, func(in ssa.Instruction) {
								ci, ok := in.(ssa.CallInstruction)
								if !ok {
									return
								}
								isCall := ci.Common().StaticCallee() == lf
								for _, d := range deepDefs(ci.Common().Value, fnsHere) {
									if mc, isMC := d.(*ssa.MakeClosure); isMC && mc.Fn == ssa.Value(lf) {
										isCall = true
									}
								}
								if !isCall {
									return
								}
								n++
								cl, isC := in.(*ssa.Call)
								if !isC {
									propagated = false
									return
								}
								var ev ssa.Value = cl
								if tup, isTup := cl.Type().(*types.Tuple); isTup {
									ev = callResults(cl)[tup.Len()-1]
								}
								if ev == nil || !errPropagated(in.Parent(), ev) {
									propagated = false
								}
							})
						}
						if n == 0 {
							propagated = false
						}
					}
					if !propagated {
						okLoop, why = false, "the branch loop is left at "+c.pos(ex[0].Instrs[len(ex[0].Instrs)-1])+" with an error that the renderer then ignores: the rendering is reported as complete although this branch and the later ones have no edge"
					}
				}
			}
		}
		c.R.Check(okLoop, "C20-R2", r.name+": every branch gets its edge", c.pos(edgeCall), "in the loop over Branches.Branches; no bypass; early exit only on an error that can occur and that the renderer reports", why)
		// R3: node emission
		var nodeCalls []*ssa.Call
		var nodeFn *ssa.Function
		// the renderer, its literals, and the functions of the package it reaches (a literal may have become a method)
		var topFns []*ssa.Function
		seenTF := map[*ssa.Function]bool{}
		for _, f := range append(ssau.WithAnon(r.top), pkgClosure(r.top)...) {
			if !seenTF[f] && f.Blocks != nil && prog.PkgOf(f) == "tools" && f.Synthetic == "" {
				seenTF[f] = true
				topFns = append(topFns, f)
			}
		}
		for _, f := range topFns {
			for _, nf := range r.nodeFmt {
				for _, cl := range fprintfCalls(f, nf) {
					nodeCalls = append(nodeCalls, cl)
					nodeFn = f
				}
			}
		}
		// the name parameter: the first parameter of type string (a method's receiver comes first)
		var nameP *ssa.Parameter
		if nodeFn != nil {
			for _, p := range nodeFn.Params {
				if bt, isB := p.Type().Underlying().(*types.Basic); isB && bt.Kind() == types.String {
					nameP = p
					break
				}
			}
		}
		if nodeFn == nil || nameP == nil {
			c.R.Violate("C20-R3", r.name+": node emission", c.P.Pos(r.top.Pos()), "no node declaration is written by a function of the node's name")
			continue
		}
		// memo: a lookup in a local map keyed by the name parameter, early return when present, and an update with the same key
		memoOK := false
		var memoMap ssa.Value
		ssau.Instrs(nodeFn, func(in ssa.Instruction) {
			lk, ok := in.(*ssa.Lookup)
			if !ok || !lk.CommaOk || lk.Index != ssa.Value(nameP) {
				return
			}
			for _, r2 := range ssau.Referrers(lk.X) {
				_ = r2
			}
			// same map updated with the name as key
			ssau.Instrs(nodeFn, func(in2 ssa.Instruction) {
				if mu, ok := in2.(*ssa.MapUpdate); ok && mu.Key == ssa.Value(nameP) && (sameVar(mu.Map, lk.X) || sameLoad(mu.Map, lk.X)) {
					memoOK = true
					memoMap = lk.X
				}
			})
		})
		c.R.Check(memoOK, "C20-R3", r.name+": node emission memoised by node name", c.P.Pos(nodeFn.Pos()), "lookup and update of a set keyed by the name parameter itself", "node emission is not memoised on the node's own name (two spec nodes can share a declaration, or one node can be declared twice)")
		// the "already declared" set is made empty by this rendering call
		if memoOK {
			origins := varOrigins(r.top, memoMap)
			fresh := len(origins) > 0
			whyFresh := "cannot find where the set of declared nodes is created"
			for _, o := range origins {
				if _, isMk := o.(*ssa.MakeMap); !isMk {
					fresh, whyFresh = false, "the set of already declared nodes can come from "+o.String()+" ("+c.posv(o)+"), so it can outlive one rendering: a node declared in an earlier rendering is not declared again"
				}
			}
			c.R.Check(fresh, "C20-R3", r.name+": the set of declared nodes starts empty for every rendering", c.posv(memoMap), "made by make() during this call", whyFresh)
		}
		// identifier written: first vararg after the format must be the name or the value stored under memo[name]
		for i, cl := range nodeCalls {
			id := varargAt(cl, 2, 0)
			okID := false
			whyID := "cannot find the identifier argument"
			if id != nil {
				if id == ssa.Value(nameP) {
					okID = true
				} else if memoMap != nil {
					// value stored under memo[name]
					ssau.Instrs(nodeFn, func(in2 ssa.Instruction) {
						if mu, ok := in2.(*ssa.MapUpdate); ok && mu.Key == ssa.Value(nameP) && (sameVar(mu.Map, memoMap) || sameLoad(mu.Map, memoMap)) && mu.Value == id {
							okID = true
						}
					})
				}
				if !okID {
					whyID = "the identifier written for a node is " + id.String() + ", which is neither the node's name nor the value memoised under that name: distinct nodes can collapse into one"
				}
			}
			c.R.Check(okID, "C20-R3", fmt.Sprintf("%s: node identifier #%d is the name (or its memoised id)", r.name, i+1), c.pos(cl), "injective in the node name", whyID)
		}
		// edge endpoints use the same identifiers: the source and target arguments
		src, dst := varargAt(edgeCall, 2, 0), varargAt(edgeCall, 2, 1)
		if r.name == "Mermaid" {
			dst = varargAt(edgeCall, 2, 2)
		}
		endOK := src != nil && dst != nil
		if endOK {
			for _, e := range []ssa.Value{src, dst} {
				ok := false
				if p, isP := e.(*ssa.Parameter); isP && p.Parent() == proc {
					ok = true // the node's name
				}
				if _, isT := ssau.LoadOfField(e, prog.Abs("core"), "Branch", "Target"); isT {
					ok = true
				}
				if ex, isEx := e.(*ssa.Extract); isEx && ex.Index == 0 {
					ok = true // id returned by the node function
				}
				if !ok {
					endOK = false
				}
			}
		}
		c.R.Check(endOK, "C20-R3", r.name+": edge endpoints are node identifiers", c.pos(edgeCall), "the node's name / the branch target / the id returned by the node function", "an edge endpoint is not the identifier under which the node is declared")
	}

	c.R.Rule("C20-R5", "E7", "Analyze depends on the given spec only", 1)
	c.R.Rule("C20-R6", "E3", "Mermaid renders every node exactly once", 1)
	c.R.Rule("C20-R7", "E6", "rendering output files start empty", 0)
	c.R.Rule("C20-R8", "E1", "analysis and rendering leave the specification as it was given", 1)
	c20SpecUntouched(c, "C20-R8")
	{
		// totality: a search that finds nothing answers -1, which is no bound for a slice
		var tfns []*ssa.Function
		for _, f := range c.P.FuncsIn("tools") {
			tfns = append(tfns, ssau.WithAnon(f)...)
		}
		bad, nidx := indexAsBound(c, tfns)
		c.R.Check(len(bad) == 0, "C20-R1", "tools: a position found by strings.Index is used only where it exists", "tools/dot.go", fmt.Sprintf("%d uses of a search result as a bound or index, each under a test of the result", nidx), strings.Join(bad, "; ")+": the renderer panics (slice bounds out of range) on a spec whose text has no such position")
	}
	c20Extras(c, mer, ana, withHelpers)
	c.R.Rule("C20-R9", "E3", "the terminal nodes reported are exactly the nodes without a branch (no branching, or an empty list of branches)", 1)
	c20Terminal(c, "C20-R9", ana, withHelpers(ana))
	c.R.Rule("C20-R10", "E5", "the names in the reported sets come from nodes and branches", 1)
	c20SetsFromTheGraph(c, "C20-R10", withHelpers(ana))
	c20OutputFiles(c)
	// ---- R4 Analyze
	loops := flow.Loops(ana)
	type anchor struct {
		what string
		in   ssa.Instruction
	}
	var anchors []anchor
	// Analyze, its function literals, and the helpers of the package it calls
	var anaFns []*ssa.Function
	seenAF := map[*ssa.Function]bool{}
	for _, f := range append(ssau.WithAnon(ana), pkgClosure(ana)...) {
		if !seenAF[f] && f.Blocks != nil && prog.PkgOf(f) == "tools" {
			seenAF[f] = true
			anaFns = append(anaFns, f)
		}
	}
	visit := func(in ssa.Instruction) {
		switch x := in.(type) {
		case *ssa.Store:
			if ssau.IsField(x.Addr, prog.Abs("tools"), "SpecAnalysis", "Branches") {
				anchors = append(anchors, anchor{"branch count", in})
			}
		case *ssa.MapUpdate:
			if _, is := ssau.LoadOfField(x.Key, prog.Abs("core"), "Branch", "Target"); is {
				if len(anchors) == 0 || anchors[len(anchors)-1].what != "target set" {
					anchors = append(anchors, anchor{"target set", in})
				}
			}
		case *ssa.BinOp:
			if _, is := ssau.LoadOfField(x.X, prog.Abs("core"), "Branch", "Guard"); is && ssau.IsNilConst(x.Y) {
				anchors = append(anchors, anchor{"guard test", in})
			}
			if _, is := ssau.LoadOfField(x.X, prog.Abs("core"), "Node", "Action"); is && ssau.IsNilConst(x.Y) {
				anchors = append(anchors, anchor{"action test", in})
			}
		case *ssa.Call:
			if sc := x.Common().StaticCallee(); sc != nil && sc.Name() == "IsBranchTargetVariable" {
				anchors = append(anchors, anchor{"target-variable test", in})
			}
		}
	}
	for _, f := range anaFns {
		ssau.Instrs(f, visit)
	}
	// everyIteration: the instruction is executed on every trip of its innermost loop in Analyze; an instruction of
	// a literal or helper must be executed on every call, and every call of that function must be so placed
	var everyIteration func(in ssa.Instruction, depth int) (bool, string)
	everyIteration = func(in ssa.Instruction, depth int) (bool, string) {
		f := in.Parent()
		if f == ana {
			L := flow.InnermostLoop(loops, in.Block())
			if L == nil {
				return false, "not inside a loop over the spec"
			}
			for _, latch := range L.Latch {
				if !in.Block().Dominates(latch) {
					return false, "an iteration can continue at " + c.pos(latch.Instrs[len(latch.Instrs)-1]) + " without it"
				}
			}
			return true, ""
		}
		if depth > 3 {
			return false, "helper nesting too deep"
		}
		// executed on every call of f
		if L := flow.InnermostLoop(flow.Loops(f), in.Block()); L != nil {
			// on every trip of that loop of the helper (the loop itself is judged by the completion rule below,
			// and the helper's call sites as any other)
			for _, latch := range L.Latch {
				if !in.Block().Dominates(latch) {
					return false, "an iteration can continue at " + c.pos(latch.Instrs[len(latch.Instrs)-1]) + " without it"
				}
			}
		} else {
			for _, b := range f.Blocks {
				if _, isRet := b.Instrs[len(b.Instrs)-1].(*ssa.Return); isRet && !in.Block().Dominates(b) {
					return false, f.Name() + " can return without it"
				}
			}
		}
		// every call of f
		var sites []ssa.Instruction
		for _, g := range anaFns {
			ssau.Instrs(g, func(i2 ssa.Instruction) {
				ci, ok := i2.(ssa.CallInstruction)
				if !ok {
					return
				}
				if ci.Common().StaticCallee() == f {
					sites = append(sites, i2)
					return
				}
				for _, d := range deepDefs(ci.Common().Value, anaFns) {
					if mc, isMC := d.(*ssa.MakeClosure); isMC && mc.Fn == ssa.Value(f) {
						sites = append(sites, i2)
					}
				}
			})
		}
		if len(sites) == 0 {
			return false, f.Name() + " is never called"
		}
		for _, st := range sites {
			if ok, why := everyIteration(st, depth+1); !ok {
				return false, why
			}
		}
		return true, ""
	}
	// the accounting loops run to completion: no loop of Analyze or of its helpers is left early
	nloops := 0
	for _, f := range anaFns {
		for li, l := range flow.Loops(f) {
			nloops++
			early := ""
			for _, ex := range l.Exits() {
				if ex[0] == l.Header {
					continue
				}
				// leaving with an error is not an accounting result
				if ret, isRet := ex[1].Instrs[len(ex[1].Instrs)-1].(*ssa.Return); isRet && len(ret.Results) > 0 {
					last := ret.Results[len(ret.Results)-1]
					if types.Identical(last.Type(), types.Universe.Lookup("error").Type()) && !ssau.IsNilConst(last) {
						continue
					}
				}
				early = c.pos(ex[0].Instrs[len(ex[0].Instrs)-1])
			}
			c.R.Check(early == "", "C20-R4", fmt.Sprintf("%s: loop #%d runs to completion", fname(f), li+1), c.pos(l.Header.Instrs[len(l.Header.Instrs)-1]), "left only when its range is exhausted", "the loop can be left early at "+early+": members after that point are not counted (the analysis under-reports)")
		}
	}
	if nloops == 0 {
		c.R.Break("C20-R4: Analyze has no loops")
	}
	seenA := map[string]bool{}
	for _, a := range anchors {
		if seenA[a.what] {
			continue
		}
		seenA[a.what] = true
		ok, why := everyIteration(a.in, 0)
		if !ok && !strings.Contains(why, a.what) {
			why = why + " (" + a.what + ")"
		}
		c.R.Check(ok, "C20-R4", "Analyze: "+a.what+" on every iteration", c.pos(a.in), "dominates every way back to the loop head", why)
	}
	var missing []string
	for _, w := range []string{"branch count", "target set", "guard test", "action test"} {
		if !seenA[w] {
			missing = append(missing, w)
		}
	}
	sort.Strings(missing)
	if len(missing) > 0 {
		c.R.Break("C20-R4: Analyze lacks accounting steps: %s", strings.Join(missing, ", "))
	}
}

// varOrigins: leaf definitions of v, where v may be (a load of) a local variable
// of top that is captured by its function literals: all values stored into that
// variable anywhere in top and its literals, resolved through deepDefs.
func varOrigins(top *ssa.Function, v ssa.Value) []ssa.Value {
	fns := ssau.WithAnon(top)
	w := &sliceWeb{fns: fns, parent: map[ssa.Value]ssa.Value{}}
	scope := append(append([]*ssa.Function{}, fns...), pkgClosure(top)...)
	seen := map[ssa.Value]bool{}
	var out []ssa.Value
	var rec func(v ssa.Value, depth int)
	rec = func(v ssa.Value, depth int) {
		if depth > 6 {
			return
		}
		for _, d := range deepDefs(v, scope) {
			if seen[d] {
				continue
			}
			seen[d] = true
			if ld, ok := d.(*ssa.UnOp); ok && ld.Op == token.MUL {
				if fa, isFA := ld.X.(*ssa.FieldAddr); isFA {
					// a field of a local helper struct: every value stored into that field (of any object of the type)
					n := 0
					for _, f := range scope {
						ssau.Instrs(f, func(in ssa.Instruction) {
							st, ok := in.(*ssa.Store)
							if !ok {
								return
							}
							fb, isFB := st.Addr.(*ssa.FieldAddr)
							if !isFB || fb.Field != fa.Field || !types.Identical(fb.X.Type(), fa.X.Type()) {
								return
							}
							n++
							rec(st.Val, depth+1)
						})
					}
					if n > 0 {
						continue
					}
				}
				switch ld.X.(type) {
				case *ssa.Alloc, *ssa.FreeVar:
					root := w.cellRoot(ld.X)
					n := 0
					for _, f := range fns {
						ssau.Instrs(f, func(in ssa.Instruction) {
							if st, ok := in.(*ssa.Store); ok {
								switch st.Addr.(type) {
								case *ssa.Alloc, *ssa.FreeVar:
									if w.cellRoot(st.Addr) == root {
										n++
										rec(st.Val, depth+1)
									}
								}
							}
						})
					}
					if n > 0 {
						continue
					}
				}
			}
			out = append(out, d)
		}
	}
	rec(v, 0)
	return out
}

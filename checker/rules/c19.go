package rules

import (
	"fmt"
	"go/token"
	"go/types"
	"sort"
	"strings"

	"golang.org/x/tools/go/ssa"

	"sheensverif/internal/flow"
	"sheensverif/internal/prog"
	"sheensverif/internal/ssau"
)

func init() { Registry["C19"] = C19; Registry["C09"] = C09 }

func C19(c *Ctx) {
	c.R.Explanation = "Decides structural necessary conditions of a sound verdict of the expectation tool on the SSA form of Session.Run's output-processing function: (R1) the 'satisfied' mark of an expected output is a field of the session's own Output element (written through the element's address, not a copy) and the same field of the same element is what is tested before an output is tried again, so one message arriving twice cannot satisfy two expectations' worth of countdown; (R2) after a guard ran, the candidate counts as matched only if the guard's bindings are non-nil — the accepted value is the matcher's result, nil, or a literal built from the guard's non-nil bindings; (R3) the countdown is decremented exactly once per acceptance of a non-inverted output (an inverted match returns an error first), it starts as the number of non-inverted outputs, and 'all satisfied' is only concluded after a line has been read and processed; (R4) Run reports success only if every step collected both completion signals; (R5) the value a line is decoded into is created in that iteration of the read loop (json.Unmarshal merges into a map it is given, which would let one pattern be satisfied by parts of different messages). Acceptance (R2) is decided by a non-empty list, not by a non-nil one. Timing is not decided."
	c.R.Rule("C19-R1", "E1", "the satisfied mark lives in the session's Output element", 2)
	c.R.Rule("C19-R2", "E6", "guard verdict respected", 2)
	c.R.Rule("C19-R3", "E3", "countdown and fail-fast", 4)
	c.R.Rule("C19-R4", "E3", "success needs both signals of every step", 1)
	c.R.Rule("C19-R5", "E3", "each line is decoded into a fresh value", 1)
	run := c.fn("tools/expect", "Session", "Run")
	if run == nil {
		return
	}
	c.R.Rule("C19-R6", "E3", "one buffered reader of the subprocess's output per session", 1)
	c19Reader(c, run)
	c.R.Rule("C19-R11", "E3", "a step's completion signal is only sent by a worker that finished without error", 1)
	c19SuccessOnlyAfterSuccess(c, "C19-R11")
	c.R.Rule("C19-R8", "E3", "a step's timeout is armed once per step (it runs from the start of the step)", 1)
	c19TimeoutArmedOnce(c, "C19-R8", run)
	c.R.Rule("C19-R9", "E3", "every line read from the subprocess is compared with the step's outputs", 1)
	c19EveryLineMatched(c, "C19-R9", run)
	c.R.Rule("C19-R10", "E6", "the repository's session files use field names the YAML decoder knows", 1)
	c19SessionFiles(c, "C19-R10")
	// the function that matches output lines: a literal of Run, or a helper / method of the package that Run's
	// literals reach.  What the original spells in one function may be spread over that function, its callers
	// (the read loop, the countdown) and its helpers (the guard): each construct is looked for in that family and
	// positions are related through the calls that connect them.
	scope := pkgClosure(run)
	inScope := map[*ssa.Function]bool{}
	for _, f := range scope {
		inScope[f] = true
	}
	var F *ssa.Function
	var matchCall *ssa.Call
	for _, f := range scope {
		ssau.Instrs(f, func(in ssa.Instruction) {
			if cl, ok := in.(*ssa.Call); ok {
				if sc := cl.Common().StaticCallee(); sc != nil && sc.Name() == "Match" && prog.PkgOf(sc) == "match" {
					F, matchCall = f, cl
				}
			}
		})
	}
	if F == nil {
		c.R.Break("C19: Session.Run does not call the matcher")
		return
	}
	c.R.Fn(fname(run), fname(F))
	// anc: F and the functions of the scope that reach it (the read loop may be a caller of the matching function)
	var anc []*ssa.Function
	for _, g := range scope {
		for _, x := range pkgClosure(g) {
			if x == F {
				anc = append(anc, g)
				break
			}
		}
	}
	c.R.Rule("C19-R7", "E3", "patterns reach the matcher JSON-decoded", 1)
	c19Canonical(c, F, matchCall)
	isOutputElem := func(base ssa.Value) bool {
		// &iop.OutputSet[i] (handed down to a helper as it is)
		ds := deepDefs(base, scope)
		for _, d := range ds {
			ia, ok := d.(*ssa.IndexAddr)
			if !ok {
				return false
			}
			if _, is := ssau.LoadOfField(ia.X, prog.Abs("tools/expect"), "IO", "OutputSet"); !is {
				return false
			}
		}
		return len(ds) > 0
	}
	// sameElem: two values denote the same Output element (the same &OutputSet[i], seen from a helper or its caller)
	sameElem := func(a, b ssa.Value) bool {
		if a == b || sameIndexAddr(a, b) {
			return true
		}
		da, db := deepDefs(a, scope), deepDefs(b, scope)
		for _, x := range da {
			hit := false
			for _, y := range db {
				if x == y || sameIndexAddr(x, y) {
					hit = true
				}
			}
			if !hit {
				return false
			}
		}
		return len(da) > 0 && len(db) > 0
	}
	// ---- R1
	var marks []*ssa.Store
	for _, f := range scope {
		marks = append(marks, storesToPkg(f, "tools/expect", "Output", "Bindingss")...)
	}
	okMark := len(marks) == 1
	why := fmt.Sprintf("%d stores to Output.Bindingss", len(marks))
	var elem ssa.Value
	M := F // the function that holds the mark
	if okMark {
		_, _, base, _ := ssau.FieldOf(marks[0].Addr)
		elem = base
		M = marks[0].Parent()
		c.R.Fn(fname(M))
		if !isOutputElem(base) {
			okMark, why = false, "the mark is written into a copy of the Output ("+base.String()+"), so it is lost when the line has been processed"
		}
	}
	c.R.Check(okMark, "C19-R1", "Run: satisfied mark written into the session's Output element", c.P.Pos(F.Pos()), "through &OutputSet[i]", why)
	// the skip test reads the same field of the same element before matching
	okSkip := false
	for _, g := range anc {
		site := siteInFn(g, matchCall) // the matcher, or the call that leads to it
		if site == nil {
			continue
		}
		for _, b := range g.Blocks {
			iff, ok := b.Instrs[len(b.Instrs)-1].(*ssa.If)
			if !ok {
				continue
			}
			bo, isB := iff.Cond.(*ssa.BinOp)
			if !isB || !ssau.IsNilConst(bo.Y) {
				continue
			}
			ld, isLd := bo.X.(*ssa.UnOp)
			if !isLd || !ssau.IsField(ld.X, prog.Abs("tools/expect"), "Output", "Bindingss") {
				continue
			}
			_, _, base, _ := ssau.FieldOf(ld.X)
			if !isOutputElem(base) || (elem != nil && !sameElem(base, elem)) {
				continue
			}
			// the matcher is reachable only on the "not yet satisfied" edge
			notYet := b.Succs[1]
			if bo.Op == token.EQL {
				notYet = b.Succs[0]
			}
			other := b.Succs[0]
			if bo.Op == token.EQL {
				other = b.Succs[1]
			}
			if flow.Reachable(notYet, site.Block(), nil) && b.Dominates(site.Block()) && !reachWithoutLoopHead(other, site.Block(), g) {
				okSkip = true
			}
		}
	}
	c.R.Check(okSkip, "C19-R1", "Run: an already satisfied output is not tried again", c.pos(matchCall), "the matcher is reached only when the element's own mark is still nil", "the test that skips an already satisfied output does not read the satisfied mark of that output element: a repeated message can be counted again (or an unrelated output with equal text can be skipped)")
	// ---- R2
	var guardCall *ssa.Call
	for _, f := range scope {
		ssau.Instrs(f, func(in ssa.Instruction) {
			if cl, ok := in.(*ssa.Call); ok && cl.Common().IsInvoke() && cl.Common().Method.Name() == "Exec" && ssau.TypeIs(cl.Common().Value.Type(), prog.Abs("core"), "Action") {
				guardCall = cl
			}
		})
	}
	// a guard given as source is compiled into the session's Output element (the one whose Guard is tested and run)
	{
		var gstores []*ssa.Store
		for _, f := range scope {
			gstores = append(gstores, storesToPkg(f, "tools/expect", "Output", "Guard")...)
		}
		okGS := len(gstores) > 0
		whyGS := "a guard given as GuardSource is never compiled into Output.Guard"
		for _, st := range gstores {
			_, _, base, _ := ssau.FieldOf(st.Addr)
			if !isOutputElem(base) {
				okGS, whyGS = false, "the compiled guard is stored into a copy of the Output ("+c.pos(st)+"); the element that is tested later still has no guard, so a bare pattern match counts as accepted"
			}
		}
		if guardCall != nil {
			// the executed guard is read from the element
			recvOK := false
			if gb, is := ssau.LoadOfField(guardCall.Common().Value, prog.Abs("tools/expect"), "Output", "Guard"); is && isOutputElem(gb) {
				recvOK = true
			}
			if !recvOK {
				okGS, whyGS = false, "the guard that is run is not the Guard field of the session's Output element"
			}
		}
		c.R.Check(okGS, "C19-R2", "Run: a GuardSource is compiled into the Output element whose guard is run", c.P.Pos(F.Pos()), fmt.Sprintf("%d store(s) to Output.Guard, all through &OutputSet[i]", len(gstores)), whyGS)
	}
	// nonEmptyAt: at block b the slice v is known to have at least one element.  (A nil test is not enough: the
	// matcher answers "no match" for a property-variable pattern with an empty, non-nil slice.)
	isLenOf := func(x ssa.Value, v ssa.Value) bool {
		cl, ok := x.(*ssa.Call)
		if !ok {
			return false
		}
		bi, isB := cl.Common().Value.(*ssa.Builtin)
		return isB && bi.Name() == "len" && cl.Common().Args[0] == v
	}
	isZero := func(x ssa.Value) bool { n, ok := ssau.ConstInt(x); return ok && n == 0 }
	nonEmptyAt := func(v ssa.Value, b *ssa.BasicBlock) bool {
		for _, f := range flow.FactsAt(b) {
			bo, isB := f.Cond.(*ssa.BinOp)
			if !isB {
				continue
			}
			switch {
			case bo.Op == token.LSS && isZero(bo.X) && isLenOf(bo.Y, v) && f.True, // 0 < len(v)
				bo.Op == token.GTR && isLenOf(bo.X, v) && isZero(bo.Y) && f.True, // len(v) > 0
				bo.Op == token.NEQ && (isLenOf(bo.X, v) && isZero(bo.Y) || isZero(bo.X) && isLenOf(bo.Y, v)) && f.True,
				bo.Op == token.EQL && (isLenOf(bo.X, v) && isZero(bo.Y) || isZero(bo.X) && isLenOf(bo.Y, v)) && !f.True,
				bo.Op == token.LEQ && isLenOf(bo.X, v) && isZero(bo.Y) && !f.True, // !(len(v) <= 0)
				bo.Op == token.GEQ && isZero(bo.X) && isLenOf(bo.Y, v) && !f.True: // !(0 >= len(v))
				return true
			}
		}
		return false
	}
	// nonEmptyDeep: ... or v is a parameter of a helper and the argument is known to have an element at every call
	var nonEmptyDeep func(v ssa.Value, b *ssa.BasicBlock, depth int) bool
	nonEmptyDeep = func(v ssa.Value, b *ssa.BasicBlock, depth int) bool {
		if nonEmptyAt(v, b) {
			return true
		}
		p, isP := v.(*ssa.Parameter)
		if !isP || depth > 4 || p.Parent() != b.Parent() {
			return false
		}
		sites := callSitesOf(p.Parent(), scope)
		idx := paramIndexOf(p)
		for _, s := range sites {
			if idx < 0 || idx >= len(s.Common().Args) || !nonEmptyDeep(s.Common().Args[idx], s.Block(), depth+1) {
				return false
			}
		}
		return len(sites) > 0
	}
	if guardCall == nil {
		c.R.Violate("C19-R2", "Run: guard executed", c.P.Pos(F.Pos()), "expected outputs' guards are never executed")
	} else if okMark {
		c.R.Fn(fname(guardCall.Parent()))
		accepted := marks[0].Val
		exe := callResults(guardCall)[0]
		mres := callResults(matchCall)[0]
		okG := true
		var whyG []string
		// afterGuard: block b lies after the guard ran (after the guard call, or after the call of the helper that
		// runs it unless the way at hand comes back through that very call: then the helper's own blocks decide)
		afterGuard := func(b *ssa.BasicBlock, through []*ssa.Call) bool {
			gs := siteInFn(b.Parent(), guardCall)
			if gs == nil {
				return false
			}
			for _, t := range through {
				if ssa.Instruction(t) == gs {
					return false
				}
			}
			return gs.Block() == b || reachWithoutLoopHead(gs.Block(), b, b.Parent())
		}
		for _, w := range valueWays(accepted, scope, flow.FactsAt(marks[0].Block())) {
			d := w.leaf
			switch {
			case ssau.IsNilConst(d):
			case d == mres:
				// only on ways without a guard: the way must not be chosen after the guard call (a way without any
				// choice is the value as it stands at the mark)
				chosen := w.blocks
				if len(chosen) == 0 {
					chosen = []*ssa.BasicBlock{marks[0].Block()}
				}
				for _, b := range chosen {
					if afterGuard(b, w.calls) {
						okG = false
						whyG = append(whyG, "the raw match result is accepted after the guard ran")
						break
					}
				}
			default:
				// literal []Bindings{exe.Bs} under exe.Bs != nil
				okLit := false
				if sl, isSl := d.(*ssa.Slice); isSl {
					if al, isAl := sl.X.(*ssa.Alloc); isAl {
						for _, r := range ssau.Referrers(al) {
							if ia, ok := r.(*ssa.IndexAddr); ok {
								for _, r2 := range ssau.Referrers(ia) {
									if st, ok := r2.(*ssa.Store); ok {
										if base, is := ssau.LoadOfField(st.Val, prog.Abs("core"), "Execution", "Bs"); is && base == exe {
											for _, f := range flow.FactsAt(st.Block()) {
												if bo, isB := f.Cond.(*ssa.BinOp); isB && ssau.IsNilConst(bo.Y) {
													if b2, is2 := ssau.LoadOfField(bo.X, prog.Abs("core"), "Execution", "Bs"); is2 && b2 == exe && ((bo.Op == token.NEQ && f.True) || (bo.Op == token.EQL && !f.True)) {
														okLit = true
													}
												}
											}
										}
									}
								}
							}
						}
					}
				}
				if !okLit {
					// a list built up from nothing by appending the guard's non-nil bindings
					if in, isIn := d.(ssa.Instruction); isIn && in.Parent() != nil {
						okLit = guardFiltered(newSliceWeb(in.Parent()), d, exe)
					}
				}
				if !okLit {
					okG = false
					whyG = append(whyG, "the accepted value can be "+d.String())
				}
			}
		}
		c.R.Check(okG, "C19-R2", "Run: after a guard only its non-nil bindings count as a match", c.pos(guardCall), "accepted value is nil, the guard-less match result, or []Bindings{exe.Bs} under exe.Bs != nil", strings.Join(whyG, "; ")+": a message the guard rejected can count as the expected one")
		// acceptance test is 'accepted != nil'
		okT := false
		nonEmptyLiteral := func(v ssa.Value) bool {
			if sl, isSl := v.(*ssa.Slice); isSl {
				if al, isAl := sl.X.(*ssa.Alloc); isAl {
					if arr, isArr := al.Type().Underlying().(*types.Pointer).Elem().Underlying().(*types.Array); isArr && arr.Len() >= 1 && sl.High == nil {
						return true // []Bindings{...}
					}
				}
			}
			return false
		}
		if nonEmptyDeep(accepted, marks[0].Block(), 0) {
			okT = true
		} else {
			// every definition that reaches the mark has an element where it is chosen: a slice literal, or a value tested there
			okT = true
			for _, da := range phiEdgesWithBlocks(accepted, marks[0].Block()) {
				if nonEmptyLiteral(da.v) {
					continue
				}
				if ssau.IsNilConst(da.v) || !(nonEmptyDeep(da.v, da.b, 0) || nonEmptyDeep(da.v, marks[0].Block(), 0)) {
					okT = false
				}
			}
		}
		// the guard is run on candidate #0 only where there is one
		if ld, isLd := guardCall.Common().Args[1].(*ssa.UnOp); isLd {
			if ia, isIA := ld.X.(*ssa.IndexAddr); isIA {
				okIdx := nonEmptyDeep(ia.X, guardCall.Block(), 0)
				c.R.Check(okIdx, "C19-R2", "Run: the guard runs only when the matcher produced a candidate", c.pos(guardCall), "under 0 < len(candidates)", "the guard is given element 0 of a candidate list that is only known to be non-nil: the matcher answers 'no match' for a property-variable pattern with an empty non-nil list, and the tool panics (or counts the output as met)")
			}
		}
		c.R.Check(okT, "C19-R2", "Run: an output is marked only when something was accepted", c.pos(marks[0]), "under 0 < len(accepted)", "an output can be marked satisfied without an accepted match: the accepted list is at most known to be non-nil, and the matcher's 'no match' can be an empty non-nil list")
	}
	// ---- R3 countdown
	// (the countdown lives in the matching function or in a caller of it: the function that reads the lines)
	var dec *ssa.BinOp
	for _, g := range anc {
		ssau.Instrs(g, func(in ssa.Instruction) {
			if bo, ok := in.(*ssa.BinOp); ok && bo.Op == token.SUB {
				if n, isC := ssau.ConstInt(bo.Y); isC && n == 1 {
					if _, isPhi := bo.X.(*ssa.Phi); isPhi {
						dec = bo
					}
				}
			}
		})
	}
	// holdsAt: pred holds at block b — by the facts at b, or because b is reached only where a helper's verdict is
	// true and every `return true` of that helper happens where pred holds
	var holdsAt func(b *ssa.BasicBlock, extra []flow.Fact, pred func(b *ssa.BasicBlock, fs []flow.Fact) bool, depth int) bool
	holdsAt = func(b *ssa.BasicBlock, extra []flow.Fact, pred func(b *ssa.BasicBlock, fs []flow.Fact) bool, depth int) bool {
		fs := append(append([]flow.Fact{}, flow.FactsAt(b)...), extra...)
		if pred(b, fs) {
			return true
		}
		if depth > 3 {
			return false
		}
		for _, f := range fs {
			cond, pol := f.Cond, f.True
			if u, ok := cond.(*ssa.UnOp); ok && u.Op == token.NOT {
				cond, pol = u.X, !pol
			}
			if !pol {
				continue
			}
			var cl *ssa.Call
			ri := 0
			switch x := cond.(type) {
			case *ssa.Call:
				cl = x
			case *ssa.Extract:
				cl, _ = x.Tuple.(*ssa.Call)
				ri = x.Index
			}
			if cl == nil {
				continue
			}
			h := cl.Common().StaticCallee()
			if h == nil || !inScope[h] {
				continue
			}
			if trueImplies(h, ri, func(hb *ssa.BasicBlock, ex []flow.Fact) bool { return holdsAt(hb, ex, pred, depth+1) }) {
				return true
			}
		}
		return false
	}
	notInverted := func(b *ssa.BasicBlock, fs []flow.Fact) bool {
		for _, f := range fs {
			if _, is := ssau.LoadOfField(f.Cond, prog.Abs("tools/expect"), "Output", "Inverted"); is && !f.True {
				return true
			}
		}
		return false
	}
	pastMark := func(b *ssa.BasicBlock, fs []flow.Fact) bool {
		return okMark && b.Parent() == M && marks[0].Block().Dominates(b)
	}
	if dec == nil {
		c.R.Violate("C19-R3", "Run: countdown of outstanding expectations", c.P.Pos(F.Pos()), "no countdown is decremented")
	} else {
		T := dec.Parent() // the function that counts down (and, in it, concludes "all satisfied")
		c.R.Fn(fname(T))
		tErr := errResultIndex(T)
		if tErr < 0 {
			tErr = 0
		}
		siteT := siteInFn(T, matchCall)
		// same block chain as the mark; under Inverted == false
		underNotInv := holdsAt(dec.Block(), nil, notInverted, 0)
		afterMark := holdsAt(dec.Block(), nil, pastMark, 0)
		c.R.Check(underNotInv && afterMark, "C19-R3", "Run: countdown decremented once per accepted, non-inverted output", c.pos(dec), "dominated by the mark and by !Inverted", fmt.Sprintf("the countdown is not decremented exactly for accepted non-inverted outputs (under !Inverted=%v, after the mark=%v)", underNotInv, afterMark))
		// inverted: error return
		okInv := false
		var invFn *ssa.Function // the function that fails the step for a forbidden output
		if mErr := errResultIndex(M); mErr >= 0 {
			for _, b := range M.Blocks {
				if ret, isRet := b.Instrs[len(b.Instrs)-1].(*ssa.Return); isRet && mErr < len(ret.Results) && !ssau.IsNilConst(ret.Results[mErr]) {
					for _, f := range flow.FactsAt(b) {
						if _, is := ssau.LoadOfField(f.Cond, prog.Abs("tools/expect"), "Output", "Inverted"); is && f.True && okMark && marks[0].Block().Dominates(b) {
							okInv, invFn = true, M
						}
					}
				}
			}
		}
		if !okInv {
			// the mark is set by a helper and the forbidden output fails in a caller of it: the error return lies
			// under Inverted and where the helper's verdict "accepted" (true only past the mark) is known
			for _, g := range anc {
				gErr := errResultIndex(g)
				if g == M || gErr < 0 || okInv {
					continue
				}
				for _, b := range g.Blocks {
					ret, isRet := b.Instrs[len(b.Instrs)-1].(*ssa.Return)
					if !isRet || gErr >= len(ret.Results) || ssau.IsNilConst(ret.Results[gErr]) || provablyNil(ret.Results[gErr], b) {
						continue
					}
					inv := false
					for _, f := range flow.FactsAt(b) {
						if _, is := ssau.LoadOfField(f.Cond, prog.Abs("tools/expect"), "Output", "Inverted"); is && f.True {
							inv = true
						}
					}
					if inv && holdsAt(b, nil, pastMark, 0) {
						okInv, invFn = true, g
						break
					}
				}
			}
		}
		// ... and the error of a helper is the error of the function that reads the lines
		var errGoesUp func(h *ssa.Function, depth int) bool
		errGoesUp = func(h *ssa.Function, depth int) bool {
			if h == T {
				return true
			}
			sites := callSitesOf(h, scope)
			hErr := errResultIndex(h)
			if depth > 4 || len(sites) == 0 || hErr < 0 {
				return false
			}
			for _, s := range sites {
				cl, isCall := s.(*ssa.Call)
				g := s.Parent()
				gErr := errResultIndex(g)
				if !isCall || gErr < 0 {
					return false
				}
				var ev ssa.Value = cl
				if h.Signature.Results().Len() > 1 {
					ev = callResults(cl)[hErr]
				}
				handed := false
				for _, b := range g.Blocks {
					ret, isRet := b.Instrs[len(b.Instrs)-1].(*ssa.Return)
					if !isRet || gErr >= len(ret.Results) {
						continue
					}
					for _, d := range phiDefs(ret.Results[gErr], nil, map[ssa.Value]bool{}) {
						if ev != nil && d == ev && !provablyNil(ev, b) {
							handed = true
						}
					}
				}
				if !handed || !errGoesUp(g, depth+1) {
					return false
				}
			}
			return true
		}
		okInv = okInv && errGoesUp(invFn, 0)
		c.R.Check(okInv, "C19-R3", "Run: a matched forbidden output fails at once", c.P.Pos(F.Pos()), "error return under Inverted after acceptance", "a forbidden (inverted) output that matches does not fail the step")
		// all-satisfied exit: need == 0 test leading to return nil must be dominated by the line read
		var readSite ssa.Instruction
		for _, g := range pkgClosure(T) {
			ssau.Instrs(g, func(in ssa.Instruction) {
				if cl, ok := in.(*ssa.Call); ok && strings.HasSuffix(ssau.CalleeName(cl), "bufio.Reader).ReadBytes") {
					if s := siteInFn(T, cl); s != nil {
						readSite = s
					}
				}
			})
		}
		okExit := true
		nExit := 0
		whyExit := "no 'all satisfied' exit found"
		for _, b := range T.Blocks {
			ret, isRet := b.Instrs[len(b.Instrs)-1].(*ssa.Return)
			if !isRet || tErr >= len(ret.Results) || !ssau.IsNilConst(ret.Results[tErr]) {
				continue
			}
			nExit++
			zero := false
			for _, f := range flow.FactsAt(b) {
				if bo, isB := f.Cond.(*ssa.BinOp); isB && bo.Op == token.EQL && f.True {
					if n, isC := ssau.ConstInt(bo.Y); isC && n == 0 {
						for _, d := range phiDefs(bo.X, nil, map[ssa.Value]bool{}) {
							if d == ssa.Value(dec) {
								zero = true
							}
						}
					}
				}
			}
			if !zero {
				okExit, whyExit = false, "success is returned without the countdown having reached zero"
			}
			if readSite == nil || !readSite.Block().Dominates(b) {
				okExit, whyExit = false, "'all satisfied' can be concluded before any line was read: a step that only forbids outputs passes whatever the subprocess prints"
			}
		}
		if nExit == 0 {
			okExit = false
		}
		// every output of the set is tried against the line before success is concluded
		var Lo *flow.Loop
		if siteT != nil {
			Lo = flow.InnermostLoop(flow.Loops(T), siteT.Block())
		}
		if Lo != nil {
			for _, b := range T.Blocks {
				ret, isRet := b.Instrs[len(b.Instrs)-1].(*ssa.Return)
				if !isRet || tErr >= len(ret.Results) || !ssau.IsNilConst(ret.Results[tErr]) {
					continue
				}
				for _, ex := range Lo.Exits() {
					if ex[0] == Lo.Header {
						continue
					}
					if ex[1] == b || reachWithoutLoopHead(ex[1], b, T) {
						okExit, whyExit = false, "success is returned from inside the loop over the step's outputs ("+c.pos(ret)+"): outputs listed later — forbidden ones included — are never tried against that line"
					}
				}
			}
		} else {
			okExit, whyExit = false, "the matcher is not called in a loop over the step's outputs"
		}
		c.R.Check(okExit, "C19-R3", "Run: success only after a line was processed and the countdown is zero", c.P.Pos(F.Pos()), "return nil is dominated by the read and by need == 0", whyExit)
		// initial value counts non-inverted outputs
		okInit := false
		var extraInit []string
		// the additions that define the countdown's starting value
		counterDefs := map[ssa.Value]bool{}
		scope := append([]*ssa.Function{F}, pkgClosure(run)...)
		var addDefs func(v ssa.Value, depth int)
		addDefs = func(v ssa.Value, depth int) {
			for _, d := range deepDefs(v, scope) {
				if counterDefs[d] {
					continue
				}
				counterDefs[d] = true
				// n+1 where n is itself a counter value: follow n (the loop-carried phi of the counting loop)
				if bo, ok := d.(*ssa.BinOp); ok && bo.Op == token.ADD && depth < 4 {
					addDefs(bo.X, depth+1)
				}
			}
		}
		addDefs(dec.X, 0)
		for d := range counterDefs {
			bo, ok := d.(*ssa.BinOp)
			if !ok || bo.Op != token.ADD {
				continue
			}
			if n, isC := ssau.ConstInt(bo.Y); !isC || n != 1 {
				continue
			}
			for _, f := range flow.FactsAt(bo.Block()) {
				if _, is := ssau.LoadOfField(f.Cond, prog.Abs("tools/expect"), "Output", "Inverted"); is && !f.True {
					okInit = true
				}
			}
			for _, p := range bo.Block().Preds {
				for _, f := range flow.EdgeFacts(p, bo.Block()) {
					if _, is := ssau.LoadOfField(f.Cond, prog.Abs("tools/expect"), "Output", "Inverted"); is && !f.True {
						okInit = true
					}
				}
			}
			// ... and under nothing else (apart from the loop's own bound)
			for _, f := range flow.FactsAt(bo.Block()) {
				if _, is := ssau.LoadOfField(f.Cond, prog.Abs("tools/expect"), "Output", "Inverted"); is {
					continue
				}
				if f.If != nil {
					isHdr := false
					for _, l := range flow.Loops(bo.Parent()) {
						if l.Header == f.If.Block() {
							isHdr = true
						}
					}
					if isHdr {
						continue
					}
				}
				extraInit = append(extraInit, c.posv(f.Cond))
			}
		}
		sort.Strings(extraInit)
		whyInit := "the countdown is not initialised to the number of expected (non-inverted) outputs"
		if okInit && len(extraInit) > 0 {
			okInit, whyInit = false, "an expected output is counted only under a further condition ("+strings.Join(extraInit, ", ")+"): the step can pass with that expectation never met"
		}
		c.R.Check(okInit, "C19-R3", "Run: countdown starts at the number of non-inverted outputs", c.P.Pos(F.Pos()), "incremented per output under !Inverted and nothing else", whyInit)
	}
	// ---- R5: each line is decoded into a value of its own (json.Unmarshal merges into a non-nil map it is given)
	{
		// (the function that reads the lines: the matching function, or the caller of it that holds the read loop)
		var readCall *ssa.Call
		RF := F
		for _, g := range anc {
			ssau.Instrs(g, func(in ssa.Instruction) {
				if cl, ok := in.(*ssa.Call); ok && strings.HasSuffix(ssau.CalleeName(cl), "bufio.Reader).ReadBytes") {
					readCall, RF = cl, g
				}
			})
		}
		okFresh, whyFresh := false, "the line is not decoded with json.Unmarshal"
		if readCall != nil {
			c.R.Fn(fname(RF))
			L := flow.InnermostLoop(flow.Loops(RF), readCall.Block())
			ssau.Instrs(RF, func(in ssa.Instruction) {
				cl, ok := in.(*ssa.Call)
				if !ok || ssau.CalleeName(cl) != "encoding/json.Unmarshal" || L == nil || !L.Blocks[cl.Block()] {
					return
				}
				// only the decode of the line itself: its first operand derives from the read
				fromLine := false
				for _, d := range phiDefs(cl.Common().Args[0], nil, map[ssa.Value]bool{}) {
					if ex, isEx := d.(*ssa.Extract); isEx && ex.Tuple == ssa.Value(readCall) {
						fromLine = true
					}
				}
				if !fromLine {
					return
				}
				dst := cl.Common().Args[1]
				if mi, isMI := dst.(*ssa.MakeInterface); isMI {
					dst = mi.X
				}
				al, isAl := dst.(*ssa.Alloc)
				switch {
				case !isAl:
					okFresh, whyFresh = false, "the decoded message is not a local variable of the line loop"
				case !L.Blocks[al.Block()]:
					okFresh, whyFresh = false, "the variable the line is decoded into is declared outside the per-line loop ("+c.pos(al)+"): json.Unmarshal keeps the entries of a map it is given, so the 'message' matched is the union of all lines so far and one pattern can be satisfied by properties of different messages"
				default:
					okFresh = true
				}
			})
		}
		c.R.Check(okFresh, "C19-R5", "Run: every line is decoded into a fresh value", c.P.Pos(F.Pos()), "the json.Unmarshal target is a variable created in that iteration of the read loop", whyFresh)
	}
	// ---- R4
	// The test "fewer than two completion signals": a comparison of a count with 2 (the 2 may be a constant, a
	// variable or a field of a local record).  Either Run returns on its "fewer" edge, or the test sits in a helper
	// whose verdict is true only where "not fewer" holds, and Run returns where that verdict is false.
	okBoth := false
	{
		scope4 := pkgClosure(run)
		is2 := func(v ssa.Value) bool {
			ls := resolveThroughLocals(v, scope4)
			for _, l := range ls {
				if n, isC := ssau.ConstInt(l); !isC || n != 2 {
					return false
				}
			}
			return len(ls) > 0
		}
		// fewer / enough: what a fact says about "count < 2"
		verdict := func(f flow.Fact) (fewer, enough bool) {
			bo, isB := f.Cond.(*ssa.BinOp)
			if !isB {
				return false, false
			}
			lt := false // the comparison reads "count < 2" when true (else "count >= 2")
			switch {
			case bo.Op == token.LSS && is2(bo.Y), bo.Op == token.GTR && is2(bo.X):
				lt = true
			case bo.Op == token.GEQ && is2(bo.Y), bo.Op == token.LEQ && is2(bo.X):
				lt = false
			default:
				return false, false
			}
			return lt == f.True, lt != f.True
		}
		endsInReturn := func(b *ssa.BasicBlock) bool {
			_, isRet := b.Instrs[len(b.Instrs)-1].(*ssa.Return)
			return isRet
		}
		for _, b := range run.Blocks {
			iff, ok := b.Instrs[len(b.Instrs)-1].(*ssa.If)
			if !ok {
				continue
			}
			for si, succ := range b.Succs {
				for _, f := range flow.Expand([]flow.Fact{{Cond: iff.Cond, True: si == 0, If: iff}}) {
					if fewer, _ := verdict(f); fewer && endsInReturn(succ) {
						okBoth = true
					}
					// the verdict of a helper: Run returns where it is false
					if f.True {
						continue
					}
					var cl *ssa.Call
					ri := 0
					switch x := f.Cond.(type) {
					case *ssa.Call:
						cl = x
					case *ssa.Extract:
						cl, _ = x.Tuple.(*ssa.Call)
						ri = x.Index
					}
					if cl == nil || !endsInReturn(succ) {
						continue
					}
					h := cl.Common().StaticCallee()
					if h == nil || h.Blocks == nil || prog.PkgOf(h) != prog.PkgOf(run) {
						continue
					}
					if trueImplies(h, ri, func(hb *ssa.BasicBlock, extra []flow.Fact) bool {
						for _, hf := range append(flow.FactsAt(hb), extra...) {
							if _, enough := verdict(hf); enough {
								return true
							}
						}
						return false
					}) {
						okBoth = true
					}
				}
			}
		}
	}
	c.R.Check(okBoth, "C19-R4", "Run: a step succeeds only with both completion signals", c.P.Pos(run.Pos()), "happies < 2 returns the error", "a step can succeed without both the output check and the input sender having completed")
	_ = types.Typ
}

// sameIndexAddr: two IndexAddr values address the same element expression (same slice field, same index value).
func sameIndexAddr(a, b ssa.Value) bool {
	ia, ok1 := a.(*ssa.IndexAddr)
	ib, ok2 := b.(*ssa.IndexAddr)
	if !ok1 || !ok2 {
		return false
	}
	return ia.Index == ib.Index
}

// reachWithoutLoopHead: to is reachable from from without passing a loop header (i.e. within the same iteration).
func reachWithoutLoopHead(from, to *ssa.BasicBlock, fn *ssa.Function) bool {
	avoid := map[*ssa.BasicBlock]bool{}
	for _, l := range flow.Loops(fn) {
		avoid[l.Header] = true
	}
	if avoid[from] {
		return false
	}
	return flow.Reachable(from, to, avoid)
}

func C09(c *Ctx) {
	c.R.Explanation = "Decides structural necessary conditions of 'state is plain JSON data': (R1) every value the engine itself stores into bindings (error texts, lastNode, lastBindings, action error texts) is boxed from a JSON-shaped Go type — string, float64, bool, map[string]interface{}, []interface{} — never from a named map type or an integer type, because the matcher dispatches on dynamic Go types; (R2) the bindings an ECMAScript execution returns are the result of the JSON canonicalisation (or nil); (R3) the JSON form of State carries both fields unconditionally (no omitempty / '-' on node or bs), so that empty bindings do not come back as absent; (R4) nothing the engine stores into a bindings map is that same map (no self-containing state, which cannot be serialised). (R5) every value the interpreter hands to Events.AddEmitted is the result of the JSON canonicalisation: a crew routes emitted messages in memory, where a raw int64 inside an array would be bound into another machine's state. Behavioural equality of continued histories and number formatting are not decided."
	c.R.Rule("C09-R1", "E5", "engine-made binding values are JSON-shaped", 5)
	c.R.Rule("C09-R2", "E5", "script results are canonicalised", 1)
	c.R.Rule("C09-R5", "E5", "emitted messages are canonicalised (they can be routed in memory to other machines and bound there)", 1)
	c.R.Rule("C09-R3", "E6", "both fields of State are part of its serialised form", 2)
	c.R.Rule("C09-R4", "E5", "a bindings map never contains itself", 2)
	c.R.Rule("C09-R6", "E6", "state readers decode numbers the way the matcher knows them (float64)", 1)
	c09Readers(c)
	c.shareRule("C15", "C15-R14", "C09-R14", "what can be reloaded is what was reached: no state is withheld from the report for its size or any other reason")
	c.shareRule("C15", "C15-R15", "C09-R15", "reloading is unobservable: the host's way of restoring a machine installs the state that was written out, with nothing added")
	c.R.Rule("C09-R13", "E5", "a message a host coupling builds is plain JSON data", 3)
	c09HostMadeMessages(c, "C09-R13")
	c.R.Rule("C09-R11", "E1", "the crew keeps nothing about a machine outside its reported state", 1)
	c09CrewKeepsOnlyReportedState(c, "C09-R11")
	c.shareRule("C15", "C15-R2", "C09-R12", "what a host has written out is every change: the report carries every field and a deletion clears the duplicate-suppression record (a machine re-created the same way is reported again)")
	c.shareRule("C10", "C10-R2", "C09-R10", "a state is plain data of its own: nothing a script is given shares structure with it (a reloaded state shares nothing, so sharing would be observable)")
	c.shareRule("C16", "C16-R3", "C09-R8", "what mcrew writes out for a machine is that machine's state: one transaction, every record, each record's bytes its own")
	c.shareRule("C15", "C15-R8", "C09-R9", "what the stdio host writes out is everything it read plus every reported change (its store starts from the state file)")
	c.R.Rule("C09-R7", "E1", "a machine's state is its node and bindings: no script runtime outlives an execution", 3)
	if ea, ex := c.ecmaAnalysis(); ea != nil {
		c.runtimeFresh("C09-R7", ea, ex)
	}
	step := c.fn("core", "Spec", "Step")
	walk := c.fn("core", "Spec", "Walk")
	exec := c.fn("interpreters/ecmascript", "Interpreter", "Exec")
	if step == nil || walk == nil || exec == nil {
		return
	}
	c.R.Fn(fname(step), fname(walk), fname(exec))
	jsonShaped := func(t types.Type) (bool, string) {
		s := types.TypeString(t, func(p *types.Package) string { return p.Name() })
		switch s {
		case "string", "float64", "bool", "map[string]interface{}", "[]interface{}", "map[string]any", "[]any":
			return true, s
		}
		return false, s
	}
	// values stored through Extend / Extendm / direct map updates of Bindings in Step and Walk
	n1, n4 := 0, 0
	// (and the helpers of package core they build states in)
	var engineFns []*ssa.Function
	{
		seenF := map[*ssa.Function]bool{}
		for _, root := range []*ssa.Function{step, walk} {
			for _, f := range pkgClosure(root) {
				if prog.PkgOf(f) == "core" && !seenF[f] {
					seenF[f] = true
					engineFns = append(engineFns, f)
				}
			}
		}
		sort.Slice(engineFns, func(i, j int) bool { return fname(engineFns[i]) < fname(engineFns[j]) })
	}
	for _, f := range engineFns {
		ssau.Instrs(f, func(in ssa.Instruction) {
			var recv ssa.Value
			var vals []ssa.Value
			switch x := in.(type) {
			case *ssa.MapUpdate:
				if isBindingsT(x.Map.Type()) {
					recv, vals = x.Map, []ssa.Value{x.Value}
				}
			case *ssa.Call:
				sc := x.Common().StaticCallee()
				if sc == nil || prog.PkgOf(sc) != "match" {
					return
				}
				switch sc.Name() {
				case "Extend":
					recv, vals = x.Common().Args[0], []ssa.Value{x.Common().Args[2]}
				case "Extendm":
					recv = x.Common().Args[0]
					if sl, ok := x.Common().Args[1].(*ssa.Slice); ok {
						if al, ok := sl.X.(*ssa.Alloc); ok {
							for _, r := range ssau.Referrers(al) {
								if ia, ok := r.(*ssa.IndexAddr); ok {
									if idx, isC := ssau.ConstInt(ia.Index); isC && idx%2 == 1 {
										for _, r2 := range ssau.Referrers(ia) {
											if st, ok := r2.(*ssa.Store); ok {
												vals = append(vals, st.Val)
											}
										}
									}
								}
							}
						}
					}
				}
			}
			for _, v := range vals {
				n1++
				key := fmt.Sprintf("%s: stored binding value #%d", fname(f), n1)
				mi, isMI := v.(*ssa.MakeInterface)
				if !isMI {
					// already an interface value: must come from JSON-shaped provenance (a parameter / callback result): accept parameters only
					c.R.Discharge("C09-R1", key, c.pos(in), "an interface value handed in by the caller or an action")
				} else {
					ok, ts := jsonShaped(mi.X.Type())
					why := "the engine stores a " + ts + " into the bindings: its JSON round trip has another Go type, so patterns match it differently before and after the state is persisted"
					if ok {
						// a text cut at a byte offset can end inside a multi-byte character: JSON writes U+FFFD for it
						if at := byteSliced(mi.X, engineFns, 0); at != nil {
							ok, why = false, "the engine stores a string cut at a byte offset ("+c.posv(at)+"): a multi-byte character on the boundary leaves invalid UTF-8 in the state, which is written as U+FFFD and read back as a different string"
						}
					}
					c.R.Check(ok, "C09-R1", key, c.pos(in), "boxed from "+ts, why)
				}
				// R4
				n4++
				self := ssau.Strip(v)
				if ct, isCT := self.(*ssa.ChangeType); isCT {
					self = ct.X
				}
				c.R.Check(self != recv, "C09-R4", fmt.Sprintf("%s: stored value #%d is not the receiving map", fname(f), n4), c.pos(in), "distinct SSA values", "a bindings map is stored into itself: the state contains a cycle and can no longer be written as JSON")
			}
		})
	}
	if n1 < 5 {
		c.R.Break("C09-R1: expected the engine's own binding stores in Step and Walk, found %d", n1)
	}
	// ---- R2
	canon := c.P.Func("core", "", "Canonicalize")
	var bsStores []*ssa.Store
	scope := pkgClosure(exec)
	for _, f := range scope {
		bsStores = append(bsStores, storesToPkg(f, "core", "Execution", "Bs")...)
		// a helper may be handed the address of the field (`asBindings(x, &exe.Bs)`) and store through it
		ssau.Instrs(f, func(in ssa.Instruction) {
			st, ok := in.(*ssa.Store)
			if !ok || !isBindingsT(st.Val.Type()) {
				return
			}
			if _, isP := st.Addr.(*ssa.Parameter); !isP {
				return
			}
			ds := deepDefs(st.Addr, scope)
			all := len(ds) > 0
			for _, d := range ds {
				if !ssau.IsField(d, prog.Abs("core"), "Execution", "Bs") {
					all = false
				}
			}
			if all {
				bsStores = append(bsStores, st)
			}
		})
	}
	okCanon := len(bsStores) > 0
	whyC := "Exec never sets the execution's bindings"
	isCanonResult := func(v ssa.Value) bool {
		ex, ok := v.(*ssa.Extract)
		if !ok {
			return false
		}
		cl, ok := ex.Tuple.(*ssa.Call)
		return ok && cl.Common().StaticCallee() == canon && ex.Index == 0
	}
	for _, st := range bsStores {
		for _, d := range deepDefs(st.Val, scope) {
			if ssau.IsNilConst(d) {
				continue
			}
			var ta *ssa.TypeAssert
			if ex, isEx := d.(*ssa.Extract); isEx && ex.Index == 0 {
				ta, _ = ex.Tuple.(*ssa.TypeAssert)
			} else if t2, isTA := d.(*ssa.TypeAssert); isTA {
				ta = t2
			}
			ok := false
			if ta != nil {
				if isBindingsT(ta.AssertedType) {
					ok = true // a value that already has the Go type match.Bindings can only have been handed to the script by the host
				} else {
					ok = true
					srcs := deepDefs(ta.X, scope)
					if len(srcs) == 0 {
						ok = false
					}
					for _, src := range srcs {
						if !isCanonResult(src) {
							ok = false
						}
					}
				}
			}
			if !ok {
				okCanon, whyC = false, "the returned bindings can be "+d.String()+", which did not go through the JSON canonicalisation: Go values that no reloaded state holds (e.g. int64 in an array) get into the state"
			}
		}
	}
	// ---- R5
	{
		addEmitted := c.P.Func("core", "Events", "AddEmitted")
		canon := c.P.Func("core", "", "Canonicalize")
		n5 := 0
		var scope5 []*ssa.Function
		for _, f := range pkgClosure(exec) {
			if prog.PkgOf(f) == "interpreters/ecmascript" {
				scope5 = append(scope5, f)
			}
		}
		for _, f := range scope5 {
			ssau.Instrs(f, func(in ssa.Instruction) {
				ci, ok := in.(ssa.CallInstruction)
				if !ok || addEmitted == nil || ci.Common().StaticCallee() != addEmitted {
					return
				}
				n5++
				okE := true
				whyE := ""
				ds := deepDefs(ci.Common().Args[1], []*ssa.Function{f})
				for _, d := range ds {
					ex, isEx := d.(*ssa.Extract)
					if isEx && ex.Index == 0 {
						if cl, isC := ex.Tuple.(*ssa.Call); isC && canon != nil && cl.Common().StaticCallee() == canon {
							continue
						}
					}
					okE, whyE = false, "the emitted value can be "+d.String()+" ("+c.posv(d)+"), not a Canonicalize result"
				}
				c.R.Check(okE && len(ds) > 0, "C09-R5", fmt.Sprintf("%s: emitted value #%d is canonical", fname(f), n5), c.pos(in), "AddEmitted(Canonicalize(x))", whyE+": a crew routes it in memory, and a machine that binds it differs from the same machine reloaded from JSON")
			})
		}
		if n5 == 0 {
			c.R.Break("C09-R5: the interpreter never calls Events.AddEmitted")
		}
	}
	c.R.Check(okCanon, "C09-R2", "Exec: returned bindings are canonicalised", c.P.Pos(exec.Pos()), "Execution.Bs = Canonicalize(exported value) or nil", whyC)
	// ---- R3
	corePkg := c.P.ByPath[prog.Abs("core")]
	if st, ok := corePkg.Types.Scope().Lookup("State").Type().Underlying().(*types.Struct); ok {
		for i := 0; i < st.NumFields(); i++ {
			tag := st.Tag(i)
			// (omitempty is not a defect any more: since the repairs F29/F30 absent and empty bindings are
			// treated alike by branch evaluation, by the action wrapper and by the interpreter, and an
			// empty node name decodes to itself either way; the rule used to flag it)
			bad := strings.Contains(tag, `json:"-"`) || !st.Field(i).Exported()
			c.R.Check(!bad, "C09-R3", "State."+st.Field(i).Name()+" is part of the serialised form", c.P.Pos(st.Field(i).Pos()), "tag: "+tag, "State."+st.Field(i).Name()+" is not written out ("+tag+"): a reloaded machine continues without it")
		}
	} else {
		c.R.Break("C09-R3: core.State not found")
	}
}

// guardFiltered: the list v is built from nothing (nil, make with length 0,
// x[:0]) by appending guard executions' Bs at points where that Bs is known to
// be non-nil.
func guardFiltered(w *sliceWeb, v ssa.Value, exe ssa.Value) bool {
	seen := map[ssa.Value]bool{}
	appends := 0
	var ok func(v ssa.Value) bool
	ok = func(v ssa.Value) bool {
		if seen[v] {
			return true
		}
		seen[v] = true
		if ssau.IsNilConst(v) {
			return true
		}
		switch x := v.(type) {
		case *ssa.Phi:
			for _, e := range x.Edges {
				if !ok(e) {
					return false
				}
			}
			return true
		case *ssa.MakeSlice:
			k, isC := ssau.ConstInt(x.Len)
			return isC && k == 0
		case *ssa.Slice:
			k, isC := ssau.ConstInt(x.High)
			return isC && k == 0 && x.High != nil
		case *ssa.Call:
			b, isB := x.Common().Value.(*ssa.Builtin)
			if !isB || b.Name() != "append" {
				return false
			}
			elems, spread := appended(x)
			if spread != nil || len(elems) != 1 {
				return false
			}
			base, is := ssau.LoadOfField(elems[0], prog.Abs("core"), "Execution", "Bs")
			if !is {
				return false
			}
			if ex, isEx := base.(*ssa.Extract); !isEx || ex.Index != 0 {
				return false
			}
			nonNil := false
			for _, f := range flow.FactsAt(x.Block()) {
				if bo, isBO := f.Cond.(*ssa.BinOp); isBO && ssau.IsNilConst(bo.Y) && ((bo.Op == token.NEQ && f.True) || (bo.Op == token.EQL && !f.True)) {
					if b2, is2 := ssau.LoadOfField(bo.X, prog.Abs("core"), "Execution", "Bs"); is2 && b2 == base {
						nonNil = true
					}
				}
			}
			if !nonNil {
				return false
			}
			appends++
			return ok(x.Common().Args[0])
		}
		return false
	}
	_ = w
	_ = exe
	return ok(v)
}

// byteSliced: the string v is (or is concatenated from) a substring taken by byte offsets; returns that slice.
func byteSliced(v ssa.Value, scope []*ssa.Function, depth int) ssa.Value {
	if depth > 4 {
		return nil
	}
	for _, d := range deepDefs(v, scope) {
		switch x := d.(type) {
		case *ssa.Slice:
			if b, ok := x.X.Type().Underlying().(*types.Basic); ok && b.Info()&types.IsString != 0 {
				return x
			}
		case *ssa.BinOp:
			if x.Op == token.ADD {
				if r := byteSliced(x.X, scope, depth+1); r != nil {
					return r
				}
				if r := byteSliced(x.Y, scope, depth+1); r != nil {
					return r
				}
			}
		}
	}
	return nil
}

// c09Readers: C09-R6.  No reader of states, specs or messages in the engine and host packages switches the JSON
// decoder to json.Number: the matcher knows numbers as float64 only, so a state read back that way behaves
// differently from the state that was written.
func c09Readers(c *Ctx) {
	n, dec := 0, 0
	for _, f := range c.P.FuncsIn("core", "crew", "match", "sio", "cmd/mcrew", "cmd/msimple", "cmd/sheensio", "cmd/mdb", "tools", "tools/expect", "interpreters/ecmascript") {
		ssau.Instrs(f, func(in ssa.Instruction) {
			ci, ok := in.(ssa.CallInstruction)
			if !ok {
				return
			}
			switch ssau.CalleeName(ci) {
			case "encoding/json.Unmarshal", "encoding/json.NewDecoder", "(*encoding/json.Decoder).Decode":
				dec++
			case "(*encoding/json.Decoder).UseNumber":
				n++
				c.R.Violate("C09-R6", fmt.Sprintf("%s: decoder switched to json.Number #%d", fname(f), n), c.pos(in), "numbers are decoded as json.Number: bindings read back hold a type the matcher does not know (\"unknown pattern type\", or unequal to the float64 a live machine holds)")
			}
		})
	}
	if dec == 0 {
		c.R.Break("C09-R6: no JSON decoding found in the engine and host packages")
		return
	}
	if n == 0 {
		c.R.Discharge("C09-R6", "no reader decodes numbers as json.Number", "", fmt.Sprintf("%d JSON decoding sites, none uses Decoder.UseNumber", dec))
	}
}

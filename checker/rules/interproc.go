package rules

import (
	"fmt"
	"go/constant"
	"go/token"
	"go/types"
	"golang.org/x/tools/go/ssa"
	"sort"
	"strings"

	"sheensverif/internal/flow"
	"sheensverif/internal/prog"
	"sheensverif/internal/ssau"
)

// This file holds the interprocedural helpers that make the SSA-shape rules
// indifferent to "extract helper", "closure -> method" and "inline helper"
// refactorings: definitions are followed through static in-package calls
// (results down, parameters back up to the call sites), and a rule may look
// for its anchor in the static-call closure of a function.

// pkgClosure returns fn, its function literals and every function of the same
// package reachable from them through static calls and method values.
func pkgClosure(fn *ssa.Function) []*ssa.Function {
	pk := prog.PkgOf(fn)
	seen := map[*ssa.Function]bool{}
	var out []*ssa.Function
	var visit func(f *ssa.Function)
	visit = func(f *ssa.Function) {
		if f == nil || f.Blocks == nil || seen[f] || prog.PkgOf(f) != pk {
			return
		}
		seen[f] = true
		out = append(out, f)
		for _, an := range f.AnonFuncs {
			visit(an)
		}
		ssau.Instrs(f, func(in ssa.Instruction) {
			if ci, ok := in.(ssa.CallInstruction); ok {
				if sc := ci.Common().StaticCallee(); sc != nil {
					visit(sc)
				}
				for _, a := range ci.Common().Args {
					if mc, ok := a.(*ssa.MakeClosure); ok {
						visit(mc.Fn.(*ssa.Function))
					}
				}
			}
			if mc, ok := in.(*ssa.MakeClosure); ok {
				f2 := mc.Fn.(*ssa.Function)
				visit(f2)
				// bound method wrapper: follow to the method
				ssau.Instrs(f2, func(in2 ssa.Instruction) {
					if ci, ok := in2.(ssa.CallInstruction); ok {
						if sc := ci.Common().StaticCallee(); sc != nil {
							visit(sc)
						}
					}
				})
			}
		})
	}
	visit(fn)
	return out
}

// callSitesOf lists the static call / go / defer sites of fn inside the given functions.
func callSitesOf(fn *ssa.Function, in []*ssa.Function) []ssa.CallInstruction {
	var out []ssa.CallInstruction
	for _, f := range in {
		ssau.Instrs(f, func(ins ssa.Instruction) {
			if ci, ok := ins.(ssa.CallInstruction); ok && ci.Common().StaticCallee() == fn {
				out = append(out, ci)
			}
		})
	}
	return out
}

// deepDefs resolves v to its leaf definitions: through phis, value-preserving
// conversions, results of static in-repo calls (into the callee's returns) and
// parameters / free variables of non-entry functions (back to the arguments and
// bindings at their static sites inside scope).  Leaves are everything else.
func deepDefs(v ssa.Value, scope []*ssa.Function) []ssa.Value {
	inScope := map[*ssa.Function]bool{}
	for _, f := range scope {
		inScope[f] = true
	}
	seen := map[ssa.Value]bool{}
	var out []ssa.Value
	var rec func(v ssa.Value, depth int)
	rec = func(v ssa.Value, depth int) {
		if v == nil || seen[v] || depth > 12 {
			return
		}
		seen[v] = true
		switch x := v.(type) {
		case *ssa.Phi:
			for _, e := range x.Edges {
				rec(e, depth+1)
			}
			return
		case *ssa.ChangeType:
			rec(x.X, depth+1)
			return
		case *ssa.MakeInterface:
			rec(x.X, depth+1)
			return
		case *ssa.ChangeInterface:
			rec(x.X, depth+1)
			return
		case *ssa.Call:
			if sc := x.Common().StaticCallee(); sc != nil && sc.Blocks != nil && inScope[sc] && sc.Signature.Results().Len() == 1 {
				for _, b := range sc.Blocks {
					if ret, ok := b.Instrs[len(b.Instrs)-1].(*ssa.Return); ok {
						rec(ret.Results[0], depth+1)
					}
				}
				return
			}
		case *ssa.Extract:
			if cl, ok := x.Tuple.(*ssa.Call); ok {
				if sc := cl.Common().StaticCallee(); sc != nil && sc.Blocks != nil && inScope[sc] {
					for _, b := range sc.Blocks {
						if ret, ok := b.Instrs[len(b.Instrs)-1].(*ssa.Return); ok && x.Index < len(ret.Results) {
							rec(ret.Results[x.Index], depth+1)
						}
					}
					return
				}
			}
		case *ssa.Parameter:
			fn := x.Parent()
			idx := -1
			for i, p := range fn.Params {
				if p == x {
					idx = i
				}
			}
			sites := callSitesOf(fn, scope)
			if idx == 0 && len(sites) == 0 && fn.Signature.Recv() != nil {
				// a method used as a method value (x.m): its receiver is what the bound-method wrapper was closed over
				n := 0
				for _, f := range scope {
					ssau.Instrs(f, func(in ssa.Instruction) {
						mc, ok := in.(*ssa.MakeClosure)
						if !ok || len(mc.Bindings) != 1 {
							return
						}
						w, isF := mc.Fn.(*ssa.Function)
						if !isF || w.Synthetic == "" || w.Name() != fn.Name()+"$bound" || !types.Identical(mc.Bindings[0].Type(), x.Type()) {
							return
						}
						n++
						rec(mc.Bindings[0], depth+1)
					})
				}
				if n > 0 {
					return
				}
			}
			if idx >= 0 && len(sites) > 0 && len(scope) > 0 && fn != scope[0] {
				for _, s := range sites {
					args := s.Common().Args
					if idx < len(args) {
						rec(args[idx], depth+1)
					}
				}
				return
			}
		case *ssa.UnOp:
			// load of a captured variable: the cell it is bound to
			if fv, ok := x.X.(*ssa.FreeVar); ok && x.Op == token.MUL {
				lit := fv.Parent()
				idx := -1
				for i, f := range lit.FreeVars {
					if f == fv {
						idx = i
					}
				}
				var cells []*ssa.Alloc
				for _, f := range scope {
					ssau.Instrs(f, func(in ssa.Instruction) {
						if mc, ok := in.(*ssa.MakeClosure); ok && mc.Fn == ssa.Value(lit) && idx >= 0 && idx < len(mc.Bindings) {
							if al, isAl := mc.Bindings[idx].(*ssa.Alloc); isAl {
								cells = append(cells, al)
							}
						}
					})
				}
				n := 0
				for _, al := range cells {
					for _, r := range ssau.Referrers(al) {
						if st, ok := r.(*ssa.Store); ok && st.Addr == ssa.Value(al) {
							n++
							rec(st.Val, depth+1)
						}
					}
				}
				if n > 0 {
					return
				}
			}
			// load of a local variable cell: the values stored into it (here and in literals that capture it)
			if al, ok := x.X.(*ssa.Alloc); ok && x.Op == token.MUL {
				n := 0
				for _, r := range ssau.Referrers(al) {
					switch y := r.(type) {
					case *ssa.Store:
						if y.Addr == ssa.Value(al) {
							n++
							rec(y.Val, depth+1)
						}
					case *ssa.MakeClosure:
						lit := y.Fn.(*ssa.Function)
						for i, b := range y.Bindings {
							if b != ssa.Value(al) || i >= len(lit.FreeVars) {
								continue
							}
							for _, r2 := range ssau.Referrers(lit.FreeVars[i]) {
								if st, ok := r2.(*ssa.Store); ok && st.Addr == ssa.Value(lit.FreeVars[i]) {
									n++
									rec(st.Val, depth+1)
								}
							}
						}
					}
				}
				if n > 0 {
					return
				}
			}
		case *ssa.FreeVar:
			fn := x.Parent()
			idx := -1
			for i, fv := range fn.FreeVars {
				if fv == x {
					idx = i
				}
			}
			found := false
			for _, f := range scope {
				ssau.Instrs(f, func(in ssa.Instruction) {
					if mc, ok := in.(*ssa.MakeClosure); ok && mc.Fn == ssa.Value(fn) && idx >= 0 && idx < len(mc.Bindings) {
						found = true
						rec(mc.Bindings[idx], depth+1)
					}
				})
			}
			if found {
				return
			}
		}
		out = append(out, v)
	}
	rec(v, 0)
	return out
}

// trueImplies reports whether every `return true` of the bool-valued function h
// (result index ri) happens where pred holds: pred gets the block in which the
// returned value is chosen plus the fact that the returned (non-constant) value
// itself is true.
func trueImplies(h *ssa.Function, ri int, pred func(b *ssa.BasicBlock, extra []flow.Fact) bool) bool {
	if h == nil || h.Blocks == nil {
		return false
	}
	n := 0
	for _, b := range h.Blocks {
		ret, ok := b.Instrs[len(b.Instrs)-1].(*ssa.Return)
		if !ok || ri >= len(ret.Results) {
			continue
		}
		for _, d := range phiEdgesWithBlocks(ret.Results[ri], b) {
			cst, isC := d.v.(*ssa.Const)
			if isC && cst.Value != nil && cst.Value.String() == "false" {
				continue
			}
			n++
			if isC {
				// `return true` merged into the return block: judged where it was chosen
				if !pred(d.b, nil) {
					return false
				}
				continue
			}
			// a computed verdict: judged at the return itself, knowing that the value is true
			if !pred(b, flow.Expand([]flow.Fact{{Cond: d.v, True: true}})) && !pred(d.b, flow.Expand([]flow.Fact{{Cond: d.v, True: true}})) {
				return false
			}
		}
	}
	return n > 0
}

type defAt struct {
	v ssa.Value
	b *ssa.BasicBlock
}

// phiEdgesWithBlocks expands a value used in block b into (definition, block in
// which that definition is chosen): for a phi, each incoming edge with its
// predecessor block; otherwise the value with b.
func phiEdgesWithBlocks(v ssa.Value, b *ssa.BasicBlock) []defAt {
	return phiEdgesWithBlocksSeen(v, b, map[*ssa.Phi]bool{})
}

// (phis of a loop refer to one another: each is expanded once)
func phiEdgesWithBlocksSeen(v ssa.Value, b *ssa.BasicBlock, seen map[*ssa.Phi]bool) []defAt {
	if p, ok := v.(*ssa.Phi); ok {
		if seen[p] {
			return nil
		}
		seen[p] = true
		var out []defAt
		for i, e := range p.Edges {
			out = append(out, phiEdgesWithBlocksSeen(e, p.Block().Preds[i], seen)...)
		}
		return out
	}
	return []defAt{{v, b}}
}

// factCallTrue lists the calls whose (bool) result is known true at block b:
// direct `if h(...)`, `if !h(...)` on the false edge, or through an extract.
func factCallTrue(b *ssa.BasicBlock) []*ssa.Call {
	var out []*ssa.Call
	for _, f := range flow.FactsAt(b) {
		cond, pol := f.Cond, f.True
		if u, ok := cond.(*ssa.UnOp); ok && u.Op.String() == "!" {
			cond, pol = u.X, !pol
		}
		if !pol {
			continue
		}
		switch x := cond.(type) {
		case *ssa.Call:
			out = append(out, x)
		case *ssa.Extract:
			if cl, ok := x.Tuple.(*ssa.Call); ok {
				out = append(out, cl)
			}
		}
	}
	return out
}

// siteInFn: the instruction of fn through which the given instruction is
// reached: the instruction itself if it is in fn (or in a literal of fn, then
// the place where that literal is made is not tracked: the call that leads to
// it is), else the first call in fn whose static callee's in-repository
// closure contains the instruction's function.
func siteInFn(fn *ssa.Function, in ssa.Instruction) ssa.Instruction {
	if in.Parent() == fn {
		return in
	}
	target := in.Parent()
	var site ssa.Instruction
	ssau.Instrs(fn, func(i2 ssa.Instruction) {
		ci, ok := i2.(ssa.CallInstruction)
		if !ok || site != nil {
			return
		}
		sc := ci.Common().StaticCallee()
		if sc == nil {
			return
		}
		for _, g := range pkgClosure(sc) {
			if g == target {
				site = i2
			}
		}
	})
	return site
}

// resolveThroughLocals resolves v to leaf definitions like deepDefs, and in
// addition looks through loads of fields of structs that were allocated inside
// scope (a struct literal and the values stored into its fields): the leaf of
// `m.State.NodeName` is whatever was stored into NodeName of the State that was
// stored into m.State.  Leaves are SSA values; constants are returned as such.
func resolveThroughLocals(v ssa.Value, scope []*ssa.Function) []ssa.Value {
	seen := map[ssa.Value]bool{}
	var out []ssa.Value
	var rec func(v ssa.Value, depth int)
	// allocsOf: the local allocations a pointer value can be
	allocsOf := func(p ssa.Value) []*ssa.Alloc {
		var as []*ssa.Alloc
		for _, d := range deepDefs(p, scope) {
			if a, ok := d.(*ssa.Alloc); ok {
				as = append(as, a)
			} else {
				return nil // not (only) local
			}
		}
		return as
	}
	rec = func(v ssa.Value, depth int) {
		if depth > 8 {
			out = append(out, v)
			return
		}
		for _, d := range deepDefs(v, scope) {
			if seen[d] {
				continue
			}
			seen[d] = true
			ld, isLd := d.(*ssa.UnOp)
			if !isLd || ld.Op != token.MUL {
				out = append(out, d)
				continue
			}
			fa, isFA := ld.X.(*ssa.FieldAddr)
			if !isFA {
				out = append(out, d)
				continue
			}
			// the object whose field is read: fa.X itself, or what a pointer-valued field / variable holds
			var objs []*ssa.Alloc
			if a, ok := fa.X.(*ssa.Alloc); ok {
				objs = []*ssa.Alloc{a}
			} else {
				// fa.X may be a load of another local field (m.State): resolve that first
				var inner []ssa.Value
				sub := resolveThroughLocals(fa.X, scope)
				inner = append(inner, sub...)
				for _, iv := range inner {
					if a, ok := iv.(*ssa.Alloc); ok {
						objs = append(objs, a)
					} else {
						objs = nil
						break
					}
				}
				if objs == nil {
					objs = allocsOf(fa.X)
				}
			}
			if len(objs) == 0 {
				out = append(out, d)
				continue
			}
			// a struct that is a copy of another local struct (`*o = *p`: a value receiver, a struct handed on by
			// value) has that struct's field values (a copy of anything else adds nothing: as before, only what is
			// stored locally is seen)
			for i := 0; i < len(objs) && i < 16; i++ {
				for _, r := range ssau.Referrers(objs[i]) {
					st, ok := r.(*ssa.Store)
					if !ok || st.Addr != ssa.Value(objs[i]) {
						continue
					}
					for _, sd := range deepDefs(st.Val, scope) {
						var from []*ssa.Alloc
						if sl, isL := sd.(*ssa.UnOp); isL && sl.Op == token.MUL {
							from = allocsOf(sl.X)
						}
						for _, a := range from {
							dup := false
							for _, o := range objs {
								dup = dup || o == a
							}
							if !dup {
								objs = append(objs, a)
							}
						}
					}
				}
			}
			n := 0
			for _, f := range scope {
				ssau.Instrs(f, func(in ssa.Instruction) {
					st, ok := in.(*ssa.Store)
					if !ok {
						return
					}
					fb, isFB := st.Addr.(*ssa.FieldAddr)
					if !isFB || fb.Field != fa.Field {
						return
					}
					for _, o := range objs {
						hit := fb.X == ssa.Value(o)
						if !hit {
							for _, bd := range deepDefs(fb.X, scope) {
								if bd == ssa.Value(o) {
									hit = true
								}
							}
						}
						if hit {
							n++
							rec(st.Val, depth+1)
						}
					}
				})
			}
			if n == 0 {
				out = append(out, d)
			}
		}
	}
	rec(v, 0)
	return out
}

// leafSetKey: a canonical description of a set of leaves (constants by value).
func leafSetKey(vs []ssa.Value) string {
	var ks []string
	seen := map[string]bool{}
	for _, v := range vs {
		k := ""
		if cst, ok := v.(*ssa.Const); ok {
			k = "const:" + cst.String()
		} else {
			k = fmt.Sprintf("%p", v)
		}
		if !seen[k] {
			seen[k] = true
			ks = append(ks, k)
		}
	}
	sort.Strings(ks)
	return strings.Join(ks, ",")
}

// srcAt is one way a value can come about: the defining leaf and the branch facts known to hold on that way.
type srcAt struct {
	leaf  ssa.Value
	facts []flow.Fact
}

// sourcesWithFacts resolves v like deepDefs and keeps, for every leaf, the facts under which that leaf is the
// value: the facts of the phi edge taken, and the facts at the return of an in-scope helper that produced it.
func sourcesWithFacts(v ssa.Value, scope []*ssa.Function) []srcAt {
	return sourcesWithFactsAt(v, scope, nil)
}

// feasibleReturn: can the call cl have come back through ret, given facts about its other results?  A fact on
// another result of the same call (a bool flag, or a comparison with nil) that the constant returned there
// contradicts rules the return out.
func feasibleReturn(cl *ssa.Call, ret *ssa.Return, facts []flow.Fact) bool {
	return feasibleReturnVia(cl, ret, facts, nil)
}

// resultAlias: on the way being followed, the result `inner` of a call made inside a helper is what the helper's
// caller sees as `outer` (the helper ends in `return inner(...)`, or returns some of inner's results).
type resultAlias struct {
	inner *ssa.Extract
	outer ssa.Value
}

// feasibleReturnVia is feasibleReturn for a call whose results are handed on by the helper(s) around it: a fact
// about a value that an alias identifies with a result of cl counts as a fact about that result.
func feasibleReturnVia(cl *ssa.Call, ret *ssa.Return, facts []flow.Fact, alias []resultAlias) bool {
	resOf := func(v ssa.Value) (int, bool) {
		if ex, ok := v.(*ssa.Extract); ok && ex.Tuple == ssa.Value(cl) {
			return ex.Index, true
		}
		for _, a := range alias {
			if a.outer == v && a.inner.Tuple == ssa.Value(cl) {
				return a.inner.Index, true
			}
		}
		return 0, false
	}
	for _, f := range facts {
		if j, ok := resOf(f.Cond); ok && j < len(ret.Results) {
			if cst, isC := ret.Results[j].(*ssa.Const); isC && cst.Value != nil && cst.Value.Kind() == constant.Bool {
				if constant.BoolVal(cst.Value) != f.True {
					return false
				}
			}
			continue
		}
		bo, isB := f.Cond.(*ssa.BinOp)
		if !isB || (bo.Op != token.EQL && bo.Op != token.NEQ) {
			continue
		}
		var other ssa.Value
		j, ok := resOf(bo.X)
		if ok {
			other = bo.Y
		} else if j, ok = resOf(bo.Y); ok {
			other = bo.X
		}
		if !ok || !ssau.IsNilConst(other) || j >= len(ret.Results) {
			continue
		}
		if ssau.IsNilConst(ret.Results[j]) {
			isNil := true
			if (bo.Op == token.EQL) != (isNil == f.True) {
				return false
			}
		}
	}
	return true
}

// sourcesWithFactsAt: as sourcesWithFacts, for a use at which the facts `base` hold; returns of a helper that
// those facts (or the facts of the way taken) rule out are not followed.
func sourcesWithFactsAt(v ssa.Value, scope []*ssa.Function, base []flow.Fact) []srcAt {
	inScope := map[*ssa.Function]bool{}
	for _, f := range scope {
		inScope[f] = true
	}
	var out []srcAt
	type key struct {
		v ssa.Value
		n int
	}
	seen := map[key]bool{}
	var recA func(v ssa.Value, facts []flow.Fact, alias []resultAlias, depth int)
	recA = func(v ssa.Value, facts []flow.Fact, alias []resultAlias, depth int) {
		if v == nil || depth > 10 || seen[key{v, len(facts)}] {
			return
		}
		seen[key{v, len(facts)}] = true
		rec := func(v ssa.Value, facts []flow.Fact, depth int) { recA(v, facts, alias, depth) }
		with := func(extra []flow.Fact) []flow.Fact {
			return append(append([]flow.Fact{}, facts...), extra...)
		}
		switch x := v.(type) {
		case *ssa.Phi:
			for i, e := range x.Edges {
				rec(e, with(flow.EdgeFacts(x.Block().Preds[i], x.Block())), depth+1)
			}
			return
		case *ssa.ChangeType:
			rec(x.X, facts, depth+1)
			return
		case *ssa.MakeInterface:
			rec(x.X, facts, depth+1)
			return
		case *ssa.Call:
			if sc := x.Common().StaticCallee(); sc != nil && sc.Blocks != nil && inScope[sc] && sc.Signature.Results().Len() == 1 {
				for _, b := range sc.Blocks {
					if ret, ok := b.Instrs[len(b.Instrs)-1].(*ssa.Return); ok {
						rec(ret.Results[0], with(flow.FactsAt(b)), depth+1)
					}
				}
				return
			}
		case *ssa.Extract:
			if cl, ok := x.Tuple.(*ssa.Call); ok {
				if sc := cl.Common().StaticCallee(); sc != nil && sc.Blocks != nil && inScope[sc] {
					known := flow.Expand(append(append([]flow.Fact{}, base...), facts...))
					for _, b := range sc.Blocks {
						if ret, ok := b.Instrs[len(b.Instrs)-1].(*ssa.Return); ok && x.Index < len(ret.Results) {
							if !feasibleReturnVia(cl, ret, known, alias) {
								continue
							}
							// what this return hands on from a call of its own is, on this way, what cl's caller sees
							al := alias
							for j, r := range ret.Results {
								if in, isEx := r.(*ssa.Extract); isEx {
									for _, a := range alias {
										if a.inner.Tuple == ssa.Value(cl) && a.inner.Index == j {
											al = append(al[:len(al):len(al)], resultAlias{in, a.outer})
										}
									}
									for _, r2 := range ssau.Referrers(cl) {
										if ex, isE := r2.(*ssa.Extract); isE && ex.Index == j {
											al = append(al[:len(al):len(al)], resultAlias{in, ex})
										}
									}
								}
							}
							recA(ret.Results[x.Index], with(flow.FactsAt(b)), al, depth+1)
						}
					}
					return
				}
			}
		case *ssa.Parameter:
			fn := x.Parent()
			idx := -1
			for i, p := range fn.Params {
				if p == x {
					idx = i
				}
			}
			sites := callSitesOf(fn, scope)
			if idx >= 0 && len(sites) == 1 && len(scope) > 0 && fn != scope[0] {
				if args := sites[0].Common().Args; idx < len(args) {
					rec(args[idx], facts, depth+1)
					return
				}
			}
		}
		out = append(out, srcAt{v, facts})
	}
	recA(v, nil, nil, 0)
	return out
}

type callIdx struct {
	call *ssa.Call
	idx  int // which result is known true (-1: the call's single result)
}

// factCallTrueIdx is factCallTrue with the index of the result that is known true.
func factCallTrueIdx(b *ssa.BasicBlock) []callIdx {
	var out []callIdx
	for _, f := range flow.FactsAt(b) {
		cond, pol := f.Cond, f.True
		if u, ok := cond.(*ssa.UnOp); ok && u.Op.String() == "!" {
			cond, pol = u.X, !pol
		}
		if !pol {
			continue
		}
		switch x := cond.(type) {
		case *ssa.Call:
			out = append(out, callIdx{x, -1})
		case *ssa.Extract:
			if cl, ok := x.Tuple.(*ssa.Call); ok {
				out = append(out, callIdx{cl, x.Index})
			}
		}
	}
	return out
}

// cellDef is one store that a load of a private memory cell can observe: the value stored and the block of the store.
type cellDef struct {
	store *ssa.Store
	v     ssa.Value
	b     *ssa.BasicBlock
}

// privateCellDefs: v is a load of a memory cell that is private to its function — a local Alloc, or one field of
// a local struct Alloc, whose address is never captured, stored, handed to a call or used for anything but loads
// and stores (`var subject struct{against interface{}; consumer bool}` with subject.consumer read and written in
// place).  Such a cell is an ordinary local variable that go/ssa could not lift to registers.  Returned are all
// the stores into the cell; zero reports that the load may also observe the zero value (some way from the
// allocation to the load passes no store).  ok is false when v is not such a load.
func privateCellDefs(v ssa.Value) (defs []cellDef, zero bool, ok bool) {
	ld, isLd := v.(*ssa.UnOp)
	if !isLd || ld.Op != token.MUL {
		return nil, false, false
	}
	var al *ssa.Alloc
	field := -1
	switch a := ld.X.(type) {
	case *ssa.Alloc:
		al = a
	case *ssa.FieldAddr:
		x, isAl := a.X.(*ssa.Alloc)
		if !isAl {
			return nil, false, false
		}
		al, field = x, a.Field
	default:
		return nil, false, false
	}
	// addrOnlyLoadStore: the address value is used only to load from and to store into
	addrOnlyLoadStore := func(addr ssa.Value) bool {
		for _, r := range ssau.Referrers(addr) {
			switch y := r.(type) {
			case *ssa.DebugRef:
			case *ssa.UnOp:
				if y.Op != token.MUL {
					return false
				}
			case *ssa.Store:
				if y.Addr != addr || y.Val == addr {
					return false
				}
			default:
				return false
			}
		}
		return true
	}
	for _, r := range ssau.Referrers(al) {
		switch y := r.(type) {
		case *ssa.DebugRef:
		case *ssa.UnOp:
			if y.Op != token.MUL {
				return nil, false, false
			}
		case *ssa.Store:
			if y.Addr != ssa.Value(al) || y.Val == ssa.Value(al) {
				return nil, false, false
			}
			if field >= 0 {
				return nil, false, false // the struct is overwritten as a whole
			}
			defs = append(defs, cellDef{y, y.Val, y.Block()})
		case *ssa.FieldAddr:
			if field < 0 {
				return nil, false, false
			}
			if y.Field != field {
				continue // the address of a sibling field is no way to this one
			}
			if !addrOnlyLoadStore(y) {
				return nil, false, false
			}
			for _, r2 := range ssau.Referrers(y) {
				if st, isSt := r2.(*ssa.Store); isSt {
					defs = append(defs, cellDef{st, st.Val, st.Block()})
				}
			}
		default:
			return nil, false, false
		}
	}
	// may the load see the zero value?
	avoid := map[*ssa.BasicBlock]bool{}
	covered := false
	for _, d := range defs {
		if d.b == ld.Block() && flow.InstrDominates(d.store, ld) {
			covered = true
		}
		if d.b == al.Block() {
			covered = true
		}
		avoid[d.b] = true
	}
	if !covered {
		if avoid[ld.Block()] {
			// a store later in the load's own block: the ways into the block count
			delete(avoid, ld.Block())
		}
		zero = flow.Reachable(al.Block(), ld.Block(), avoid)
	}
	return defs, zero, true
}

// resolveThroughStructs is resolveThroughLocals that also looks through a field read of a struct VALUE that was
// built locally and copied as a whole: `t.from` where t is the (value) receiver of a method used as a method value
// on the literal `errorTransition{from: st}` resolves to st.
func resolveThroughStructs(v ssa.Value, scope []*ssa.Function) []ssa.Value {
	var out []ssa.Value
	seen := map[ssa.Value]bool{}
	var rec func(v ssa.Value, depth int)
	// fieldOfValue: the values field #f of the struct value sv can hold (ok=false: not a locally built struct)
	var fieldOfValue func(sv ssa.Value, f int, depth int) ([]ssa.Value, bool)
	// fieldOfCell: the values field #f of the local struct variable al can hold
	fieldOfCell := func(al *ssa.Alloc, f int, depth int) ([]ssa.Value, bool) {
		var vals []ssa.Value
		for _, r := range ssau.Referrers(al) {
			switch y := r.(type) {
			case *ssa.FieldAddr:
				if y.Field != f {
					continue
				}
				for _, r2 := range ssau.Referrers(y) {
					if st, isSt := r2.(*ssa.Store); isSt && st.Addr == ssa.Value(y) {
						vals = append(vals, st.Val)
					}
				}
			case *ssa.Store:
				if y.Addr != ssa.Value(al) {
					continue
				}
				sub, ok := fieldOfValue(y.Val, f, depth+1)
				if !ok {
					return nil, false
				}
				vals = append(vals, sub...)
			}
		}
		return vals, len(vals) > 0
	}
	fieldOfValue = func(sv ssa.Value, f int, depth int) ([]ssa.Value, bool) {
		if depth > 6 {
			return nil, false
		}
		var vals []ssa.Value
		ds := deepDefs(sv, scope)
		if len(ds) == 0 {
			return nil, false
		}
		for _, d := range ds {
			ld, isLd := d.(*ssa.UnOp)
			if !isLd || ld.Op != token.MUL {
				return nil, false
			}
			al, isAl := ld.X.(*ssa.Alloc)
			if !isAl {
				return nil, false
			}
			sub, ok := fieldOfCell(al, f, depth+1)
			if !ok {
				return nil, false
			}
			vals = append(vals, sub...)
		}
		return vals, true
	}
	rec = func(v ssa.Value, depth int) {
		for _, d := range resolveThroughLocals(v, scope) {
			if seen[d] {
				continue
			}
			seen[d] = true
			if depth > 6 {
				out = append(out, d)
				continue
			}
			var vals []ssa.Value
			ok := false
			switch x := d.(type) {
			case *ssa.Field:
				vals, ok = fieldOfValue(x.X, x.Field, 0)
			case *ssa.UnOp:
				// a field of a local struct variable that is only ever assigned as a whole (a spilled value parameter)
				if fa, isFA := x.X.(*ssa.FieldAddr); isFA && x.Op == token.MUL {
					if al, isAl := fa.X.(*ssa.Alloc); isAl {
						vals, ok = fieldOfCell(al, fa.Field, 0)
					}
				}
			}
			if !ok {
				out = append(out, d)
				continue
			}
			for _, x := range vals {
				rec(x, depth+1)
			}
		}
	}
	rec(v, 0)
	return out
}

// confinedPointer: as far as its uses show, the object v points to does not outlive the activation that made it and
// is not shared with anything that does: the pointer is only used to read and write fields, as an argument of
// static in-repository calls whose parameter is used the same way, and as the receiver of a method value that is
// only called.  (A per-call record such as `w := walker{ctx: ctx, ...}; step := w.step; for ... { step() }`.)
func confinedPointer(v ssa.Value) bool {
	seen := map[ssa.Value]bool{}
	var rec func(v ssa.Value, depth int) bool
	rec = func(v ssa.Value, depth int) bool {
		if depth > 5 {
			return false
		}
		if seen[v] {
			return true
		}
		seen[v] = true
		for _, r := range ssau.Referrers(v) {
			switch y := r.(type) {
			case *ssa.DebugRef:
			case *ssa.FieldAddr:
				for _, r2 := range ssau.Referrers(y) {
					switch z := r2.(type) {
					case *ssa.DebugRef:
					case *ssa.UnOp:
						if z.Op != token.MUL {
							return false
						}
					case *ssa.Store:
						if z.Addr != ssa.Value(y) || z.Val == ssa.Value(y) {
							return false
						}
					default:
						return false
					}
				}
			case *ssa.Store:
				if y.Val == v || y.Addr != v {
					return false
				}
			case *ssa.Call:
				h := y.Common().StaticCallee()
				if h == nil || h.Blocks == nil || y.Common().Value == v {
					return false
				}
				for i, a := range y.Common().Args {
					if a != v {
						continue
					}
					if i >= len(h.Params) || !rec(h.Params[i], depth+1) {
						return false
					}
				}
			case *ssa.MakeClosure:
				w, isF := y.Fn.(*ssa.Function)
				if !isF || w.Synthetic == "" || !strings.HasSuffix(w.Name(), "$bound") || len(y.Bindings) != 1 || y.Bindings[0] != v {
					return false
				}
				// the method value is only called
				for _, r2 := range ssau.Referrers(y) {
					switch z := r2.(type) {
					case *ssa.DebugRef:
					case *ssa.Call:
						if z.Common().Value != ssa.Value(y) {
							return false
						}
					default:
						return false
					}
				}
				// and the method uses its receiver the same way
				ok := false
				ssau.Instrs(w, func(in ssa.Instruction) {
					if cl, isC := in.(*ssa.Call); isC {
						if m := cl.Common().StaticCallee(); m != nil && m.Blocks != nil && len(m.Params) > 0 && len(cl.Common().Args) > 0 {
							if _, isFV := cl.Common().Args[0].(*ssa.FreeVar); isFV {
								ok = rec(m.Params[0], depth+1)
							}
						}
					}
				})
				if !ok {
					return false
				}
			default:
				return false
			}
		}
		return true
	}
	return rec(v, 0)
}

// reachingCellDefs is privateCellDefs made flow-sensitive: of the stores into the private cell that v loads, only
// those that can be the last one before the load (some way from the store to the load passes no other store into
// the cell); zero reports whether the load can be reached from the allocation without passing any store.
func reachingCellDefs(v ssa.Value) (defs []cellDef, zero bool, ok bool) {
	all, _, ok := privateCellDefs(v)
	if !ok {
		return nil, false, false
	}
	ld := v.(*ssa.UnOp)
	var al *ssa.Alloc
	switch a := ld.X.(type) {
	case *ssa.Alloc:
		al = a
	case *ssa.FieldAddr:
		al, _ = a.X.(*ssa.Alloc)
	}
	if al == nil {
		return nil, false, false
	}
	isStore := map[ssa.Instruction]bool{}
	for _, d := range all {
		isStore[d.store] = true
	}
	// reach: some way from just after `from` to the load passes no store into the cell
	reach := func(from ssa.Instruction) bool {
		b := from.Block()
		past := false
		for _, in := range b.Instrs {
			if in == from {
				past = true
				continue
			}
			if !past {
				continue
			}
			if in == ssa.Instruction(ld) {
				return true
			}
			if isStore[in] {
				return false
			}
		}
		seen := map[*ssa.BasicBlock]bool{}
		stack := append([]*ssa.BasicBlock{}, b.Succs...)
		for len(stack) > 0 {
			x := stack[len(stack)-1]
			stack = stack[:len(stack)-1]
			if seen[x] {
				continue
			}
			seen[x] = true
			killed := false
			for _, in := range x.Instrs {
				if in == ssa.Instruction(ld) {
					return true
				}
				if isStore[in] {
					killed = true
					break
				}
			}
			if !killed {
				stack = append(stack, x.Succs...)
			}
		}
		return false
	}
	for _, d := range all {
		if reach(d.store) {
			defs = append(defs, d)
		}
	}
	return defs, reach(al), true
}

// deepDefsCells is deepDefs that also looks through loads of private memory cells (a local variable or a field of a
// local struct that is only read and written in place: `var run struct{exe *Execution; err error}`): such a load
// resolves to the values of the stores that can reach it, and to a nil/zero constant of its type when it can see
// the cell before any store.
func deepDefsCells(v ssa.Value, scope []*ssa.Function) []ssa.Value {
	var out []ssa.Value
	seen := map[ssa.Value]bool{}
	var rec func(v ssa.Value, depth int)
	rec = func(v ssa.Value, depth int) {
		for _, d := range deepDefs(v, scope) {
			if seen[d] {
				continue
			}
			seen[d] = true
			if depth < 8 {
				if _, isFA := cellFieldLoad(d); isFA {
					if defs, zero, ok := reachingCellDefs(d); ok && (len(defs) > 0 || zero) {
						for _, cd := range defs {
							rec(cd.v, depth+1)
						}
						if zero {
							out = append(out, ssa.NewConst(nil, d.Type()))
						}
						continue
					}
				}
			}
			out = append(out, d)
		}
	}
	rec(v, 0)
	return out
}

// cellFieldLoad: v is a load of a field of a local struct variable.
func cellFieldLoad(v ssa.Value) (*ssa.FieldAddr, bool) {
	ld, ok := v.(*ssa.UnOp)
	if !ok || ld.Op != token.MUL {
		return nil, false
	}
	fa, ok := ld.X.(*ssa.FieldAddr)
	if !ok {
		return nil, false
	}
	_, isAl := fa.X.(*ssa.Alloc)
	return fa, isAl
}

// valueSite is a place where a function runs: a static call of it, or a call of a function value that is the
// function (a bound method value `x.m`, or a literal) after it was handed down through parameters of helpers.
// shift: argument #i-shift of the site is the function's parameter #i (a bound method value carries its receiver).
type valueSite struct {
	site  ssa.CallInstruction
	shift int
}

// runSitesThroughValues lists the places inside scope where fn runs: its static call sites, and the calls of the
// method value / closure of fn, followed through the parameters of the in-scope helpers it is handed to
// (`b.eachEmitted(again.emit)` with `f(msg)` inside eachEmitted).  complete is false when such a function value
// is used for anything else (kept, returned, handed to code out of scope): then it may run from anywhere.
func runSitesThroughValues(fn *ssa.Function, scope []*ssa.Function) (sites []valueSite, complete bool) {
	complete = true
	inScope := map[*ssa.Function]bool{}
	for _, f := range scope {
		inScope[f] = true
	}
	for _, s := range callSitesOf(fn, scope) {
		if w := s.Parent(); w != nil && w.Synthetic != "" && fn.Object() != nil && w.Object() == fn.Object() {
			continue // the call inside fn's own bound-method wrapper: the wrapper's value is followed below
		}
		sites = append(sites, valueSite{s, 0})
	}
	seen := map[ssa.Value]bool{}
	var track func(fv ssa.Value, shift, depth int)
	track = func(fv ssa.Value, shift, depth int) {
		if seen[fv] {
			return
		}
		seen[fv] = true
		if depth > 3 {
			complete = false
			return
		}
		for _, r := range ssau.Referrers(fv) {
			switch y := r.(type) {
			case *ssa.DebugRef:
			case ssa.CallInstruction:
				cm := y.Common()
				if cm.Value == fv {
					sites = append(sites, valueSite{y, shift})
					continue
				}
				h := cm.StaticCallee()
				if h == nil || !inScope[h] || h.Blocks == nil {
					complete = false
					continue
				}
				for i, a := range cm.Args {
					if a == fv {
						if i < len(h.Params) {
							track(h.Params[i], shift, depth+1)
						} else {
							complete = false
						}
					}
				}
			default:
				complete = false
			}
		}
	}
	for _, g := range scope {
		ssau.Instrs(g, func(in ssa.Instruction) {
			mc, ok := in.(*ssa.MakeClosure)
			if !ok {
				return
			}
			w, _ := mc.Fn.(*ssa.Function)
			if w == nil {
				return
			}
			if w == fn {
				track(mc, 0, 0)
			} else if w.Synthetic != "" && fn.Object() != nil && w.Object() == fn.Object() && strings.HasSuffix(w.Name(), "$bound") {
				track(mc, len(mc.Bindings), 0)
			}
		})
	}
	return sites, complete
}

package rules

import (
	"fmt"
	"go/token"
	"go/types"
	"sort"
	"strings"

	"golang.org/x/tools/go/ssa"

	"sheensverif/internal/flow"
	"sheensverif/internal/prog"
	"sheensverif/internal/ssau"
)

func init() { Registry["C05"] = C05 }

// phiDefs resolves a value through phis (inside the loop) to its non-phi definitions.
func phiDefs(v ssa.Value, stop map[ssa.Value]bool, seen map[ssa.Value]bool) []ssa.Value {
	if seen[v] {
		return nil
	}
	seen[v] = true
	if stop[v] {
		return []ssa.Value{v}
	}
	if p, ok := v.(*ssa.Phi); ok {
		var out []ssa.Value
		for _, e := range p.Edges {
			out = append(out, phiDefs(e, stop, seen)...)
		}
		return out
	}
	return []ssa.Value{v}
}

// headerPhis returns the phis of a loop header.
func headerPhis(l *flow.Loop) []*ssa.Phi {
	var out []*ssa.Phi
	for _, in := range l.Header.Instrs {
		if p, ok := in.(*ssa.Phi); ok {
			out = append(out, p)
		}
	}
	return out
}

// splitPhi returns (values entering from outside the loop, values from back edges).
func splitPhi(l *flow.Loop, p *ssa.Phi) (outside, back []ssa.Value) {
	for i, e := range p.Edges {
		if l.Blocks[p.Block().Preds[i]] {
			back = append(back, e)
		} else {
			outside = append(outside, e)
		}
	}
	return
}

func isFieldLoad(v ssa.Value, pkg, typ, field string) (ssa.Value, bool) {
	return ssau.LoadOfField(v, prog.Abs(pkg), typ, field)
}

func C05(c *Ctx) {
	c.R.Explanation = "Decides structural necessary conditions of Walk's accounting on the SSA form of Spec.Walk: (R1) the unique call of Step lies in a counted loop whose induction variable starts at a constant, is advanced only by +1 once per iteration and is tested with '<' against Control.Limit, and in no inner loop, so steps <= max(Limit,0) on every path; (R2) the loop-carried message slice has exactly the definitions {parameter, itself, itself[1:]}, the message offered to Step is element 0 of the current slice, and the pop happens exactly under the 'Consumed != nil' edge; (R3) at the exits that report Limited or BreakpointReached, Remaining is the loop-carried slice current at that point; (R4) Step's state argument is the loop-carried state whose only back-edge definitions are itself and a copy of the stride's To; (R5) Done is reported only under 'stride.To == nil', Limited only on the exhausted-counter edge, BreakpointReached only under a breakpoint's verdict. (R6) every return of Step that is reachable after branch evaluation returns the stride built by that step: Walk pops a message only on the stride's Consumed field, so a step that consulted the message and returns no stride makes Walk offer the same message again. (R7) no list of binding sets that the matcher returns is extended inside a range over a Go map: Branch.try offers the candidates to the guard in list order and follows the first one accepted, so a list built in map order makes the step taken depend on the run. Batch-split equivalence and quiescence are not decided."
	c.R.Rule("C05-R1", "E3", "step bound: Step once per iteration of a canonical counted loop", 3)
	c.R.Rule("C05-R2", "E5", "queue discipline: front pop under Consumed, first element offered", 3)
	c.R.Rule("C05-R3", "E5", "truthful remainder at Limited / BreakpointReached", 2)
	c.R.Rule("C05-R4", "E5", "state chaining", 1)
	c.R.Rule("C05-R5", "E3", "stop reasons are stored only under their conditions", 3)
	c.R.Rule("C05-R11", "E3", "every successful return of Walk stores a stop reason on its way out", 3)
	c.R.Rule("C05-R7", "E5", "the order in which candidate bindings are offered to a guard does not follow map iteration", 1)
	c05CandidateOrder(c)
	c.R.Rule("C05-R6", "E3", "a step that evaluated branches reports its stride (which records the consumption)", 1)
	c.shareRule("C16", "C16-R2", "C05-R9", "in the multi-request host every step starts from the state the previous one produced: the walk and the installation of its result hold the crew's write lock in one critical section")
	c.shareRule("C08", "C08-R4", "C05-R12", "the walk's record is complete and ordered: strides are only appended, and every reader of the record scans all of it (Walked.To included, from which hosts take the machine's next state)")
	c.shareRule("C04", "C04-R3", "C05-R13", "each message at most once: the stride records the consumption of a message that was matched against, whether or not a branch was taken or failed")
	c.shareRule("C06", "C06-R3", "C05-R14", "a step's effect is confined to what it returns: a script cannot change the step properties or bindings that the following steps of the walk (or the same messages delivered in another split) are given")
	c.R.Rule("C05-R15", "E7", "hosts install and store a walk's end state whatever stopped the walk", 1)
	c05HostsIgnoreStopReason(c, "C05-R15")
	c.shareRule("C14", "C14-R3", "C05-R16", "the single-loop crew delivers what a walk emitted in the order it was emitted (a first-in first-out queue)")
	c.shareRule("C04", "C04-R18", "C05-R17", "whether a message is consumed does not depend on the context: the engine never consults it")
	c.shareRule("C02", "C02-R8", "C05-R10", "absent bindings are matched as empty bindings: a machine without bindings still takes its pattern branches")
	c.R.Rule("C05-R8", "E1", "Walk reads the batch of messages it is given and never writes it (hosts offer one batch to several machines and re-deliver sub-slices)", 1)
	c.batchUntouched("C05-R8")
	c05StrideAfterBranches(c)
	walk := c.fn("core", "Spec", "Walk")
	step := c.fn("core", "Spec", "Step")
	if walk == nil || step == nil {
		return
	}
	c.R.Fn(fname(walk))
	// the Step call (or the call of the helper that takes the step)
	site0, stepArgs, nSites, stepHelpers := walkStepChain(c, walk, step)
	var calls []*ssa.Call
	for i := 0; i < nSites; i++ {
		calls = append(calls, site0)
	}
	for _, an := range ssau.WithAnon(walk)[1:] {
		ssau.Instrs(an, func(in ssa.Instruction) {
			if ci, ok := in.(ssa.CallInstruction); ok && ci.Common().StaticCallee() == step {
				c.R.Violate("C05-R1", "Step called from a function literal of Walk", c.pos(in), "Step must be called once per counted iteration of Walk's loop")
			}
		})
	}
	c.R.Check(len(calls) == 1, "C05-R1", "Walk: exactly one Step call", c.P.Pos(walk.Pos()), "one call", fmt.Sprintf("%d calls of Step in Walk", len(calls)))
	if len(calls) != 1 {
		return
	}
	call := calls[0]
	// the helpers Walk may be split into (the helper that takes the step, if any, stays opaque: its result is the stride)
	var scope []*ssa.Function
	for _, f := range walkScope(walk, step) {
		if f == walk || f != call.Common().StaticCallee() {
			scope = append(scope, f)
		}
	}
	loops := flow.Loops(walk)
	L := flow.InnermostLoop(loops, call.Block())
	if L == nil {
		c.R.Violate("C05-R1", "Walk: Step call in a loop", c.pos(call), "the Step call is not inside a loop")
		return
	}
	// L must not be nested in... (fine) but no loop strictly inside L may contain the call (by construction innermost)
	// ---- R1 counted loop
	var ind *ssa.Phi
	var limitCond *ssa.BinOp
	hdrIf, _ := L.Header.Instrs[len(L.Header.Instrs)-1].(*ssa.If)
	if hdrIf != nil {
		if b, ok := hdrIf.Cond.(*ssa.BinOp); ok && b.Op == token.LSS {
			if p, ok := b.X.(*ssa.Phi); ok && p.Block() == L.Header {
				ind, limitCond = p, b
			}
		}
	}
	if ind == nil {
		c.R.Violate("C05-R1", "Walk: counted loop", c.pos(call), "the loop around Step is not of the form 'for i := k; i < limit; i++' (header test is not 'phi < limit')")
	} else {
		out, back := splitPhi(L, ind)
		okInit := len(out) == 1
		if okInit {
			_, isC := ssau.ConstInt(out[0])
			okInit = isC
		}
		okStep := len(back) >= 1
		for _, bv := range back {
			b, ok := bv.(*ssa.BinOp)
			if !ok || b.Op != token.ADD || b.X != ssa.Value(ind) {
				okStep = false
				continue
			}
			if n, isC := ssau.ConstInt(b.Y); !isC || n != 1 {
				okStep = false
			}
		}
		_, limOK := isFieldLoad(limitCond.Y, "core", "Control", "Limit")
		if limOK {
			bad := c05LimitProvenance(c, walk, limitCond.Y)
			c.R.Check(len(bad) == 0, "C05-R1", "Walk: the limit is the caller's Control.Limit (DefaultControl's only for a nil Control)", c.pos(limitCond), "every value the bound can take is the Limit of the Control parameter, or of DefaultControl where the parameter is nil", strings.Join(bad, "; "))
		}
		exitOK := len(L.Header.Succs) == 2 && L.Blocks[L.Header.Succs[0]] && !L.Blocks[L.Header.Succs[1]]
		domOK := flow.EdgeDominates(L.Header, 0, call.Block())
		c.R.Check(okInit && okStep, "C05-R1", "Walk: induction variable", c.pos(ind), "starts at a constant; every back edge carries i+1", "the step counter is not advanced by exactly +1 per iteration (or has another definition)")
		c.R.Check(limOK && exitOK && domOK, "C05-R1", "Walk: limit test", c.pos(limitCond), "'i < Control.Limit' guards the body; false edge leaves the loop",
			fmt.Sprintf("limit test malformed (compares with Control.Limit=%v, false edge exits=%v, guards Step=%v)", limOK, exitOK, domOK))
	}
	args := stepArgs // s, ctx, st, pending, c, props
	if len(args) != 6 || args[2] == nil || args[3] == nil {
		c.R.Break("C05: Step call has %d operands", len(args))
		return
	}
	// the places where Walk states why it stops: stores of Walked.StoppedBecause in Walk, and calls of a helper that stores it
	reasonStores := walkedStores(walk, scope, "StoppedBecause")
	// ---- R2 queue
	var Q *ssa.Phi
	for _, p := range headerPhis(L) {
		if _, ok := p.Type().Underlying().(*types.Slice); ok {
			out, _ := splitPhi(L, p)
			for _, o := range out {
				if pr, ok := o.(*ssa.Parameter); ok && pr.Parent() == walk {
					Q = p
				}
			}
		}
	}
	if Q == nil {
		c.R.Violate("C05-R2", "Walk: loop-carried message slice", c.pos(call), "no loop-carried slice initialised from the messages parameter (the queue is not an SSA value of the step loop)")
		c.R.Violate("C05-R3", "Walk: remainder", c.pos(call), "cannot identify the current remainder")
	} else {
		_, back := splitPhi(L, Q)
		var pops []*ssa.Slice
		okDefs := true
		// isQ: the loop-carried queue itself, or the parameter of a helper that is handed nothing but the queue
		isQ := func(v ssa.Value) bool {
			ds := defsUpTo(v, Q, scope)
			return len(ds) == 1 && ds[0] == ssa.Value(Q)
		}
		// the operands of Step are resolved with the step helpers in scope as well (one of them may pick the message)
		scopeOff := append([]*ssa.Function{}, scope...)
		for _, h := range stepHelpers {
			dup := false
			for _, f := range scopeOff {
				dup = dup || f == h
			}
			if !dup {
				scopeOff = append(scopeOff, h)
			}
		}
		isQOff := func(v ssa.Value) bool {
			ds := defsUpTo(v, Q, scopeOff)
			return len(ds) == 1 && ds[0] == ssa.Value(Q)
		}
		for _, bv := range back {
			for _, d := range defsUpTo(bv, Q, scope) {
				if d == ssa.Value(Q) {
					continue
				}
				sl, ok := d.(*ssa.Slice)
				if ok && isQ(sl.X) && sl.High == nil && sl.Max == nil {
					if n, isC := ssau.ConstInt(sl.Low); isC && n == 1 {
						pops = append(pops, sl)
						continue
					}
				}
				okDefs = false
			}
		}
		c.R.Check(okDefs && len(pops) == 1, "C05-R2", "Walk: queue definitions", c.pos(Q), "loop-carried slice is redefined only as itself or itself[1:]", fmt.Sprintf("queue has other definitions or %d pops", len(pops)))
		// pop under Consumed != nil
		if len(pops) == 1 {
			pop := pops[0]
			ok := false
			for _, f := range flow.FactsAt(pop.Block()) {
				if b, isB := f.Cond.(*ssa.BinOp); isB && ssau.IsNilConst(b.Y) {
					if _, is := isFieldLoad(b.X, "core", "Stride", "Consumed"); is && ((b.Op == token.NEQ && f.True) || (b.Op == token.EQL && !f.True)) {
						// and the other edge keeps the queue: the merge phi carries Q from the other side
						ok = true
					}
				}
			}
			// every path from the Consumed test's true edge to the latch passes the pop: pop block is the true successor itself
			c.R.Check(ok, "C05-R2", "Walk: pop under consumption", c.pos(pop), "the pop is executed exactly under 'stride.Consumed != nil'", "the pop is not guarded by the stride's Consumed field")
			// merge phi: [Q, pop]
			merged := false
			for _, r := range ssau.Referrers(pop) {
				if p, ok := r.(*ssa.Phi); ok && len(p.Edges) == 2 {
					other := p.Edges[0]
					if other == ssa.Value(pop) {
						other = p.Edges[1]
					}
					if isQ(other) {
						merged = true
					}
				}
			}
			c.R.Check(merged, "C05-R2", "Walk: consumed messages are always popped", c.pos(pop), "the not-consumed edge keeps the queue, the consumed edge pops", "a consumed message is not always removed (or an unconsumed one is)")
		}
		// message offered = Q[0]
		offered := deepDefs(args[3], scopeOff)
		okOff := len(offered) > 0
		for _, d := range offered {
			if ssau.IsNilConst(d) {
				continue
			}
			ld, ok := d.(*ssa.UnOp)
			if !ok {
				okOff = false
				continue
			}
			ia, ok := ld.X.(*ssa.IndexAddr)
			if !ok || !isQOff(ia.X) {
				okOff = false
				continue
			}
			if n, isC := ssau.ConstInt(ia.Index); !isC || n != 0 {
				okOff = false
			}
		}
		c.R.Check(okOff, "C05-R2", "Walk: first pending message offered", c.pos(call), "Step is offered element 0 of the current queue (or nil)", "the message offered to Step is not the first element of the current remainder")

		// ---- R3 remainder
		n3 := 0
		for _, ws := range walkedStores(walk, scope, "Remaining") {
			st := ws.site
			reason := stopReasonAt(st.Block(), reasonStores)
			n3++
			key := fmt.Sprintf("Walk: Remaining store #%d (reason %s)", n3, reason)
			if reason == "0" {
				// Done: remainder dropped by design (terminal node) or empty
				c.R.Discharge("C05-R3", key, c.pos(st), "reported with Done")
				continue
			}
			// current queue at this point: Q before the step in this iteration, the merge phi after it
			cur := currentQueue(Q, L, call, st.Block(), scope)
			vn := "a value of the helper that stores it"
			if ws.val != nil {
				vn = ws.val.Name()
			}
			c.R.Check(ws.val == cur, "C05-R3", key, c.pos(st), "Remaining is the loop-carried queue current at this exit", fmt.Sprintf("Remaining is %s, not the current unconsumed remainder %s", vn, cur.Name()))
		}
		if n3 == 0 {
			c.R.Break("C05-R3: no store to Walked.Remaining in Walk")
		}
	}
	// ---- R4 chaining
	var S *ssa.Phi
	if p, ok := args[2].(*ssa.Phi); ok && p.Block() == L.Header {
		S = p
	}
	if S == nil {
		c.R.Violate("C05-R4", "Walk: Step's state is loop-carried", c.pos(call), "the state passed to Step is not the loop-carried state")
	} else {
		out, back := splitPhi(L, S)
		okInit := len(out) == 1
		if okInit {
			_, okInit = out[0].(*ssa.Parameter)
		}
		okBack := len(back) > 0
		stateCopy := c.P.Func("core", "State", "Copy")
		var scope4 []*ssa.Function // State.Copy is a definition here, not a helper to look into
		for _, f := range scope {
			if f != stateCopy {
				scope4 = append(scope4, f)
			}
		}
		for _, bv := range back {
			for _, d := range defsUpTo(bv, S, scope4) {
				if d == ssa.Value(S) {
					continue
				}
				cl, ok := d.(*ssa.Call)
				if ok && cl.Common().StaticCallee() == stateCopy && len(cl.Common().Args) == 1 {
					if base, is := isFieldLoad(cl.Common().Args[0], "core", "Stride", "To"); is && derivesFromCall(base, call, scope) {
						continue
					}
				}
				// also accept the stride's To itself
				if base, is := isFieldLoad(d, "core", "Stride", "To"); is && derivesFromCall(base, call, scope) {
					continue
				}
				okBack = false
			}
		}
		c.R.Check(okInit && okBack, "C05-R4", "Walk: next state is the stride's To", c.pos(S), "state is the parameter, then itself or (a copy of) the last stride's To", "the state carried to the next step is not the state the previous step produced")
	}
	// ---- R5 stop reasons
	n5 := 0
	for _, ws := range reasonStores {
		st := ws.site
		n5++
		var v int64
		isC := false
		if ws.val != nil {
			v, isC = ssau.ConstInt(ws.val)
		}
		key := fmt.Sprintf("Walk: StoppedBecause=%d #%d", v, n5)
		if !isC {
			c.R.Violate("C05-R5", key, c.pos(st), "stop reason is not a constant")
			continue
		}
		switch v {
		case 0: // Done
			ok := false
			wentNowhere := func(b *ssa.BasicBlock, extra []flow.Fact) bool {
				for _, f := range append(flow.FactsAt(b), extra...) {
					if b, isB := f.Cond.(*ssa.BinOp); isB && ssau.IsNilConst(b.Y) {
						if base, is := isFieldLoad(b.X, "core", "Stride", "To"); is && derivesFromCall(base, call, scope) && ((b.Op == token.EQL && f.True) || (b.Op == token.NEQ && !f.True)) {
							return true
						}
					}
				}
				return false
			}
			ok = wentNowhere(st.Block(), nil)
			if !ok {
				// the test may live in a helper that reports "done" only where the stride went nowhere
				for _, ct := range factCallTrueIdx(st.Block()) {
					h := ct.call.Common().StaticCallee()
					if h == nil || h == call.Common().StaticCallee() {
						continue
					}
					inScope := false
					for _, f := range scope {
						if f == h {
							inScope = true
						}
					}
					ri := ct.idx
					if ri < 0 {
						ri = 0
					}
					if inScope && trueImplies(h, ri, wentNowhere) {
						ok = true
					}
				}
			}
			c.R.Check(ok, "C05-R5", key, c.pos(st), "Done only when the last stride went nowhere (stride.To == nil)", "Done is reported without checking that the last step produced no new state")
		case 1: // Limited
			ok := limitCond != nil && flow.EdgeDominates(L.Header, 1, st.Block())
			c.R.Check(ok, "C05-R5", key, c.pos(st), "Limited only on the exhausted-counter edge", "Limited is reported elsewhere than at the exhausted step counter")
		case 3: // BreakpointReached
			ok := false
			isVerdictX := func(b *ssa.BasicBlock, extra []flow.Fact) bool {
				for _, f := range append(flow.FactsAt(b), extra...) {
					if cl, isC := f.Cond.(*ssa.Call); isC && f.True && cl.Common().StaticCallee() == nil && !cl.Common().IsInvoke() {
						if ssau.TypeIs(cl.Common().Value.Type(), prog.Abs("core"), "Breakpoint") {
							return true
						}
					}
				}
				return false
			}
			isVerdict := func(b *ssa.BasicBlock) bool { return isVerdictX(b, nil) }
			ok = isVerdict(st.Block())
			if !ok {
				// the scan may live in a helper that returns true only under a breakpoint's verdict
				for _, cl := range factCallTrue(st.Block()) {
					h := cl.Common().StaticCallee()
					if h == nil || prog.PkgOf(h) != "core" {
						continue
					}
					for ri := 0; ri < h.Signature.Results().Len(); ri++ {
						if bt, isB := h.Signature.Results().At(ri).Type().Underlying().(*types.Basic); isB && bt.Kind() == types.Bool {
							if trueImplies(h, ri, isVerdictX) {
								ok = true
							}
						}
					}
				}
			}
			c.R.Check(ok, "C05-R5", key, c.pos(st), "BreakpointReached only under a breakpoint's true verdict", "BreakpointReached is reported without a breakpoint returning true")
		}
	}
	if n5 == 0 {
		c.R.Break("C05-R5: no store to Walked.StoppedBecause in Walk")
	}
	// ---- R11 every successful return states why the walk stopped
	// (the zero value of the reason reads as Done: a return that never stored one claims a quiescent machine and an empty remainder)
	onCycle := func(b *ssa.BasicBlock) bool {
		for _, sc := range b.Succs {
			if flow.Reachable(sc, b, nil) {
				return true
			}
		}
		return false
	}
	n11 := 0
	for _, b := range walk.Blocks {
		if len(b.Instrs) == 0 {
			continue
		}
		ret, isRet := b.Instrs[len(b.Instrs)-1].(*ssa.Return)
		if !isRet || len(ret.Results) != 2 || !ssau.IsNilConst(ret.Results[1]) {
			continue
		}
		n11++
		stated := false
		for _, ws := range reasonStores {
			if !ws.always {
				continue
			}
			if ws.site.Block() == b || (ws.site.Block().Dominates(b) && !onCycle(ws.site.Block())) {
				stated = true
			}
		}
		c.R.Check(stated, "C05-R11", fmt.Sprintf("Walk: successful return #%d states its stop reason", n11), c.pos(ret), "a StoppedBecause store on the way out (in the returning block, or in a dominating block outside every cycle)", "Walk returns without storing why it stopped: the caller reads the zero value (Done, nothing remaining) although the machine may still be able to step and messages may be unconsumed")
	}
	_ = strings.Join
}

// stopReasonAt: the constant stored into Walked.StoppedBecause in this block ("" if none).
func stopReasonAt(b *ssa.BasicBlock, reasonStores []walkedStore) string {
	r := "?"
	for _, ws := range reasonStores {
		if ws.site.Block() == b && ws.val != nil {
			if v, isC := ssau.ConstInt(ws.val); isC {
				r = fmt.Sprint(v)
			}
		}
	}
	return r
}

// walkScope: Walk first, then the other functions of package core in its call closure except Step — the helpers
// Walk may be split into.  Step's results are leaves for deepDefs in this scope.
func walkScope(walk, step *ssa.Function) []*ssa.Function {
	out := []*ssa.Function{walk}
	for _, f := range pkgClosure(walk) {
		if f != walk && f != step && prog.PkgOf(f) == "core" {
			out = append(out, f)
		}
	}
	return out
}

// walkedStore is a place in Walk where a field of the Walked record is set: a store in Walk itself, or the call (in
// Walk) of a helper that stores into the field.
type walkedStore struct {
	site   ssa.Instruction // the store, or the call of the helper
	val    ssa.Value       // the value stored, as a value of Walk: a constant, or the argument handed to the helper (nil: neither)
	always bool            // the field is set whenever site is executed
}

// walkedStores lists them in the order of Walk's instructions.
func walkedStores(walk *ssa.Function, scope []*ssa.Function, field string) []walkedStore {
	inScope := map[*ssa.Function]bool{}
	for _, f := range scope {
		inScope[f] = true
	}
	var out []walkedStore
	ssau.Instrs(walk, func(in ssa.Instruction) {
		if st, ok := in.(*ssa.Store); ok && ssau.IsField(st.Addr, prog.Abs("core"), "Walked", field) {
			out = append(out, walkedStore{st, st.Val, true})
			return
		}
		ci, ok := in.(*ssa.Call)
		if !ok {
			return
		}
		h := ci.Common().StaticCallee()
		if h == nil || h.Blocks == nil || h == walk || !inScope[h] {
			return
		}
		for _, st := range storesTo(h, "Walked", field) {
			ws := walkedStore{site: ci}
			switch x := st.Val.(type) {
			case *ssa.Const:
				ws.val = x
			case *ssa.Parameter:
				for i, hp := range h.Params {
					if hp == x && i < len(ci.Common().Args) {
						ws.val = ci.Common().Args[i]
					}
				}
			}
			ws.always = !flow.InCycle(st.Block())
			for _, b := range h.Blocks {
				if _, isRet := b.Instrs[len(b.Instrs)-1].(*ssa.Return); isRet && !st.Block().Dominates(b) {
					ws.always = false
				}
			}
			out = append(out, ws)
		}
	})
	return out
}

// defsUpTo resolves v to its definitions through phis, through the results of the helpers in scope (into their
// returns) and through the parameters of those helpers (back to the arguments at their call sites in scope), but not
// beyond the value `stop` (a loop-carried phi of Walk): what a value "is" in terms of the current iteration.
func defsUpTo(v ssa.Value, stop ssa.Value, scope []*ssa.Function) []ssa.Value {
	inScope := map[*ssa.Function]bool{}
	for _, f := range scope {
		inScope[f] = true
	}
	seen := map[ssa.Value]bool{}
	var out []ssa.Value
	var rec func(v ssa.Value, depth int)
	rets := func(h *ssa.Function, idx int, depth int) {
		for _, b := range h.Blocks {
			if ret, ok := b.Instrs[len(b.Instrs)-1].(*ssa.Return); ok && idx < len(ret.Results) {
				rec(ret.Results[idx], depth+1)
			}
		}
	}
	rec = func(v ssa.Value, depth int) {
		if v == nil || seen[v] || depth > 12 {
			return
		}
		seen[v] = true
		if v == stop {
			out = append(out, v)
			return
		}
		switch x := v.(type) {
		case *ssa.Phi:
			for _, e := range x.Edges {
				rec(e, depth+1)
			}
			return
		case *ssa.Call:
			if h := x.Common().StaticCallee(); h != nil && h.Blocks != nil && inScope[h] && h != scope[0] && h.Signature.Results().Len() == 1 {
				rets(h, 0, depth)
				return
			}
		case *ssa.Extract:
			if cl, ok := x.Tuple.(*ssa.Call); ok {
				if h := cl.Common().StaticCallee(); h != nil && h.Blocks != nil && inScope[h] && h != scope[0] {
					rets(h, x.Index, depth)
					return
				}
			}
		case *ssa.Parameter:
			fn := x.Parent()
			if fn != scope[0] && inScope[fn] {
				sites := callSitesOf(fn, scope)
				n := 0
				for i, p := range fn.Params {
					if p != x {
						continue
					}
					for _, s := range sites {
						if i < len(s.Common().Args) {
							n++
							rec(s.Common().Args[i], depth+1)
						}
					}
				}
				if n > 0 {
					return
				}
			}
		}
		out = append(out, v)
	}
	rec(v, 0)
	return out
}

// currentQueue: the SSA value of the queue at block b: the header phi before the
// Step call of the iteration, the pop-merge phi after it.
func currentQueue(Q *ssa.Phi, L *flow.Loop, call *ssa.Call, b *ssa.BasicBlock, scope []*ssa.Function) ssa.Value {
	if !L.Blocks[b] {
		return Q // after the loop: value at the header
	}
	// after the step within the iteration?
	after := flow.ReachableFrom(call.Block(), map[*ssa.BasicBlock]bool{L.Header: true})
	if !after[b] {
		return Q
	}
	// find merge phi of Q and Q[1:]
	for _, r := range ssau.Referrers(Q) {
		if sl, ok := r.(*ssa.Slice); ok {
			for _, r2 := range ssau.Referrers(sl) {
				if p, ok := r2.(*ssa.Phi); ok && p.Block().Dominates(b) {
					return p
				}
			}
		}
	}
	// the pop may be done by a helper that is handed the queue and returns the new one
	for _, r := range ssau.Referrers(Q) {
		cl, ok := r.(*ssa.Call)
		if !ok || cl.Common().StaticCallee() == nil || !L.Blocks[cl.Block()] || !after[cl.Block()] && cl.Block() != call.Block() {
			continue
		}
		var res []ssa.Value
		if cl.Common().StaticCallee().Signature.Results().Len() == 1 {
			res = append(res, cl)
		}
		for _, r2 := range ssau.Referrers(cl) {
			if ex, isEx := r2.(*ssa.Extract); isEx {
				res = append(res, ex)
			}
		}
		for _, rv := range res {
			if !types.Identical(rv.Type(), Q.Type()) {
				continue
			}
			// ... the queue itself or the queue without its first element
			hasPop := false
			for _, d := range defsUpTo(rv, Q, scope) {
				if sl, isSl := d.(*ssa.Slice); isSl {
					if xs := defsUpTo(sl.X, Q, scope); len(xs) == 1 && xs[0] == ssa.Value(Q) {
						hasPop = true
					}
				}
			}
			if in, isIn := rv.(ssa.Instruction); isIn && hasPop && (in.Block().Dominates(b) || in.Block() == b) {
				return rv
			}
		}
	}
	return Q
}

// derivesFromCall: v is result #0 of call, possibly through phis with other fresh strides and through helpers in
// scope that hand the stride on (`stride, err = ensureStride(st, stride, err)`).
func derivesFromCall(v ssa.Value, call *ssa.Call, scope []*ssa.Function) bool {
	isRes := func(d ssa.Value) bool {
		if ex, ok := d.(*ssa.Extract); ok && ex.Tuple == ssa.Value(call) && ex.Index == 0 {
			return true
		}
		return d == ssa.Value(call) // the step helper's single result (walkStepSite)
	}
	for _, d := range deepDefs(v, scope) {
		if isRes(d) {
			return true
		}
		// the stride may be kept in a field of a record that is private to the iteration and that helpers fill
		// (`attempt := stepAttempt{at: st, stride: stride, err: err}; attempt.ensureStride(); stride = attempt.stride`)
		if ld, isLd := d.(*ssa.UnOp); isLd && len(scope) > 0 && call.Parent() == scope[0] {
			if _, isFA := ld.X.(*ssa.FieldAddr); isFA {
				for _, d2 := range resolveCells(d, scope[0], scope) {
					if isRes(d2) {
						return true
					}
				}
			}
		}
	}
	return false
}

// walkStepSite finds the place in Walk where one step is taken: the call of Step itself, or the call of a helper
// of package core that calls Step exactly once, outside any loop, on every way through it, and whose result #0 is
// the stride Step returned or a fresh stride standing in for a missing one.  The operands are given in Step's
// order (s, ctx, st, pending, c, props), expressed as values of Walk (nil where the helper passes something else).
func walkStepSite(c *Ctx, walk, step *ssa.Function) (site *ssa.Call, args []ssa.Value, n int) {
	site, args, n, _ = walkStepChain(c, walk, step)
	return
}

// walkStepChain is walkStepSite; helpers lists the functions between Walk's step site and the call of Step, outermost
// first (none when Walk calls Step itself).  An operand of Step that one of them computes from what it is handed is
// returned as the helper's value: it is resolved with the helpers in scope.
func walkStepChain(c *Ctx, walk, step *ssa.Function) (site *ssa.Call, args []ssa.Value, n int, helpers []*ssa.Function) {
	var direct []*ssa.Call
	ssau.Instrs(walk, func(in ssa.Instruction) {
		if ci, ok := in.(*ssa.Call); ok && ci.Common().StaticCallee() == step {
			direct = append(direct, ci)
		}
	})
	if len(direct) > 0 {
		return direct[0], direct[0].Common().Args, len(direct), nil
	}
	// stepper(h): h takes exactly one step whenever it is called — it calls Step, or a helper that does, exactly once,
	// outside any loop and before every return — and its result #0 is that step's stride (or a fresh one).  chain lists
	// the call sites from the one in h down to the call of Step itself.
	var stepper func(h *ssa.Function, depth int) (chain []*ssa.Call, ok bool)
	stepper = func(h *ssa.Function, depth int) ([]*ssa.Call, bool) {
		if h == nil || h.Blocks == nil || prog.PkgOf(h) != "core" || h == walk || h == step || depth > 3 {
			return nil, false
		}
		var sc []*ssa.Call
		var below [][]*ssa.Call
		ssau.Instrs(h, func(i2 ssa.Instruction) {
			c2, ok := i2.(*ssa.Call)
			if !ok {
				return
			}
			if c2.Common().StaticCallee() == step {
				sc = append(sc, c2)
				below = append(below, nil)
			} else if g := c2.Common().StaticCallee(); g != nil && g != h {
				if ch, is := stepper(g, depth+1); is {
					sc = append(sc, c2)
					below = append(below, ch)
				}
			}
		})
		if len(sc) != 1 || flow.InCycle(sc[0].Block()) {
			return nil, false
		}
		for _, b := range h.Blocks {
			if _, isRet := b.Instrs[len(b.Instrs)-1].(*ssa.Return); isRet && b != h.Recover && !sc[0].Block().Dominates(b) {
				return nil, false
			}
		}
		// result #0: Step's stride, or a fresh one
		if h.Signature.Results().Len() < 1 {
			return nil, false
		}
		for _, b := range h.Blocks {
			ret, isRet := b.Instrs[len(b.Instrs)-1].(*ssa.Return)
			if !isRet || len(ret.Results) == 0 {
				continue
			}
			for _, d := range phiDefs(ret.Results[0], nil, map[ssa.Value]bool{}) {
				if ex, isEx := d.(*ssa.Extract); isEx && ex.Tuple == ssa.Value(sc[0]) && ex.Index == 0 {
					continue
				}
				if d == ssa.Value(sc[0]) && below[0] != nil {
					continue // the single result of the helper below, which is the stride
				}
				if cl, isC := d.(*ssa.Call); isC && cl.Common().StaticCallee() != nil && cl.Common().StaticCallee().Name() == "NewStride" {
					continue
				}
				if localFresh(d) {
					continue
				}
				return nil, false
			}
		}
		return append([]*ssa.Call{sc[0]}, below[0]...), true
	}
	var sites []*ssa.Call
	var chains [][]*ssa.Call
	ssau.Instrs(walk, func(in ssa.Instruction) {
		ci, ok := in.(*ssa.Call)
		if !ok {
			return
		}
		if ch, is := stepper(ci.Common().StaticCallee(), 0); is {
			sites = append(sites, ci)
			chains = append(chains, ch)
		}
	})
	if len(sites) == 0 {
		return nil, nil, 0, nil
	}
	site = sites[0]
	// Step's operands as values of Walk: a parameter of a helper is what the helper is handed, level by level.  An
	// operand that a helper computes is left as the helper's value (to be resolved with the helpers in scope).
	up := append([]*ssa.Call{site}, chains[0]...) // up[i+1] is a call in the callee of up[i]; the last one is the call of Step
	for _, a := range up[len(up)-1].Common().Args {
		v := a
		for lvl := len(up) - 2; lvl >= 0; lvl-- {
			pr, isP := v.(*ssa.Parameter)
			if !isP {
				break
			}
			h := up[lvl].Common().StaticCallee()
			var w ssa.Value
			for i, hp := range h.Params {
				if hp == pr && i < len(up[lvl].Common().Args) {
					w = up[lvl].Common().Args[i]
				}
			}
			v = w
			if v == nil {
				break
			}
		}
		args = append(args, v)
	}
	for _, cl := range up[:len(up)-1] {
		helpers = append(helpers, cl.Common().StaticCallee())
	}
	return site, args, len(sites), helpers
}

// c05LimitProvenance: every value the loop bound can take must be the Limit
// field of Walk's Control parameter (possibly through copies of that Control),
// or the Limit of the package's DefaultControl read where the parameter is nil.
// Returns descriptions of other sources.
func c05LimitProvenance(c *Ctx, walk *ssa.Function, limit ssa.Value) []string {
	scope := pkgClosure(walk)
	var ctlParam *ssa.Parameter
	for _, p := range walk.Params {
		if pt, ok := p.Type().(*types.Pointer); ok {
			if n, ok := pt.Elem().(*types.Named); ok && n.Obj().Name() == "Control" && n.Obj().Pkg() != nil && n.Obj().Pkg().Path() == prog.Abs("core") {
				ctlParam = p
			}
		}
	}
	if ctlParam == nil {
		return []string{"Walk has no *Control parameter"}
	}
	fromParam := func(v ssa.Value) bool {
		ds := deepDefs(v, scope)
		if len(ds) == 0 {
			return false
		}
		for _, d := range ds {
			if d != ssa.Value(ctlParam) {
				return false
			}
		}
		return true
	}
	// paramNilAt: some value that can only be the Control parameter is provably nil at b
	paramNilAt := func(b *ssa.BasicBlock) bool {
		for _, f := range flow.FactsAt(b) {
			bo, ok := f.Cond.(*ssa.BinOp)
			if !ok {
				continue
			}
			var v ssa.Value
			switch {
			case ssau.IsNilConst(bo.Y):
				v = bo.X
			case ssau.IsNilConst(bo.X):
				v = bo.Y
			default:
				continue
			}
			if ((bo.Op == token.EQL && f.True) || (bo.Op == token.NEQ && !f.True)) && fromParam(v) {
				return true
			}
		}
		return false
	}
	var bad []string
	seen := map[ssa.Value]bool{}
	var limitOf func(v ssa.Value, depth int)
	var controlBase func(base ssa.Value, at ssa.Instruction, depth int)
	limitOf = func(v ssa.Value, depth int) {
		if seen[v] || depth > 8 {
			return
		}
		seen[v] = true
		for _, d := range deepDefs(v, scope) {
			base, ok := isFieldLoad(d, "core", "Control", "Limit")
			if !ok {
				bad = append(bad, fmt.Sprintf("the bound can be %s (%s), which is not a Control's Limit", d.Name(), c.posv(d)))
				continue
			}
			controlBase(base, d.(ssa.Instruction), depth+1)
		}
	}
	controlBase = func(base ssa.Value, at ssa.Instruction, depth int) {
		for _, b := range deepDefs(base, scope) {
			switch x := b.(type) {
			case *ssa.Parameter:
				if x != ctlParam {
					bad = append(bad, fmt.Sprintf("the bound can come from parameter %s of %s", x.Name(), x.Parent().Name()))
				}
			case *ssa.UnOp:
				if g, isG := x.X.(*ssa.Global); isG && x.Op == token.MUL && g.Name() == "DefaultControl" {
					// only where the caller gave no Control: at the load of the global, or at the read of its Limit
					if !paramNilAt(x.Block()) && !paramNilAt(at.Block()) && !phiEdgeNil(x, paramNilAt) {
						bad = append(bad, fmt.Sprintf("DefaultControl's limit can be used (%s) although the caller passed a Control", c.pos(x)))
					}
					continue
				}
				bad = append(bad, fmt.Sprintf("the bound can come from %s (%s)", x.String(), c.pos(x)))
			case *ssa.Alloc:
				// a fresh Control: the values stored into its Limit field
				n := 0
				for _, f := range scope {
					ssau.Instrs(f, func(in ssa.Instruction) {
						fa, ok := in.(*ssa.FieldAddr)
						if !ok {
							return
						}
						pt, ok := fa.X.Type().Underlying().(*types.Pointer)
						if !ok {
							return
						}
						st, ok := pt.Elem().Underlying().(*types.Struct)
						if !ok || st.Field(fa.Field).Name() != "Limit" || !types.Identical(pt.Elem(), x.Type().Underlying().(*types.Pointer).Elem()) {
							return
						}
						hit := fa.X == ssa.Value(x)
						for _, d := range deepDefs(fa.X, scope) {
							if d == ssa.Value(x) {
								hit = true
							}
						}
						if !hit {
							return
						}
						for _, r2 := range ssau.Referrers(fa) {
							if sto, ok := r2.(*ssa.Store); ok && sto.Addr == ssa.Value(fa) {
								n++
								limitOf(sto.Val, depth+1)
							}
						}
					})
				}
				if n == 0 {
					bad = append(bad, fmt.Sprintf("the bound can be the zero Limit of a fresh Control (%s)", c.pos(x)))
				}
			default:
				bad = append(bad, fmt.Sprintf("the bound can come from %s", b.String()))
			}
		}
	}
	limitOf(limit, 0)
	sort.Strings(bad)
	return bad
}

// phiEdgeNil: v flows only into phis through edges whose predecessor satisfies pred.
func phiEdgeNil(v ssa.Value, pred func(*ssa.BasicBlock) bool) bool {
	refs := ssau.Referrers(v)
	n := 0
	for _, r := range refs {
		p, ok := r.(*ssa.Phi)
		if !ok {
			continue
		}
		for i, e := range p.Edges {
			if e == v {
				n++
				if !pred(p.Block().Preds[i]) {
					return false
				}
			}
		}
	}
	return n > 0
}

// c05StrideAfterBranches: C05-R6.
func c05StrideAfterBranches(c *Ctx) {
	step := c.fn("core", "Spec", "Step")
	consider := c.P.Func("core", "Branches", "consider")
	if step == nil || consider == nil {
		return
	}
	var cc *ssa.Call
	ssau.Instrs(step, func(in ssa.Instruction) {
		if cl, ok := in.(*ssa.Call); ok && cl.Common().StaticCallee() == consider {
			cc = cl
		}
	})
	if cc == nil {
		c.R.Break("C05-R6: Step does not call Branches.consider")
		return
	}
	scope := []*ssa.Function{step}
	// the stride of this step: where Stride.Consumed is stored
	var strideLeaves map[ssa.Value]bool
	for _, st := range storesTo(step, "Stride", "Consumed") {
		_, _, base, _ := ssau.FieldOf(st.Addr)
		strideLeaves = map[ssa.Value]bool{}
		for _, d := range deepDefs(base, scope) {
			strideLeaves[d] = true
		}
	}
	if strideLeaves == nil {
		c.R.Break("C05-R6: Step never records the consumed message in a stride")
		return
	}
	after := flow.ReachableFrom(cc.Block(), nil)
	after[cc.Block()] = true
	n := 0
	for _, b := range step.Blocks {
		ret, ok := b.Instrs[len(b.Instrs)-1].(*ssa.Return)
		if !ok || !after[b] || len(ret.Results) == 0 {
			continue
		}
		n++
		same := !ssau.IsNilConst(ret.Results[0])
		for _, d := range deepDefs(ret.Results[0], scope) {
			if !strideLeaves[d] {
				same = false
			}
		}
		c.R.Check(same, "C05-R6", fmt.Sprintf("Step: return #%d after branch evaluation carries the stride", n), c.pos(ret), "returns the stride whose Consumed field records the consumption", "Step can return without its stride after the branches were evaluated against the pending message: Walk then does not pop the message and offers it again")
	}
	if n == 0 {
		c.R.Break("C05-R6: no return of Step after branch evaluation")
	}
}

// blameCommon is blameCaller for a helper that several functions call: when every one of its callers is itself
// to be blamed on the same function (the code around the helper was split into pieces that all belong to one
// caller), that function is to blame.
func blameCommon(f *ssa.Function, pkgFns []*ssa.Function) *ssa.Function {
	var rec func(f *ssa.Function, depth int) *ssa.Function
	rec = func(f *ssa.Function, depth int) *ssa.Function {
		if f == nil || depth > 6 || f.Parent() != nil || f.Object() == nil || f.Object().Exported() {
			return f
		}
		callers := map[*ssa.Function]bool{}
		for _, st := range callSitesOf(f, pkgFns) {
			top := st.Parent()
			for top.Parent() != nil {
				top = top.Parent()
			}
			callers[top] = true
		}
		if len(callers) == 0 || callers[f] {
			return f
		}
		var common *ssa.Function
		for g := range callers {
			b := rec(g, depth+1)
			if common != nil && b != common {
				return f
			}
			common = b
		}
		return common
	}
	return rec(f, 0)
}

// c05CandidateOrder: C05-R7.
func c05CandidateOrder(c *Ctx) {
	m := c.newMatchModel()
	type site struct {
		f     *ssa.Function
		cl    *ssa.Call
		inMap string
	}
	// sites are identified by the function that is to blame (an unexported helper with one caller counts as
	// that caller) and, among the offending ones, by their order: own code first, then helpers by name
	by := map[*ssa.Function][]site{}
	var order []*ssa.Function
	n, fresh := 0, 0
	for _, f := range m.fns {
		loops := flow.Loops(f)
		ssau.Instrs(f, func(in ssa.Instruction) {
			cl, ok := in.(*ssa.Call)
			if !ok {
				return
			}
			b, isB := cl.Common().Value.(*ssa.Builtin)
			if !isB || b.Name() != "append" {
				return
			}
			// a list of binding sets (or of lists of them)
			t := cl.Type().String()
			if !strings.Contains(t, "Bindings") {
				return
			}
			inMap := ""
			carried := false
			for _, l := range enclosingLoops(loops, cl.Block()) {
				if op := loopOperand(l); op != nil {
					if _, isMap := op.Type().Underlying().(*types.Map); isMap {
						inMap = c.posv(op)
						// a list that is made anew in every iteration of the map loop (a private copy
						// filled by an inner, ordered loop) does not accumulate across the map's keys
						if !listFreshPerIteration(cl, l) {
							carried = true
						}
					}
				}
			}
			n++
			if inMap != "" && !carried {
				fresh++
				c.R.Discharge("C05-R7", fmt.Sprintf("%s: per-iteration list #%d", fname(f), fresh), c.pos(cl), "the list is created inside the range over the map ("+inMap+") and filled in a fixed order; it does not accumulate across map keys")
				return
			}
			top := f
			for top.Parent() != nil {
				top = top.Parent()
			}
			bf := blameCommon(top, m.fns)
			if _, have := by[bf]; !have {
				order = append(order, bf)
			}
			by[bf] = append(by[bf], site{f, cl, inMap})
		})
	}
	sort.SliceStable(order, func(i, j int) bool { return fname(order[i]) < fname(order[j]) })
	for _, bf := range order {
		ss := by[bf]
		sort.SliceStable(ss, func(i, j int) bool {
			oi, oj := ss[i].f == bf, ss[j].f == bf
			if oi != oj {
				return oi
			}
			if ss[i].f != ss[j].f {
				return fname(ss[i].f) < fname(ss[j].f)
			}
			return false
		})
		bad, good := 0, 0
		for _, s := range ss {
			if s.inMap == "" {
				good++
				c.R.Discharge("C05-R7", fmt.Sprintf("%s: result list extended in a fixed order #%d", fname(bf), good), c.pos(s.cl), "not inside a range over a map")
				continue
			}
			bad++
			c.R.Violate("C05-R7", fmt.Sprintf("%s: result list extended #%d", fname(bf), bad), c.pos(s.cl), "a list of binding sets is extended inside a range over a Go map ("+s.inMap+"): the order of the candidates follows map iteration, and with a guard that accepts more than one of them the branch taken differs from run to run")
		}
	}
	if n == 0 {
		c.R.Break("C05-R7: the matcher never extends a list of binding sets")
	}
}

// listFreshPerIteration: the list that the append extends is created inside the body of loop l in every one of
// its iterations: walking the accumulator back through appends and the phis of inner loops ends only at
// make([]T...)/nil inside l, never at a phi in l's header (which would carry the list from one iteration of l
// to the next) nor at anything defined outside l or read from memory.
func listFreshPerIteration(app *ssa.Call, l *flow.Loop) bool {
	seen := map[ssa.Value]bool{}
	var fresh func(v ssa.Value, viaInner bool) bool
	fresh = func(v ssa.Value, viaInner bool) bool {
		if seen[v] {
			return true
		}
		seen[v] = true
		switch x := v.(type) {
		case *ssa.Phi:
			if x.Block() == l.Header || !l.Blocks[x.Block()] {
				return false
			}
			for _, e := range x.Edges {
				if !fresh(e, true) {
					return false
				}
			}
			return true
		case *ssa.Call:
			if b, ok := x.Common().Value.(*ssa.Builtin); ok && b.Name() == "append" && l.Blocks[x.Block()] {
				return fresh(x.Common().Args[0], viaInner)
			}
			return false
		case *ssa.MakeSlice:
			return l.Blocks[x.Block()] && x.Block() != l.Header
		case *ssa.Const:
			return x.IsNil()
		case *ssa.ChangeType:
			return fresh(x.X, viaInner)
		}
		return false
	}
	return fresh(app.Common().Args[0], false)
}

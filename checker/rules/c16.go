package rules

import (
	"fmt"
	"go/token"
	"go/types"
	"sort"
	"strings"

	"golang.org/x/tools/go/ssa"

	"sheensverif/internal/flow"
	"sheensverif/internal/lockset"
	"sheensverif/internal/prog"
	"sheensverif/internal/ssau"
)

func init() { Registry["C16"] = C16 }

const crewLock = "crew.Crew.RWMutex"

// reportLockAccesses checks a guarded-by entry: every access of owner.field must hold lock (W for writes).
func (c *Ctx) reportLockAccesses(rule string, la *lockset.Analysis, pkg, owner, field, lock string, exempt func(f *ssa.Function) string) int {
	if exempt == nil {
		exempt = func(*ssa.Function) string { return "" }
	}
	accs := la.FieldAccesses(prog.Abs(pkg), owner, field)
	idx := map[string]int{}
	pkgFns := c.P.FuncsIn(pkg)
	blame := func(f *ssa.Function, depth int) *ssa.Function { return blameCaller(f, pkgFns) }
	for _, a := range accs {
		base := fmt.Sprintf("%s: %s.%s %s", fname(blame(a.Fn, 0)), owner, field, a.Kind)
		idx[base]++
		key := fmt.Sprintf("%s#%d", base, idx[base])
		if a.Addr != nil && localFresh(a.Addr.X) {
			c.R.Discharge(rule, key, c.pos(a.Instr), "field of an object this function has just allocated")
			continue
		}
		if st, isSt := a.Instr.(*ssa.Store); isSt && a.Kind == "assign field" {
			switch st.Val.(type) {
			case *ssa.MakeMap, *ssa.MakeSlice:
				c.R.Discharge(rule, key, c.pos(a.Instr), "initialisation: the field receives a container made here")
				continue
			}
		}
		if why := exempt(a.Fn); why != "" {
			c.R.Discharge(rule, key, c.pos(a.Instr), "exempt: "+why)
			continue
		}
		held := la.Held(a.Instr)
		mode := held[lock]
		ok := mode == lockset.W || (!a.Write && mode == lockset.R)
		need := "read or write lock"
		if a.Write {
			need = "write lock"
		}
		c.R.Check(ok, rule, key, c.pos(a.Instr), "holds "+lock+" "+held.String(), fmt.Sprintf("%s of %s.%s without the %s on %s (held: %s)", a.Kind, owner, field, need, lock, held.String()))
	}
	return len(accs)
}

func C16(c *Ctx) {
	c.R.Explanation = "Decides structural necessary conditions of 'memory advances only with a successful write; requests are serialised' for cmd/mcrew: (R1) every mutation of the service's machine map and of a member's State is dominated by the err==nil outcome of a Storage.WriteState call in the same function; (R2) the machine map, members' states and every WriteState call are accessed only with the crew's lock held (write lock for mutations and for the store write), and a function that reads crew state and then writes it keeps one uninterrupted critical section (one acquisition dominating all accesses, no release before the last one); (R3) WriteState puts or deletes every given record inside the function literal of a single, loop-free db.Update whose result it returns, keeps no state of its own, and skips no record. (R4) in AddMachine the node name and bindings of the record handed to WriteState resolve (through struct literals, helpers and defaults) to exactly the values installed as the new machine's State, so a restart loads what memory holds. (R5) in Process no hand-over of an emitted message (send on Service.Emitted, goroutine that re-processes it, or a helper that does either) is reachable from the edge on which WriteState returned an error. Linearizability of observed outcomes is not decided."
	c.R.Rule("C16-R1", "E3", "write dominates memory update", 3)
	c.R.Rule("C16-R2", "E4", "lock discipline and single critical section", 10)
	c.R.Rule("C16-R3", "E7+E3", "one transaction for all records", 4)
	c.R.Rule("C16-R7", "E3", "the store reports success only for a committed transaction, or when there was nothing to write", 2)
	c.shareRule("C03", "C03-R1", "C16-R8", "matching a message against a machine's bindings leaves them as they are: the state in memory does not change before the write")
	c16CrewNotCopied(c, "C16-R2")
	c.R.Rule("C16-R9", "E3", "every record Process writes carries the machine's spec source", 1)
	c16RecordsComplete(c, "C16-R9")
	c.R.Rule("C16-R5", "E3", "a failed write is not acted upon: nothing emitted by the uncommitted transitions is reported or re-processed", 1)
	c.R.Rule("C16-R6", "E1", "a script works on copies: a machine's bindings in memory cannot change before the write that records the transition", 1)
	if ea, _ := c.ecmaAnalysis(); ea != nil {
		if c.scriptIsolation("C16-R6", ea, true) == 0 {
			c.R.Break("C16-R6: no value handed to the script runtime found")
		}
	}
	c16FailedWrite(c)
	c.R.Rule("C16-R4", "E5", "the record written for a new machine is the state installed in memory", 2)
	c16Added(c)
	fns := c.P.FuncsIn("cmd/mcrew", "crew")
	if len(fns) == 0 {
		c.R.Break("C16: packages cmd/mcrew and crew not loaded")
		return
	}
	writeState := c.fn("cmd/mcrew", "Storage", "WriteState")
	if writeState == nil {
		return
	}
	isWrite, writeHelpers := c16Writes(c, writeState)
	la := lockset.New(fns)
	for _, f := range la.Fns {
		c.R.Fn(fname(f))
	}
	// ---- R1
	isCrewMachines := func(v ssa.Value) bool {
		_, is := ssau.LoadOfField(v, prog.Abs("crew"), "Crew", "Machines")
		return is
	}
	n1 := 0
	// afterWrite: the instruction is dominated by the err == nil outcome of a write in its function, or its function
	// is run only from such places (c16RunSites)
	var afterWrite func(in ssa.Instruction, depth int) bool
	afterWrite = func(in ssa.Instruction, depth int) bool {
		f := in.Parent()
		found := false
		ssau.Instrs(f, func(w ssa.Instruction) {
			if cl, ok := w.(*ssa.Call); ok && isWrite(cl) && w != in && flow.InstrDominates(w, in) && errChecked(f, cl, in.Block()) {
				found = true
			}
		})
		if found {
			return true
		}
		if depth > 3 {
			return false
		}
		sites, ok := c16RunSites(c, f, fns)
		if !ok || len(sites) == 0 {
			return false
		}
		for _, s := range sites {
			if !afterWrite(s, depth+1) {
				return false
			}
		}
		return true
	}
	for _, f := range fns {
		var wsCalls []*ssa.Call
		ssau.Instrs(f, func(in ssa.Instruction) {
			if cl, ok := in.(*ssa.Call); ok && isWrite(cl) {
				wsCalls = append(wsCalls, cl)
			}
		})
		ssau.Instrs(f, func(in ssa.Instruction) {
			mut := ""
			switch x := in.(type) {
			case *ssa.MapUpdate:
				if isCrewMachines(x.Map) {
					mut = "machine map update"
				}
			case ssa.CallInstruction:
				if b, ok := x.Common().Value.(*ssa.Builtin); ok && b.Name() == "delete" && isCrewMachines(x.Common().Args[0]) {
					mut = "machine map delete"
				}
			case *ssa.Store:
				if ssau.IsField(x.Addr, prog.Abs("crew"), "Machine", "State") {
					// machine taken from the crew map?
					_, _, base, _ := ssau.FieldOf(x.Addr)
					for _, d := range phiDefs(base, nil, map[ssa.Value]bool{}) {
						if lk, ok := d.(*ssa.Lookup); ok && isCrewMachines(lk.X) {
							mut = "member state replaced"
						}
						if ex, ok := d.(*ssa.Extract); ok {
							if lk, ok := ex.Tuple.(*ssa.Lookup); ok && isCrewMachines(lk.X) {
								mut = "member state replaced"
							}
						}
					}
				}
			}
			if mut == "" {
				return
			}
			n1++
			ok := false
			for _, ws := range wsCalls {
				if flow.InstrDominates(ws, in) && errChecked(f, ws, in.Block()) {
					ok = true
				}
			}
			if !ok {
				// the update may sit in an unexported helper, a literal or a method value (`commit func()`) that runs
				// only after the write: then every place from which it is run is judged instead
				ok = afterWrite(in, 0)
			}
			c.R.Check(ok, "C16-R1", fmt.Sprintf("%s: %s #%d", fname(f), mut, n1), c.pos(in), "dominated by WriteState(...) == nil", "memory is updated without (or before) a successful WriteState in this function: a failed write leaves memory ahead of the store")
		})
	}
	// ---- R2 lock discipline
	n := c.reportLockAccesses("C16-R2", la, "crew", "Crew", "Machines", crewLock, nil)
	if n < 5 {
		c.R.Break("C16-R2: expected accesses of crew.Crew.Machines, found %d", n)
	}
	// WriteState calls under the write lock
	nws := 0
	for _, f := range fns {
		ssau.Instrs(f, func(in ssa.Instruction) {
			cl, ok := in.(*ssa.Call)
			if !ok || !isWrite(cl) || writeHelpers[f] {
				return // (inside a write helper the lock is the caller's: the helper's call sites are judged)
			}
			nws++
			held := la.Held(in)
			c.R.Check(held[crewLock] == lockset.W, "C16-R2", fmt.Sprintf("%s: WriteState #%d under the crew write lock", fname(f), nws), c.pos(in), "held: "+held.String(), "the store is written without the crew's write lock (held: "+held.String()+"): a concurrent request can interleave between memory and store")
		})
	}
	if nws < 3 {
		c.R.Break("C16-R2: expected 3 WriteState call sites, found %d", nws)
	}
	// single critical section
	for _, f := range fns {
		var acquires, releases []ssa.Instruction
		var accesses []ssa.Instruction
		ssau.Instrs(f, func(in ssa.Instruction) {
			if ci, ok := in.(*ssa.Call); ok {
				if id, acq, _, isLock := lockset.LockOp(ci); isLock && id == crewLock {
					if acq {
						acquires = append(acquires, in)
					} else {
						releases = append(releases, in)
					}
				}
				if isWrite(ci) {
					accesses = append(accesses, in)
				}
			}
		})
		for _, a := range la.FieldAccesses(prog.Abs("crew"), "Crew", "Machines") {
			if a.Fn == f {
				accesses = append(accesses, a.Instr)
			}
		}
		if len(accesses) == 0 || len(acquires) == 0 {
			continue
		}
		ok := len(acquires) == 1
		why := fmt.Sprintf("%d acquisitions of the crew lock", len(acquires))
		if ok {
			for _, ac := range accesses {
				if !flow.InstrDominates(acquires[0], ac) {
					ok, why = false, "an access is not dominated by the acquisition"
				}
			}
			for _, rel := range releases {
				for _, ac := range accesses {
					// a release from which an access is still reachable splits the critical section
					if rel.Block() == ac.Block() && flow.Index(rel) < flow.Index(ac) || rel.Block() != ac.Block() && flow.Reachable(rel.Block(), ac.Block(), nil) {
						ok, why = false, "the lock is released at "+c.pos(rel)+" while crew state is still accessed later"
					}
				}
			}
		}
		c.R.Check(ok, "C16-R2", fname(f)+": one uninterrupted critical section", c.pos(acquires[0]), "one acquisition dominating every access; no release before the last access", why)
	}

	// ---- R3 one transaction
	c.R.Fn(fname(writeState))
	var updates []*ssa.Call
	ssau.Instrs(writeState, func(in ssa.Instruction) {
		if cl, ok := in.(*ssa.Call); ok && strings.HasSuffix(ssau.CalleeName(cl), "bbolt.DB).Update") || ok && strings.HasSuffix(ssau.CalleeName(cl), "bolt.DB).Update") {
			updates = append(updates, cl)
		}
	})
	okOne := len(updates) == 1 && !flow.InCycle(updates[0].Block())
	c.R.Check(okOne, "C16-R3", "WriteState: a single db.Update outside any loop", c.P.Pos(writeState.Pos()), "one transaction", fmt.Sprintf("%d db.Update calls (or inside a loop): a batch can be committed partially", len(updates)))
	// calls of WriteState-like helpers that themselves open transactions in a loop
	ssau.Instrs(writeState, func(in ssa.Instruction) {
		if cl, ok := in.(*ssa.Call); ok {
			if sc := cl.Common().StaticCallee(); sc != nil && prog.PkgOf(sc) == "cmd/mcrew" && flow.InCycle(cl.Block()) {
				opens := false
				ssau.Instrs(sc, func(in2 ssa.Instruction) {
					if c2, ok := in2.(*ssa.Call); ok && strings.HasSuffix(ssau.CalleeName(c2), "DB).Update") {
						opens = true
					}
				})
				if opens {
					c.R.Violate("C16-R3", "WriteState: transactions opened in a loop via "+sc.Name(), c.pos(in), "WriteState opens one transaction per batch: a later failure leaves earlier batches committed")
				}
			}
		}
	})
	if okOne {
		up := updates[0]
		// result returned
		ret := false
		for _, r := range ssau.Referrers(up) {
			if _, ok := r.(*ssa.Return); ok {
				ret = true
			}
		}
		c.R.Check(ret, "C16-R3", "WriteState: returns the transaction's result", c.pos(up), "return db.Update(...)", "the transaction's error is not what WriteState returns")
		// R7: success without a transaction only when there is nothing to write (no storage configured, or an empty batch)
		nothingToWrite := func(f *ssa.Function, recv, batch int) func(b *ssa.BasicBlock, extra []flow.Fact) bool {
			return func(b *ssa.BasicBlock, extra []flow.Fact) bool {
				for _, ft := range append(flow.FactsAt(b), extra...) {
					bo, isB := ft.Cond.(*ssa.BinOp)
					if !isB || !((bo.Op == token.EQL && ft.True) || (bo.Op == token.NEQ && !ft.True)) {
						continue
					}
					x, y := bo.X, bo.Y
					if _, isC := x.(*ssa.Const); isC {
						x, y = y, x
					}
					if recv >= 0 && recv < len(f.Params) && x == ssa.Value(f.Params[recv]) && ssau.IsNilConst(y) {
						return true
					}
					if cl, isC := x.(*ssa.Call); isC && batch >= 0 && batch < len(f.Params) {
						if bi, isBI := cl.Common().Value.(*ssa.Builtin); isBI && bi.Name() == "len" && cl.Common().Args[0] == ssa.Value(f.Params[batch]) {
							if k, isK := ssau.ConstInt(y); isK && k == 0 {
								return true
							}
						}
					}
				}
				return false
			}
		}
		batchIdx := -1
		for i, p := range writeState.Params {
			if _, isSl := p.Type().Underlying().(*types.Slice); isSl {
				batchIdx = i
			}
		}
		n7 := 0
		for _, b := range writeState.Blocks {
			rt, isRet := b.Instrs[len(b.Instrs)-1].(*ssa.Return)
			if !isRet || len(rt.Results) != 1 || !ssau.IsNilConst(rt.Results[0]) {
				continue
			}
			// the ways into a return that several guards share (`if s == nil || len(mss) == 0 { return nil }`) are judged
			// one by one
			type way struct {
				at    *ssa.BasicBlock
				extra []flow.Fact
			}
			ways := []way{{b, nil}}
			if !nothingToWrite(writeState, 0, batchIdx)(b, nil) && len(b.Preds) >= 2 && len(b.Instrs) == 1 {
				ways = nil
				for _, p := range b.Preds {
					ways = append(ways, way{p, flow.EdgeFacts(p, b)})
				}
			}
			for _, w := range ways {
				n7++
				okN := nothingToWrite(writeState, 0, batchIdx)(w.at, w.extra)
				if !okN && w.extra == nil {
					// ... or a helper's verdict that implies it
					for _, cl := range factCallTrue(b) {
						h := cl.Common().StaticCallee()
						if h == nil || prog.PkgOf(h) != "cmd/mcrew" {
							continue
						}
						hr, hb := -1, -1
						for i, a := range cl.Common().Args {
							if a == ssa.Value(writeState.Params[0]) {
								hr = i
							}
							if batchIdx >= 0 && a == ssa.Value(writeState.Params[batchIdx]) {
								hb = i
							}
						}
						if trueImplies(h, 0, nothingToWrite(h, hr, hb)) {
							okN = true
						}
					}
				}
				c.R.Check(okN, "C16-R7", fmt.Sprintf("WriteState: success without a transaction #%d only when there is nothing to write", n7), c.pos(rt), "under 'no storage configured' (nil receiver) or an empty batch", "WriteState answers success without having written in a case where records were given to a configured storage: memory then advances without a persistent write")
			}
		}
		// Put/Delete only inside the literal
		var lit *ssa.Function
		for _, a := range up.Common().Args {
			if mc, ok := a.(*ssa.MakeClosure); ok {
				lit = mc.Fn.(*ssa.Function)
			}
		}
		nput := 0
		litClosure := map[*ssa.Function]bool{}
		if lit != nil {
			for _, lf := range pkgClosure(lit) {
				litClosure[lf] = true
			}
		}
		all := c.P.FuncsIn("cmd/mcrew")
		for _, f := range pkgClosure(writeState) {
			ssau.Instrs(f, func(in ssa.Instruction) {
				ci, ok := in.(ssa.CallInstruction)
				if !ok {
					return
				}
				n := ssau.CalleeName(ci)
				if !(strings.HasSuffix(n, "Bucket).Put") || strings.HasSuffix(n, "Bucket).Delete")) {
					return
				}
				nput++
				inside := litClosure[f]
				if inside && f != lit {
					// a helper: every caller must itself be inside the transaction
					for _, s := range callSitesOf(f, all) {
						if !litClosure[s.Parent()] {
							inside = false
						}
					}
				}
				c.R.Check(inside, "C16-R3", fmt.Sprintf("WriteState: record write #%d inside the transaction", nput), c.pos(in), "inside db.Update's function (or a helper only it calls)", "a record is written outside the single transaction")
			})
		}
		if nput < 2 {
			c.R.Break("C16-R3: expected Put and Delete inside the transaction, found %d", nput)
		}
	}
	// every record of the batch reaches the value map: in the loop over mss no path back to the header skips the map update.
	// The loop may sit in WriteState or in a helper that is handed the batch (encodeStates(mss)); a counted loop
	// must visit every index.
	wsScope := pkgClosure(writeState)
	var batchParam ssa.Value
	for _, p := range writeState.Params {
		if sl, isSl := p.Type().Underlying().(*types.Slice); isSl && ssau.TypeIs(sl.Elem(), prog.Abs("cmd/mcrew"), "MachineState") {
			batchParam = p
		}
	}
	type batchLoop struct {
		f *ssa.Function
		l *flow.Loop
	}
	var loops []batchLoop
	for _, f := range wsScope {
		for _, l := range flow.Loops(f) {
			loops = append(loops, batchLoop{f, l})
		}
	}
	found, skips := false, false
	for _, bl := range loops {
		l := bl.l
		op := loopOperand(l)
		if op == nil {
			continue
		}
		if sl, ok := op.Type().Underlying().(*types.Slice); !ok || !ssau.TypeIs(sl.Elem(), prog.Abs("cmd/mcrew"), "MachineState") {
			continue
		}
		if bl.f != writeState {
			// in a helper: the slice it iterates over is the batch WriteState was given
			isBatch := false
			for _, d := range deepDefs(op, wsScope) {
				if batchParam != nil && d == batchParam {
					isBatch = true
				}
			}
			if !isBatch {
				continue
			}
		}
		found = true
		if !visitsEveryIndex(l, op) {
			skips = true // a counted loop that does not go over every index skips records just the same
			continue
		}
		var updBlocks = map[*ssa.BasicBlock]bool{}
		// calls of a helper that records the value unless it answers with an error (`if err := w.add(ms); err != nil`)
		var unlessErr []*ssa.Call
		for b := range l.Blocks {
			for _, in := range b.Instrs {
				if cl, ok := in.(*ssa.Call); ok {
					// the body of the loop may be a helper (a method of the struct that holds the value map)
					h := cl.Common().StaticCallee()
					inScope := false
					for _, g := range wsScope {
						inScope = inScope || (g == h && h != bl.f)
					}
					if !inScope {
						continue
					}
					kind, mus := c16HelperRecords(h, wsScope, []*ssa.Call{cl}, 0)
					if kind == 0 {
						continue
					}
					for _, m := range mus {
						if why := sharedBytesVia(m.mu.Value, l, m.via, 0); why != "" {
							c.R.Violate("C16-R3", "WriteState: each record's bytes are storage of its own", c.pos(m.mu), "the bytes recorded for one machine are a view of "+why+", which the next iteration overwrites before the transaction writes them: a batch of several machines stores one machine's state under another's id")
						} else {
							c.R.Discharge("C16-R3", "WriteState: each record's bytes are storage of its own", c.pos(m.mu), "the recorded value does not alias a buffer that outlives the iteration")
						}
					}
					updBlocks[b] = true
					if kind == 1 {
						unlessErr = append(unlessErr, cl)
					}
					continue
				}
				if mu, ok := in.(*ssa.MapUpdate); ok {
					// the bytes recorded for a machine are its own: not a view of storage that lives across iterations
					if why := sharedBytes(mu.Value, l, 0); why != "" {
						c.R.Violate("C16-R3", "WriteState: each record's bytes are storage of its own", c.pos(mu), "the bytes recorded for one machine are a view of "+why+", which the next iteration overwrites before the transaction writes them: a batch of several machines stores one machine's state under another's id")
					} else {
						c.R.Discharge("C16-R3", "WriteState: each record's bytes are storage of its own", c.pos(mu), "the recorded value does not alias a buffer that outlives the iteration")
					}
					if _, isMake := mu.Map.(*ssa.MakeMap); isMake {
						updBlocks[b] = true
					} else if cell := cellOf(mu.Map); cell != nil {
						for _, sv := range storedInto(cell) {
							if _, isMake := sv.(*ssa.MakeMap); isMake {
								updBlocks[b] = true
							}
						}
					} else {
						// a field of a value built here (`w := &stateWrites{vals: make(...)}`)
						// ... or, in a helper, a map the helper is handed
						ls := resolveThroughLocals(mu.Map, wsScope)
						all := len(ls) > 0
						for _, l := range ls {
							if _, isMake := l.(*ssa.MakeMap); !isMake {
								all = false
							}
						}
						if all {
							updBlocks[b] = true
						}
					}
				}
			}
		}
		// a helper that failed has not recorded: the ways on from its call under "its error is not nil" must leave the loop
		for _, cl := range unlessErr {
			avoid := map[*ssa.BasicBlock]bool{}
			for _, b := range bl.f.Blocks {
				if !l.Blocks[b] || (updBlocks[b] && b != cl.Block()) {
					avoid[b] = true
				}
			}
			delete(avoid, l.Header)
			var facts []flow.Fact
			for _, r := range ssau.Referrers(errResultOf(cl)) {
				if bo, isB := r.(*ssa.BinOp); isB && (bo.Op == token.NEQ || bo.Op == token.EQL) && (ssau.IsNilConst(bo.X) || ssau.IsNilConst(bo.Y)) {
					facts = append(facts, flow.Fact{Cond: bo, True: bo.Op == token.NEQ})
				}
			}
			if flow.ReachedUnder(cl.Block(), facts, avoid)[l.Header] {
				skips = true
			}
		}
		// from the body entry, the header must be unreachable when update blocks are removed
		body := l.Header.Succs[0]
		if !l.Blocks[body] {
			body = l.Header.Succs[1]
		}
		if updBlocks[body] {
			continue
		}
		seen := map[*ssa.BasicBlock]bool{}
		stack := []*ssa.BasicBlock{body}
		for len(stack) > 0 {
			b := stack[len(stack)-1]
			stack = stack[:len(stack)-1]
			if seen[b] || updBlocks[b] || !l.Blocks[b] {
				continue
			}
			seen[b] = true
			for _, s := range b.Succs {
				if s == l.Header {
					skips = true
				}
				stack = append(stack, s)
			}
		}
	}
	c.R.Check(found && !skips, "C16-R3", "WriteState: every given record is written", c.P.Pos(writeState.Pos()), "each iteration over the batch records a value (or returns an error)", "an iteration over the batch can skip its record: memory then advances for a machine whose record was not written")
	// no state of its own
	var fieldWrites []string
	for _, f := range ssau.WithAnon(writeState) {
		ssau.Instrs(f, func(in ssa.Instruction) {
			check := func(addr ssa.Value, what string) {
				n, fld, _, ok := ssau.FieldOf(addr)
				if ok && n != nil && n.Obj().Name() == "Storage" {
					fieldWrites = append(fieldWrites, what+" Storage."+fld+" at "+c.pos(in))
				}
			}
			switch x := in.(type) {
			case *ssa.Store:
				check(x.Addr, "store to")
			case *ssa.MapUpdate:
				if u, ok := x.Map.(*ssa.UnOp); ok && u.Op == token.MUL {
					check(u.X, "update of")
				}
			}
		})
	}
	sort.Strings(fieldWrites)
	c.R.Check(len(fieldWrites) == 0, "C16-R3", "WriteState: the store keeps no write-side state", c.P.Pos(writeState.Pos()), "no field of Storage is written", "WriteState updates its own state ("+strings.Join(fieldWrites, "; ")+"): what it remembers can differ from what the database holds after a failed transaction")
}

// c16Added: C16-R4.
func c16Added(c *Ctx) {
	add := c.fn("cmd/mcrew", "Service", "AddMachine")
	writeState := c.P.Func("cmd/mcrew", "Storage", "WriteState")
	if add == nil || writeState == nil {
		return
	}
	// AddMachine with its helpers; what the store does with the record inside WriteState is not AddMachine's business
	// (WriteState builds records of its own)
	scope := closureAvoiding(add, writeState)
	// the installed machine: the value stored into crew.Machines (by AddMachine or by a helper / method value it uses)
	var installed []ssa.Value
	for _, f := range scope {
		ssau.Instrs(f, func(in ssa.Instruction) {
			if mu, ok := in.(*ssa.MapUpdate); ok {
				if _, is := ssau.LoadOfField(mu.Map, prog.Abs("crew"), "Crew", "Machines"); is {
					installed = append(installed, mu.Value)
				}
			}
		})
	}
	// the record: a MachineState whose address reaches WriteState
	var rec *ssa.Alloc
	var cands []*ssa.Alloc
	for _, f := range scope {
		ssau.Instrs(f, func(in ssa.Instruction) {
			if al, ok := in.(*ssa.Alloc); ok && ssau.TypeIs(al.Type(), prog.Abs("cmd/mcrew"), "MachineState") {
				cands = append(cands, al)
			}
		})
	}
	written := map[ssa.Value]bool{}
	for _, f := range scope {
		ssau.Instrs(f, func(in ssa.Instruction) {
			cl, ok := in.(*ssa.Call)
			if !ok || !(cl.Common().StaticCallee() == writeState || isWriteIface(c, cl, writeState)) {
				return
			}
			for _, a := range cl.Common().Args {
				if sl, isSl := a.Type().Underlying().(*types.Slice); !isSl || !ssau.TypeIs(sl.Elem(), prog.Abs("cmd/mcrew"), "MachineState") {
					continue
				}
				for _, e := range sliceElems(a, scope) {
					written[e] = true
				}
			}
		})
	}
	for _, al := range cands {
		if written[al] {
			rec = al
		}
	}
	if rec == nil && len(cands) > 0 {
		rec = cands[len(cands)-1]
	}
	if len(installed) == 0 || rec == nil {
		c.R.Break("C16-R4: AddMachine's installed machine or written record not found")
		return
	}
	fieldOfRec := func(name string) []ssa.Value {
		var vals []ssa.Value
		st := rec.Type().Underlying().(*types.Pointer).Elem().Underlying().(*types.Struct)
		for _, f := range scope {
			ssau.Instrs(f, func(in ssa.Instruction) {
				sto, ok := in.(*ssa.Store)
				if !ok {
					return
				}
				fa, isFA := sto.Addr.(*ssa.FieldAddr)
				if !isFA || fa.X != ssa.Value(rec) || st.Field(fa.Field).Name() != name {
					return
				}
				vals = append(vals, resolveThroughLocals(sto.Val, scope)...)
			})
		}
		return vals
	}
	// installed.State.<name>: build the load expression's resolution by hand: the State objects stored into installed.State
	fieldOfInstalled := func(name string) []ssa.Value {
		var vals []ssa.Value
		var machines []*ssa.Alloc
		for _, iv := range installed {
			for _, d := range resolveThroughLocals(iv, scope) {
				if a, ok := d.(*ssa.Alloc); ok {
					machines = append(machines, a)
				}
			}
		}
		var states []*ssa.Alloc
		for _, f := range scope {
			ssau.Instrs(f, func(in ssa.Instruction) {
				sto, ok := in.(*ssa.Store)
				if !ok || !ssau.IsField(sto.Addr, prog.Abs("crew"), "Machine", "State") {
					return
				}
				_, _, base, _ := ssau.FieldOf(sto.Addr)
				for _, m := range machines {
					hit := base == ssa.Value(m)
					for _, bd := range deepDefs(base, scope) {
						if bd == ssa.Value(m) {
							hit = true
						}
					}
					if hit {
						for _, d := range deepDefs(sto.Val, scope) {
							if a, ok := d.(*ssa.Alloc); ok {
								states = append(states, a)
							}
						}
					}
				}
			})
		}
		for _, f := range scope {
			ssau.Instrs(f, func(in ssa.Instruction) {
				sto, ok := in.(*ssa.Store)
				if !ok || !ssau.IsField(sto.Addr, prog.Abs("core"), "State", name) {
					return
				}
				_, _, base, _ := ssau.FieldOf(sto.Addr)
				for _, s := range states {
					hit := base == ssa.Value(s)
					for _, bd := range deepDefs(base, scope) {
						if bd == ssa.Value(s) {
							hit = true
						}
					}
					if hit {
						vals = append(vals, resolveThroughLocals(sto.Val, scope)...)
					}
				}
			})
		}
		return vals
	}
	// (the resolution above is flow-insensitive: it cannot tell a state installed before the record was built from
	// one installed afterwards, so the order is checked separately) every assignment of the installed machine's State
	// comes before every read of that State that feeds the record
	{
		var stores []*ssa.Store
		var loads []ssa.Instruction
		for _, f := range scope {
			ssau.Instrs(f, func(in ssa.Instruction) {
				switch x := in.(type) {
				case *ssa.Store:
					if ssau.IsField(x.Addr, prog.Abs("crew"), "Machine", "State") {
						stores = append(stores, x)
					}
				case *ssa.UnOp:
					if x.Op == token.MUL && ssau.IsField(x.X, prog.Abs("crew"), "Machine", "State") {
						loads = append(loads, x)
					}
				}
			})
		}
		late := ""
		for _, st := range stores {
			for _, ld := range loads {
				if st.Parent() != ld.Parent() {
					continue
				}
				before := flow.InstrDominates(st, ld)
				after := st.Block() == ld.Block() && flow.Index(ld) < flow.Index(st) || st.Block() != ld.Block() && flow.Reachable(ld.Block(), st.Block(), nil)
				if !before && after {
					late = c.pos(st)
				}
			}
		}
		c.R.Check(late == "", "C16-R4", "AddMachine: the state is installed before the record is taken from it", c.pos(rec), "every assignment of Machine.State precedes the reads of it", "the machine's state is assigned again ("+late+") after the record to be written was taken from it: memory gets one state and the store another")
	}
	for _, name := range []string{"NodeName", "Bs"} {
		r, m := fieldOfRec(name), fieldOfInstalled(name)
		ok := len(r) > 0 && len(m) > 0 && leafSetKey(r) == leafSetKey(m)
		c.R.Check(ok, "C16-R4", "AddMachine: the record's "+name+" is the installed state's "+name, c.pos(rec), "both resolve to the same values (defaults included)", fmt.Sprintf("the %s written to the store (%d source values) is not the %s installed in memory (%d source values): after a restart the machine differs from the one that was running", name, len(r), name, len(m)))
	}
}

// c16FailedWrite: C16-R5.
func c16FailedWrite(c *Ctx) {
	proc := c.fn("cmd/mcrew", "Service", "Process")
	writeState := c.P.Func("cmd/mcrew", "Storage", "WriteState")
	if proc == nil || writeState == nil {
		return
	}
	// the write as Process sees it: the WriteState call itself, or the call of a helper whose error result is
	// non-nil whenever the WriteState it performs failed (failureKept)
	var ws *ssa.Call
	var inner []*ssa.Call // the WriteState calls inside such helpers
	var find func(f *ssa.Function, depth int) *ssa.Call
	find = func(f *ssa.Function, depth int) *ssa.Call {
		var out *ssa.Call
		ssau.Instrs(f, func(in ssa.Instruction) {
			cl, ok := in.(*ssa.Call)
			if !ok || out != nil {
				return
			}
			sc := cl.Common().StaticCallee()
			if sc == writeState || (sc == nil && isWriteIface(c, cl, writeState)) {
				out = cl
				return
			}
			if sc == nil || sc.Blocks == nil || depth > 2 || prog.PkgOf(sc) != "cmd/mcrew" || sc == proc {
				return
			}
			if w := find(sc, depth+1); w != nil && c16FailureKept(sc, w) {
				inner = append(inner, w)
				out = cl
			}
		})
		return out
	}
	ws = find(proc, 0)
	if ws == nil {
		c.R.Break("C16-R5: Process does not call WriteState (directly or through a helper that reports its failure)")
		return
	}
	// functions of the package that hand an emitted message on
	handsOn := map[*ssa.Function]bool{}
	emitSites := map[ssa.Instruction]bool{}
	for _, st := range emittedSendSites(c.P.FuncsIn("cmd/mcrew")) {
		emitSites[st.in] = true
	}
	isHandOver := func(in ssa.Instruction) bool {
		switch x := in.(type) {
		case *ssa.Send:
			_, is := ssau.LoadOfField(x.Chan, prog.Abs("cmd/mcrew"), "Service", "Emitted")
			return is
		case *ssa.Select:
			for _, st := range x.States {
				if st.Dir == types.SendOnly {
					if _, is := ssau.LoadOfField(st.Chan, prog.Abs("cmd/mcrew"), "Service", "Emitted"); is {
						return true
					}
				}
			}
		case *ssa.Go:
			if x.Call.StaticCallee() == proc {
				return true
			}
			if mc, ok := x.Call.Value.(*ssa.MakeClosure); ok {
				for _, g := range pkgClosure(mc.Fn.(*ssa.Function)) {
					if g == proc {
						return true
					}
				}
			}
		case *ssa.Call:
			if sc := x.Common().StaticCallee(); sc != nil && handsOn[sc] {
				return true
			}
			if emitSites[in] {
				return true // a helper that sends on the channel it is given, given Service.Emitted here
			}
		}
		return false
	}
	for changed := true; changed; {
		changed = false
		for _, f := range c.P.FuncsIn("cmd/mcrew") {
			if handsOn[f] || f == proc {
				continue
			}
			for _, g := range ssau.WithAnon(f) {
				ssau.Instrs(g, func(in ssa.Instruction) {
					if !handsOn[f] && isHandOver(in) {
						handsOn[f] = true
						changed = true
					}
				})
			}
		}
	}
	bad := ""
	nEdges := 0
	for i, w := range append([]*ssa.Call{ws}, inner...) {
		errv := errResultOf(w)
		if errv == nil {
			continue
		}
		for _, e := range nonNilEdges(errv) {
			if i == 0 {
				nEdges++
			}
			nEdges++
			region := flow.ReachableFrom(e, nil)
			region[e] = true
			for b := range region {
				for _, in := range b.Instrs {
					if isHandOver(in) {
						bad = c.pos(in)
					}
				}
			}
		}
	}
	c.R.Check(bad == "" && nEdges > 0, "C16-R5", "Process: after a failed write nothing emitted is handed on", c.pos(ws), "no send on Service.Emitted and no re-processing goroutine is reachable from the error edge of WriteState", "after WriteState failed, Process still hands emitted messages on ("+bad+"): the transitions that produced them were not committed, so other machines (and the host) act on something that, for the store and for memory, never happened")
}

// blameCaller: an instruction inside an unexported helper that has exactly one calling function is identified by
// that caller (transitively), so that moving code into or out of such a helper does not change which finding it is.
func blameCaller(f *ssa.Function, pkgFns []*ssa.Function) *ssa.Function {
	var rec func(f *ssa.Function, depth int) *ssa.Function
	rec = func(f *ssa.Function, depth int) *ssa.Function {
		if f == nil || depth > 4 || f.Parent() != nil || f.Object() == nil || f.Object().Exported() {
			return f
		}
		callers := map[*ssa.Function]bool{}
		for _, st := range callSitesOf(f, pkgFns) {
			top := st.Parent()
			for top.Parent() != nil {
				top = top.Parent()
			}
			callers[top] = true
		}
		if len(callers) != 1 {
			return f
		}
		for g := range callers {
			if g == f {
				return f
			}
			return rec(g, depth+1)
		}
		return f
	}
	return rec(f, 0)
}

// errResultOf: the error a call returns (the call itself, or the last element of its result tuple).
func errResultOf(cl *ssa.Call) ssa.Value {
	if tup, isTup := cl.Type().(*types.Tuple); isTup {
		return callResults(cl)[tup.Len()-1]
	}
	return cl
}

// c16FailureKept: helper f performs the write w; whenever w failed, f's last result is a non-nil error — every
// return reachable from an error edge of w returns w's error itself or an error made on the spot.
func c16FailureKept(f *ssa.Function, w *ssa.Call) bool {
	res := f.Signature.Results()
	if res.Len() == 0 || !types.Identical(res.At(res.Len()-1).Type(), types.Universe.Lookup("error").Type()) {
		return false
	}
	var errv ssa.Value = errResultOf(w)
	if w.Parent() != f {
		// the write is deeper: the call in f that leads to it
		errv = nil
		ssau.Instrs(f, func(in ssa.Instruction) {
			if cl, ok := in.(*ssa.Call); ok && cl.Common().StaticCallee() == w.Parent() {
				errv = errResultOf(cl)
			}
		})
	}
	if errv == nil {
		return false
	}
	edges := nonNilEdges(errv)
	if len(edges) == 0 {
		// returned as is?
		for _, b := range f.Blocks {
			if ret, ok := b.Instrs[len(b.Instrs)-1].(*ssa.Return); ok {
				if ret.Results[len(ret.Results)-1] != errv {
					return false
				}
			}
		}
		return true
	}
	for _, e := range edges {
		region := flow.ReachableFrom(e, nil)
		region[e] = true
		for b := range region {
			ret, ok := b.Instrs[len(b.Instrs)-1].(*ssa.Return)
			if !ok {
				continue
			}
			rv := ret.Results[len(ret.Results)-1]
			okRet := false
			for _, l := range deepDefs(rv, []*ssa.Function{f}) {
				if l == errv {
					okRet = true
					continue
				}
				if cl, isCall := l.(*ssa.Call); isCall {
					switch ssau.CalleeName(cl) {
					case "fmt.Errorf", "errors.New":
						okRet = true
						continue
					}
				}
				okRet = false
				break
			}
			if !okRet {
				return false
			}
		}
	}
	return true
}

// c16Writes classifies calls of cmd/mcrew as "the store write": Storage.WriteState itself (called directly or
// through an interface, resolved by the call graph), or an unexported helper of the package that performs such a
// write and keeps its failure (c16FailureKept).  helpers lists those helpers.
func c16Writes(c *Ctx, writeState *ssa.Function) (isWrite func(cl *ssa.Call) bool, helpers map[*ssa.Function]bool) {
	helpers = map[*ssa.Function]bool{}
	isWrite = func(cl *ssa.Call) bool {
		if cl == nil {
			return false
		}
		cm := cl.Common()
		if sc := cm.StaticCallee(); sc != nil {
			return sc == writeState || helpers[sc]
		}
		if cm.IsInvoke() && cm.Method.Name() == "WriteState" {
			for _, cal := range c.P.Callees(cl) {
				if cal == writeState {
					return true
				}
			}
		}
		return false
	}
	for changed, round := true, 0; changed && round < 4; round++ {
		changed = false
		for _, f := range c.P.FuncsIn("cmd/mcrew") {
			if helpers[f] || f == writeState || f.Parent() != nil || f.Object() == nil || f.Object().Exported() {
				continue
			}
			var w *ssa.Call
			ssau.Instrs(f, func(in ssa.Instruction) {
				if cl, ok := in.(*ssa.Call); ok && w == nil && isWrite(cl) {
					w = cl
				}
			})
			if w != nil && c16FailureKept(f, w) {
				helpers[f] = true
				changed = true
			}
		}
	}
	return
}

// isWriteIface: an interface call of WriteState that the call graph resolves to Storage.WriteState.
func isWriteIface(c *Ctx, cl *ssa.Call, writeState *ssa.Function) bool {
	if !cl.Common().IsInvoke() || cl.Common().Method.Name() != "WriteState" {
		return false
	}
	for _, cal := range c.P.Callees(cl) {
		if cal == writeState {
			return true
		}
	}
	return false
}

// muVia is a map update found in a helper, with the chain of calls that leads to it from the loop.
type muVia struct {
	mu  *ssa.MapUpdate
	via []*ssa.Call
}

// c16HelperRecords: does helper h (entered through the calls via) put a value into a value map that WriteState
// made (a MakeMap, found through parameters and fields of structs built in scope)?  2: on every way through it;
// 1: on every way that does not end in a return of a non-nil error as last result; 0: otherwise.  Also the map
// updates found (for the check of what is recorded).
func c16HelperRecords(h *ssa.Function, scope []*ssa.Function, via []*ssa.Call, depth int) (int, []muVia) {
	if h == nil || h.Blocks == nil || depth > 2 {
		return 0, nil
	}
	inScope := func(g *ssa.Function) bool {
		for _, f := range scope {
			if f == g {
				return g != h
			}
		}
		return false
	}
	errType := types.Universe.Lookup("error").Type()
	// nonNilAt: the error v is known not to be nil where block b returns it
	nonNilAt := func(v ssa.Value, b *ssa.BasicBlock) bool {
		if !ssau.IsNilConst(v) && provablyNonNilErr(v) {
			return true
		}
		for _, f := range flow.FactsAt(b) {
			if bo, isB := f.Cond.(*ssa.BinOp); isB && (bo.Op == token.NEQ) == f.True && (bo.Op == token.NEQ || bo.Op == token.EQL) {
				if (bo.X == v && ssau.IsNilConst(bo.Y)) || (bo.Y == v && ssau.IsNilConst(bo.X)) {
					return true
				}
			}
		}
		return false
	}
	failsAt := func(b *ssa.BasicBlock) bool {
		ret, ok := b.Instrs[len(b.Instrs)-1].(*ssa.Return)
		if !ok || len(ret.Results) == 0 {
			return false
		}
		last := ret.Results[len(ret.Results)-1]
		return types.Identical(last.Type(), errType) && nonNilAt(last, b)
	}
	upd := map[*ssa.BasicBlock]bool{}
	var mus []muVia
	var partial []*ssa.Call
	for _, b := range h.Blocks {
		for _, in := range b.Instrs {
			switch x := in.(type) {
			case *ssa.MapUpdate:
				ls := resolveThroughLocals(x.Map, scope)
				all := len(ls) > 0
				for _, l := range ls {
					if _, isMake := l.(*ssa.MakeMap); !isMake {
						all = false
					}
				}
				if all {
					upd[b] = true
					mus = append(mus, muVia{x, via})
				}
			case *ssa.Call:
				if g := x.Common().StaticCallee(); g != nil && inScope(g) {
					k, sub := c16HelperRecords(g, scope, append(append([]*ssa.Call{}, via...), x), depth+1)
					if k == 0 {
						continue
					}
					mus = append(mus, sub...)
					if k == 2 {
						upd[b] = true
					} else {
						partial = append(partial, x)
					}
				}
			}
		}
	}
	if len(mus) == 0 {
		return 0, nil
	}
	// a nested helper that records unless it fails: the ways on from its call under "its error is not nil" that do
	// not record otherwise must end in this helper failing too
	for _, cl := range partial {
		var facts []flow.Fact
		for _, r := range ssau.Referrers(errResultOf(cl)) {
			if bo, isB := r.(*ssa.BinOp); isB && (bo.Op == token.NEQ || bo.Op == token.EQL) && (ssau.IsNilConst(bo.X) || ssau.IsNilConst(bo.Y)) {
				facts = append(facts, flow.Fact{Cond: bo, True: bo.Op == token.NEQ})
			}
		}
		ok := true
		for b := range flow.ReachedUnder(cl.Block(), facts, upd) {
			if _, isRet := b.Instrs[len(b.Instrs)-1].(*ssa.Return); isRet && !failsAt(b) {
				ok = false
			}
		}
		if _, isRet := cl.Block().Instrs[len(cl.Block().Instrs)-1].(*ssa.Return); isRet && !failsAt(cl.Block()) {
			ok = false
		}
		if ok {
			upd[cl.Block()] = true
		}
	}
	kind := 2
	entry := h.Blocks[0]
	for _, b := range h.Blocks {
		if _, isRet := b.Instrs[len(b.Instrs)-1].(*ssa.Return); !isRet || b == h.Recover {
			continue
		}
		if upd[entry] || upd[b] || !flow.Reachable(entry, b, upd) {
			continue
		}
		if failsAt(b) {
			kind = 1
		} else {
			return 0, mus
		}
	}
	return kind, mus
}

// sharedBytes: if v is (a sub-slice of) the contents of a buffer or array that is created outside loop l, a description
// of that storage; "" otherwise.  A value that a helper of the package returns is judged inside the helper: what the
// helper makes itself is made once per call, and its parameters are the arguments of the call.
func sharedBytes(v ssa.Value, l *flow.Loop, depth int) string {
	return sharedBytesVia(v, l, nil, depth)
}

// sharedBytesVia: v lives in the function entered through the chain of calls `via` (the first one is in l's function).
func sharedBytesVia(v ssa.Value, l *flow.Loop, via []*ssa.Call, depth int) string {
	if v == nil || depth > 12 {
		return ""
	}
	// a parameter of a helper is the argument of the call
	for len(via) > 0 {
		p, isP := v.(*ssa.Parameter)
		if !isP {
			break
		}
		last := via[len(via)-1]
		idx := -1
		for i, q := range p.Parent().Params {
			if q == p {
				idx = i
			}
		}
		if idx < 0 || idx >= len(last.Common().Args) {
			return ""
		}
		v, via = last.Common().Args[idx], via[:len(via)-1]
	}
	// made inside the iteration: in the loop itself, or in a helper that is called in the loop
	inLoop := func(b *ssa.BasicBlock) bool {
		if len(via) > 0 {
			return l.Blocks[via[0].Block()]
		}
		return l.Blocks[b]
	}
	helper := func(cl *ssa.Call) *ssa.Function {
		sc := cl.Common().StaticCallee()
		if sc == nil || sc.Blocks == nil || len(via) > 3 || prog.PkgOf(sc) != prog.PkgOf(cl.Parent()) {
			return nil
		}
		for _, c2 := range via {
			if c2.Common().StaticCallee() == sc {
				return nil
			}
		}
		return sc
	}
	results := func(cl *ssa.Call, sc *ssa.Function, idx int) string {
		for _, b := range sc.Blocks {
			if ret, ok := b.Instrs[len(b.Instrs)-1].(*ssa.Return); ok && idx < len(ret.Results) {
				if w := sharedBytesVia(ret.Results[idx], l, append(append([]*ssa.Call{}, via...), cl), depth+1); w != "" {
					return w
				}
			}
		}
		return ""
	}
	switch x := v.(type) {
	case *ssa.Phi:
		for _, e := range x.Edges {
			if w := sharedBytesVia(e, l, via, depth+1); w != "" {
				return w
			}
		}
	case *ssa.Slice:
		if al, ok := x.X.(*ssa.Alloc); ok && !inLoop(al.Block()) {
			return "an array made before the loop (" + al.Comment + ")"
		}
		return sharedBytesVia(x.X, l, via, depth+1)
	case *ssa.UnOp:
		if al, ok := x.X.(*ssa.Alloc); ok {
			for _, sv := range storedInto(al) {
				if w := sharedBytesVia(sv, l, via, depth+1); w != "" {
					return w
				}
			}
			// the variable may be filled by a helper that is handed its address (`encode(ms, &js)`)
			for _, r := range ssau.Referrers(al) {
				cl, isCall := r.(*ssa.Call)
				if !isCall {
					continue
				}
				sc := helper(cl)
				if sc == nil {
					continue
				}
				for i, a := range cl.Common().Args {
					if a != ssa.Value(al) || i >= len(sc.Params) {
						continue
					}
					for _, sv := range storedInto(sc.Params[i]) {
						if w := sharedBytesVia(sv, l, append(append([]*ssa.Call{}, via...), cl), depth+1); w != "" {
							return w
						}
					}
				}
			}
		}
	case *ssa.Extract:
		if cl, ok := x.Tuple.(*ssa.Call); ok {
			if sc := helper(cl); sc != nil {
				return results(cl, sc, x.Index)
			}
		}
		return sharedBytesVia(x.Tuple, l, via, depth+1)
	case *ssa.Call:
		if sc := helper(x); sc != nil && sc.Signature.Results().Len() == 1 {
			return results(x, sc, 0)
		}
		n := ssau.CalleeName(x)
		switch {
		case n == "(*bytes.Buffer).Bytes" || n == "(*bytes.Buffer).Next" || n == "(*bufio.Scanner).Bytes":
			recv, rvia := x.Common().Args[0], via
			for len(rvia) > 0 {
				p, isP := recv.(*ssa.Parameter)
				if !isP {
					break
				}
				last := rvia[len(rvia)-1]
				idx := -1
				for i, q := range p.Parent().Params {
					if q == p {
						idx = i
					}
				}
				if idx < 0 || idx >= len(last.Common().Args) {
					break
				}
				recv, rvia = last.Common().Args[idx], rvia[:len(rvia)-1]
			}
			fresh := func(b *ssa.BasicBlock) bool {
				if len(rvia) > 0 {
					return l.Blocks[rvia[0].Block()]
				}
				return l.Blocks[b]
			}
			if al, ok := recv.(*ssa.Alloc); ok && fresh(al.Block()) {
				return ""
			}
			if cl, ok := recv.(*ssa.Call); ok && fresh(cl.Block()) {
				return ""
			}
			return "a buffer that is kept across iterations (" + n + ")"
		case strings.HasPrefix(n, "bytes.Trim") || n == "bytes.TrimSpace":
			return sharedBytesVia(x.Common().Args[0], l, via, depth+1)
		}
	}
	return ""
}

// visitsEveryIndex: loop l goes over every element of the slice op — a range loop, or a counted loop whose index
// starts at the first element, advances by one and stops only at len(op).
func visitsEveryIndex(l *flow.Loop, op ssa.Value) bool {
	for _, in := range l.Header.Instrs {
		if _, ok := in.(*ssa.Next); ok {
			return true
		}
	}
	iff, isIf := l.Header.Instrs[len(l.Header.Instrs)-1].(*ssa.If)
	if !isIf || !l.Blocks[l.Header.Succs[0]] || l.Blocks[l.Header.Succs[1]] {
		return false
	}
	cond, isB := iff.Cond.(*ssa.BinOp)
	if !isB || cond.Op != token.LSS {
		return false
	}
	isLen := false
	if cl, ok := cond.Y.(*ssa.Call); ok {
		if bi, isBI := cl.Common().Value.(*ssa.Builtin); isBI && bi.Name() == "len" && cl.Common().Args[0] == op {
			isLen = true
		}
	}
	if !isLen {
		return false
	}
	plusOne := func(v ssa.Value, phi *ssa.Phi) bool {
		bo, ok := v.(*ssa.BinOp)
		if !ok || bo.Op != token.ADD || bo.X != ssa.Value(phi) {
			return false
		}
		k, isK := ssau.ConstInt(bo.Y)
		return isK && k == 1
	}
	for _, in := range l.Header.Instrs {
		phi, ok := in.(*ssa.Phi)
		if !ok {
			continue
		}
		var init ssa.Value
		step := true
		for i, e := range phi.Edges {
			if l.Blocks[l.Header.Preds[i]] {
				if !plusOne(e, phi) {
					step = false
				}
			} else {
				init = e
			}
		}
		if !step || init == nil {
			continue
		}
		k, isK := ssau.ConstInt(init)
		if !isK {
			continue
		}
		// the index at which the element is read, and which is compared with the length
		var isIdx func(v ssa.Value) bool
		switch k {
		case -1: // `for _, x := range op`: the element is op[i+1]
			isIdx = func(v ssa.Value) bool { return plusOne(v, phi) }
		case 0: // `for i := 0; i < len(op); i++`: the element is op[i]
			isIdx = func(v ssa.Value) bool { return v == ssa.Value(phi) }
		default:
			continue
		}
		if !isIdx(cond.X) {
			continue
		}
		for b := range l.Blocks {
			for _, in2 := range b.Instrs {
				if ia, ok := in2.(*ssa.IndexAddr); ok && ia.X == op && isIdx(ia.Index) {
					return true
				}
			}
		}
	}
	return false
}

// closureAvoiding: pkgClosure(fn) without descending into stop (stop itself and what only it reaches are left out).
func closureAvoiding(fn, stop *ssa.Function) []*ssa.Function {
	pk := prog.PkgOf(fn)
	seen := map[*ssa.Function]bool{stop: true}
	var out []*ssa.Function
	var visit func(f *ssa.Function)
	visit = func(f *ssa.Function) {
		if f == nil || f.Blocks == nil || seen[f] || prog.PkgOf(f) != pk {
			return
		}
		seen[f] = true
		out = append(out, f)
		for _, an := range f.AnonFuncs {
			visit(an)
		}
		ssau.Instrs(f, func(in ssa.Instruction) {
			if ci, ok := in.(ssa.CallInstruction); ok {
				if sc := ci.Common().StaticCallee(); sc != nil {
					visit(sc)
				}
			}
			if mc, ok := in.(*ssa.MakeClosure); ok {
				visit(mc.Fn.(*ssa.Function))
			}
		})
	}
	visit(fn)
	return out
}

// sliceElems: the leaf definitions of the elements of a slice that is built in scope from a literal
// (`[]*T{a, b}`: an array whose cells are stored once each), possibly extended by append.
func sliceElems(v ssa.Value, scope []*ssa.Function) []ssa.Value {
	var out []ssa.Value
	seen := map[ssa.Value]bool{}
	var rec func(v ssa.Value, depth int)
	rec = func(v ssa.Value, depth int) {
		if v == nil || seen[v] || depth > 6 {
			return
		}
		seen[v] = true
		for _, d := range deepDefs(v, scope) {
			switch x := d.(type) {
			case *ssa.Slice:
				rec(x.X, depth+1)
			case *ssa.Alloc:
				for _, r := range ssau.Referrers(x) {
					ia, ok := r.(*ssa.IndexAddr)
					if !ok {
						continue
					}
					for _, r2 := range ssau.Referrers(ia) {
						if st, isSt := r2.(*ssa.Store); isSt && st.Addr == ssa.Value(ia) {
							out = append(out, deepDefs(st.Val, scope)...)
						}
					}
				}
			case *ssa.Call:
				if bi, ok := x.Common().Value.(*ssa.Builtin); ok && bi.Name() == "append" {
					for _, a := range x.Common().Args {
						rec(a, depth+1)
					}
				}
			}
		}
	}
	rec(v, 0)
	return out
}

// c16RunSites: the instructions from which f is run, if they are all known: the static calls of an unexported
// function; for a function literal or a method used as a method value (x.m), the calls of the parameter of the
// in-package function it is handed to (or the call of the value itself).  ok is false when f can be run from
// somewhere that is not seen: an exported function, a function value that is stored or handed on, go and defer.
func c16RunSites(c *Ctx, f *ssa.Function, fns []*ssa.Function) (sites []ssa.Instruction, ok bool) {
	if f.Parent() == nil && (f.Object() == nil || f.Object().Exported()) {
		return nil, false
	}
	ok = true
	// the values that stand for f: f itself, closures of f, closures of its bound-method wrapper
	isF := func(v ssa.Value) bool {
		switch x := v.(type) {
		case *ssa.Function:
			return x == f
		case *ssa.MakeClosure:
			g := x.Fn.(*ssa.Function)
			if g == f {
				return true
			}
			if g.Synthetic != "" && g.Name() == f.Name()+"$bound" {
				is := false
				ssau.Instrs(g, func(in ssa.Instruction) {
					if ci, isC := in.(ssa.CallInstruction); isC && ci.Common().StaticCallee() == f {
						is = true
					}
				})
				return is
			}
		}
		return false
	}
	var all []*ssa.Function
	for _, g := range fns {
		all = append(all, ssau.WithAnon(g)...)
	}
	for _, g := range all {
		ssau.Instrs(g, func(in ssa.Instruction) {
			if _, isMC := in.(*ssa.MakeClosure); isMC {
				return // judged where the closure is used
			}
			if ci, isCI := in.(ssa.CallInstruction); isCI && ci.Common().IsInvoke() && f.Signature.Recv() != nil && ci.Common().Method.Name() == f.Name() {
				// a call through an interface that the call graph resolves to f
				for _, cal := range c.P.Callees(ci) {
					if cal != f {
						continue
					}
					if cl, isCall := in.(*ssa.Call); isCall {
						sites = append(sites, cl)
					} else {
						ok = false
					}
				}
			}
			used := false
			for _, op := range in.Operands(nil) {
				if *op != nil && isF(*op) {
					used = true
				}
			}
			if !used {
				return
			}
			cl, isCall := in.(*ssa.Call)
			if !isCall {
				ok = false // go, defer, stored, returned, sent ...
				return
			}
			if isF(cl.Common().Value) {
				sites = append(sites, cl)
			}
			for i, a := range cl.Common().Args {
				if !isF(a) {
					continue
				}
				h := cl.Common().StaticCallee()
				if h == nil || h.Blocks == nil || prog.PkgOf(h) != prog.PkgOf(f) || i >= len(h.Params) {
					ok = false
					continue
				}
				for _, r := range ssau.Referrers(h.Params[i]) {
					switch u := r.(type) {
					case *ssa.DebugRef:
					case *ssa.Call:
						if u.Common().Value != ssa.Value(h.Params[i]) {
							ok = false
						}
						for _, a2 := range u.Common().Args {
							if a2 == ssa.Value(h.Params[i]) {
								ok = false
							}
						}
						sites = append(sites, u)
					default:
						ok = false
					}
				}
			}
		})
	}
	// a closure that is made but whose uses are not calls or arguments (bound to a variable, stored in a field)
	for _, g := range all {
		ssau.Instrs(g, func(in ssa.Instruction) {
			mc, isMC := in.(*ssa.MakeClosure)
			if !isMC || !isF(mc) {
				return
			}
			for _, r := range ssau.Referrers(mc) {
				switch r.(type) {
				case *ssa.Call, *ssa.DebugRef:
				default:
					ok = false
				}
			}
		})
	}
	return sites, ok
}

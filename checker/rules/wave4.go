package rules

import (
	"fmt"
	"go/constant"
	"go/token"
	"go/types"
	"strings"

	"golang.org/x/tools/go/ssa"

	"sheensverif/internal/flow"
	"sheensverif/internal/prog"
	"sheensverif/internal/ssau"
)

// Rules added after the fourth wave of seeded changes: each a necessary condition that had not been stated.

// c10HostProps: C10-R4.  The step properties a host hands to Walk are made for that call: a map that outlives the
// call carries one machine's properties (the captain's live crew) over to the next machine's scripts.
func c10HostProps(c *Ctx) {
	walk := c.P.Func("core", "Spec", "Walk")
	runM := c.fn("sio", "Crew", "RunMachine")
	if walk == nil || runM == nil {
		return
	}
	scope := pkgClosure(runM)
	n := 0
	for _, f := range scope {
		if prog.PkgOf(f) != "sio" {
			continue
		}
		ssau.Instrs(f, func(in ssa.Instruction) {
			cl, ok := in.(*ssa.Call)
			if !ok {
				return
			}
			isWalk := cl.Common().StaticCallee() == walk
			if cl.Common().IsInvoke() && cl.Common().Method.Name() == "Walk" {
				for _, cal := range c.P.Callees(cl) {
					if cal == walk {
						isWalk = true
					}
				}
			}
			if !isWalk {
				return
			}
			var props ssa.Value
			for _, a := range cl.Common().Args {
				if ssau.TypeIs(a.Type(), prog.Abs("core"), "StepProps") {
					props = a
				}
			}
			if props == nil {
				return
			}
			n++
			bad := ""
			// through helper results and parameters, and through the fields of a struct that is local to the call
			ds := resolveThroughLocals(props, scope)
			for _, d := range ds {
				switch d.(type) {
				case *ssa.MakeMap:
				default:
					if !ssau.IsNilConst(d) {
						bad = d.String() + " (" + c.posv(d) + ")"
					}
				}
			}
			c.R.Check(bad == "" && len(ds) > 0, "C10-R4", fmt.Sprintf("%s: the step properties of a walk are made for that walk #%d", fname(blameCaller(f, scope)), n), c.pos(cl), "a map made in this call", "the properties handed to the scripts of one machine can be "+bad+", which outlives the call: entries put there for another machine (the captain's live crew) are seen by this machine's scripts")
		})
	}
	if n == 0 {
		c.R.Break("C10-R4: RunMachine does not reach core Spec.Walk with step properties")
	}
}

// c11HostContexts: C11-R8.  A host function that is given a context hands on that context, or one derived from
// it with a cancel, a deadline or a value — never one whose cancellation has been cut off (context.WithoutCancel)
// and never a background context: the scripts started from there could not be stopped.
func c11HostContexts(c *Ctx) {
	n := 0
	for _, f := range c.P.FuncsIn("sio", "cmd/mcrew", "cmd/msimple", "cmd/sheensio", "crew") {
		top := f
		for top.Parent() != nil {
			top = top.Parent()
		}
		hasCtx := false
		for _, p := range top.Params {
			if isContext(p.Type()) {
				hasCtx = true
			}
		}
		if !hasCtx {
			continue
		}
		ssau.Instrs(f, func(in ssa.Instruction) {
			ci, ok := in.(ssa.CallInstruction)
			if !ok {
				return
			}
			name := ssau.CalleeName(ci)
			if name == "context.WithoutCancel" {
				n++
				c.R.Violate("C11-R8", fmt.Sprintf("%s: context handed on #%d", fname(top), n), c.pos(in), "the cancellation of the given context is cut off (context.WithoutCancel): actions and guards run from here cannot be stopped by the caller's deadline or cancellation")
				return
			}
			// a context operand of a call into the repository
			var callee *ssa.Function
			if sc := ci.Common().StaticCallee(); sc != nil {
				callee = sc
			}
			if callee == nil || !prog.InRepo(callee) {
				return
			}
			for _, a := range ci.Common().Args {
				if !isContext(a.Type()) {
					continue
				}
				n++
				bad := ""
				for _, d := range deepDefs(a, []*ssa.Function{f}) {
					if cl, isC := d.(*ssa.Call); isC {
						switch ssau.CalleeName(cl) {
						case "context.Background", "context.TODO", "context.WithoutCancel":
							bad = ssau.CalleeName(cl)
						}
					}
				}
				c.R.Check(bad == "", "C11-R8", fmt.Sprintf("%s: context handed on #%d", fname(top), n), c.pos(in), "the given context or one derived from it", "a function that was given a context hands on "+bad+"() instead: the caller's deadline or cancellation does not reach the scripts run from here")
			}
		})
	}
	if n == 0 {
		c.R.Break("C11-R8: no context is handed on in the host packages")
	}
}

// c14RunMachines: C14-R6.  Once a machine has been walked, RunMachines answers with the walks: an error return
// after that point makes ProcessMsg drop what the other machines emitted although they have moved.
func c14RunMachines(c *Ctx) {
	rms := c.fn("sio", "Crew", "RunMachines")
	rm := c.P.Func("sio", "Crew", "RunMachine")
	if rms == nil || rm == nil {
		return
	}
	// a walk is a call of RunMachine or of a helper of the package that (transitively) calls it
	var runs []*ssa.Call
	for _, ws := range c14WalkSites(rms, rm, 0) {
		runs = append(runs, ws.call)
	}
	if len(runs) == 0 {
		c.R.Break("C14-R6: RunMachines does not call RunMachine")
		return
	}
	bad := ""
	for _, b := range rms.Blocks {
		ret, ok := b.Instrs[len(b.Instrs)-1].(*ssa.Return)
		if !ok || len(ret.Results) != 2 || provablyNil(ret.Results[1], b) {
			continue
		}
		for _, r := range runs {
			if r.Block() == b || flow.Reachable(r.Block(), b, nil) {
				bad = c.pos(ret)
			}
		}
	}
	c.R.Check(bad == "", "C14-R6", "RunMachines: no error once a machine has been walked", c.pos(runs[0]), "every return reachable from a walk returns a nil error", "RunMachines can return an error after machines have been walked ("+bad+"): ProcessMsg then returns without feeding back or reporting what the machines that did move have emitted")
}

// c19Reader: C19-R6.  The buffered reader of the subprocess's output lives as long as the session: a reader made
// per step (or per line) throws away what the previous one had buffered, and a forbidden message in there is missed.
func c19Reader(c *Ctx, run *ssa.Function) {
	n := 0
	for _, f := range ssau.WithAnon(run) {
		ssau.Instrs(f, func(in ssa.Instruction) {
			cl, ok := in.(*ssa.Call)
			if !ok {
				return
			}
			name := ssau.CalleeName(cl)
			if name != "bufio.NewReader" && name != "bufio.NewReaderSize" && name != "bufio.NewScanner" {
				return
			}
			// of the subprocess's stdout
			isOut := false
			for _, d := range varOrigins(run, cl.Common().Args[0]) {
				if ex, isEx := d.(*ssa.Extract); isEx {
					if c2, isC := ex.Tuple.(*ssa.Call); isC && strings.HasSuffix(ssau.CalleeName(c2), ".StdoutPipe") {
						isOut = true
					}
				}
			}
			if !isOut {
				return
			}
			n++
			ok2 := f == run && !flow.InCycle(cl.Block())
			c.R.Check(ok2, "C19-R6", fmt.Sprintf("Run: one reader of the subprocess's output for the whole session #%d", n), c.pos(cl), "made once, in Run itself, outside every loop", "the buffered reader of the subprocess's output is made per step (in a loop or in the per-step goroutine): lines the previous reader had already buffered are lost at the step boundary, so a forbidden message among them goes unnoticed")
		})
	}
	if n == 0 {
		c.R.Break("C19-R6: Run does not read the subprocess's output through a buffered reader")
	}
}

// c20Extras: three more necessary conditions of faithful renderings and analysis.
func c20Extras(c *Ctx, mer, ana *ssa.Function, withHelpers func(*ssa.Function) []*ssa.Function) {
	// R5: Analyze depends on nothing but the spec it is given: no package-level storage in its closure
	bad := ""
	for _, f := range withHelpers(ana) {
		ssau.Instrs(f, func(in ssa.Instruction) {
			for _, op := range in.Operands(nil) {
				if op == nil || *op == nil {
					continue
				}
				g, isG := (*op).(*ssa.Global)
				if !isG || g.Pkg == nil || prog.Rel(g.Pkg.Pkg.Path()) != "tools" {
					continue
				}
				switch g.Type().Underlying().(*types.Pointer).Elem().Underlying().(type) {
				case *types.Basic:
				default:
					bad = g.Name() + " at " + c.pos(in)
				}
			}
		})
	}
	c.R.Check(bad == "", "C20-R5", "Analyze: the result depends on the given spec only", c.P.Pos(ana.Pos()), "no package-level storage is used in Analyze's closure", "Analyze uses package-level storage ("+bad+"): what it answers for a spec can be what it computed for another (or for the same spec before it was edited)")

	// R6: the node skipped by Mermaid's loop over all nodes is the node that was processed before the loop
	var fns = withHelpers(mer)
	var edge *ssa.Call
	var proc *ssa.Function
	for _, f := range fns {
		for _, cl := range fprintfCalls(f, " --> ") {
			edge, proc = cl, f
		}
	}
	if edge == nil || proc == mer {
		return
	}
	// call sites of the function that processes one node
	type site struct {
		in   ssa.CallInstruction
		name ssa.Value
	}
	var sites []site
	nameIdx := -1
	for i, p := range proc.Params {
		if b, isB := p.Type().Underlying().(*types.Basic); isB && b.Kind() == types.String && nameIdx < 0 {
			nameIdx = i
		}
	}
	for _, f := range fns {
		ssau.Instrs(f, func(in ssa.Instruction) {
			ci, ok := in.(ssa.CallInstruction)
			if !ok {
				return
			}
			isProc := ci.Common().StaticCallee() == proc
			viaBound := false // called through a method value (`process := mw.process`): the receiver is not among the operands
			isProcValue := func(d ssa.Value) bool {
				mc, isMC := d.(*ssa.MakeClosure)
				if !isMC {
					return false
				}
				if mc.Fn == ssa.Value(proc) {
					return true
				}
				if w, isF := mc.Fn.(*ssa.Function); isF && w != proc && c11BoundMethod(w) == proc {
					viaBound = true
					return true
				}
				return false
			}
			if !isProc && !ci.Common().IsInvoke() {
				if _, isFn := ci.Common().Value.(*ssa.Function); !isFn {
					for _, d := range varOrigins(mer, ci.Common().Value) {
						if isProcValue(d) {
							isProc = true
						}
					}
					// ... or the function handed to a helper that walks the nodes
					for _, d := range deepDefs(ci.Common().Value, append([]*ssa.Function{mer}, fns...)) {
						if isProcValue(d) {
							isProc = true
						}
						for _, d2 := range varOrigins(mer, d) {
							if isProcValue(d2) {
								isProc = true
							}
						}
					}
				}
			}
			if !isProc {
				return
			}
			args := ci.Common().Args
			k := nameIdx
			if viaBound && proc.Signature.Recv() != nil {
				k--
			}
			if ci.Common().StaticCallee() == nil && proc.Parent() != nil {
				// a call of a function literal: operands are its parameters
			}
			if k >= 0 && k < len(args) {
				sites = append(sites, site{ci, args[k]})
			}
		})
	}
	// the function that walks the nodes: Mermaid itself, or the helper it hands the per-node function to
	host := mer
	for _, s := range sites {
		if flow.InCycle(s.in.Block()) {
			host = s.in.Parent()
		}
	}
	var inLoop, before []site
	for _, s := range sites {
		if s.in.Parent() == host && flow.InCycle(s.in.Block()) {
			inLoop = append(inLoop, s)
		} else if s.in.Parent() == host {
			before = append(before, s)
		}
	}
	if len(inLoop) != 1 {
		return
	}
	L := flow.InnermostLoop(flow.Loops(host), inLoop[0].in.Block())
	if L == nil {
		return
	}
	okSkip, why := true, ""
	// every way round the loop that bypasses the call is guarded by `name == K` with K the name processed before
	for _, latch := range L.Latch {
		_ = latch
	}
	callBlock := inLoop[0].in.Block()
	body := L.Header.Succs[0]
	if !L.Blocks[body] {
		body = L.Header.Succs[1]
	}
	skips := false
	seen := map[*ssa.BasicBlock]bool{}
	var skipEdges [][2]*ssa.BasicBlock
	stack := []*ssa.BasicBlock{body}
	for len(stack) > 0 {
		b := stack[len(stack)-1]
		stack = stack[:len(stack)-1]
		if seen[b] || b == callBlock || !L.Blocks[b] {
			continue
		}
		seen[b] = true
		for _, s := range b.Succs {
			if s == L.Header {
				skips = true
				skipEdges = append(skipEdges, [2]*ssa.BasicBlock{b, s})
			}
			stack = append(stack, s)
		}
	}
	if skips {
		for _, e := range skipEdges {
			var k ssa.Value
			for _, ft := range append(flow.FactsAt(e[0]), flow.EdgeFacts(e[0], e[1])...) {
				bo, isB := ft.Cond.(*ssa.BinOp)
				if !isB || !((bo.Op == token.EQL && ft.True) || (bo.Op == token.NEQ && !ft.True)) {
					continue
				}
				if bo.X == inLoop[0].name {
					k = bo.Y
				} else if bo.Y == inLoop[0].name {
					k = bo.X
				}
			}
			if k == nil {
				okSkip, why = false, "a node is skipped without a test of its name"
				continue
			}
			match := false
			for _, b := range before {
				if b.name == k {
					match = true
				}
				ck, isCK := k.(*ssa.Const)
				cb, isCB := b.name.(*ssa.Const)
				if isCK && isCB && ck.Value != nil && cb.Value != nil && constant.Compare(ck.Value, token.EQL, cb.Value) {
					match = true
				}
			}
			if !match {
				okSkip, why = false, "the loop over all nodes skips the node named "+k.String()+", which is not (always) the node processed before the loop"
			}
		}
	}
	c.R.Check(okSkip, "C20-R6", "Mermaid: the node skipped in the loop is the node rendered first", c.pos(inLoop[0].in), "the loop skips exactly the name that was processed before it", why+": that node and the edges of its branches are missing from the rendering (and the node rendered first is rendered twice)")
}

// c20OutputFiles: C20-R7.  cmd/spectool writes a rendering into a file that starts empty: a file opened for writing
// without truncation keeps the tail of a longer, earlier rendering after the new one.
func c20OutputFiles(c *Ctx) {
	n := 0
	for _, f := range c.P.FuncsIn("cmd/spectool", "tools") {
		ssau.Instrs(f, func(in ssa.Instruction) {
			cl, ok := in.(*ssa.Call)
			if !ok || ssau.CalleeName(cl) != "os.OpenFile" || len(cl.Common().Args) < 2 {
				return
			}
			fl, isC := ssau.ConstInt(cl.Common().Args[1])
			if !isC {
				return
			}
			const (
				oWRONLY = 0x1
				oRDWR   = 0x2
				oAPPEND = 0x400
				oCREATE = 0x40
				oEXCL   = 0x80
				oTRUNC  = 0x200
			)
			if fl&(oWRONLY|oRDWR) == 0 || fl&oCREATE == 0 {
				return
			}
			n++
			c.R.Check(fl&(oTRUNC|oEXCL|oAPPEND) != 0, "C20-R7", fmt.Sprintf("%s: output file starts empty #%d", fname(f), n), c.pos(cl), "O_TRUNC (or O_EXCL)", "a rendering is written into a file that is opened for writing without truncation: after a shorter rendering the rest of the previous one is still there, so the file shows nodes and edges the spec does not have")
		})
	}
	c.R.Extra["output_files_opened_with_flags"] = n
}

// c19Canonical: C19-R7.  The pattern the expectation tool hands to the matcher has been through a JSON decode on
// every path (from JSON text, or from the structured form marshalled and decoded again): the subprocess's messages
// are JSON-decoded values, and the matcher does not find a YAML pattern's int among their float64s.
func c19Canonical(c *Ctx, F *ssa.Function, matchCall *ssa.Call) {
	// provablyNonNil: the block is dominated by the true edge of `v != nil` / the false edge of `v == nil`
	provablyNonNil := func(v ssa.Value, at *ssa.BasicBlock) bool {
		for _, f := range flow.FactsAt(at) {
			b, ok := f.Cond.(*ssa.BinOp)
			if !ok || !(b.X == v && ssau.IsNilConst(b.Y) || b.Y == v && ssau.IsNilConst(b.X)) {
				continue
			}
			if (b.Op == token.NEQ && f.True) || (b.Op == token.EQL && !f.True) {
				return true
			}
		}
		return false
	}
	// decodeBlocks: the blocks of fn in which the variable `cell` (a local variable's cell, or a pointer parameter) is
	// filled by json.Unmarshal — directly, or by a helper of the package that is handed the variable's address and
	// decodes into it on every return that does not report an error (then the call's error has to be nil at `at`)
	var decodeBlocks func(fn *ssa.Function, cell ssa.Value, at *ssa.BasicBlock, depth int) map[*ssa.BasicBlock]bool
	// decodesParam: on every return of h that is not provably an error return, parameter k has been decoded into
	decodesParam := func(h *ssa.Function, k int, depth int) (ok, errorReturns bool) {
		ei := errResultIndex(h)
		if h.Blocks == nil || k >= len(h.Params) || depth > 2 {
			return false, false
		}
		n := 0
		for _, b := range h.Blocks {
			ret, isRet := b.Instrs[len(b.Instrs)-1].(*ssa.Return)
			if !isRet {
				continue
			}
			n++
			dec := decodeBlocks(h, h.Params[k], b, depth+1)
			if len(dec) > 0 && (dec[b] || dec[h.Blocks[0]] || !flow.Reachable(h.Blocks[0], b, dec)) {
				continue
			}
			if ei >= 0 && ei < len(ret.Results) && provablyNonNil(ret.Results[ei], b) {
				errorReturns = true
				continue
			}
			return false, false
		}
		return n > 0, errorReturns
	}
	decodeBlocks = func(fn *ssa.Function, cell ssa.Value, at *ssa.BasicBlock, depth int) map[*ssa.BasicBlock]bool {
		dec := map[*ssa.BasicBlock]bool{}
		ssau.Instrs(fn, func(in ssa.Instruction) {
			cl, ok := in.(*ssa.Call)
			if !ok {
				return
			}
			if ssau.CalleeName(cl) == "encoding/json.Unmarshal" && len(cl.Common().Args) >= 2 {
				dst := cl.Common().Args[1]
				if mi, isMI := dst.(*ssa.MakeInterface); isMI {
					dst = mi.X
				}
				if dst == cell {
					dec[cl.Block()] = true
				}
				return
			}
			h := cl.Common().StaticCallee()
			if h == nil || h.Blocks == nil || prog.PkgOf(h) != prog.PkgOf(fn) {
				return
			}
			for k, a := range cl.Common().Args {
				if a != cell {
					continue
				}
				if ok, errs := decodesParam(h, k, depth); ok {
					// the helper may come back with an error and the variable as it was: only where the caller
					// knows that it did not
					var ev ssa.Value = cl
					if h.Signature.Results().Len() > 1 {
						ev = callResults(cl)[errResultIndex(h)]
					}
					if errs && (ev == nil || !provablyNil(ev, at)) {
						continue
					}
					dec[cl.Block()] = true
				}
			}
		})
		return dec
	}
	// decodedAt: v is (a load of) a variable that a json.Unmarshal has filled on every way to block `at` of fn
	decodedAt := func(fn *ssa.Function, v ssa.Value, at *ssa.BasicBlock) bool {
		cell := cellOf(v)
		if cell == nil {
			return false
		}
		dec := decodeBlocks(fn, cell, at, 0)
		if len(dec) == 0 {
			return false
		}
		for _, st := range storedIntoInstrs(cell) {
			if dec[st.Block()] {
				continue
			}
			if st.Block() == at || flow.Reachable(st.Block(), at, dec) {
				return false
			}
		}
		return true
	}
	pat := matchCall.Common().Args[0]
	ok := false
	if cellOf(pat) != nil {
		ok = decodedAt(F, pat, matchCall.Block())
	} else {
		// prepared by a helper of the package: every pattern it returns has been decoded
		var hc *ssa.Call
		for _, d := range phiDefs(pat, nil, map[ssa.Value]bool{}) {
			if ex, isEx := d.(*ssa.Extract); isEx && ex.Index == 0 {
				d = ex.Tuple
			}
			if cl, isC := d.(*ssa.Call); isC && cl.Common().StaticCallee() != nil && cl.Common().StaticCallee().Blocks != nil {
				hc = cl
			}
		}
		if hc != nil {
			h := hc.Common().StaticCallee()
			ok = true
			n := 0
			for _, b := range h.Blocks {
				ret, isRet := b.Instrs[len(b.Instrs)-1].(*ssa.Return)
				if !isRet || len(ret.Results) == 0 || ssau.IsNilConst(ret.Results[0]) {
					continue
				}
				n++
				if !decodedAt(h, ret.Results[0], b) {
					ok = false
				}
			}
			if n == 0 {
				ok = false
			}
		}
	}
	c.R.Check(ok, "C19-R7", "Run: the pattern handed to the matcher was decoded from JSON", c.pos(matchCall), "every way from the Output's pattern to the matcher passes json.Unmarshal into the pattern variable", "a pattern given as a structure reaches the matcher as it was decoded from YAML (ints, not float64s): a number inside an array never matches what the subprocess emits, so a forbidden message goes unnoticed (and an expected one times out)")
}

// storedIntoInstrs: the stores into a variable cell.
func storedIntoInstrs(cell ssa.Value) []*ssa.Store {
	var out []*ssa.Store
	for _, r := range ssau.Referrers(cell) {
		if st, ok := r.(*ssa.Store); ok && st.Addr == cell {
			out = append(out, st)
		}
	}
	return out
}

// c14HandedOn: C14-R8.  cmd/mcrew hands one and the same map to the report (Service.Emitted, the returned walks)
// and to the transport that delivers the message: a transport that edits the message it is given (removing "to")
// edits the report.  No function of the package deletes from or assigns into a message map it did not make.
func c14HandedOn(c *Ctx) {
	n := 0
	for _, f := range c.P.FuncsIn("cmd/mcrew") {
		ssau.Instrs(f, func(in ssa.Instruction) {
			var m ssa.Value
			switch x := in.(type) {
			case *ssa.MapUpdate:
				m = x.Map
			case ssa.CallInstruction:
				if b, ok := x.Common().Value.(*ssa.Builtin); ok && b.Name() == "delete" {
					m = x.Common().Args[0]
				}
			}
			if m == nil {
				return
			}
			mt, isMap := m.Type().Underlying().(*types.Map)
			if !isMap || !types.IsInterface(mt.Elem()) {
				return
			}
			if _, named := m.Type().(*types.Named); named {
				return // Bindings and friends are judged elsewhere
			}
			// a message received from elsewhere: the map comes out of a type assertion on an interface value
			received := false
			for _, d := range deepDefs(m, []*ssa.Function{f}) {
				if ex, isEx := d.(*ssa.Extract); isEx {
					if _, isTA := ex.Tuple.(*ssa.TypeAssert); isTA {
						received = true
					}
				}
				if _, isTA := d.(*ssa.TypeAssert); isTA {
					received = true
				}
			}
			if !received {
				return
			}
			n++
			c.R.Violate("C14-R8", fmt.Sprintf("%s: a message received from elsewhere is edited #%d", fname(f), n), c.pos(in), "the map edited here was handed in as a message (it is also what has been reported as emitted and what the returned walk holds): the host is told of a message that was never emitted")
		})
	}
	if n == 0 {
		c.R.Discharge("C14-R8", "cmd/mcrew edits no message it is handed", "", "no delete from / assignment into a map that came out of a type assertion on a message value")
	}
}

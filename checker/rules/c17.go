package rules

import (
	"fmt"
	"go/token"
	"go/types"
	"sort"
	"strings"

	"golang.org/x/tools/go/ssa"

	"sheensverif/internal/flow"
	"sheensverif/internal/lockset"
	"sheensverif/internal/prog"
	"sheensverif/internal/ssau"
)

func init() { Registry["C17"] = C17 }

type timerImpl struct {
	name      string // "mcrew" / "sio"
	pkg       string
	timersT   string
	mapField  string
	emitField string
	entryT    string
	atField   string
	lock      string
}

// isTimersMap: v is a load of <Timers>.<mapField>.
func (ti timerImpl) isMap(v ssa.Value) bool {
	_, is := ssau.LoadOfField(v, prog.Abs(ti.pkg), ti.timersT, ti.mapField)
	return is
}

// ownEntry: v denotes the goroutine's own timer entry: the receiver parameter
// of entry type, or a load of a captured variable of that type.
func (ti timerImpl) ownEntry(v ssa.Value) bool {
	if !ssau.TypeIs(v.Type(), prog.Abs(ti.pkg), ti.entryT) {
		return false
	}
	if _, ok := v.(*ssa.Parameter); ok {
		return true
	}
	if cell := cellOf(v); cell != nil {
		if _, ok := cell.(*ssa.FreeVar); ok {
			return true
		}
	}
	// a field of the per-timer record the goroutine runs on (`w.te` with w the receiver)
	if u, ok := v.(*ssa.UnOp); ok && u.Op == token.MUL {
		if fa, isFA := u.X.(*ssa.FieldAddr); isFA {
			if pr, isP := fa.X.(*ssa.Parameter); isP && len(pr.Parent().Params) > 0 && pr.Parent().Params[0] == pr && pr.Parent().Signature.Recv() != nil {
				return true
			}
		}
	}
	return false
}

func C17(c *Ctx) {
	c.R.Explanation = "Decides structural necessary conditions of 'timers fire at most once, never early, never after cancel; ids are reusable' for both timer implementations (cmd/mcrew and sio): (R1) the timers map is accessed only with the timers mutex held (must-held lockset over a frozen guarded-by table), and the crew change cache of sio only with the crew mutex; (R2) the emit call of a timer goroutine is in no loop, and every goroutine start is bound to one entry (in particular a loop that re-arms stored timers starts each goroutine with that iteration's entry); (R3) the only way to the emit is the receive from a timer created from 'At - now' where At was stored as now + d; (R4) between that receive and the emit, under the mutex, the map is looked up, the result is compared for identity with the goroutine's own entry, the entry is deleted on the identity edge, and the emit is reachable only on that edge; (R5) after the emit the goroutine no longer touches the map; (R6) cancel deletes the entry and closes its channel under the mutex; the sio emitter hands the message to the crew by an unconditional send; (R7) in every function that can be stored as a timers emitter, the sites that hand the message on (channel sends, calls that reach core Walk or a send) are in no loop and none is reachable from another, so one firing presents the message at most once; (R8) in cmd/mcrew a context derived with a cancel function that the deriving function itself calls or defers (so it ends with that request) is never handed, directly or through a callback resolved by the call graph, to code that can reach Timers.Add, whose goroutine removes the timer when its context ends. Real schedules and timing are not decided."
	c.R.Rule("C17-R1", "E4", "lockset: timers map under the timers mutex; change cache under the crew mutex", 12)
	c.R.Rule("C17-R2", "E3+E7", "one shot: emit in no loop; one goroutine per entry", 4)
	c.R.Rule("C17-R3", "E5", "never early", 2)
	c.R.Rule("C17-R4", "E3", "revalidate by identity and release under the lock before firing", 4)
	c.R.Rule("C17-R5", "E3", "no bookkeeping after the emit", 2)
	c.R.Rule("C17-R6", "E3", "cancel and delivery", 3)
	c.R.Rule("C17-R7", "E3", "every installed emitter delivers the message at most once", 3)
	c.shareRule("C15", "C15-R13", "C17-R10", "the set of pending timers that is reported is the set that is pending: every add, cancel and firing is followed by Timers.changed()")
	c.shareRule("C15", "C15-R1", "C17-R9", "the single-loop host restores the timers machine as it reported it (its state goes through SetMachine)")
	c.R.Rule("C17-R11", "E3+E4", "the multi-request host tests an id and files its entry in one critical section", 1)
	c17AddAtomic(c, "C17-R11")
	c.R.Rule("C17-R8", "E5+E7", "a request-scoped context never reaches the creation of a timer", 1)
	impls := []timerImpl{
		{"mcrew", "cmd/mcrew", "Timers", "timers", "emit", "TimerEntry", "At", "cmd/mcrew.Timers.Mutex"},
		{"sio", "sio", "Timers", "Map", "Emitter", "TimerEntry", "At", "sio.Timers.Mutex"},
	}
	for _, ti := range impls {
		fns := c.P.FuncsIn(ti.pkg)
		if len(fns) == 0 {
			c.R.Break("C17: package %s not loaded", ti.pkg)
			continue
		}
		la := lockset.New(fns)
		for _, f := range la.Fns {
			if strings.Contains(strings.ToLower(fname(f)), "timer") {
				c.R.Fn(fname(f))
			}
		}
		// ---- R1
		n := c.reportLockAccesses("C17-R1", la, ti.pkg, ti.timersT, ti.mapField, ti.lock, nil)
		if n < 4 {
			c.R.Break("C17-R1: expected accesses of %s.%s.%s, found %d", ti.pkg, ti.timersT, ti.mapField, n)
		}
		// ---- goroutine functions: those that call through the emit field
		var gfs []*ssa.Function
		emitCall := map[*ssa.Function]*ssa.Call{}
		for _, f := range la.Fns {
			ssau.Instrs(f, func(in ssa.Instruction) {
				cl, ok := in.(*ssa.Call)
				if !ok || cl.Common().IsInvoke() || cl.Common().StaticCallee() != nil {
					return
				}
				if _, is := ssau.LoadOfField(cl.Common().Value, prog.Abs(ti.pkg), ti.timersT, ti.emitField); is {
					if emitCall[f] == nil {
						gfs = append(gfs, f)
					}
					emitCall[f] = cl
				}
			})
		}
		c.R.Check(len(gfs) == 1, "C17-R2", ti.name+": one function fires timers", c.P.Pos(fns[0].Pos()), "one emit site", fmt.Sprintf("%d functions call the emitter", len(gfs)))
		if len(gfs) != 1 {
			continue
		}
		G := gfs[0]
		E := emitCall[G]
		c.R.Fn(fname(G))
		// the emit may sit in an unexported helper that the firing function calls at one place: that call is then
		// judged as the emit (and the helper's own code after the emit is judged too)
		innerE := E
		for depth := 0; depth < 2; depth++ {
			if G.Parent() != nil || G.Object() == nil || G.Object().Exported() {
				break
			}
			sites := callSitesOf(G, la.Fns)
			if len(sites) != 1 {
				break
			}
			cl, isCall := sites[0].(*ssa.Call)
			if !isCall {
				break // started with go (or deferred): G is the firing function itself
			}
			G, E = cl.Parent(), cl
			c.R.Fn(fname(G))
		}
		// R2: not in a loop
		c.R.Check(!flow.InCycle(E.Block()) && !flow.InCycle(innerE.Block()), "C17-R2", ti.name+": emit in no loop", c.pos(E), "executed at most once per goroutine", "the emit call is inside a loop: a timer can fire more than once")
		// goroutine starts
		ngo := 0
		for _, f := range la.Fns {
			loops := flow.Loops(f)
			ssau.Instrs(f, func(in ssa.Instruction) {
				g, ok := in.(*ssa.Go)
				if !ok {
					return
				}
				var target *ssa.Function
				var boundEntry ssa.Value
				if sc := g.Call.StaticCallee(); sc != nil {
					target = sc
					if len(g.Call.Args) > 0 {
						boundEntry = g.Call.Args[0]
					}
				}
				if mc, isMC := g.Call.Value.(*ssa.MakeClosure); isMC {
					fn := mc.Fn.(*ssa.Function)
					if fn == G {
						for i, fv := range fn.FreeVars {
							if ssau.TypeIs(fv.Type(), prog.Abs(ti.pkg), ti.entryT) && i < len(mc.Bindings) {
								boundEntry = mc.Bindings[i]
							}
						}
					} else {
						// a wrapper literal that calls G
						calls := false
						ssau.Instrs(fn, func(in2 ssa.Instruction) {
							if ci, ok := in2.(ssa.CallInstruction); ok && ci.Common().StaticCallee() == G {
								calls = true
								if len(ci.Common().Args) > 0 {
									a0 := ci.Common().Args[0]
									if cell := cellOf(a0); cell != nil {
										if fv, ok := cell.(*ssa.FreeVar); ok {
											boundEntry = bindingOf(mc, fv)
										}
									} else if fv, ok := a0.(*ssa.FreeVar); ok {
										boundEntry = bindingOf(mc, fv)
									}
								}
							}
						})
						if calls {
							target = G
						}
					}
				}
				if target != G {
					return
				}
				ngo++
				key := fmt.Sprintf("%s: goroutine start #%d in %s", ti.name, ngo, fname(f))
				L := flow.InnermostLoop(loops, g.Block())
				if L == nil {
					c.R.Discharge("C17-R2", key, c.pos(g), "one goroutine for the one entry being added")
					return
				}
				// in a loop: the entry must be this iteration's value, not a variable shared by all iterations
				ok2 := false
				why := "cannot tell which entry the goroutine is bound to"
				if boundEntry != nil {
					if ex, isEx := boundEntry.(*ssa.Extract); isEx {
						if _, isNext := ex.Tuple.(*ssa.Next); isNext {
							ok2 = true
						}
					}
					if ld, isLd := boundEntry.(*ssa.UnOp); isLd && ld.Op == token.MUL {
						if ia, isIA := ld.X.(*ssa.IndexAddr); isIA && L.Blocks[ia.Block()] {
							ok2 = true
						}
					}
					if al, isAl := boundEntry.(*ssa.Alloc); isAl {
						if L.Blocks[al.Block()] {
							ok2 = true // per-iteration variable
						} else {
							why = "every goroutine started by the loop shares one loop variable (" + al.Comment + "): they all run the last entry"
						}
					}
				}
				c.R.Check(ok2, "C17-R2", key, c.pos(g), "bound to this iteration's entry", why)
			})
		}
		if ngo == 0 {
			c.R.Break("C17-R2: %s: no goroutine start for the firing function", ti.name)
		}
		// ---- R3 never early
		whyEarly := "the emit is not guarded by a receive from the entry's timer"
		earlyAt := func(b *ssa.BasicBlock, extra []flow.Fact) bool {
			okEarly := false
			for _, f := range append(flow.FactsAt(b), extra...) {
				bo, ok := f.Cond.(*ssa.BinOp)
				if !ok || bo.Op != token.EQL || !f.True {
					continue
				}
				ex, ok := bo.X.(*ssa.Extract)
				if !ok || ex.Index != 0 {
					continue
				}
				sel, ok := ex.Tuple.(*ssa.Select)
				if !ok {
					continue
				}
				k, isC := ssau.ConstInt(bo.Y)
				if !isC || int(k) >= len(sel.States) {
					continue
				}
				ch := sel.States[k].Chan
				tm, is := ssau.LoadOfField(ch, "time", "Timer", "C")
				if !is {
					whyEarly = "the select case that leads to the emit does not receive from a time.Timer"
					continue
				}
				nt, ok := tm.(*ssa.Call)
				if !ok || ssau.CalleeName(nt) != "time.NewTimer" {
					continue
				}
				due := untilOf(nt.Common().Args[0])
				if due == nil {
					whyEarly = "the timer's duration is not 'At - now'"
					continue
				}
				if _, atOK := ssau.LoadOfField(due, prog.Abs(ti.pkg), ti.entryT, ti.atField); atOK {
					okEarly = true
				} else {
					whyEarly = "the timer's duration is not 'entry.At - time.Now()'"
				}
			}
			return okEarly
		}
		okEarly := earlyAt(E.Block(), nil)
		if !okEarly && innerE != E {
			okEarly = earlyAt(innerE.Block(), nil)
		}
		if !okEarly {
			// the wait may live in a helper that answers true only after the receive from the entry's timer
			sites := factCallTrueIdx(E.Block())
			if innerE != E {
				sites = append(sites, factCallTrueIdx(innerE.Block())...)
			}
			for _, cs := range sites {
				h := cs.call.Common().StaticCallee()
				if h == nil || h.Blocks == nil || prog.PkgOf(h) != ti.pkg {
					continue
				}
				for ri := 0; ri < h.Signature.Results().Len(); ri++ {
					if cs.idx >= 0 && cs.idx != ri {
						continue
					}
					if bt, isB := h.Signature.Results().At(ri).Type().Underlying().(*types.Basic); isB && bt.Kind() == types.Bool {
						if trueImplies(h, ri, earlyAt) {
							okEarly = true
							c.R.Fn(fname(h))
						}
					}
				}
			}
		}
		c.R.Check(okEarly, "C17-R3", ti.name+": emit only after the timer fired", c.pos(E), "guarded by the receive from time.NewTimer(entry.At.Sub(time.Now()))", whyEarly)
		// At = now + d where entries are created
		nat := 0
		for _, f := range la.Fns {
			for _, st := range storesToPkg(f, ti.pkg, ti.entryT, ti.atField) {
				nat++
				ok := false
				if add, isC := st.Val.(*ssa.Call); isC && ssau.CalleeName(add) == "(time.Time).Add" {
					base := add.Common().Args[0]
					for i := 0; i < 3; i++ {
						if bc, isC := base.(*ssa.Call); isC {
							if ssau.CalleeName(bc) == "time.Now" {
								ok = true
								break
							}
							if len(bc.Common().Args) > 0 {
								base = bc.Common().Args[0]
								continue
							}
						}
						break
					}
					if _, isParam := add.Common().Args[1].(*ssa.Parameter); !isParam {
						ok = false
					}
				}
				c.R.Check(ok, "C17-R3", fmt.Sprintf("%s: due time #%d is now + requested delay", ti.name, nat), c.pos(st), "At = time.Now()[.UTC()].Add(d)", "the due time of a new timer is not 'now + requested delay'")
			}
		}
		// ---- R4 revalidation
		// revalidated: at block b of fn it is known that the map (looked up under the mutex) still held the
		// goroutine's own entry, and that entry was deleted under the mutex on that edge before reaching b
		revalidated := func(fn *ssa.Function, b *ssa.BasicBlock, extra []flow.Fact) (bool, string) {
			var lookup *ssa.Lookup
			for _, f := range append(flow.Expand(flow.FactsAt(b)), flow.Expand(extra)...) {
				bo, ok := f.Cond.(*ssa.BinOp)
				if !ok || !((bo.Op == token.EQL && f.True) || (bo.Op == token.NEQ && !f.True)) {
					continue
				}
				x, y := bo.X, bo.Y
				if ti.ownEntry(x) {
					x, y = y, x
				}
				if !ti.ownEntry(y) {
					continue
				}
				if ex, isEx := x.(*ssa.Extract); isEx && ex.Index == 0 {
					if lk, isLk := ex.Tuple.(*ssa.Lookup); isLk && ti.isMap(lk.X) {
						lookup = lk
					}
				}
			}
			if lookup == nil {
				return false, "no identity test 'map[id] == own entry' guards this point"
			}
			if la.Held(lookup)[ti.lock] != lockset.W {
				return false, "the lookup is not made under the timers mutex"
			}
			if flow.InCycle(lookup.Block()) {
				return false, "revalidation is inside a loop"
			}
			var del ssa.Instruction
			ssau.Instrs(fn, func(in ssa.Instruction) {
				if ci, ok := in.(ssa.CallInstruction); ok {
					if bi, isB := ci.Common().Value.(*ssa.Builtin); isB && bi.Name() == "delete" && ti.isMap(ci.Common().Args[0]) {
						del = in
					}
				}
			})
			if del == nil {
				return false, "the entry is not removed from the map before firing"
			}
			onEdge := false
			for _, f := range flow.Expand(flow.FactsAt(del.Block())) {
				if bo, ok := f.Cond.(*ssa.BinOp); ok {
					x, y := bo.X, bo.Y
					if ti.ownEntry(x) {
						x, y = y, x
					}
					if ti.ownEntry(y) {
						if ex, isEx := x.(*ssa.Extract); isEx && ex.Tuple == ssa.Value(lookup) && ((bo.Op == token.EQL && f.True) || (bo.Op == token.NEQ && !f.True)) {
							onEdge = true
						}
					}
				}
			}
			before := flow.Reachable(del.Block(), b, nil) && !flow.Reachable(b, del.Block(), nil)
			if del.Block() == b && !flow.InCycle(b) {
				before = true // decided at the end of the block that holds the delete
			}
			if !(onEdge && la.Held(del)[ti.lock] == lockset.W && before) {
				return false, fmt.Sprintf("delete: on the identity edge=%v, under the mutex=%v, before this point=%v", onEdge, la.Held(del)[ti.lock] == lockset.W, before)
			}
			return true, ""
		}
		okReval, whyReval := revalidated(G, E.Block(), nil)
		if !okReval && innerE != E {
			// the emit sits in a helper the goroutine calls: the revalidation may be there, right before it
			okReval, _ = revalidated(innerE.Parent(), innerE.Block(), nil)
		}
		claimSites := factCallTrue(E.Block())
		if innerE != E {
			claimSites = append(claimSites, factCallTrue(innerE.Block())...)
		}
		if !okReval {
			// the claim may live in a helper that returns true only after a successful revalidation
			for _, cl := range claimSites {
				h := cl.Common().StaticCallee()
				if h == nil || prog.PkgOf(h) != ti.pkg {
					continue
				}
				for ri := 0; ri < h.Signature.Results().Len(); ri++ {
					if bt, isB := h.Signature.Results().At(ri).Type().Underlying().(*types.Basic); isB && bt.Kind() == types.Bool {
						if trueImplies(h, ri, func(b *ssa.BasicBlock, extra []flow.Fact) bool { ok, _ := revalidated(h, b, extra); return ok }) {
							okReval = true
							c.R.Fn(fname(h))
						}
					}
				}
			}
		}
		c.R.Check(okReval, "C17-R4", ti.name+": emit only if the map still holds this entry, which is released under the lock first", c.pos(E), "emit is dominated by 'map[id] == own entry' under the mutex, with the entry deleted on that edge", "the firing goroutine does not (under the mutex) check by identity that its entry is still the one in the map and remove it before firing: a cancelled timer can fire, and a timer re-created under the id can be mistaken for it: "+whyReval)
		// emit not under the timers mutex (the handler may add or remove timers)
		heldE := la.Held(E)
		if hi := la.Held(innerE); hi[ti.lock] != lockset.None {
			heldE = hi
		}
		c.R.Check(heldE[ti.lock] == lockset.None, "C17-R4", ti.name+": emit outside the timers mutex", c.pos(E), "held: "+heldE.String(), "the emitter is called with the timers mutex held: a handler that creates or cancels a timer deadlocks")
		// ---- R5
		bad := ""
		for _, E := range []*ssa.Call{E, innerE} {
			after := flow.ReachableFrom(E.Block(), nil)
			after[E.Block()] = true
			for b := range after {
				for _, in := range b.Instrs {
					if b == E.Block() && flow.Index(in) <= flow.Index(E) {
						continue
					}
					switch x := in.(type) {
					case *ssa.MapUpdate:
						if ti.isMap(x.Map) {
							bad = c.pos(in)
						}
					case ssa.CallInstruction:
						if bi, ok := x.Common().Value.(*ssa.Builtin); ok && bi.Name() == "delete" && ti.isMap(x.Common().Args[0]) {
							bad = c.pos(in)
						}
						if sc := x.Common().StaticCallee(); sc != nil && (sc.Name() == "Rem" || sc.Name() == "cancel" || sc.Name() == "Cancel") {
							bad = c.pos(in)
						}
					}
				}
			}
		}
		c.R.Check(bad == "", "C17-R5", ti.name+": no map bookkeeping after the emit", c.pos(E), "the goroutine is done with the map before it fires", "the map is modified by id after the emit at "+bad+": a timer re-created under the id by the handler is removed by the old goroutine")
		// ---- R6 cancel
		ncancel := 0
		for _, f := range la.Fns {
			if f.Parent() != nil || f == G {
				continue
			}
			var del, cls ssa.Instruction
			ssau.Instrs(f, func(in ssa.Instruction) {
				if ci, ok := in.(ssa.CallInstruction); ok {
					if b, isB := ci.Common().Value.(*ssa.Builtin); isB {
						if b.Name() == "delete" && ti.isMap(ci.Common().Args[0]) {
							del = in
						}
						if b.Name() == "close" {
							cls = in
						}
					}
				}
			})
			if del == nil && cls != nil {
				// the removal is in a helper of the function that closes (cancel -> unfile -> take)
				inLa := map[*ssa.Function]bool{}
				for _, h := range la.Fns {
					inLa[h] = true
				}
				for _, h := range pkgClosure(f) {
					if h == f || h == G || !inLa[h] {
						continue
					}
					ssau.Instrs(h, func(in ssa.Instruction) {
						if ci, ok := in.(ssa.CallInstruction); ok && del == nil {
							if b, isB := ci.Common().Value.(*ssa.Builtin); isB && b.Name() == "delete" && ti.isMap(ci.Common().Args[0]) {
								del = in
							}
						}
					})
				}
			}
			if del == nil || cls == nil {
				continue // cancel = the function that closes the entry's control channel
			}
			ncancel++
			hd := la.Held(del)
			okC := hd[ti.lock] == lockset.W && cls != nil && la.Held(cls)[ti.lock] == lockset.W
			c.R.Check(okC, "C17-R6", fmt.Sprintf("%s: %s removes the entry and closes its channel under the mutex", ti.name, fname(f)), c.pos(del), "delete and close under "+ti.lock, "cancel does not (delete the entry and close its control channel) under the timers mutex")
		}
		if ncancel == 0 {
			c.R.Break("C17-R6: %s: no cancel function found", ti.name)
		}
	}
	// sio: change cache under the crew mutex; emitter delivers unconditionally
	sioFns := c.P.FuncsIn("sio")
	if len(sioFns) > 0 {
		la := lockset.New(sioFns)
		c.reportLockAccesses("C17-R1", la, "sio", "Crew", "changed", "sio.Crew.Mutex", nil)
		// emitter: the function literal stored as the timers' Emitter in Crew.init
		if initF := c.fn("sio", "Crew", "init"); initF != nil {
			var em *ssa.Function
			ssau.Instrs(initF, func(in ssa.Instruction) {
				if cl, ok := in.(*ssa.Call); ok && cl.Common().StaticCallee() != nil && cl.Common().StaticCallee().Name() == "NewTimers" {
					if mc, isMC := cl.Common().Args[0].(*ssa.MakeClosure); isMC {
						em = mc.Fn.(*ssa.Function)
					}
				}
			})
			if em == nil {
				c.R.Break("C17-R6: sio emitter literal not found in Crew.init")
			} else {
				c.R.Fn(fname(em))
				pd := flow.NewPostDom(em)
				ok := false
				ssau.Instrs(em, func(in ssa.Instruction) {
					if snd, isSend := in.(*ssa.Send); isSend {
						if _, is := ssau.LoadOfField(snd.Chan, prog.Abs("sio"), "Crew", "in"); is && pd.PostDominates(snd.Block(), em.Blocks[0]) {
							if _, isMsg := ssau.LoadOfField(snd.X, prog.Abs("sio"), "TimerEntry", "Msg"); isMsg {
								ok = true
							}
						}
					}
				})
				c.R.Check(ok, "C17-R6", "sio: emitter hands the message to the crew unconditionally", c.P.Pos(em.Pos()), "a blocking send of the entry's message on the crew's input channel on every path", "the emitter can give up (select / timeout / default): the entry has already left the pending set, so the accepted timer never fires")
			}
		}
	}
	c17Emitters(c, impls)
	c17RequestContexts(c)
	c17DelayFromAt(c)
	c17DueTimeKeepsItsFraction(c, "C17-R3")
	_ = types.Typ
}

// c17Emitters: C17-R7.  Every function that can be installed as a timers
// emitter hands the message over at most once on every path: its delivery
// sites (channel sends, and calls whose in-repository closure reaches core
// Walk or a channel send) are in no loop and no delivery site is reachable from
// another.
func c17Emitters(c *Ctx, impls []timerImpl) {
	walk := c.P.Func("core", "Spec", "Walk")
	delivers := map[*ssa.Function]bool{}
	deliversFn := func(f *ssa.Function) bool {
		if v, ok := delivers[f]; ok {
			return v
		}
		res := false
		for _, g := range pkgClosure(f) {
			if g == walk {
				res = true
			}
			if g.Parent() != nil {
				continue // a literal only defined there; it runs when called
			}
			ssau.Instrs(g, func(in ssa.Instruction) {
				if _, isSend := in.(*ssa.Send); isSend {
					res = true
				}
			})
		}
		delivers[f] = res
		return res
	}
	for _, ti := range impls {
		fns := c.P.FuncsIn(ti.pkg)
		var all []*ssa.Function
		for _, f := range fns {
			all = append(all, ssau.WithAnon(f)...)
		}
		// function values stored into the emit field
		emitters := map[*ssa.Function]bool{}
		for _, f := range all {
			for _, st := range storesToPkg(f, ti.pkg, ti.timersT, ti.emitField) {
				for _, d := range deepDefs(st.Val, all) {
					switch x := d.(type) {
					case *ssa.MakeClosure:
						emitters[x.Fn.(*ssa.Function)] = true
					case *ssa.Function:
						emitters[x] = true
					}
				}
			}
		}
		var ems []*ssa.Function
		for f := range emitters {
			ems = append(ems, f)
		}
		sort.Slice(ems, func(i, j int) bool { return fname(ems[i]) < fname(ems[j]) })
		if len(ems) == 0 {
			c.R.Break("C17-R7: %s: no function is installed as the timers emitter", ti.name)
			continue
		}
		for _, em := range ems {
			c.R.Fn(fname(em))
			var sites []ssa.Instruction
			ssau.Instrs(em, func(in ssa.Instruction) {
				switch x := in.(type) {
				case *ssa.Send:
					sites = append(sites, in)
				case *ssa.Select:
					for _, stt := range x.States {
						if stt.Dir == types.SendOnly {
							sites = append(sites, in)
							break
						}
					}
				case ssa.CallInstruction:
					if _, isGo := in.(*ssa.Go); isGo {
						if sc := x.Common().StaticCallee(); sc != nil && deliversFn(sc) {
							sites = append(sites, in)
						}
						return
					}
					if sc := x.Common().StaticCallee(); sc != nil && sc.Blocks != nil && deliversFn(sc) {
						sites = append(sites, in)
					}
				}
			})
			ok, why := len(sites) > 0, "the emitter never hands the message to anyone"
			for i, a := range sites {
				if flow.InCycle(a.Block()) {
					ok, why = false, "a delivery ("+c.pos(a)+") is inside a loop"
				}
				for j, b := range sites {
					if i == j {
						continue
					}
					if a.Block() == b.Block() || flow.Reachable(a.Block(), b.Block(), nil) {
						ok, why = false, "after the delivery at "+c.pos(a)+" the message can be delivered again at "+c.pos(b)
					}
				}
			}
			c.R.Check(ok, "C17-R7", ti.name+": emitter "+fname(em)+" delivers at most once", c.P.Pos(em.Pos()), fmt.Sprintf("%d delivery site(s), none in a loop, none reachable from another", len(sites)), why)
		}
	}
}

// storesToPkg: stores to pkg.typ.field in fn.
func storesToPkg(fn *ssa.Function, pkg, typ, field string) []*ssa.Store {
	var out []*ssa.Store
	ssau.Instrs(fn, func(in ssa.Instruction) {
		if st, ok := in.(*ssa.Store); ok && ssau.IsField(st.Addr, prog.Abs(pkg), typ, field) {
			out = append(out, st)
		}
	})
	return out
}

// untilOf: if v is the time left until some instant X — X.Sub(time.Now()) or time.Until(X) — X, else nil.
func untilOf(v ssa.Value) ssa.Value {
	cl, ok := v.(*ssa.Call)
	if !ok {
		return nil
	}
	switch ssau.CalleeName(cl) {
	case "time.Until":
		return cl.Common().Args[0]
	case "(time.Time).Sub":
		if now, isC := cl.Common().Args[1].(*ssa.Call); isC && ssau.CalleeName(now) == "time.Now" {
			return cl.Common().Args[0]
		}
	}
	return nil
}

// c17DelayFromAt: C17-R3 (mcrew).  A timer requested with an absolute due time is handed to Timers.Add as the time
// left until then: every duration computed from instants on the way into Timers.Add is 'at - now' (X.Sub(time.Now())
// or time.Until(X)), never 'now - at'.
func c17DelayFromAt(c *Ctx) {
	add := c.P.Func("cmd/mcrew", "Timers", "Add")
	if add == nil {
		return
	}
	n := 0
	for _, f := range c.P.FuncsIn("cmd/mcrew") {
		ssau.Instrs(f, func(in ssa.Instruction) {
			cl, ok := in.(*ssa.Call)
			if !ok || cl.Common().StaticCallee() != add || len(cl.Common().Args) < 5 {
				return
			}
			scope := []*ssa.Function{f}
			for _, g := range c.P.FuncsIn("cmd/mcrew") {
				if g != f {
					scope = append(scope, g)
				}
			}
			for _, d := range resolveThroughLocals(cl.Common().Args[4], scope) {
				dc, isC := d.(*ssa.Call)
				if !isC {
					continue
				}
				switch ssau.CalleeName(dc) {
				case "time.Until", "time.Since", "(time.Time).Sub":
					n++
					c.R.Check(untilOf(dc) != nil, "C17-R3", fmt.Sprintf("mcrew: %s: a due time becomes the delay from now #%d", fname(f), n), c.pos(dc), "at.Sub(time.Now()) or time.Until(at)", "the delay handed to Timers.Add for an absolute due time is not 'due time - now' (it is "+ssau.CalleeName(dc)+"): a timer due in the future is scheduled with a negative delay and fires at once")
				}
			}
		})
	}
	if n == 0 {
		c.R.Break("C17-R3: no delay computed from an absolute due time found on the way into mcrew's Timers.Add")
	}
}

// c17RequestContexts: C17-R8.  mcrew's Timers.Add ties the life of a timer to
// the context it is given: a context that dies with the request that created
// the timer makes an accepted timer vanish silently.
func c17RequestContexts(c *Ctx) {
	add := c.P.Func("cmd/mcrew", "Timers", "Add")
	if add == nil {
		return
	}
	fns := c.P.FuncsIn("cmd/mcrew")
	var all []*ssa.Function
	seen := map[*ssa.Function]bool{}
	for _, f := range fns {
		for _, g := range ssau.WithAnon(f) {
			if !seen[g] && g.Blocks != nil {
				seen[g] = true
				all = append(all, g)
			}
		}
	}
	sort.Slice(all, func(i, j int) bool { return fname(all[i]) < fname(all[j]) })
	reachesAdd := map[*ssa.Function]int{} // 0 unknown, 1 yes, 2 no
	var reach func(f *ssa.Function, depth int) bool
	reach = func(f *ssa.Function, depth int) bool {
		if f == add {
			return true
		}
		if f == nil || f.Blocks == nil || depth > 12 {
			return false
		}
		switch reachesAdd[f] {
		case 1:
			return true
		case 2:
			return false
		}
		reachesAdd[f] = 2 // cut cycles
		res := false
		for _, g := range ssau.WithAnon(f) {
			ssau.Instrs(g, func(in ssa.Instruction) {
				ci, ok := in.(ssa.CallInstruction)
				if !ok || res {
					return
				}
				for _, cal := range c.P.Callees(ci) {
					if prog.PkgOf(cal) == "cmd/mcrew" && reach(cal, depth+1) {
						res = true
					}
				}
			})
		}
		if res {
			reachesAdd[f] = 1
		}
		return res
	}
	nDerive := 0
	for _, f := range all {
		ssau.Instrs(f, func(in ssa.Instruction) {
			cl, ok := in.(*ssa.Call)
			if !ok {
				return
			}
			switch ssau.CalleeName(cl) {
			case "context.WithCancel", "context.WithTimeout", "context.WithDeadline":
			default:
				return
			}
			res := callResults(cl)
			derived, cancel := res[0], res[1]
			if derived == nil {
				return
			}
			// request-scoped: the cancel function is called or deferred in f itself
			scoped := false
			if cancel != nil {
				ssau.Instrs(f, func(i2 ssa.Instruction) {
					switch u := i2.(type) {
					case *ssa.Defer:
						for _, d := range deepDefs(u.Call.Value, []*ssa.Function{f}) {
							if d == cancel {
								scoped = true
							}
						}
					case *ssa.Call:
						if u.Common().StaticCallee() == nil && !u.Common().IsInvoke() {
							for _, d := range deepDefs(u.Common().Value, []*ssa.Function{f}) {
								if d == cancel {
									scoped = true
								}
							}
						}
					}
				})
			}
			if !scoped {
				return
			}
			nDerive++
			key := fmt.Sprintf("%s: request-scoped context #%d", fname(f), nDerive)
			bad := ""
			ssau.Instrs(f, func(i2 ssa.Instruction) {
				ci, ok := i2.(ssa.CallInstruction)
				if !ok || bad != "" {
					return
				}
				for _, a := range ci.Common().Args {
					if !isContext(a.Type()) {
						continue
					}
					flows := false
					for _, d := range deepDefs(a, []*ssa.Function{f}) {
						if d == derived {
							flows = true
						}
					}
					if !flows {
						continue
					}
					for _, cal := range c.P.Callees(ci) {
						if prog.PkgOf(cal) == "cmd/mcrew" && reach(cal, 0) {
							bad = fmt.Sprintf("it is handed to %s (%s), from where Timers.Add is reachable", fname(cal), c.pos(i2))
						}
					}
				}
			})
			c.R.Check(bad == "", "C17-R8", key, c.pos(cl), "the derived context reaches no code that can create a timer", "a context that ends when this function returns can become the context of a new timer: "+bad+"; the timer's goroutine removes the accepted timer as soon as that context ends, so it never fires")
		})
	}
	c.R.Extra["request_scoped_contexts_in_mcrew"] = nDerive
	// non-vacuity: Timers.Add really ties the timer to its context
	tied := false
	var addFns []*ssa.Function
	for _, g := range pkgClosure(add) {
		if prog.PkgOf(g) == "cmd/mcrew" {
			addFns = append(addFns, g) // Add, its literals, and the functions it starts or calls in the package
		}
	}
	for _, g := range addFns {
		ssau.Instrs(g, func(in ssa.Instruction) {
			if cl, ok := in.(*ssa.Call); ok && cl.Common().IsInvoke() && cl.Common().Method.Name() == "Done" {
				tied = true
			}
		})
	}
	c.R.Check(tied || nDerive == 0, "C17-R8", "mcrew: Timers.Add watches its context", c.P.Pos(add.Pos()), fmt.Sprintf("the timer goroutine selects on ctx.Done() (%d request-scoped contexts in the package, none reaches it)", nDerive), "cannot relate contexts to timers")
}

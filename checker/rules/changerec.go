package rules

import (
	"go/token"

	"golang.org/x/tools/go/ssa"

	"sheensverif/internal/prog"
	"sheensverif/internal/ssau"
)

// changeRecordKey recognises "the entry of the change cache Crew.changed for a key" as a construct and returns the key:
// every definition of v (through phis) is
//   - a lookup in Crew.changed under the key (plain or comma-ok), or
//   - a fresh Changed that is put into Crew.changed under that key (the "create" half of get-or-create), or
//   - the result of a function of package sio each result of which is such an entry for one and the same parameter
//     (the get-or-create helper Crew.change is one such function; so is any wrapper of it).
//
// All definitions must agree on the key.
func changeRecordKey(v ssa.Value, depth int) (ssa.Value, bool) {
	if v == nil {
		return nil, false
	}
	return changeRecordKeyOf([]ssa.Value{v}, depth)
}

// changeRecordKeyOf: the values vs, taken together (the operands of a phi, or what the returns of a function
// deliver), are the cache entry for one key.
func changeRecordKeyOf(vs []ssa.Value, depth int) (ssa.Value, bool) {
	if len(vs) == 0 || depth > 3 {
		return nil, false
	}
	var key ssa.Value
	agree := func(k ssa.Value) bool {
		if k == nil {
			return false
		}
		if key == nil {
			key = k
			return true
		}
		return sameKeyValue(key, k)
	}
	isCache := func(m ssa.Value) bool {
		_, is := ssau.LoadOfField(m, prog.Abs("sio"), "Crew", "changed")
		return is
	}
	var ds []ssa.Value
	seenDef := map[ssa.Value]bool{}
	for _, v := range vs {
		ds = append(ds, phiDefs(v, nil, seenDef)...)
	}
	if len(ds) == 0 {
		return nil, false
	}
	lookups := 0
	for _, d := range ds {
		switch x := d.(type) {
		case *ssa.Extract:
			lk, isLk := x.Tuple.(*ssa.Lookup)
			if !isLk || x.Index != 0 || !isCache(lk.X) || !agree(lk.Index) {
				return nil, false
			}
			lookups++
		case *ssa.Lookup:
			if x.CommaOk || !isCache(x.X) || !agree(x.Index) {
				return nil, false
			}
			lookups++
		case *ssa.Alloc:
			put := false
			for _, r := range ssau.Referrers(x) {
				if mu, isMU := r.(*ssa.MapUpdate); isMU && mu.Value == ssa.Value(x) && isCache(mu.Map) && agree(mu.Key) {
					put = true
				}
			}
			if !put {
				return nil, false
			}
		case *ssa.Call:
			h := x.Common().StaticCallee()
			if h == nil || h.Blocks == nil || prog.PkgOf(h) != "sio" || h.Signature.Results().Len() != 1 {
				return nil, false
			}
			// (what the returns deliver is judged together: one return may hand out the entry found, another the
			// entry just created)
			var rets []ssa.Value
			for _, b := range h.Blocks {
				ret, isRet := b.Instrs[len(b.Instrs)-1].(*ssa.Return)
				if !isRet {
					continue
				}
				if len(ret.Results) != 1 {
					return nil, false
				}
				rets = append(rets, ret.Results[0])
			}
			k, ok := changeRecordKeyOf(rets, depth+1)
			if !ok {
				return nil, false
			}
			par, isPar := k.(*ssa.Parameter)
			if !isPar || par.Parent() != h {
				return nil, false
			}
			pi := -1
			for i, p := range h.Params {
				if p == par {
					pi = i
				}
			}
			if pi < 0 || pi >= len(x.Common().Args) || !agree(x.Common().Args[pi]) {
				return nil, false
			}
			lookups++
		default:
			return nil, false
		}
	}
	if lookups == 0 {
		return nil, false // a fresh record alone is not "the entry for the key"
	}
	return key, true
}

// isChangeRecord: v is the change-cache entry for some key.
func isChangeRecord(v ssa.Value) bool {
	_, ok := changeRecordKey(v, 0)
	return ok
}

// sameKeyValue: two key operands denote the same value: the same SSA value, equal constants, or two loads of the same
// field of the same object where the function never assigns that field.
func sameKeyValue(a, b ssa.Value) bool {
	if a == b {
		return true
	}
	if ca, ok := a.(*ssa.Const); ok {
		cb, ok2 := b.(*ssa.Const)
		return ok2 && ca.Value != nil && cb.Value != nil && ca.Value.ExactString() == cb.Value.ExactString()
	}
	la, ok := a.(*ssa.UnOp)
	lb, ok2 := b.(*ssa.UnOp)
	if !ok || !ok2 || la.Op != token.MUL || lb.Op != token.MUL {
		return false
	}
	if ga, isG := la.X.(*ssa.Global); isG {
		// two loads of one package variable, which the function does not assign
		if lb.X != ssa.Value(ga) || la.Parent() != lb.Parent() {
			return false
		}
		assigned := false
		ssau.Instrs(la.Parent(), func(in ssa.Instruction) {
			if st, isSt := in.(*ssa.Store); isSt && st.Addr == ssa.Value(ga) {
				assigned = true
			}
		})
		return !assigned
	}
	fa, ok := la.X.(*ssa.FieldAddr)
	fb, ok2 := lb.X.(*ssa.FieldAddr)
	if !ok || !ok2 || fa.Field != fb.Field || fa.X != fb.X || la.Parent() != lb.Parent() {
		return false
	}
	assigned := false
	ssau.Instrs(la.Parent(), func(in ssa.Instruction) {
		if st, isSt := in.(*ssa.Store); isSt {
			if f2, isFA := st.Addr.(*ssa.FieldAddr); isFA && f2.Field == fa.Field && f2.X.Type() == fa.X.Type() {
				assigned = true
			}
		}
	})
	return !assigned
}

package rules

import (
	"go/token"
	"go/types"

	"golang.org/x/tools/go/ssa"

	"sheensverif/internal/flow"
	"sheensverif/internal/prog"
	"sheensverif/internal/ssau"
)

// sliceWeb groups the SSA values that denote one logical slice variable of a
// function (and its function literals): values connected by phis, by
// `append(v, ...)` (first operand -> result), by re-slicing, and by stores to /
// loads from the same (possibly captured) variable cell.  It makes the queue
// and batch rules independent of whether a variable happens to be captured by
// a closure (heap cell) or not (phi web).
type sliceWeb struct {
	fns    []*ssa.Function
	parent map[ssa.Value]ssa.Value
}

func (w *sliceWeb) find(v ssa.Value) ssa.Value {
	for {
		p, ok := w.parent[v]
		if !ok || p == v {
			w.parent[v] = v
			return v
		}
		w.parent[v] = w.parent[p]
		if w.parent[v] == nil {
			w.parent[v] = p
		}
		v = p
	}
}

func (w *sliceWeb) union(a, b ssa.Value) {
	ra, rb := w.find(a), w.find(b)
	if ra != rb {
		w.parent[ra] = rb
	}
}

func isSliceT(t types.Type) bool {
	_, ok := t.Underlying().(*types.Slice)
	return ok
}

// newSliceWeb builds the webs of fn and its literals.
func newSliceWeb(fn *ssa.Function) *sliceWeb {
	w := &sliceWeb{fns: ssau.WithAnon(fn), parent: map[ssa.Value]ssa.Value{}}
	for _, f := range w.fns {
		ssau.Instrs(f, func(in ssa.Instruction) {
			switch x := in.(type) {
			case *ssa.Phi:
				if isSliceT(x.Type()) {
					for _, e := range x.Edges {
						if !ssau.IsNilConst(e) {
							w.union(x, e)
						}
					}
				}
			case *ssa.Slice:
				if isSliceT(x.Type()) && isSliceT(x.X.Type()) {
					if n, isC := ssau.ConstInt(x.High); isC && n == 0 && x.High != nil {
						// v[:0] is a new, empty list (it only reuses v's storage)
						break
					}
					w.union(x, x.X)
				}
			case *ssa.Call:
				if b, ok := x.Common().Value.(*ssa.Builtin); ok && b.Name() == "append" {
					w.union(x, x.Common().Args[0])
				}
			case *ssa.Store:
				if isSliceT(x.Val.Type()) {
					switch x.Addr.(type) {
					case *ssa.Alloc, *ssa.FreeVar:
						w.union(w.cellRoot(x.Addr), x.Val)
					}
				}
			case *ssa.UnOp:
				if x.Op == token.MUL && isSliceT(x.Type()) {
					switch x.X.(type) {
					case *ssa.Alloc, *ssa.FreeVar:
						w.union(w.cellRoot(x.X), x)
					}
				}
			}
		})
	}
	return w
}

// cellRoot maps a free variable to the variable cell it is bound to.
func (w *sliceWeb) cellRoot(cell ssa.Value) ssa.Value {
	fv, ok := cell.(*ssa.FreeVar)
	if !ok {
		return cell
	}
	lit := fv.Parent()
	idx := -1
	for i, f := range lit.FreeVars {
		if f == fv {
			idx = i
		}
	}
	for _, f := range w.fns {
		var found ssa.Value
		ssau.Instrs(f, func(in ssa.Instruction) {
			if mc, ok := in.(*ssa.MakeClosure); ok && mc.Fn == ssa.Value(lit) && idx >= 0 && idx < len(mc.Bindings) {
				found = mc.Bindings[idx]
			}
		})
		if found != nil {
			return w.cellRoot(found)
		}
	}
	return cell
}

func (w *sliceWeb) same(a, b ssa.Value) bool { return w.find(a) == w.find(b) }

// appendsInto lists the append calls whose first operand belongs to the web of v.
func (w *sliceWeb) appendsInto(v ssa.Value) []*ssa.Call {
	var out []*ssa.Call
	for _, f := range w.fns {
		ssau.Instrs(f, func(in ssa.Instruction) {
			if cl, ok := in.(*ssa.Call); ok {
				if b, isB := cl.Common().Value.(*ssa.Builtin); isB && b.Name() == "append" && w.same(cl.Common().Args[0], v) {
					out = append(out, cl)
				}
			}
		})
	}
	return out
}

// appended describes what an append call adds: single element values (from the
// variadic array) or a spread slice.
func appended(cl *ssa.Call) (elems []ssa.Value, spread ssa.Value) {
	args := cl.Common().Args
	if len(args) < 2 {
		return nil, nil
	}
	if sl, ok := args[1].(*ssa.Slice); ok {
		if al, ok := sl.X.(*ssa.Alloc); ok {
			if _, isArr := al.Type().Underlying().(*types.Pointer).Elem().Underlying().(*types.Array); isArr {
				for _, r := range ssau.Referrers(al) {
					if ia, ok := r.(*ssa.IndexAddr); ok {
						for _, r2 := range ssau.Referrers(ia) {
							if st, ok := r2.(*ssa.Store); ok {
								elems = append(elems, st.Val)
							}
						}
					}
				}
				return elems, nil
			}
		}
	}
	return nil, args[1]
}

// msgSource describes one way a ProcessMsg-like function obtains "the message
// currently being enumerated" out of a *core.Walked.
type msgSource struct {
	isSource bool
	once     bool            // the using block runs exactly once per enumerated message
	walked   ssa.Value       // the *Walked being enumerated
	anchor   *ssa.BasicBlock // block that starts the enumeration
}

// emittedSource classifies v as "the message currently being enumerated" and
// reports whether an instruction in block b is executed exactly once per
// enumerated message: v is the parameter of a function literal handed to
// Walked.DoEmitted (b must post-dominate the literal's entry and the literal
// must only return nil), or v is the element of a range over an Emitted slice
// nested in a range over Strides (b must dominate every way back to the inner
// loop head, and neither loop may be left early).
func emittedSource(p *prog.Program, v ssa.Value, b *ssa.BasicBlock) msgSource {
	doEmitted := p.Func("core", "Walked", "DoEmitted")
	if par, ok := v.(*ssa.Parameter); ok {
		lit := par.Parent()
		if lit.Parent() == nil || len(lit.Params) == 0 || lit.Params[0] != par {
			return msgSource{}
		}
		var site ssa.CallInstruction
		for _, f := range ssau.WithAnon(topOf(lit)) {
			ssau.Instrs(f, func(in ssa.Instruction) {
				if ci, ok := in.(ssa.CallInstruction); ok && ci.Common().StaticCallee() == doEmitted {
					for _, a := range ci.Common().Args {
						if mc, ok := a.(*ssa.MakeClosure); ok && mc.Fn == ssa.Value(lit) {
							site = ci
						}
					}
				}
			})
		}
		if site == nil {
			return msgSource{}
		}
		once := b.Parent() == lit && flow.NewPostDom(lit).PostDominates(b, lit.Blocks[0]) && !flow.InCycle(b)
		for _, blk := range lit.Blocks {
			if ret, ok := blk.Instrs[len(blk.Instrs)-1].(*ssa.Return); ok && len(ret.Results) == 1 && !ssau.IsNilConst(ret.Results[0]) {
				once = false // an error return stops DoEmitted: later messages would be dropped
			}
		}
		return msgSource{isSource: true, once: once, walked: stripDeref(site.Common().Args[0]), anchor: site.Block()}
	}
	ld, ok := v.(*ssa.UnOp)
	if !ok || ld.Op != token.MUL {
		return msgSource{}
	}
	ia, ok := ld.X.(*ssa.IndexAddr)
	if !ok {
		return msgSource{}
	}
	if _, is := ssau.LoadOfField(ia.X, prog.Abs("core"), "Events", "Emitted"); !is {
		return msgSource{}
	}
	fn := ld.Parent()
	loops := enclosingLoops(flow.Loops(fn), ld.Block())
	if len(loops) < 2 {
		return msgSource{isSource: true}
	}
	inner, outer := loops[0], loops[1]
	walked, overStrides := ssau.LoadOfField(loopOperand(outer), prog.Abs("core"), "Walked", "Strides")
	once := overStrides && b.Parent() == fn && inner.Blocks[b]
	for _, latch := range inner.Latch {
		if !b.Dominates(latch) {
			once = false
		}
	}
	for _, l := range []*flow.Loop{inner, outer} {
		for _, ex := range l.Exits() {
			if ex[0] != l.Header {
				once = false
			}
		}
	}
	// the block that enters the outer loop
	anchor := outer.Header
	return msgSource{isSource: true, once: once, walked: stripDeref(walked), anchor: anchor}
}

func topOf(f *ssa.Function) *ssa.Function {
	for f.Parent() != nil {
		f = f.Parent()
	}
	return f
}

// batchInfo: v denotes "all messages emitted by one walk, in order": a slice web
// (in v's function, or the result of an in-package helper) that starts empty
// from a make and receives exactly one unconditional append per enumerated
// message and nothing else.
type batchInfo struct {
	ok     bool
	why    string
	origin []ssa.Value     // allocation instructions
	walked ssa.Value       // the *Walked whose messages are gathered (in the caller's terms)
	anchor *ssa.BasicBlock // block (in the caller) that starts the gathering
}

func batchOf(p *prog.Program, v ssa.Value, depth int) batchInfo {
	if depth > 2 {
		return batchInfo{why: "helper nesting too deep"}
	}
	// result of an in-package helper?
	if cl, ok := v.(*ssa.Call); ok {
		if h := cl.Common().StaticCallee(); h != nil && h.Blocks != nil && h.Signature.Results().Len() == 1 && isSliceT(h.Signature.Results().At(0).Type()) {
			var bi batchInfo
			n := 0
			var nilRets []*ssa.BasicBlock
			for _, b := range h.Blocks {
				ret, ok := b.Instrs[len(b.Instrs)-1].(*ssa.Return)
				if !ok {
					continue
				}
				if ssau.IsNilConst(ret.Results[0]) {
					nilRets = append(nilRets, b)
					continue
				}
				n++
				bi = batchOf(p, ret.Results[0], depth+1)
				if !bi.ok {
					return bi
				}
				if bi.anchor == nil || !bi.anchor.Dominates(b) {
					return batchInfo{why: "helper " + h.Name() + " can return without gathering the messages"}
				}
			}
			if n == 0 {
				return batchInfo{why: "helper never returns a batch"}
			}
			for _, b := range nilRets {
				if !provablyNil(bi.walked, b) {
					return batchInfo{why: "helper " + h.Name() + " can return no batch for a walk that is present"}
				}
			}
			// translate walked into the caller's terms
			par, isPar := bi.walked.(*ssa.Parameter)
			if !isPar || par.Parent() != h {
				return batchInfo{why: "helper " + h.Name() + " does not enumerate the walk it is given"}
			}
			for i, hp := range h.Params {
				if hp == par {
					bi.walked = cl.Common().Args[i]
				}
			}
			bi.anchor = cl.Block()
			bi.origin = []ssa.Value{cl}
			return bi
		}
	}
	in, isIn := v.(ssa.Instruction)
	if !isIn {
		return batchInfo{why: "not a local slice"}
	}
	w := newSliceWeb(topOf(in.Parent()))
	apps := w.appendsInto(v)
	if len(apps) == 0 {
		return batchInfo{why: "nothing is appended to it"}
	}
	var src msgSource
	for i, ap := range apps {
		elems, spread := appended(ap)
		if spread != nil || len(elems) != 1 {
			return batchInfo{why: "receives something other than single messages"}
		}
		src = emittedSource(p, elems[0], ap.Block())
		if !src.isSource {
			return batchInfo{why: "receives a value that is not an emitted message"}
		}
		if !src.once {
			return batchInfo{why: "a message is appended conditionally or repeatedly (or the enumeration can stop early)"}
		}
		if i > 0 {
			return batchInfo{why: "each message is appended more than once"}
		}
	}
	origins := sliceOrigins(v, map[ssa.Value]bool{})
	if len(origins) == 0 {
		return batchInfo{why: "cannot find where it is created"}
	}
	for _, o := range origins {
		switch x := o.(type) {
		case *ssa.MakeSlice:
		case *ssa.Alloc:
			if _, isArr := x.Type().Underlying().(*types.Pointer).Elem().Underlying().(*types.Array); !isArr {
				return batchInfo{why: "is not created empty by make"}
			}
		default:
			return batchInfo{why: "is not created by make in this function"}
		}
	}
	return batchInfo{ok: true, origin: origins, walked: src.walked, anchor: src.anchor}
}

// members lists the values of the web of v.
func (w *sliceWeb) members(v ssa.Value) []ssa.Value {
	root := w.find(v)
	var out []ssa.Value
	for m := range w.parent {
		if w.find(m) == root {
			out = append(out, m)
		}
	}
	return out
}

// lenGuardOnly: block b runs on every trip through loop L except when a
// `len(x) > 0`-style test on a value of web `of` says the slice is empty.
func lenGuardOnly(w *sliceWeb, of ssa.Value, b *ssa.BasicBlock, L *flow.Loop) bool {
	domAll := func(x *ssa.BasicBlock) bool {
		for _, latch := range L.Latch {
			if !x.Dominates(latch) {
				return false
			}
		}
		return true
	}
	if domAll(b) {
		return true
	}
	if len(b.Preds) != 1 {
		return false
	}
	pr := b.Preds[0]
	iff, ok := pr.Instrs[len(pr.Instrs)-1].(*ssa.If)
	if !ok || !domAll(pr) {
		return false
	}
	bo, ok := iff.Cond.(*ssa.BinOp)
	if !ok {
		return false
	}
	isLen := func(v ssa.Value) bool {
		if cl, isC := v.(*ssa.Call); isC {
			if bi, isB := cl.Common().Value.(*ssa.Builtin); isB && bi.Name() == "len" && w.same(cl.Common().Args[0], of) {
				return true
			}
		}
		return false
	}
	isZero := func(v ssa.Value) bool { n, ok := ssau.ConstInt(v); return ok && n == 0 }
	onTrue := b == pr.Succs[0]
	switch {
	case bo.Op == token.LSS && isZero(bo.X) && isLen(bo.Y), // 0 < len
		bo.Op == token.GTR && isLen(bo.X) && isZero(bo.Y), // len > 0
		bo.Op == token.NEQ && (isLen(bo.X) && isZero(bo.Y) || isZero(bo.X) && isLen(bo.Y)):
		return onTrue
	case bo.Op == token.EQL && (isLen(bo.X) && isZero(bo.Y) || isZero(bo.X) && isLen(bo.Y)):
		return !onTrue
	}
	return false
}

// sameSliceValue: a and b denote the same state of one slice variable: the same
// SSA value, or two loads of the same variable cell in one block with no store
// (and no call, which could run a capturing literal) in between.
func sameSliceValue(w *sliceWeb, a, b ssa.Value) bool {
	if a == b {
		return true
	}
	la, okA := a.(*ssa.UnOp)
	lb, okB := b.(*ssa.UnOp)
	if !okA || !okB || la.Op != token.MUL || lb.Op != token.MUL || w.cellRoot(la.X) != w.cellRoot(lb.X) || la.Block() != lb.Block() {
		return false
	}
	in := false
	for _, i := range la.Block().Instrs {
		if i == ssa.Instruction(la) || i == ssa.Instruction(lb) {
			if in {
				return true
			}
			in = true
			continue
		}
		if !in {
			continue
		}
		switch x := i.(type) {
		case *ssa.Store:
			if w.cellRoot(x.Addr) == w.cellRoot(la.X) {
				return false
			}
		case ssa.CallInstruction:
			if _, isB := x.Common().Value.(*ssa.Builtin); !isB {
				return false
			}
		}
	}
	return false
}

// stripDeref looks through loads of pointers that are not local variable cells
// (a value receiver is passed as `*p`).
func stripDeref(v ssa.Value) ssa.Value {
	for {
		u, ok := v.(*ssa.UnOp)
		if !ok || u.Op != token.MUL {
			return v
		}
		if _, isCell := u.X.(*ssa.Alloc); isCell {
			return v
		}
		v = u.X
	}
}

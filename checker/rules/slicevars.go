package rules

import (
	"go/token"
	"go/types"
	"strings"

	"golang.org/x/tools/go/ssa"

	"sheensverif/internal/flow"
	"sheensverif/internal/prog"
	"sheensverif/internal/ssau"
)

// sliceWeb groups the SSA values that denote one logical slice variable of a
// function (and its function literals): values connected by phis, by
// `append(v, ...)` (first operand -> result), by re-slicing, and by stores to /
// loads from the same (possibly captured) variable cell.  It makes the queue
// and batch rules independent of whether a variable happens to be captured by
// a closure (heap cell) or not (phi web).
type sliceWeb struct {
	fns    []*ssa.Function
	parent map[ssa.Value]ssa.Value

	// deep webs (newSliceWebDeep) also follow a slice through the fields of a struct that is local to the
	// function, through methods of that struct used as method values, and through the parameters and results
	// of unexported helpers that have a single call site.
	deep      bool
	inFns     map[*ssa.Function]bool
	site      map[*ssa.Function]*ssa.Call // helper -> its only call
	linked    map[ssa.Value]bool          // calls / extracts / parameters that were connected across a call
	fieldRep  map[fieldCellKey]ssa.Value  // (local struct, field) -> the FieldAddr that stands for the cell
	baseAlloc map[ssa.Value]*ssa.Alloc    // cache: base of a FieldAddr -> the local struct it denotes
	stores    map[ssa.Value][]*ssa.Store  // field cell -> stores into it
	tracked   map[*ssa.Alloc]bool         // local structs that do not escape the web's functions
}

type fieldCellKey struct {
	obj   *ssa.Alloc
	field int
}

func (w *sliceWeb) find(v ssa.Value) ssa.Value {
	for {
		p, ok := w.parent[v]
		if !ok || p == v {
			w.parent[v] = v
			return v
		}
		w.parent[v] = w.parent[p]
		if w.parent[v] == nil {
			w.parent[v] = p
		}
		v = p
	}
}

func (w *sliceWeb) union(a, b ssa.Value) {
	ra, rb := w.find(a), w.find(b)
	if ra != rb {
		w.parent[ra] = rb
	}
}

func isSliceT(t types.Type) bool {
	_, ok := t.Underlying().(*types.Slice)
	return ok
}

// newSliceWeb builds the webs of fn and its literals.
func newSliceWeb(fn *ssa.Function) *sliceWeb {
	w := &sliceWeb{fns: ssau.WithAnon(fn), parent: map[ssa.Value]ssa.Value{}}
	w.build()
	return w
}

// boundTarget: the method a bound-method wrapper (`x.m` used as a value) calls.
func boundTarget(wr *ssa.Function) *ssa.Function {
	if wr == nil || wr.Synthetic == "" || !strings.HasSuffix(wr.Name(), "$bound") {
		return nil
	}
	var out *ssa.Function
	ssau.Instrs(wr, func(in ssa.Instruction) {
		if ci, ok := in.(ssa.CallInstruction); ok {
			if sc := ci.Common().StaticCallee(); sc != nil {
				out = sc
			}
		}
	})
	return out
}

// newSliceWebDeep builds the webs of fn, its literals, the methods it uses as method values and the unexported
// helpers of its package that are called from exactly one place (transitively): a queue that is kept in a field
// of a local struct, appended to by a method of that struct, or handed to a helper and taken back from its
// result is still one web.
func newSliceWebDeep(p *prog.Program, fn *ssa.Function) *sliceWeb {
	w := &sliceWeb{parent: map[ssa.Value]ssa.Value{}, deep: true,
		inFns: map[*ssa.Function]bool{}, site: map[*ssa.Function]*ssa.Call{}, linked: map[ssa.Value]bool{},
		fieldRep: map[fieldCellKey]ssa.Value{}, baseAlloc: map[ssa.Value]*ssa.Alloc{}, stores: map[ssa.Value][]*ssa.Store{},
		tracked: map[*ssa.Alloc]bool{}}
	pk := prog.PkgOf(fn)
	pkgFns := p.FuncsIn(pk)
	add := func(f *ssa.Function) {
		for _, g := range ssau.WithAnon(f) {
			if !w.inFns[g] {
				w.inFns[g] = true
				w.fns = append(w.fns, g)
			}
		}
	}
	usable := func(h *ssa.Function) bool {
		return h != nil && h.Blocks != nil && h.Parent() == nil && prog.PkgOf(h) == pk && !w.inFns[h] &&
			(h.Object() == nil || !h.Object().Exported())
	}
	add(fn)
	for i := 0; i < len(w.fns) && len(w.fns) < 64; i++ {
		ssau.Instrs(w.fns[i], func(in ssa.Instruction) {
			switch x := in.(type) {
			case *ssa.MakeClosure:
				if wr, ok := x.Fn.(*ssa.Function); ok {
					if m := boundTarget(wr); usable(m) {
						add(m)
					}
				}
			case *ssa.Call:
				h := x.Common().StaticCallee()
				if !usable(h) {
					return
				}
				if sites := callSitesOf(h, pkgFns); len(sites) == 1 && sites[0] == ssa.CallInstruction(x) {
					w.site[h] = x
					add(h)
				}
			}
		})
	}
	w.build()
	return w
}

// fieldCell: the variable cell a field address denotes, if it is a field of a struct allocated in the web's
// functions that does not leave them; nil otherwise.
func (w *sliceWeb) fieldCell(fa *ssa.FieldAddr) ssa.Value {
	if !w.deep {
		return nil
	}
	obj, done := w.baseAlloc[fa.X]
	if !done {
		obj = nil
		if a, ok := fa.X.(*ssa.Alloc); ok {
			obj = a
		} else {
			ds := deepDefs(fa.X, w.fns)
			if len(ds) == 1 {
				obj, _ = ds[0].(*ssa.Alloc)
				if ld, isLd := ds[0].(*ssa.UnOp); isLd && obj == nil && ld.Op == token.MUL {
					// the pointer is itself kept in a field of a local struct (`batch.queue.pending`): the struct
					// that every store into that field puts there
					if _, viaField := ld.X.(*ssa.FieldAddr); viaField {
						if rs := resolveThroughLocals(ld, w.fns); len(rs) == 1 {
							obj, _ = rs[0].(*ssa.Alloc)
						}
					}
				}
			}
		}
		if obj != nil && !w.isTracked(obj) {
			obj = nil
		}
		w.baseAlloc[fa.X] = obj
	}
	if obj == nil {
		return nil
	}
	k := fieldCellKey{obj, fa.Field}
	if rep, ok := w.fieldRep[k]; ok {
		return rep
	}
	w.fieldRep[k] = fa
	return fa
}

// isTracked: every use of the local struct (pointer) is one this web follows: a field access, a method value or a
// call within the web's functions, or a local variable that is only used that way.
func (w *sliceWeb) isTracked(obj *ssa.Alloc) bool {
	if t, ok := w.tracked[obj]; ok {
		return t
	}
	if _, isStruct := obj.Type().Underlying().(*types.Pointer).Elem().Underlying().(*types.Struct); !isStruct {
		w.tracked[obj] = false
		return false
	}
	w.tracked[obj] = true // (cycles)
	seen := map[ssa.Value]bool{}
	var okUse func(v ssa.Value, depth int) bool
	okUse = func(v ssa.Value, depth int) bool {
		if seen[v] {
			return true
		}
		seen[v] = true
		if depth > 6 {
			return false
		}
		for _, r := range ssau.Referrers(v) {
			switch x := r.(type) {
			case *ssa.FieldAddr, *ssa.DebugRef:
			case *ssa.Phi:
				if !okUse(x, depth+1) {
					return false
				}
			case *ssa.MakeClosure:
				f, _ := x.Fn.(*ssa.Function)
				if m := boundTarget(f); m != nil {
					if !w.inFns[m] || len(m.Params) == 0 || !okUse(m.Params[0], depth+1) {
						return false
					}
					break
				}
				if f == nil || !w.inFns[f] {
					return false
				}
				for i, b := range x.Bindings {
					if b == v && i < len(f.FreeVars) && !okUse(f.FreeVars[i], depth+1) {
						return false
					}
				}
			case *ssa.Call:
				h := x.Common().StaticCallee()
				if h == nil || !w.inFns[h] || x.Common().IsInvoke() {
					return false
				}
				for i, a := range x.Common().Args {
					if a == v && (i >= len(h.Params) || !okUse(h.Params[i], depth+1)) {
						return false
					}
				}
			case *ssa.Store:
				// kept in a local variable (the cell of `q := &queue{}` when a literal captures q)
				cell, isCell := x.Addr.(*ssa.Alloc)
				if fa, isFA := x.Addr.(*ssa.FieldAddr); isFA && x.Val == v {
					// kept in a field of another local struct that is tracked itself (`batch := &emittedBatch{queue: q}`):
					// every read of that field is a use of the pointer
					if !w.holderFieldUses(fa, func(ld ssa.Value) bool { return okUse(ld, depth+1) }) {
						return false
					}
					break
				}
				if x.Val != v || !isCell {
					if x.Addr == v {
						break // a store through the pointer itself (whole-struct assignment): not followed, not an escape
					}
					return false
				}
				if !okUse(cell, depth+1) {
					return false
				}
			case *ssa.UnOp:
				if x.Op != token.MUL {
					return false
				}
				// load of the variable that holds the pointer: fine; a copy of the struct itself is not followed
				if _, isPtr := x.Type().Underlying().(*types.Pointer); !isPtr {
					return false
				}
				if !okUse(x, depth+1) {
					return false
				}
			default:
				return false
			}
		}
		return true
	}
	t := okUse(obj, 0)
	w.tracked[obj] = t
	if !t {
		// field addresses attributed to the struct while it was provisionally taken as tracked
		for k, a := range w.baseAlloc {
			if a == obj {
				delete(w.baseAlloc, k)
			}
		}
	}
	return t
}

// holderFieldUses: fa is a field of a tracked local struct (the holder) into which a pointer is stored.  Every
// address of that field of the holder taken in the web's functions must only be stored to and loaded from, and
// every load must satisfy okLoad.  False if the holder is not tracked or some field address cannot be attributed.
func (w *sliceWeb) holderFieldUses(fa *ssa.FieldAddr, okLoad func(ld ssa.Value) bool) bool {
	rep := w.fieldCell(fa)
	if rep == nil {
		return false
	}
	holder := w.baseAlloc[fa.X]
	structT := func(g *ssa.FieldAddr) types.Type {
		if pt, ok := g.X.Type().Underlying().(*types.Pointer); ok {
			return pt.Elem()
		}
		return nil
	}
	want := structT(fa)
	ok := true
	for _, f := range w.fns {
		ssau.Instrs(f, func(in ssa.Instruction) {
			g, isFA := in.(*ssa.FieldAddr)
			if !isFA || !ok || g.Field != fa.Field || want == nil || structT(g) == nil || !types.Identical(structT(g), want) {
				return
			}
			if w.fieldCell(g) != rep {
				// a field address that may or may not be the holder's: only fine if it certainly is not
				if a, isAl := g.X.(*ssa.Alloc); isAl && a != holder {
					return
				}
				for _, d := range deepDefs(g.X, w.fns) {
					if d == ssa.Value(holder) {
						ok = false
					}
					if _, isAl := d.(*ssa.Alloc); !isAl {
						ok = false
					}
				}
				return
			}
			for _, r := range ssau.Referrers(g) {
				switch y := r.(type) {
				case *ssa.DebugRef:
				case *ssa.Store:
					if y.Addr != ssa.Value(g) {
						ok = false
					}
				case *ssa.UnOp:
					if y.Op != token.MUL || !okLoad(y) {
						ok = false
					}
				default:
					ok = false
				}
			}
		})
	}
	return ok
}

// addrCell: the variable cell an address denotes for this web (nil if it is not one).
func (w *sliceWeb) addrCell(addr ssa.Value) ssa.Value {
	switch x := addr.(type) {
	case *ssa.Alloc, *ssa.FreeVar:
		return w.cellRoot(addr)
	case *ssa.FieldAddr:
		return w.fieldCell(x)
	case *ssa.Parameter, *ssa.UnOp:
		if w.deep {
			return w.ptrCell(addr, 0)
		}
	}
	return nil
}

// ptrCell: the variable cell a pointer to a slice denotes when the variable is handed by address (`&pending`) to a
// helper with a single call: the helper's pointer parameter stands for the cell of the operand of that call, also
// when the parameter is read back from the variable it was spilled to (a literal of the helper captures it), as
// long as that variable is assigned nowhere else.
func (w *sliceWeb) ptrCell(addr ssa.Value, depth int) ssa.Value {
	if depth > 4 {
		return nil
	}
	pt, isP := addr.Type().Underlying().(*types.Pointer)
	if !isP || !isSliceT(pt.Elem()) {
		return nil
	}
	switch x := addr.(type) {
	case *ssa.Alloc, *ssa.FreeVar, *ssa.FieldAddr:
		return w.addrCell(addr)
	case *ssa.Parameter:
		h := x.Parent()
		cl := w.site[h]
		if cl == nil {
			return nil
		}
		for i, par := range h.Params {
			if par == x && i < len(cl.Common().Args) {
				return w.ptrCell(cl.Common().Args[i], depth+1)
			}
		}
	case *ssa.UnOp:
		if x.Op != token.MUL {
			return nil
		}
		switch x.X.(type) {
		case *ssa.Alloc, *ssa.FreeVar:
		default:
			return nil
		}
		root := w.cellRoot(x.X)
		if _, isAl := root.(*ssa.Alloc); !isAl {
			return nil
		}
		var vals []ssa.Value
		for _, f := range w.fns {
			ssau.Instrs(f, func(in ssa.Instruction) {
				if st, ok := in.(*ssa.Store); ok && st.Val.Type() == addr.Type() {
					switch st.Addr.(type) {
					case *ssa.Alloc, *ssa.FreeVar:
						if w.cellRoot(st.Addr) == root {
							vals = append(vals, st.Val)
						}
					}
				}
			})
		}
		if len(vals) == 1 {
			return w.ptrCell(vals[0], depth+1)
		}
	}
	return nil
}

func (w *sliceWeb) build() {
	for _, f := range w.fns {
		ssau.Instrs(f, func(in ssa.Instruction) {
			switch x := in.(type) {
			case *ssa.Phi:
				if isSliceT(x.Type()) {
					for _, e := range x.Edges {
						if !ssau.IsNilConst(e) {
							w.union(x, e)
						}
					}
				}
			case *ssa.Slice:
				if isSliceT(x.Type()) && isSliceT(x.X.Type()) {
					if n, isC := ssau.ConstInt(x.High); isC && n == 0 && x.High != nil {
						// v[:0] is a new, empty list (it only reuses v's storage)
						break
					}
					w.union(x, x.X)
				}
			case *ssa.Call:
				if b, ok := x.Common().Value.(*ssa.Builtin); ok && b.Name() == "append" {
					w.union(x, x.Common().Args[0])
				}
				if h := x.Common().StaticCallee(); w.deep && h != nil && w.site[h] == x {
					w.linkCall(x, h)
				}
			case *ssa.Store:
				if isSliceT(x.Val.Type()) {
					if cell := w.addrCell(x.Addr); cell != nil {
						w.union(cell, x.Val)
						if _, isF := x.Addr.(*ssa.FieldAddr); isF {
							w.stores[cell] = append(w.stores[cell], x)
						}
					}
				}
			case *ssa.UnOp:
				if x.Op == token.MUL && isSliceT(x.Type()) {
					if cell := w.addrCell(x.X); cell != nil {
						w.union(cell, x)
					}
				}
			}
		})
	}
}

// linkCall connects the slice operands and results of the only call of helper h with h's parameters and returned
// values.
func (w *sliceWeb) linkCall(cl *ssa.Call, h *ssa.Function) {
	args := cl.Common().Args
	for i, par := range h.Params {
		if i < len(args) && isSliceT(par.Type()) && !ssau.IsNilConst(args[i]) {
			w.union(par, args[i])
			w.linked[par] = true
		}
	}
	res := h.Signature.Results()
	for _, b := range h.Blocks {
		ret, ok := b.Instrs[len(b.Instrs)-1].(*ssa.Return)
		if !ok {
			continue
		}
		if res.Len() == 1 && isSliceT(res.At(0).Type()) {
			w.linked[cl] = true
			if !ssau.IsNilConst(ret.Results[0]) {
				w.union(cl, ret.Results[0])
			}
			continue
		}
		for _, r := range ssau.Referrers(cl) {
			if ex, isEx := r.(*ssa.Extract); isEx && ex.Index < len(ret.Results) && isSliceT(ex.Type()) {
				w.linked[ex] = true
				if !ssau.IsNilConst(ret.Results[ex.Index]) {
					w.union(ex, ret.Results[ex.Index])
				}
			}
		}
	}
}

// liftTo maps an instruction to the instruction of function frame through which it is reached: itself if it is
// in frame, else the only call (in frame) of the helper it sits in, over several levels; nil if there is none.
func (w *sliceWeb) liftTo(frame *ssa.Function, in ssa.Instruction) ssa.Instruction {
	for depth := 0; depth < 4 && in != nil; depth++ {
		if in.Parent() == frame {
			return in
		}
		cl := w.site[in.Parent()]
		if cl == nil {
			return nil
		}
		in = cl
	}
	return nil
}

// cellRoot maps a free variable to the variable cell it is bound to.
func (w *sliceWeb) cellRoot(cell ssa.Value) ssa.Value {
	if fa, isFA := cell.(*ssa.FieldAddr); isFA {
		if rep := w.fieldCell(fa); rep != nil {
			return rep
		}
		return cell
	}
	fv, ok := cell.(*ssa.FreeVar)
	if !ok {
		return cell
	}
	lit := fv.Parent()
	idx := -1
	for i, f := range lit.FreeVars {
		if f == fv {
			idx = i
		}
	}
	for _, f := range w.fns {
		var found ssa.Value
		ssau.Instrs(f, func(in ssa.Instruction) {
			if mc, ok := in.(*ssa.MakeClosure); ok && mc.Fn == ssa.Value(lit) && idx >= 0 && idx < len(mc.Bindings) {
				found = mc.Bindings[idx]
			}
		})
		if found != nil {
			return w.cellRoot(found)
		}
	}
	return cell
}

func (w *sliceWeb) same(a, b ssa.Value) bool { return w.find(a) == w.find(b) }

// appendsInto lists the append calls whose first operand belongs to the web of v.
func (w *sliceWeb) appendsInto(v ssa.Value) []*ssa.Call {
	var out []*ssa.Call
	for _, f := range w.fns {
		ssau.Instrs(f, func(in ssa.Instruction) {
			if cl, ok := in.(*ssa.Call); ok {
				if b, isB := cl.Common().Value.(*ssa.Builtin); isB && b.Name() == "append" && w.same(cl.Common().Args[0], v) {
					out = append(out, cl)
				}
			}
		})
	}
	return out
}

// appended describes what an append call adds: single element values (from the
// variadic array) or a spread slice.
func appended(cl *ssa.Call) (elems []ssa.Value, spread ssa.Value) {
	args := cl.Common().Args
	if len(args) < 2 {
		return nil, nil
	}
	if sl, ok := args[1].(*ssa.Slice); ok {
		if al, ok := sl.X.(*ssa.Alloc); ok {
			if _, isArr := al.Type().Underlying().(*types.Pointer).Elem().Underlying().(*types.Array); isArr {
				for _, r := range ssau.Referrers(al) {
					if ia, ok := r.(*ssa.IndexAddr); ok {
						for _, r2 := range ssau.Referrers(ia) {
							if st, ok := r2.(*ssa.Store); ok {
								elems = append(elems, st.Val)
							}
						}
					}
				}
				return elems, nil
			}
		}
	}
	return nil, args[1]
}

// msgSource describes one way a ProcessMsg-like function obtains "the message
// currently being enumerated" out of a *core.Walked.
type msgSource struct {
	isSource bool
	once     bool            // the using block runs exactly once per enumerated message
	walked   ssa.Value       // the *Walked being enumerated
	anchor   *ssa.BasicBlock // block that starts the enumeration
}

// emittedSource classifies v as "the message currently being enumerated" and
// reports whether an instruction in block b is executed exactly once per
// enumerated message: v is the parameter of a function literal handed to
// Walked.DoEmitted (b must post-dominate the literal's entry and the literal
// must only return nil), or v is the element of a range over an Emitted slice
// nested in a range over Strides (b must dominate every way back to the inner
// loop head, and neither loop may be left early).
func emittedSource(p *prog.Program, v ssa.Value, b *ssa.BasicBlock) msgSource {
	doEmitted := p.Func("core", "Walked", "DoEmitted")
	if par, ok := v.(*ssa.Parameter); ok {
		lit := par.Parent()
		// a function literal (the message is its first parameter), or a method used as a method value (the
		// message is the first parameter after the receiver)
		isMethod := lit.Parent() == nil && lit.Signature.Recv() != nil
		mi := 0
		if isMethod {
			mi = 1
		}
		if (lit.Parent() == nil && !isMethod) || len(lit.Params) != mi+1 || lit.Params[mi] != par {
			return msgSource{}
		}
		var site ssa.CallInstruction
		var where []*ssa.Function
		if isMethod {
			where = p.FuncsIn(prog.PkgOf(lit))
		} else {
			where = ssau.WithAnon(topOf(lit))
		}
		nsites := 0
		for _, f := range where {
			ssau.Instrs(f, func(in ssa.Instruction) {
				if mc, ok := in.(*ssa.MakeClosure); ok && isMethod && boundTarget(mc.Fn.(*ssa.Function)) == lit {
					nsites++ // every use of the method value must be the hand-over to DoEmitted
				}
				if ci, ok := in.(ssa.CallInstruction); ok && ci.Common().StaticCallee() == doEmitted {
					for _, a := range ci.Common().Args {
						mc, ok := a.(*ssa.MakeClosure)
						if !ok {
							continue
						}
						if mc.Fn == ssa.Value(lit) || (isMethod && boundTarget(mc.Fn.(*ssa.Function)) == lit) {
							site = ci
							nsites--
						}
					}
				}
				if ci, ok := in.(ssa.CallInstruction); ok && isMethod && ci.Common().StaticCallee() == lit {
					nsites++ // also called directly: the parameter is not only an emitted message
				}
			})
		}
		if isMethod && nsites != 0 {
			return msgSource{}
		}
		if site == nil {
			return msgSource{}
		}
		once := b.Parent() == lit && flow.NewPostDom(lit).PostDominates(b, lit.Blocks[0]) && !flow.InCycle(b)
		for _, blk := range lit.Blocks {
			if ret, ok := blk.Instrs[len(blk.Instrs)-1].(*ssa.Return); ok && len(ret.Results) == 1 && !ssau.IsNilConst(ret.Results[0]) {
				once = false // an error return stops DoEmitted: later messages would be dropped
			}
		}
		return msgSource{isSource: true, once: once, walked: stripDeref(site.Common().Args[0]), anchor: site.Block()}
	}
	ld, ok := v.(*ssa.UnOp)
	if !ok || ld.Op != token.MUL {
		return msgSource{}
	}
	ia, ok := ld.X.(*ssa.IndexAddr)
	if !ok {
		return msgSource{}
	}
	if _, is := ssau.LoadOfField(ia.X, prog.Abs("core"), "Events", "Emitted"); !is {
		return msgSource{}
	}
	fn := ld.Parent()
	loops := enclosingLoops(flow.Loops(fn), ld.Block())
	if len(loops) < 2 {
		return msgSource{isSource: true}
	}
	inner, outer := loops[0], loops[1]
	walked, overStrides := ssau.LoadOfField(loopOperand(outer), prog.Abs("core"), "Walked", "Strides")
	once := overStrides && b.Parent() == fn && inner.Blocks[b]
	for _, latch := range inner.Latch {
		if !b.Dominates(latch) {
			once = false
		}
	}
	for _, l := range []*flow.Loop{inner, outer} {
		for _, ex := range l.Exits() {
			if ex[0] != l.Header {
				once = false
			}
		}
	}
	// the block that enters the outer loop
	anchor := outer.Header
	return msgSource{isSource: true, once: once, walked: stripDeref(walked), anchor: anchor}
}

func topOf(f *ssa.Function) *ssa.Function {
	for f.Parent() != nil {
		f = f.Parent()
	}
	return f
}

// batchInfo: v denotes "all messages emitted by one walk, in order": a slice web
// (in v's function, or the result of an in-package helper) that starts empty
// from a make and receives exactly one unconditional append per enumerated
// message and nothing else.
type batchInfo struct {
	ok     bool
	why    string
	origin []ssa.Value     // allocation instructions
	walked ssa.Value       // the *Walked whose messages are gathered (in the caller's terms)
	anchor *ssa.BasicBlock // block (in the caller) that starts the gathering
}

func batchOf(p *prog.Program, v ssa.Value, depth int) batchInfo { return batchOfIn(p, nil, v, depth) }

// batchOfIn: batchOf within a given (deep) web when v belongs to one of its functions.
func batchOfIn(p *prog.Program, web *sliceWeb, v ssa.Value, depth int) batchInfo {
	if depth > 2 {
		return batchInfo{why: "helper nesting too deep"}
	}
	// result of an in-package helper?
	if cl, ok := v.(*ssa.Call); ok {
		if h := cl.Common().StaticCallee(); h != nil && h.Blocks != nil && h.Signature.Results().Len() == 1 && isSliceT(h.Signature.Results().At(0).Type()) {
			var bi batchInfo
			n := 0
			var nilRets []*ssa.BasicBlock
			for _, b := range h.Blocks {
				ret, ok := b.Instrs[len(b.Instrs)-1].(*ssa.Return)
				if !ok {
					continue
				}
				if ssau.IsNilConst(ret.Results[0]) {
					nilRets = append(nilRets, b)
					continue
				}
				n++
				bi = batchOfIn(p, nil, ret.Results[0], depth+1)
				if !bi.ok {
					return bi
				}
				if bi.anchor == nil || !bi.anchor.Dominates(b) {
					return batchInfo{why: "helper " + h.Name() + " can return without gathering the messages"}
				}
			}
			if n == 0 {
				return batchInfo{why: "helper never returns a batch"}
			}
			for _, b := range nilRets {
				if !provablyNil(bi.walked, b) {
					return batchInfo{why: "helper " + h.Name() + " can return no batch for a walk that is present"}
				}
			}
			// translate walked into the caller's terms
			par, isPar := bi.walked.(*ssa.Parameter)
			if !isPar || par.Parent() != h {
				return batchInfo{why: "helper " + h.Name() + " does not enumerate the walk it is given"}
			}
			for i, hp := range h.Params {
				if hp == par {
					bi.walked = cl.Common().Args[i]
				}
			}
			bi.anchor = cl.Block()
			bi.origin = []ssa.Value{cl}
			return bi
		}
	}
	in, isIn := v.(ssa.Instruction)
	if !isIn {
		return batchInfo{why: "not a local slice"}
	}
	w := web
	if w == nil || !w.inFns[in.Parent()] {
		w = newSliceWebDeep(p, topOf(in.Parent()))
	}
	apps := w.appendsInto(v)
	if len(apps) == 0 {
		return batchInfo{why: "nothing is appended to it"}
	}
	var src msgSource
	for i, ap := range apps {
		elems, spread := appended(ap)
		if spread != nil || len(elems) != 1 {
			return batchInfo{why: "receives something other than single messages"}
		}
		src = emittedSource(p, elems[0], ap.Block())
		if !src.isSource {
			return batchInfo{why: "receives a value that is not an emitted message"}
		}
		if !src.once {
			return batchInfo{why: "a message is appended conditionally or repeatedly (or the enumeration can stop early)"}
		}
		if i > 0 {
			return batchInfo{why: "each message is appended more than once"}
		}
	}
	origins := w.originsOf(v, map[ssa.Value]bool{})
	if len(origins) == 0 {
		return batchInfo{why: "cannot find where it is created"}
	}
	for _, o := range origins {
		switch x := o.(type) {
		case *ssa.MakeSlice:
		case *ssa.Alloc:
			if _, isArr := x.Type().Underlying().(*types.Pointer).Elem().Underlying().(*types.Array); !isArr {
				return batchInfo{why: "is not created empty by make"}
			}
		default:
			return batchInfo{why: "is not created by make in this function"}
		}
	}
	return batchInfo{ok: true, origin: origins, walked: src.walked, anchor: src.anchor}
}

// originsOf: sliceOrigins that also looks through the field cells and helper calls of a deep web.
func (w *sliceWeb) originsOf(v ssa.Value, seen map[ssa.Value]bool) []ssa.Value {
	if !w.deep {
		return sliceOrigins(v, seen)
	}
	return sliceOriginsIn(w, v, seen)
}

// deepOrigins: the values a value of a deep web is made from, when it is a load of a field cell, the result of a
// linked helper call or a linked parameter; ok=false otherwise.
func (w *sliceWeb) deepOrigins(v ssa.Value) (from []ssa.Value, ok bool) {
	if w == nil || !w.deep {
		return nil, false
	}
	switch x := v.(type) {
	case *ssa.UnOp:
		if fa, isFA := x.X.(*ssa.FieldAddr); isFA && x.Op == token.MUL {
			if cell := w.fieldCell(fa); cell != nil {
				for _, st := range w.stores[cell] {
					from = append(from, st.Val)
				}
				return from, true
			}
		}
	case *ssa.Call:
		if h := x.Common().StaticCallee(); h != nil && w.site[h] == x && w.linked[x] {
			for _, b := range h.Blocks {
				if ret, isRet := b.Instrs[len(b.Instrs)-1].(*ssa.Return); isRet && !ssau.IsNilConst(ret.Results[0]) {
					from = append(from, ret.Results[0])
				}
			}
			return from, true
		}
	case *ssa.Extract:
		if cl, isCl := x.Tuple.(*ssa.Call); isCl && w.linked[x] {
			if h := cl.Common().StaticCallee(); h != nil && w.site[h] == cl {
				for _, b := range h.Blocks {
					if ret, isRet := b.Instrs[len(b.Instrs)-1].(*ssa.Return); isRet && x.Index < len(ret.Results) && !ssau.IsNilConst(ret.Results[x.Index]) {
						from = append(from, ret.Results[x.Index])
					}
				}
				return from, true
			}
		}
	case *ssa.Parameter:
		if cl := w.site[x.Parent()]; cl != nil && w.linked[x] {
			for i, par := range x.Parent().Params {
				if par == x && i < len(cl.Common().Args) {
					from = append(from, cl.Common().Args[i])
				}
			}
			return from, true
		}
	}
	return nil, false
}

// members lists the values of the web of v.
func (w *sliceWeb) members(v ssa.Value) []ssa.Value {
	root := w.find(v)
	var out []ssa.Value
	for m := range w.parent {
		if w.find(m) == root {
			out = append(out, m)
		}
	}
	return out
}

// lenGuardOnly: block b runs on every trip through loop L except when a
// `len(x) > 0`-style test on a value of web `of` says the slice is empty.
func lenGuardOnly(w *sliceWeb, of ssa.Value, b *ssa.BasicBlock, L *flow.Loop) bool {
	return lenGuardOnlyDom(w, of, b, func(x *ssa.BasicBlock) bool {
		for _, latch := range L.Latch {
			if !x.Dominates(latch) {
				return false
			}
		}
		return true
	})
}

// lenGuardOnlyFn: block b runs exactly once on every way through its function (a helper without a loop around b)
// except when a `len(x) > 0`-style test on a value of web `of` says the slice is empty.
func lenGuardOnlyFn(w *sliceWeb, of ssa.Value, b *ssa.BasicBlock) bool {
	if flow.InCycle(b) {
		return false
	}
	return lenGuardOnlyDom(w, of, b, func(x *ssa.BasicBlock) bool {
		n := 0
		for _, blk := range x.Parent().Blocks {
			if _, isRet := blk.Instrs[len(blk.Instrs)-1].(*ssa.Return); isRet {
				n++
				if !x.Dominates(blk) {
					return false
				}
			}
		}
		return n > 0
	})
}

// lenGuardOnlyDom: lenGuardOnly for a given meaning of "runs on every trip" (domAll).
func lenGuardOnlyDom(w *sliceWeb, of ssa.Value, b *ssa.BasicBlock, domAll func(x *ssa.BasicBlock) bool) bool {
	if domAll(b) {
		return true
	}
	if len(b.Preds) != 1 {
		return false
	}
	pr := b.Preds[0]
	iff, ok := pr.Instrs[len(pr.Instrs)-1].(*ssa.If)
	if !ok || !domAll(pr) {
		return false
	}
	bo, ok := iff.Cond.(*ssa.BinOp)
	if !ok {
		return false
	}
	isLen := func(v ssa.Value) bool {
		if cl, isC := v.(*ssa.Call); isC {
			if bi, isB := cl.Common().Value.(*ssa.Builtin); isB && bi.Name() == "len" && w.same(cl.Common().Args[0], of) {
				return true
			}
		}
		return false
	}
	isZero := func(v ssa.Value) bool { n, ok := ssau.ConstInt(v); return ok && n == 0 }
	onTrue := b == pr.Succs[0]
	switch {
	case bo.Op == token.LSS && isZero(bo.X) && isLen(bo.Y), // 0 < len
		bo.Op == token.GTR && isLen(bo.X) && isZero(bo.Y), // len > 0
		bo.Op == token.NEQ && (isLen(bo.X) && isZero(bo.Y) || isZero(bo.X) && isLen(bo.Y)):
		return onTrue
	case bo.Op == token.EQL && (isLen(bo.X) && isZero(bo.Y) || isZero(bo.X) && isLen(bo.Y)):
		return !onTrue
	}
	return false
}

// sameSliceValue: a and b denote the same state of one slice variable: the same
// SSA value, or two loads of the same variable cell in one block with no store
// (and no call, which could run a capturing literal) in between.
func sameSliceValue(w *sliceWeb, a, b ssa.Value) bool {
	if a == b {
		return true
	}
	la, okA := a.(*ssa.UnOp)
	lb, okB := b.(*ssa.UnOp)
	if !okA || !okB || la.Op != token.MUL || lb.Op != token.MUL || w.cellRoot(la.X) != w.cellRoot(lb.X) || la.Block() != lb.Block() {
		return false
	}
	in := false
	for _, i := range la.Block().Instrs {
		if i == ssa.Instruction(la) || i == ssa.Instruction(lb) {
			if in {
				return true
			}
			in = true
			continue
		}
		if !in {
			continue
		}
		switch x := i.(type) {
		case *ssa.Store:
			if w.cellRoot(x.Addr) == w.cellRoot(la.X) {
				return false
			}
		case ssa.CallInstruction:
			if _, isB := x.Common().Value.(*ssa.Builtin); !isB {
				return false
			}
		}
	}
	return false
}

// stripDeref looks through loads of pointers that are not local variable cells
// (a value receiver is passed as `*p`).
func stripDeref(v ssa.Value) ssa.Value {
	for {
		u, ok := v.(*ssa.UnOp)
		if !ok || u.Op != token.MUL {
			return v
		}
		if _, isCell := u.X.(*ssa.Alloc); isCell {
			return v
		}
		v = u.X
	}
}

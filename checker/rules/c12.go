package rules

import (
	"fmt"
	"go/token"
	"go/types"
	"sort"
	"strings"

	"golang.org/x/tools/go/ssa"

	"sheensverif/internal/flow"
	"sheensverif/internal/prog"
	"sheensverif/internal/pta"
	"sheensverif/internal/ssau"
)

func init() { Registry["C12"] = C12 }

var specStructTypes = map[string]bool{"Spec": true, "Node": true, "Branches": true, "Branch": true, "ActionSource": true}

// isSpecStruct: t is (a pointer to) one of core's spec-structure types.
func isSpecStruct(t types.Type) (string, bool) {
	n := ssau.NamedOf(t)
	if n == nil || n.Obj().Pkg() == nil || n.Obj().Pkg().Path() != prog.Abs("core") {
		return "", false
	}
	return n.Obj().Name(), specStructTypes[n.Obj().Name()]
}

// localFresh: v is (derived from) an Alloc / composite literal of the same function.
func localFresh(v ssa.Value) bool {
	switch x := v.(type) {
	case *ssa.Alloc:
		return true
	case *ssa.FieldAddr:
		return localFresh(x.X)
	case *ssa.IndexAddr:
		return localFresh(x.X)
	}
	return false
}

// specWrites lists instructions of fn that store into an existing (not locally
// allocated) spec-structure object: a field store, or an update of a map /
// slice held in such a field.
func specWrites(fn *ssa.Function) []ssa.Instruction {
	var out []ssa.Instruction
	fieldBase := func(addr ssa.Value) (ssa.Value, string, bool) {
		fa, ok := addr.(*ssa.FieldAddr)
		if !ok {
			return nil, "", false
		}
		name, is := isSpecStruct(fa.X.Type())
		if !is {
			return nil, "", false
		}
		return fa.X, name + pta.FieldName(fa.X.Type(), fa.Field), true
	}
	ssau.Instrs(fn, func(in ssa.Instruction) {
		switch x := in.(type) {
		case *ssa.Store:
			if base, _, ok := fieldBase(x.Addr); ok && !localFresh(base) {
				out = append(out, in)
				return
			}
			if ia, ok := x.Addr.(*ssa.IndexAddr); ok {
				if u, ok := ia.X.(*ssa.UnOp); ok {
					if base, _, ok := fieldBase(u.X); ok && !localFresh(base) {
						out = append(out, in)
					}
				}
			}
		case *ssa.MapUpdate:
			if u, ok := x.Map.(*ssa.UnOp); ok {
				if base, _, ok := fieldBase(u.X); ok && !localFresh(base) {
					out = append(out, in)
				}
			}
		}
	})
	return out
}

func C12(c *Ctx) {
	c.R.Explanation = "Decides structural necessary conditions of 'a compiled spec is shared immutable data and swaps are atomic': (R1) no instruction in the closure of Step/Walk writes memory reachable from the receiver spec or a package-level variable; (R2) none of the functions that store into existing spec structure (Spec, Node, Branches, Branch, ActionSource) is reachable from Step, Walk, UpdatableSpec.Spec or UpdatableSpec.SetSpec, and installing a spec does not write through it; (R3) the field holding the current spec of an UpdatableSpec is touched only by sync/atomic loads and stores (and its constructor); (R4) Step/Walk never re-read the current spec (no Specter.Spec call in their closure), so one call sees one version; (R5) Spec.Copy shares no Node, Branches, Branch or ActionSource object with its receiver, so compiling an edited copy cannot write the installed version. (R6) the script runtime used by an execution is created in that execution, so machines walked against one compiled spec share only the immutable compiled program. Race-freedom of third-party code (goja) is not decided."
	c.R.Rule("C12-R1", "E1", "processing never writes the spec or a package-level variable", 10)
	c.R.Rule("C12-R2", "E7+E1", "spec writers unreachable from processing and swap; SetSpec does not write its argument", 3)
	c.R.Rule("C12-R3", "E4", "UpdatableSpec.spec is accessed only through sync/atomic", 2)
	c.R.Rule("C12-R4", "E7", "one version per call: no Specter.Spec() in the closure of Step/Walk", 2)
	c.R.Rule("C12-R5", "E1", "Spec.Copy shares no spec-structure object with its receiver", 5)
	c.R.Rule("C12-R6", "E1", "machines sharing a spec share no script runtime: each execution creates its own", 3)
	c.R.Rule("C12-R7", "E1", "the action wrapper shared by all machines of a spec keeps no state: no write to its receiver or to package-level storage", 2)
	c.wrapperEffects("C12-R7", false)
	// (A rule C12-R8 "compiling a source stores nothing into the source object" was added for seed C12-12 while
	// Branch.Copy still shared guard sources between the versions of a spec; since repair F37 no source object is
	// shared, the seed stopped being a breaking change, and the rule was withdrawn.)
	c.R.Rule("C12-R9", "E1", "scripts get copies: machines that share a spec and a message cannot write each other's data through a script", 1)
	c.R.Rule("C12-R11", "E1", "the single-loop host compiles a private copy of the specification it is given: machines never share a Spec that is compiled in place", 3)
	c12OwnSpec(c, "C12-R11")
	c.R.Rule("C12-R12", "E7", "a compiled action stays bound to the interpreter that compiled it", 1)
	c12CompiledBinding(c, "C12-R12")
	c.shareRule("C15", "C15-R1", "C12-R13", "the specification a crew installs for a machine is resolved for that crew from the given source, not taken from storage that outlives the call (a compiled spec with native actions that close over one crew is not shared with another)")
	c.shareRule("C20", "C20-R8", "C12-R10", "the analysis and rendering tools only read the specification they are given (a compiled spec that is being rendered may be serving machines at the same time)")
	if ea, _ := c.ecmaAnalysis(); ea != nil {
		if c.scriptIsolation("C12-R9", ea, false) == 0 {
			c.R.Break("C12-R9: no value handed to the script runtime found")
		}
	}

	a, step, walk := c.stepWalkAnalysis()
	if a == nil {
		return
	}
	// R1
	c.reportEffects("C12-R1", a, func(e pta.Effect) bool {
		return e.Target.Kind != pta.KRoot || e.Target.Root == "spec"
	})
	c.dischargeWrites("C12-R1", a)

	// R2: writers of existing spec structure, repo-wide
	writers := map[*ssa.Function][]ssa.Instruction{}
	var wnames []string
	for _, f := range c.P.AllFuncs {
		if ws := specWrites(f); len(ws) > 0 {
			writers[f] = ws
			wnames = append(wnames, fmt.Sprintf("%s(%d)", fname(f), len(ws)))
		}
	}
	sort.Strings(wnames)
	c.R.Extra["spec_writers"] = wnames
	if len(writers) < 2 {
		c.R.Break("C12-R2: expected at least Compile and ParsePatterns as spec writers, found %v", wnames)
	}
	for f := range a.Reached {
		if ws, ok := writers[f]; ok {
			c.R.Violate("C12-R2", "processing reaches writer "+fname(f), c.pos(ws[0]), fmt.Sprintf("%s stores into existing spec structure and is reachable from Step/Walk", fname(f)))
		}
	}
	c.R.Discharge("C12-R2", "Step/Walk closure disjoint from spec writers", c.P.Pos(step.Pos()), fmt.Sprintf("%d functions in the closure, %d writer functions repo-wide, intersection empty unless reported", len(a.Reached), len(writers)))

	// swap API
	setSpec := c.fn("core", "UpdatableSpec", "SetSpec")
	getSpec := c.fn("core", "UpdatableSpec", "Spec")
	specSpec := c.fn("core", "Spec", "Spec")
	if setSpec != nil && getSpec != nil && specSpec != nil {
		roots := map[*ssa.Function]map[int]pta.RootSpec{
			setSpec:  {0: {Name: "updatable", Levels: 2}, 1: {Name: "newspec", Levels: 5}},
			getSpec:  {0: {Name: "updatable", Levels: 2}},
			specSpec: {0: {Name: "newspec", Levels: 5}},
		}
		b := pta.New(pta.Config{Prog: c.P, EnginePkgs: coreEngine, Entries: []*ssa.Function{setSpec, getSpec, specSpec}, Roots: roots, External: stdExternal})
		b.Run()
		c.noteAnalysis(b)
		// (the swap itself is an atomic store into the updatable: that every access of that field is atomic is R3)
		c.reportEffects("C12-R2", b, func(e pta.Effect) bool { return e.Site.Kind != "atomic update" })
		for f := range b.Reached {
			if ws, ok := writers[f]; ok {
				c.R.Violate("C12-R2", "swap reaches writer "+fname(f), c.pos(ws[0]), fmt.Sprintf("%s stores into existing spec structure and is reachable from UpdatableSpec.SetSpec/Spec", fname(f)))
			}
		}
		c.R.Discharge("C12-R2", "SetSpec/Spec closure disjoint from spec writers", c.P.Pos(setSpec.Pos()), fmt.Sprintf("%d functions in the closure", len(b.Reached)))
		c.R.Discharge("C12-R2", "SetSpec does not write through its argument", c.P.Pos(setSpec.Pos()), "no write effect on root newspec unless reported")
	}

	// R3: atomic-only field
	c12Atomic(c)

	// R4
	for _, f := range []*ssa.Function{getSpec, specSpec} {
		if f == nil {
			continue
		}
		c.R.Check(!a.Reached[f], "C12-R4", "closure excludes "+fname(f), c.P.Pos(f.Pos()), "not reachable from Step/Walk", "Step/Walk can re-read the current spec through "+fname(f))
	}
	invokes := 0
	for f := range a.Reached {
		ssau.Instrs(f, func(in ssa.Instruction) {
			if ci, ok := in.(ssa.CallInstruction); ok && ci.Common().IsInvoke() {
				if ci.Common().Method.Name() == "Spec" && ssau.TypeIs(ci.Common().Value.Type(), prog.Abs("core"), "Specter") {
					invokes++
					c.R.Violate("C12-R4", "invoke Specter.Spec in "+fname(f), c.pos(in), "processing re-reads the current spec version")
				}
			}
		})
	}
	_ = walk

	// R6: per-execution runtime (a pooled or cached runtime is state shared by all machines of a spec)
	if ea, ex := c.ecmaAnalysis(); ea != nil {
		c.runtimeFresh("C12-R6", ea, ex)
	}

	// R5: Spec.Copy
	cp := c.fn("core", "Spec", "Copy")
	if cp != nil {
		d := pta.New(pta.Config{Prog: c.P, EnginePkgs: coreEngine, Entries: []*ssa.Function{cp},
			Roots: map[*ssa.Function]map[int]pta.RootSpec{cp: {0: {Name: "orig", Levels: 8}}}, External: stdExternal})
		d.Run()
		c.R.Fn(d.ReachedNames()...)
		res := d.ReturnLocs(cp, 0)
		if len(res) == 0 {
			c.R.Break("C12-R5: Spec.Copy returns nothing")
		}
		paths := []struct {
			name  string
			steps []string
		}{
			{"result", nil},
			{"result.Nodes", []string{".Nodes"}},
			{"result.Nodes[]", []string{".Nodes", "[]"}},
			{"result.Nodes[].Branches", []string{".Nodes", "[]", ".Branches"}},
			{"result.Nodes[].Branches.Branches", []string{".Nodes", "[]", ".Branches", ".Branches"}},
			{"result.Nodes[].Branches.Branches[]", []string{".Nodes", "[]", ".Branches", ".Branches", "[]"}},
			{"result.Nodes[].ActionSource", []string{".Nodes", "[]", ".ActionSource"}},
			{"result.Nodes[].Branches.Branches[].GuardSource", []string{".Nodes", "[]", ".Branches", ".Branches", "[]", ".GuardSource"}},
			{"result.Nodes[].Branches.Branches[].Pattern", []string{".Nodes", "[]", ".Branches", ".Branches", "[]", ".Pattern"}},
		}
		for _, p := range paths {
			locs := res
			for _, s := range p.steps {
				locs = d.Deref(locs, s)
			}
			var bad []string
			for _, l := range locs {
				if l.Obj.Kind == pta.KRoot || l.Obj.Kind == pta.KGlobal || l.Obj.Kind == pta.KGlobalSub {
					bad = append(bad, pta.LocString(l))
				}
			}
			sort.Strings(bad)
			if len(bad) > 0 && strings.HasSuffix(p.name, ".Pattern") {
				// E1 does not tell a map from a scalar inside an interface value: a copier that hands
				// scalars back as they are is judged by its shape instead
				if why := deepPatternCopy(c); why == "" {
					c.R.Discharge("C12-R5", p.name, c.P.Pos(cp.Pos()), "Branch.Copy copies the pattern's maps and arrays recursively; only scalars are shared")
					continue
				} else {
					bad = append(bad, why)
				}
			}
			c.R.Check(len(bad) == 0 && (len(locs) > 0 || len(p.steps) > 4), "C12-R5", p.name, c.P.Pos(cp.Pos()), "only objects allocated by the copy: "+locsString(locs),
				"the copy shares spec structure with the original: "+strings.Join(bad, ", ")+" (all: "+locsString(locs)+")")
		}
	}
}

// c12Atomic: every FieldAddr of UpdatableSpec.spec is used only as the address
// argument of sync/atomic LoadPointer/StorePointer/CompareAndSwapPointer/SwapPointer,
// except the initialising store in a composite literal of the constructor.
func c12Atomic(c *Ctx) {
	n := 0
	for _, f := range c.P.AllFuncs {
		ssau.Instrs(f, func(in ssa.Instruction) {
			fa, ok := in.(*ssa.FieldAddr)
			if !ok || !ssau.IsField(fa, prog.Abs("core"), "UpdatableSpec", "spec") {
				return
			}
			n++
			// uses: the uses of an address of the field (the FieldAddr itself, or the result of an unexported helper
			// that answers that address and is only ever called directly: answering the address is not an access, what
			// its callers do with it is)
			var uses func(addr ssa.Value, pre string, depth int)
			uses = func(addr ssa.Value, pre string, depth int) {
				for i, r := range ssau.Referrers(addr) {
					key := fmt.Sprintf("%s.%d", pre, i)
					switch u := r.(type) {
					case ssa.CallInstruction:
						name := ssau.CalleeName(u)
						ok := strings.HasPrefix(name, "sync/atomic.") && strings.HasSuffix(name, "Pointer") && len(u.Common().Args) > 0 && u.Common().Args[0] == addr
						if (strings.HasPrefix(name, "(*sync/atomic.Pointer[") || strings.HasPrefix(name, "(*sync/atomic.Value).")) && len(u.Common().Args) > 0 && u.Common().Args[0] == addr {
							ok = true // the field is an atomic box: its methods are the atomic accesses
						}
						c.R.Check(ok, "C12-R3", key, c.pos(r), "address consumed by "+name, "UpdatableSpec.spec is accessed by a non-atomic operation: "+name)
					case *ssa.Store:
						fresh := u.Addr == addr && addr == ssa.Value(fa) && localFresh(fa.X)
						c.R.Check(fresh, "C12-R3", key, c.pos(r), "initialising store into a freshly allocated UpdatableSpec", "plain store to UpdatableSpec.spec")
					case *ssa.DebugRef:
					case *ssa.Return:
						h := u.Parent()
						if sites, ok := c12DirectCallsOnly(c, h); ok && depth < 3 && len(u.Results) == 1 {
							for j, site := range sites {
								if cv, isVal := site.(*ssa.Call); isVal {
									uses(cv, fmt.Sprintf("%s.%d@%s#%d", pre, i, fname(site.Parent()), j), depth+1)
								} else {
									c.R.Violate("C12-R3", key, c.pos(site), "the address of UpdatableSpec.spec is obtained in a go or defer statement")
								}
							}
							continue
						}
						c.R.Violate("C12-R3", key, c.pos(r), fmt.Sprintf("UpdatableSpec.spec is accessed by a non-atomic instruction %T", r))
					default:
						c.R.Violate("C12-R3", key, c.pos(r), fmt.Sprintf("UpdatableSpec.spec is accessed by a non-atomic instruction %T", r))
					}
				}
			}
			uses(fa, fmt.Sprintf("%s:use#%d", fname(f), n), 0)
		})
	}
	if n == 0 {
		c.R.Break("C12-R3: field UpdatableSpec.spec not found")
	}
	// an UpdatableSpec is used in place, never copied: a copy holds the version current when it was made (and copying
	// is itself a plain read of the field)
	ncopy := 0
	for _, f := range c.P.AllFuncs {
		if f.Blocks == nil || prog.PkgOf(f) == "" {
			continue
		}
		isUS := func(t types.Type) bool {
			n, ok := t.(*types.Named)
			return ok && n.Obj().Name() == "UpdatableSpec" && n.Obj().Pkg() != nil && n.Obj().Pkg().Path() == prog.Abs("core")
		}
		for _, p := range f.Params {
			if isUS(p.Type()) {
				ncopy++
				c.R.Violate("C12-R3", fmt.Sprintf("%s: takes an UpdatableSpec by value", fname(f)), c.P.Pos(f.Pos()), "an UpdatableSpec is passed (or used as a receiver) by value: the callee works on a copy made by a plain read, which never sees a later SetSpec")
			}
		}
		ssau.Instrs(f, func(in ssa.Instruction) {
			if u, ok := in.(*ssa.UnOp); ok && u.Op == token.MUL && isUS(u.Type()) {
				ncopy++
				c.R.Violate("C12-R3", fmt.Sprintf("%s: copies an UpdatableSpec", fname(f)), c.pos(in), "an UpdatableSpec is copied by a plain read of the whole value")
			}
		})
	}
	if ncopy == 0 {
		c.R.Discharge("C12-R3", "UpdatableSpec is never copied", "core/specter.go", "no parameter, receiver or load of type core.UpdatableSpec by value in the repository")
	}
}

// c12DirectCallsOnly: h is an unexported named function or method whose every use in the repository is a direct
// call; answers those calls.
func c12DirectCallsOnly(c *Ctx, h *ssa.Function) ([]ssa.CallInstruction, bool) {
	if h == nil || h.Parent() != nil || h.Object() == nil || h.Object().Exported() {
		return nil, false
	}
	ok := true
	var sites []ssa.CallInstruction
	for _, g := range c.P.AllFuncs {
		ssau.Instrs(g, func(in ssa.Instruction) {
			ci, isCall := in.(ssa.CallInstruction)
			if isCall && ci.Common().StaticCallee() == h && !ci.Common().IsInvoke() {
				sites = append(sites, ci)
			}
			for _, op := range in.Operands(nil) {
				if op == nil || *op == nil {
					continue
				}
				fv, isFn := (*op).(*ssa.Function)
				if !isFn {
					continue
				}
				if fv == h && !(isCall && ci.Common().Value == ssa.Value(h)) {
					ok = false // used as a value
				}
				if fv != h && fv.Synthetic != "" && fv.Object() == h.Object() {
					ok = false // a method value or method expression
				}
			}
		})
	}
	return sites, ok && len(sites) > 0
}

// deepPatternCopy: Branch.Copy stores into Pattern the result of a function that answers with a map or slice it
// made (whose members are results of the same function) and hands its operand back only where the operand is
// known to be neither a map nor a slice.  Returns "" if so, else what is wrong.
func deepPatternCopy(c *Ctx) string {
	bc := c.P.Func("core", "Branch", "Copy")
	if bc == nil {
		return "core.Branch.Copy not found"
	}
	var g *ssa.Function
	for _, st := range storesTo(bc, "Branch", "Pattern") {
		cl, ok := st.Val.(*ssa.Call)
		if !ok || cl.Common().StaticCallee() == nil || cl.Common().StaticCallee().Blocks == nil {
			return "Branch.Copy stores the receiver's pattern itself"
		}
		g = cl.Common().StaticCallee()
	}
	if g == nil || len(g.Params) == 0 {
		return "Branch.Copy does not set Pattern"
	}
	x := g.Params[len(g.Params)-1]
	isContainer := func(t types.Type) bool {
		switch t.Underlying().(type) {
		case *types.Map, *types.Slice:
			return true
		}
		return false
	}
	for _, b := range g.Blocks {
		ret, ok := b.Instrs[len(b.Instrs)-1].(*ssa.Return)
		if !ok || len(ret.Results) != 1 {
			continue
		}
		for _, d := range phiDefs(ret.Results[0], nil, map[ssa.Value]bool{}) {
			if mi, isMI := d.(*ssa.MakeInterface); isMI {
				d = mi.X
			}
			switch v := d.(type) {
			case *ssa.MakeMap, *ssa.MakeSlice:
				continue
			case *ssa.Slice:
				if _, isAl := v.X.(*ssa.Alloc); isAl {
					continue
				}
			case *ssa.Parameter:
				if v == x {
					// only where x is known to be no container
					excluded := 0
					for _, ft := range flow.FactsAt(b) {
						if ex, isEx := ft.Cond.(*ssa.Extract); isEx && ex.Index == 1 && !ft.True {
							if ta, isTA := ex.Tuple.(*ssa.TypeAssert); isTA && ta.X == ssa.Value(x) && isContainer(ta.AssertedType) {
								excluded++
							}
						}
					}
					if excluded >= 2 {
						continue
					}
				}
			}
			if ssau.IsNilConst(d) {
				continue
			}
			return "the pattern copier " + g.Name() + " can hand back a map or array of the original (" + c.pos(ret) + ")"
		}
	}
	// members of the containers it makes are copies too
	bad := ""
	ssau.Instrs(g, func(in ssa.Instruction) {
		var val ssa.Value
		switch v := in.(type) {
		case *ssa.MapUpdate:
			if _, isMake := v.Map.(*ssa.MakeMap); isMake {
				val = v.Value
			}
		case *ssa.Store:
			if ia, isIA := v.Addr.(*ssa.IndexAddr); isIA {
				if _, isMake := ia.X.(*ssa.MakeSlice); isMake {
					val = v.Val
				}
			}
		}
		if val == nil {
			return
		}
		if cl, isC := val.(*ssa.Call); !isC || cl.Common().StaticCallee() != g {
			bad = "a member of the copy is not itself copied (" + c.pos(in) + ")"
		}
	})
	return bad
}

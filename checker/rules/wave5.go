package rules

import (
	"fmt"
	"go/types"
	"strings"

	"golang.org/x/tools/go/ssa"

	"sheensverif/internal/prog"
	"sheensverif/internal/ssau"
)

// Rules added after the fifth probing wave.

// c15StoreSeeded: C15-R8.  The stdio host keeps its own store (Stdio.state): the output loop applies every reported
// change to it and writeState serialises it.  That store equals the live crew only if it starts from what the crew was
// rebuilt from: Read decodes the state file into that very field and hands out what it holds.
func c15StoreSeeded(c *Ctx, rule string) {
	// the field that the store's writer serialises
	owner, field := "", ""
	for _, f := range c.P.FuncsIn("sio") {
		ssau.Instrs(f, func(in ssa.Instruction) {
			cl, ok := in.(*ssa.Call)
			if !ok || !strings.HasPrefix(ssau.CalleeName(cl), "encoding/json.Marshal") || len(cl.Common().Args) == 0 {
				return
			}
			v := cl.Common().Args[0]
			if mi, isMI := v.(*ssa.MakeInterface); isMI {
				v = mi.X
			}
			if ld, isLd := v.(*ssa.UnOp); isLd {
				v = ld.X
			}
			if n, fld, _, isF := ssau.FieldOf(v); isF && n != nil && n.Obj().Pkg() != nil && n.Obj().Pkg().Path() == prog.Abs("sio") {
				if pt, isP := v.Type().Underlying().(*types.Pointer); isP {
					if _, isMap := pt.Elem().Underlying().(*types.Map); isMap {
						owner, field = n.Obj().Name(), fld
					}
				}
			}
		})
	}
	if field == "" {
		c.R.Break(rule + ": no map field of a store in package sio is serialised")
		return
	}
	isStoreField := func(addr ssa.Value) bool { return ssau.IsField(addr, prog.Abs("sio"), owner, field) }
	total := 0
	for _, read := range c.P.FuncsIn("sio") {
		if read.Name() != "Read" || read.Signature.Recv() == nil || read.Signature.Results().Len() != 2 {
			continue
		}
		if _, isMap := read.Signature.Results().At(0).Type().Underlying().(*types.Map); !isMap {
			continue
		}
		c.R.Fn(fname(read))
		// decode targets
		n := 0
		ssau.Instrs(read, func(in ssa.Instruction) {
			cl, ok := in.(*ssa.Call)
			if !ok {
				return
			}
			name := ssau.CalleeName(cl)
			var target ssa.Value
			switch {
			case name == "encoding/json.Unmarshal" && len(cl.Common().Args) == 2:
				target = cl.Common().Args[1]
			case strings.HasSuffix(name, "json.Decoder).Decode") && len(cl.Common().Args) >= 1:
				target = cl.Common().Args[len(cl.Common().Args)-1]
			default:
				return
			}
			if mi, isMI := target.(*ssa.MakeInterface); isMI {
				target = mi.X
			}
			pt, isPtr := target.Type().Underlying().(*types.Pointer)
			if !isPtr {
				return
			}
			if _, isMap := pt.Elem().Underlying().(*types.Map); !isMap {
				return
			}
			n++
			total++
			okT := isStoreField(target)
			if al, isAl := target.(*ssa.Alloc); isAl && !okT {
				// decoded into a local variable that is then made the store
				for _, r := range ssau.Referrers(al) {
					if ld, isLd := r.(*ssa.UnOp); isLd {
						for _, r2 := range ssau.Referrers(ld) {
							if st, isSt := r2.(*ssa.Store); isSt && st.Val == ssa.Value(ld) && isStoreField(st.Addr) && cl.Block().Dominates(st.Block()) {
								okT = true
							}
						}
					}
				}
			}
			c.R.Check(okT, rule, fmt.Sprintf("%s: decode #%d fills the host's store", fname(read), n), c.pos(cl), "the persisted machines are decoded into "+owner+"."+field+", the map the output loop updates and writeState writes", "the state file is decoded into something else than "+owner+"."+field+": the host's store starts empty while the crew is rebuilt with every machine, so what is written at the next stop lacks the machines that have not changed since")
		})
	}
	if total == 0 {
		c.R.Break(rule + ": no Read method of package sio decodes persisted machines")
	}
}

package rules

import (
	"fmt"
	"go/token"
	"go/types"
	"os"
	"strings"

	"golang.org/x/tools/go/ssa"

	"sheensverif/internal/flow"
	"sheensverif/internal/prog"
	"sheensverif/internal/pta"
	"sheensverif/internal/ssau"
)

// Rules added after the fifth probing wave.

// c15StoreSeeded: C15-R8.  The stdio host keeps its own store (Stdio.state): the output loop applies every reported
// change to it and writeState serialises it.  That store equals the live crew only if it starts from what the crew was
// rebuilt from: Read decodes the state file into that very field and hands out what it holds.
func c15StoreSeeded(c *Ctx, rule string) {
	sio := c.P.FuncsIn("sio")
	isMachines := func(t types.Type) bool {
		pt, isP := t.Underlying().(*types.Pointer)
		if !isP {
			return false
		}
		_, isMap := pt.Elem().Underlying().(*types.Map)
		return isMap
	}
	// the field that the store's writer serialises (directly, or through a helper that is handed its address)
	owner, field := "", ""
	for _, f := range sio {
		ssau.Instrs(f, func(in ssa.Instruction) {
			cl, ok := in.(*ssa.Call)
			if !ok || !strings.HasPrefix(ssau.CalleeName(cl), "encoding/json.Marshal") || len(cl.Common().Args) == 0 {
				return
			}
			v := cl.Common().Args[0]
			if mi, isMI := v.(*ssa.MakeInterface); isMI {
				v = mi.X
			}
			if ld, isLd := v.(*ssa.UnOp); isLd {
				v = ld.X
			}
			// (the function that marshals may be a helper that is handed the field's address: resolve its parameters too)
			var scope []*ssa.Function
			for _, g := range sio {
				if g != f {
					scope = append(scope, g)
				}
			}
			scope = append(scope, f)
			for _, d := range deepDefs(v, scope) {
				if n, fld, _, isF := ssau.FieldOf(d); isF && n != nil && n.Obj().Pkg() != nil && n.Obj().Pkg().Path() == prog.Abs("sio") && isMachines(d.Type()) {
					owner, field = n.Obj().Name(), fld
				}
			}
		})
	}
	if field == "" {
		c.R.Break(rule + ": no map field of a store in package sio is serialised")
		return
	}
	isStoreField := func(addr ssa.Value) bool { return ssau.IsField(addr, prog.Abs("sio"), owner, field) }
	total := 0
	for _, read := range sio {
		if read.Name() != "Read" || read.Signature.Recv() == nil || read.Signature.Results().Len() != 2 {
			continue
		}
		if _, isMap := read.Signature.Results().At(0).Type().Underlying().(*types.Map); !isMap {
			continue
		}
		c.R.Fn(fname(read))
		scope := []*ssa.Function{read}
		for _, g := range pkgClosure(read) {
			if g != read && prog.PkgOf(g) == "sio" {
				scope = append(scope, g)
			}
		}
		n := 0
		for _, f := range scope {
			ssau.Instrs(f, func(in ssa.Instruction) {
				cl, ok := in.(*ssa.Call)
				if !ok {
					return
				}
				name := ssau.CalleeName(cl)
				var target ssa.Value
				switch {
				case name == "encoding/json.Unmarshal" && len(cl.Common().Args) == 2:
					target = cl.Common().Args[1]
				case strings.HasSuffix(name, "json.Decoder).Decode") && len(cl.Common().Args) >= 1:
					target = cl.Common().Args[len(cl.Common().Args)-1]
				default:
					return
				}
				if mi, isMI := target.(*ssa.MakeInterface); isMI {
					target = mi.X
				}
				if !isMachines(target.Type()) {
					return
				}
				n++
				total++
				okT := true
				leaves := deepDefs(target, scope)
				if len(leaves) == 0 {
					okT = false
				}
				for _, lf := range leaves {
					if isStoreField(lf) {
						continue
					}
					okL := false
					if al, isAl := lf.(*ssa.Alloc); isAl {
						// decoded into a local variable that is then made the store
						for _, r := range ssau.Referrers(al) {
							if ld, isLd := r.(*ssa.UnOp); isLd {
								for _, r2 := range ssau.Referrers(ld) {
									if st, isSt := r2.(*ssa.Store); isSt && st.Val == ssa.Value(ld) && isStoreField(st.Addr) {
										okL = true
									}
								}
							}
						}
					}
					if !okL {
						okT = false
					}
				}
				c.R.Check(okT, rule, fmt.Sprintf("%s: decode #%d fills the host's store", fname(read), n), c.pos(cl), "the persisted machines are decoded into "+owner+"."+field+", the map the output loop updates and writeState writes", "the state file is decoded into something else than "+owner+"."+field+": the host's store starts empty while the crew is rebuilt with every machine, so what is written at the next stop lacks the machines that have not changed since")
			})
		}
	}
	if total == 0 {
		c.R.Break(rule + ": no Read method of package sio decodes persisted machines")
	}
}

// c20SpecUntouched: C20-R8.  Analysis and rendering describe the specification they are given and leave it as it was:
// E1 from the tools' entry points with the spec protected.  A renderer that adds placeholder nodes to Spec.Nodes, or
// parses the patterns in place, changes what the next analysis (or the host that runs the spec) sees.
func c20SpecUntouched(c *Ctx, rule string) {
	var entries []*ssa.Function
	roots := map[*ssa.Function]map[int]pta.RootSpec{}
	for _, f := range c.P.FuncsIn("tools") {
		if f.Parent() != nil || f.Object() == nil || !f.Object().Exported() || f.Signature.Recv() != nil {
			continue
		}
		r := map[int]pta.RootSpec{}
		for i, p := range f.Params {
			if ssau.TypeIs(p.Type(), prog.Abs("core"), "Spec") {
				r[i] = pta.RootSpec{Name: "spec", Levels: 5}
			}
		}
		if len(r) == 0 {
			continue
		}
		entries = append(entries, f)
		roots[f] = r
	}
	if len(entries) < 3 {
		c.R.Break(rule+": expected Analyze, Dot and Mermaid (at least) to take a *core.Spec, found %d entry points", len(entries))
		return
	}
	a := pta.New(pta.Config{Prog: c.P, EnginePkgs: map[string]bool{"tools": true, "core": true, "match": true}, Entries: entries, Roots: roots, External: stdExternal})
	a.Run()
	c.noteAnalysis(a)
	n := c.reportEffects(rule, a, func(e pta.Effect) bool { return strings.HasPrefix(e.Target.Name, "root:spec") })
	if n == 0 {
		var names []string
		for _, f := range entries {
			names = append(names, f.Name())
			c.R.Fn(fname(f))
		}
		c.R.Discharge(rule, "tools: the given specification is only read", c.P.Pos(entries[0].Pos()), fmt.Sprintf("%d write sites reachable from %s examined, none can reach the spec", countReachedWrites(a), strings.Join(names, ", ")))
	}
}

// c20Terminal: C20-R9.  The terminal nodes reported are the nodes without a branch: a node is added to the list on the
// edge that found its list of branches empty (len == 0; a nil list has length 0 too), and a node without any branching
// (nil Branches) is added as well — through its own nil test or because the list taken for such a node is nil.
func c20Terminal(c *Ctx, rule string, ana *ssa.Function, scope []*ssa.Function) {
	// the appends of node names that are decided by a test of the node's branches (in Analyze or a helper of it)
	var apps []*ssa.Call
	for _, f := range scope {
		ssau.Instrs(f, func(in ssa.Instruction) {
			cl, ok := in.(*ssa.Call)
			if !ok {
				return
			}
			if b, isB := cl.Common().Value.(*ssa.Builtin); !isB || b.Name() != "append" {
				return
			}
			if sl, isSl := cl.Type().Underlying().(*types.Slice); !isSl || sl.Elem().String() != "string" {
				return
			}
			apps = append(apps, cl)
		})
	}
	isBranchList := func(v ssa.Value) (list, nilOK bool) {
		for _, d := range deepDefs(v, scope) {
			if _, is := isFieldLoad(d, "core", "Branches", "Branches"); is {
				list = true
			}
			if ssau.IsNilConst(d) {
				nilOK = true
			}
		}
		return
	}
	ncand := 0
	for _, ap := range apps {
		B := ap.Block()
		var edges [][]flow.Fact
		if len(B.Preds) <= 1 {
			edges = append(edges, flow.FactsAt(B))
		} else {
			for _, p := range B.Preds {
				edges = append(edges, append(append([]flow.Fact{}, flow.FactsAt(p)...), flow.EdgeFacts(p, B)...))
			}
		}
		emptyEdge, nilEdge := false, false
		for _, fs := range edges {
			for _, ft := range flow.Expand(fs) {
				bo, ok := ft.Cond.(*ssa.BinOp)
				if !ok {
					continue
				}
				eq := (bo.Op == token.EQL && ft.True) || (bo.Op == token.NEQ && !ft.True)
				x, y := bo.X, bo.Y
				if _, isC := x.(*ssa.Const); isC {
					x, y = y, x
				}
				if cl, isCl := x.(*ssa.Call); isCl && eq {
					if b, isB := cl.Common().Value.(*ssa.Builtin); isB && b.Name() == "len" {
						if k, isK := ssau.ConstInt(y); isK && k == 0 {
							if list, nilOK := isBranchList(cl.Common().Args[0]); list {
								emptyEdge = true
								if nilOK {
									nilEdge = true
								}
							}
						}
					}
				}
				// 0 < len(x) false, len(x) > 0 false, len(x) < 1 true ...: not the idiom of this code base; the rule would report them (see DESIGN)
				if eq && ssau.IsNilConst(y) {
					if list, nilOK := isBranchList(x); list && nilOK {
						nilEdge = true
					}
					for _, d := range deepDefs(x, scope) {
						if _, is := isFieldLoad(d, "core", "Node", "Branches"); is {
							nilEdge = true
						}
					}
				}
			}
		}
		if !emptyEdge && !nilEdge {
			continue // not decided by the node's branches: another list
		}
		ncand++
		i := ncand - 1
		var why []string
		if !emptyEdge {
			why = append(why, "no edge into the append tests the list of branches for being empty (a node whose branching has an empty list is not reported as terminal)")
		}
		if !nilEdge {
			why = append(why, "no edge into the append covers a node without any branching")
		}
		c.R.Check(len(why) == 0, rule, fmt.Sprintf("Analyze: terminal nodes #%d are the nodes without a branch", i+1), c.pos(ap), "added on the 'len(Branches.Branches) == 0' edge and for nil Branches", strings.Join(why, "; "))
	}
	if ncand == 0 {
		c.R.Violate(rule, "Analyze: terminal nodes are the nodes without a branch", c.P.Pos(ana.Pos()), "no list of node names in Analyze is filled under a test of the node's branches (neither 'no branching' nor 'an empty list of branches' decides what is reported as terminal)")
	}
}

// c12OwnSpec: C12-R11.  The single-loop host compiles the specification of a machine in place (Spec.Compile writes the
// spec).  That is only harmless because the spec it compiles is its own: ResolveSpecSource works on a private copy of
// whatever it was given (the JSON round trip), so no two machines — and no machine and the caller — share a Spec that
// one of them is still compiling.  E1: nothing reachable from the given source is written, and neither result of
// ResolveSpecSource is (part of) what it was given.
func c12OwnSpec(c *Ctx, rule string) {
	rs := c.P.Func("sio", "", "ResolveSpecSource")
	if rs == nil || len(rs.Params) != 2 {
		c.R.Break(rule + ": sio.ResolveSpecSource(ctx, source) not found")
		return
	}
	c.R.Fn(fname(rs))
	a := pta.New(pta.Config{Prog: c.P, EnginePkgs: map[string]bool{"sio": true, "core": true, "match": true, "crew": true}, Entries: []*ssa.Function{rs},
		Roots: map[*ssa.Function]map[int]pta.RootSpec{rs: {1: {Name: "source", Levels: 6}}}, External: stdExternal})
	a.Run()
	c.noteAnalysis(a)
	n := c.reportEffects(rule, a, func(e pta.Effect) bool { return strings.HasPrefix(e.Target.Name, "root:source") })
	if n == 0 {
		c.R.Discharge(rule, "ResolveSpecSource: the given source is only read", c.P.Pos(rs.Pos()), fmt.Sprintf("%d write sites examined, none can reach what the caller gave", countReachedWrites(a)))
	}
	for ri, what := range []string{"spec source", "specification"} {
		locs := a.ReturnLocs(rs, ri)
		bad := ""
		for _, l := range locs {
			if l.Obj.Kind == pta.KRoot {
				bad = l.Obj.Name
			}
		}
		c.R.Check(bad == "" && len(locs) > 0, rule, "ResolveSpecSource: the "+what+" it answers is its own", c.P.Pos(rs.Pos()), "result is only: "+locsString(locs), "the "+what+" that ResolveSpecSource returns can be (part of) what the caller gave ("+bad+"): it is compiled in place and installed as the machine's, so machines made from one source value share one Spec with each other and with the caller")
	}
}

// c02ErrorOrigins: C02-R11.  Whether matching ends in an error is a property of the pattern (and the matcher's
// settings): every exit of the matcher that makes an error of its own — as opposed to handing on the error of a
// recursive call — is decided by tests on values that derive from the pattern, never from the message or from the
// sets of bindings found so far.  (A message that makes matching fail with an error is a message in which an embedded
// instance of the pattern is not found.)
func c02ErrorOrigins(c *Ctx, rule string, m *matchModel) {
	var condRoles func(v ssa.Value, depth int, out map[string]bool)
	condRoles = func(v ssa.Value, depth int, out map[string]bool) {
		if v == nil || depth > 8 {
			return
		}
		for r := range m.roles[v] {
			out[r] = true
		}
		switch x := v.(type) {
		case *ssa.BinOp:
			condRoles(x.X, depth+1, out)
			condRoles(x.Y, depth+1, out)
		case *ssa.UnOp:
			condRoles(x.X, depth+1, out)
		case *ssa.Extract:
			condRoles(x.Tuple, depth+1, out)
		case *ssa.TypeAssert:
			condRoles(x.X, depth+1, out)
		case *ssa.Phi:
			for _, e := range x.Edges {
				condRoles(e, depth+1, out)
			}
		case *ssa.Lookup:
			condRoles(x.X, depth+1, out)
			condRoles(x.Index, depth+1, out)
		case *ssa.Call:
			for _, a := range x.Common().Args {
				condRoles(a, depth+1, out)
			}
		}
	}
	fresh := func(v ssa.Value) bool {
		switch x := v.(type) {
		case *ssa.Call:
			n := ssau.CalleeName(x)
			return n == "errors.New" || n == "fmt.Errorf"
		case *ssa.MakeInterface:
			return true
		case *ssa.UnOp:
			_, isG := x.X.(*ssa.Global)
			return isG
		}
		return false
	}
	n := 0
	for _, f := range m.fns {
		res := f.Signature.Results()
		if res.Len() == 0 || res.At(res.Len()-1).Type().String() != "error" {
			continue
		}
		for _, b := range f.Blocks {
			ret, ok := b.Instrs[len(b.Instrs)-1].(*ssa.Return)
			if !ok {
				continue
			}
			for _, d := range phiEdgesWithBlocks(ret.Results[len(ret.Results)-1], b) {
				if !fresh(d.v) {
					continue
				}
				n++
				var bad []string
				for _, ft := range flow.FactsAt(d.b) {
					rs := map[string]bool{}
					condRoles(ft.Cond, 0, rs)
					if rs["F"] {
						bad = append(bad, fmt.Sprintf("%s (%s; derives from {%s})", ft.Cond.String(), c.pos(ft.If), keysOf(rs)))
					}
				}
				c.R.Check(len(bad) == 0, rule, fmt.Sprintf("%s: error exit #%d is decided by the pattern", fname(f), n), c.pos(ret), "every test on the way to this exit is on values that derive from the pattern or the matcher's settings", "matching can fail with an error of its own depending on the message or on the bindings found so far: "+strings.Join(bad, "; "))
			}
		}
	}
	if n == 0 {
		c.R.Break(rule + ": no error exit found in the matcher")
	}
}

// c01ArrayVariable: C01-R10.  In the array case of the matcher the pattern's variable and its constant elements are
// what getVariable found — nothing else takes their place — and a pattern array with a variable only matches through
// arraycatMatch, which gives the variable an element of its own (and is where a bound or inequality variable is
// judged): every success exit of the array case is under 'no variable' or after that call.
func c01ArrayVariable(c *Ctx, rule string) {
	match := c.P.Func("match", "Matcher", "match")
	getVar := c.P.Func("match", "Matcher", "getVariable")
	acm := c.P.Func("match", "Matcher", "arraycatMatch")
	if match == nil || getVar == nil || acm == nil {
		c.R.Break(rule + ": match, getVariable or arraycatMatch not found")
		return
	}
	scope := []*ssa.Function{match}
	for _, f := range pkgClosure(match) {
		if prog.PkgOf(f) == "match" && f != getVar && f != acm && f != match {
			scope = append(scope, f)
		}
	}
	var gv *ssa.Call
	for _, f := range scope {
		ssau.Instrs(f, func(in ssa.Instruction) {
			if cl, ok := in.(*ssa.Call); ok && cl.Common().StaticCallee() == getVar {
				gv = cl
			}
		})
	}
	if gv == nil {
		c.R.Break(rule + ": the matcher does not call getVariable")
		return
	}
	// the array case may live in match itself or in a function of its own
	match = gv.Parent()
	if match.Signature.Results().Len() != 2 {
		c.R.Break(rule + ": the function that holds the array case does not answer (bindings, error)")
		return
	}
	var v, xs ssa.Value
	for _, r := range ssau.Referrers(gv) {
		if ex, ok := r.(*ssa.Extract); ok {
			switch ex.Index {
			case 0:
				v = ex
			case 1:
				xs = ex
			}
		}
	}
	if v == nil || xs == nil {
		c.R.Break(rule + ": getVariable's results are not used")
		return
	}
	onlyFrom := func(x ssa.Value, want ssa.Value) bool {
		if mi, ok := x.(*ssa.MakeInterface); ok {
			x = mi.X
		}
		ds := deepDefs(x, scope)
		if len(ds) == 0 {
			return false
		}
		for _, d := range ds {
			if mi, ok := d.(*ssa.MakeInterface); ok {
				d = mi.X
			}
			if d != want {
				return false
			}
		}
		return true
	}
	// the functions that make up the array case: the one that calls getVariable and what it reaches without going
	// through getVariable, arraycatMatch or (when the array case has a function of its own) the matcher's entry
	frame := match
	entry := c.P.Func("match", "Matcher", "match")
	inArr := map[*ssa.Function]bool{}
	var arrFns []*ssa.Function
	var visitArr func(f *ssa.Function)
	visitArr = func(f *ssa.Function) {
		if f == nil || f.Blocks == nil || inArr[f] || prog.PkgOf(f) != "match" || f == getVar || f == acm || (f == entry && frame != entry) {
			return
		}
		inArr[f] = true
		arrFns = append(arrFns, f)
		for _, an := range f.AnonFuncs {
			visitArr(an)
		}
		ssau.Instrs(f, func(in ssa.Instruction) {
			if ci, ok := in.(ssa.CallInstruction); ok {
				visitArr(ci.Common().StaticCallee())
			}
			if mc, ok := in.(*ssa.MakeClosure); ok {
				if w, isF := mc.Fn.(*ssa.Function); isF {
					visitArr(w)
				}
			}
		})
	}
	visitArr(frame)
	// pattern positions: (function, argument) pairs through which a value reaches arraycatMatch as the pattern
	// element to be matched — arraycatMatch's own, and parameters of helpers that hand them on unchanged
	type argPos struct {
		f *ssa.Function
		i int
	}
	patPos := map[argPos]bool{{acm, 2}: true}
	for changed := true; changed; {
		changed = false
		for _, g := range arrFns {
			ssau.Instrs(g, func(in ssa.Instruction) {
				cl, ok := in.(*ssa.Call)
				if !ok || cl.Common().StaticCallee() == nil {
					return
				}
				for i, a := range cl.Common().Args {
					if !patPos[argPos{cl.Common().StaticCallee(), i}] {
						continue
					}
					if mi, isMI := a.(*ssa.MakeInterface); isMI {
						a = mi.X
					}
					if pa, isP := a.(*ssa.Parameter); isP && pa.Parent() == g {
						if k := (argPos{g, paramIdx(pa)}); !patPos[k] {
							patPos[k] = true
							changed = true
						}
					}
				}
			})
		}
	}
	// the calls that match the variable
	var vcalls []*ssa.Call
	nacm := 0
	for _, g := range arrFns {
		ssau.Instrs(g, func(in ssa.Instruction) {
			cl, ok := in.(*ssa.Call)
			if !ok || cl.Common().StaticCallee() == nil {
				return
			}
			for i, p := range cl.Common().Args {
				if !patPos[argPos{cl.Common().StaticCallee(), i}] {
					continue
				}
				nacm++
				if mi, isMI := p.(*ssa.MakeInterface); isMI {
					if _, isStr := mi.X.Type().Underlying().(*types.Basic); isStr {
						vcalls = append(vcalls, cl)
						c.R.Check(onlyFrom(p, v), rule, "match: the variable handed to arraycatMatch is the one getVariable found", c.pos(cl), "getVariable's first result, unchanged", "the variable matched against the left-over elements is not (only) the variable of the pattern array")
					}
				}
			}
		})
	}
	var vcall *ssa.Call
	if len(vcalls) > 0 {
		vcall = vcalls[0]
	}
	if vcall == nil {
		c.R.Violate(rule, "match: the array's variable is matched by arraycatMatch", c.pos(gv), "no call of arraycatMatch with the variable found")
		return
	}
	// the constants iterated are getVariable's
	nrange := 0
	for _, g := range arrFns {
		for _, l := range flow.Loops(g) {
			op := loopOperand(l)
			// (a loop in the frame before getVariable is not about its results; in a helper the operand can only be
			// getVariable's result if the helper is called after it)
			if op == nil || (g == frame && !gv.Block().Dominates(l.Header)) {
				continue
			}
			if sl, ok := op.Type().Underlying().(*types.Slice); !ok || !types.IsInterface(sl.Elem()) {
				continue
			}
			if onlyFrom(op, xs) {
				nrange++
			} else {
				for _, d := range deepDefs(op, scope) {
					if d == xs {
						c.R.Violate(rule, "match: the constant elements iterated are the ones getVariable found", c.pos(l.Header.Instrs[0]), "the list of the pattern array's other elements is extended or replaced before it is matched")
						nrange++
					}
				}
			}
		}
	}
	if nrange == 0 {
		c.R.Violate(rule, "match: the constant elements iterated are the ones getVariable found", c.pos(gv), "no loop over getVariable's second result found")
	} else {
		c.R.Discharge(rule, "match: the constant elements iterated are the ones getVariable found", c.pos(gv), "the loop ranges over getVariable's second result itself")
	}
	// success exits
	n := 0
	for _, b := range match.Blocks {
		ret, ok := b.Instrs[len(b.Instrs)-1].(*ssa.Return)
		if !ok || len(ret.Results) != 2 || !gv.Block().Dominates(b) || b == gv.Block() {
			continue
		}
		// an exit is judged where the answer is chosen; an answer that a helper of the array case computes is
		// judged at the call and, failing that, at each of the helper's own exits
		var judge func(val ssa.Value, blk *ssa.BasicBlock, depth int)
		judge = func(val ssa.Value, blk *ssa.BasicBlock, depth int) {
			for _, d := range phiEdgesWithBlocks(val, blk) {
				if ssau.IsNilConst(d.v) {
					continue
				}
				noVar := false
				for _, ft := range flow.Expand(flow.FactsAt(d.b)) {
					if bo, isB := ft.Cond.(*ssa.BinOp); isB && ((bo.Op == token.EQL && ft.True) || (bo.Op == token.NEQ && !ft.True)) {
						x, y := bo.X, bo.Y
						if _, isC := x.(*ssa.Const); isC {
							x, y = y, x
						}
						if s, isS := ssau.ConstString(y); isS && s == "" && (x == v || onlyFrom(x, v)) {
							noVar = true
						}
					}
				}
				after := false
				for _, vc := range vcalls {
					if vc.Parent() == d.b.Parent() && (vc.Block() == d.b || vc.Block().Dominates(d.b)) {
						after = true
					}
					// the call sits in a helper of the array case that makes it on every way to its exits, and
					// the helper has been called by the time this exit is reached
					if vc.Parent() != d.b.Parent() && inArr[vc.Parent()] {
						for _, site := range sitesAlwaysLeadingTo(d.b.Parent(), vc, inArr, 0) {
							if site.Block() == d.b || site.Block().Dominates(d.b) {
								after = true
							}
						}
					}
				}
				if !noVar && !after && depth < 6 {
					if cl, idx := resultCall(d.v); cl != nil {
						if sc := cl.Common().StaticCallee(); sc != nil && sc.Blocks != nil && inArr[sc] {
							for _, rb := range sc.Blocks {
								if r2, ok := rb.Instrs[len(rb.Instrs)-1].(*ssa.Return); ok && idx < len(r2.Results) {
									judge(r2.Results[idx], rb, depth+1)
								}
							}
							continue
						}
					}
				}
				n++
				c.R.Check(noVar || after, rule, fmt.Sprintf("match: success exit #%d of the array case", n), c.pos(ret), "under 'the pattern array has no variable', or after arraycatMatch matched the variable", "a pattern array with a variable can match without the variable having been matched against an element of its own (arraycatMatch is also where a bound or inequality variable is judged)")
			}
		}
		judge(ret.Results[0], b, 0)
	}
	if n == 0 {
		c.R.Break(rule + ": no success exit of the array case found")
	}
}

// sitesAlwaysLeadingTo: the calls in fn after which the call `target` (in a helper, `within` being the helpers that
// may be looked into) is known to have been made: calls of the helper that holds target where target's block
// dominates every return of the helper, and calls of helpers that in turn always make such a call.
func sitesAlwaysLeadingTo(fn *ssa.Function, target *ssa.Call, within map[*ssa.Function]bool, depth int) []*ssa.Call {
	if depth > 4 {
		return nil
	}
	var out []*ssa.Call
	ssau.Instrs(fn, func(in ssa.Instruction) {
		cl, ok := in.(*ssa.Call)
		if !ok {
			return
		}
		h := cl.Common().StaticCallee()
		if h == nil || h.Blocks == nil || !within[h] || h == fn {
			return
		}
		var inner []*ssa.Call
		if target.Parent() == h {
			inner = []*ssa.Call{target}
		} else {
			inner = sitesAlwaysLeadingTo(h, target, within, depth+1)
		}
		for _, ic := range inner {
			always, nret := true, 0
			for _, b := range h.Blocks {
				if _, isRet := b.Instrs[len(b.Instrs)-1].(*ssa.Return); isRet {
					nret++
					if b != ic.Block() && !ic.Block().Dominates(b) {
						always = false
					}
				}
			}
			if always && nret > 0 {
				out = append(out, cl)
				return
			}
		}
	})
	return out
}

// resultCall: the call a value is a result of (the call itself, or the call whose tuple it is extracted from) and
// the index of the result.
func resultCall(v ssa.Value) (*ssa.Call, int) {
	switch x := v.(type) {
	case *ssa.Call:
		return x, 0
	case *ssa.Extract:
		cl, _ := x.Tuple.(*ssa.Call)
		return cl, x.Index
	}
	return nil, 0
}

// c08ExecHandsBack: C08-R8.  The messages an action emits are collected in the Execution that the emit callback
// captured; they reach the step only if that very Execution is what Exec returns on success.  Every successful return
// of Interpreter.Exec returns the value the callback appends to.
func c08ExecHandsBack(c *Ctx, rule string) {
	exec := c.P.Func("interpreters/ecmascript", "Interpreter", "Exec")
	addEmitted := c.P.Func("core", "Events", "AddEmitted")
	if exec == nil || addEmitted == nil {
		c.R.Break(rule + ": Interpreter.Exec or Events.AddEmitted not found")
		return
	}
	// the execution that collects: where the receiver of AddEmitted comes from, resolved through literals, bound
	// methods, helper parameters and fields of local structs
	var scope []*ssa.Function
	for _, f := range c.P.AllFuncs {
		if f.Blocks == nil {
			continue
		}
		if prog.PkgOf(f) == "interpreters/ecmascript" {
			scope = append(scope, f)
			continue
		}
		// bound-method and other wrappers of the package's methods
		if f.Synthetic != "" && f.Signature.Recv() == nil && len(f.FreeVars) > 0 {
			if n := ssau.NamedOf(f.FreeVars[0].Type()); n != nil && n.Obj().Pkg() != nil && n.Obj().Pkg().Path() == prog.Abs("interpreters/ecmascript") {
				scope = append(scope, f)
			}
		}
	}
	captured := map[ssa.Value]bool{}
	for _, f := range scope {
		ssau.Instrs(f, func(in ssa.Instruction) {
			ci, ok := in.(ssa.CallInstruction)
			if !ok || ci.Common().StaticCallee() != addEmitted || len(ci.Common().Args) == 0 {
				return
			}
			// &exe.Events / exe.Events -> exe
			v := ci.Common().Args[0]
			for k := 0; k < 4; k++ {
				switch x := v.(type) {
				case *ssa.UnOp:
					if fa, isFA := x.X.(*ssa.FieldAddr); isFA && ssau.TypeIs(fa.X.Type(), prog.Abs("core"), "Execution") {
						v = fa.X
						k = 4
					} else {
						v = x.X
					}
				case *ssa.FieldAddr:
					if ssau.TypeIs(x.X.Type(), prog.Abs("core"), "Execution") {
						v = x.X
						k = 4
					} else {
						v = x.X
					}
				}
			}
			for _, d := range resolveThroughLocals(v, scope) {
				captured[d] = true
			}
		})
	}
	if os.Getenv("VERIF_DEBUG") != "" {
		for _, f := range c.P.AllFuncs {
			if f.Synthetic != "" && strings.Contains(f.String(), "ecmascript") {
				fmt.Fprintf(os.Stderr, "synthetic: %s (%s) recv=%v fv=%d blocks=%v\n", f.String(), f.Synthetic, f.Signature.Recv(), len(f.FreeVars), f.Blocks != nil)
			}
		}
		for d := range captured {
			fmt.Fprintf(os.Stderr, "C08-R8 captured: %T %s in %s\n", d, d.String(), fname(d.(interface{ Parent() *ssa.Function }).Parent()))
		}
	}
	if len(captured) == 0 {
		c.R.Break(rule + ": the Execution that the emit callback appends to was not found in Exec")
		return
	}
	same := func(v ssa.Value) bool {
		ds := resolveThroughLocals(v, scope)
		if len(ds) == 0 {
			return false
		}
		for _, d := range ds {
			if !captured[d] {
				return false
			}
		}
		return true
	}
	n := 0
	for _, b := range exec.Blocks {
		ret, ok := b.Instrs[len(b.Instrs)-1].(*ssa.Return)
		if !ok || len(ret.Results) != 2 || !provablyNil(ret.Results[1], b) {
			continue
		}
		n++
		okR := true
		for _, d := range phiEdgesWithBlocks(ret.Results[0], b) {
			if !same(d.v) {
				okR = false
			}
		}
		c.R.Check(okR, rule, fmt.Sprintf("Exec: successful return #%d hands back the execution that collected the emitted messages", n), c.pos(ret), "returns the Execution the emit callback captured", "a successful return of Exec answers with another Execution than the one the emit callback appends to: what a completed action emitted is lost")
	}
	if n == 0 {
		c.R.Break(rule + ": no successful return found in Interpreter.Exec")
	}
}

// c08WalkHandedBack: C08-R5 (sio).  Once RunMachine has installed the state a walk ended in, the walk is what it
// answers: RunMachines drops the walk of a machine whose RunMachine answered an error, and with it everything the
// completed actions emitted.
func c08WalkHandedBack(c *Ctx, rule string) {
	rm := c.P.Func("sio", "Crew", "RunMachine")
	if rm == nil {
		c.R.Break(rule + ": sio.(*Crew).RunMachine not found")
		return
	}
	var applies []*ssa.Store
	for _, f := range pkgClosure(rm) {
		if prog.PkgOf(f) != "sio" {
			continue
		}
		for _, st := range storesToPkg(f, "crew", "Machine", "State") {
			if site := siteInFn(rm, st); site != nil {
				applies = append(applies, st)
			}
		}
	}
	if len(applies) == 0 {
		c.R.Break(rule + ": RunMachine does not install a state")
		return
	}
	n := 0
	for _, b := range rm.Blocks {
		ret, ok := b.Instrs[len(b.Instrs)-1].(*ssa.Return)
		if !ok || len(ret.Results) != 2 {
			continue
		}
		reach := false
		for _, st := range applies {
			site := siteInFn(rm, st)
			if site.Block() == b || flow.Reachable(site.Block(), b, nil) {
				reach = true
			}
		}
		if !reach {
			continue
		}
		n++
		bad := false
		for _, d := range phiEdgesWithBlocks(ret.Results[0], b) {
			if ssau.IsNilConst(d.v) && (flowsFrom(applies, rm, d.b)) {
				bad = true
			}
		}
		c.R.Check(!bad, rule, fmt.Sprintf("RunMachine: return #%d after the new state was installed hands back the walk", n), c.pos(ret), "no nil walk once the machine has moved", "RunMachine can answer without the walk after it has installed the state the walk ended in: RunMachines then drops the walk, so the machine has moved but what its actions emitted is neither reported nor fed back")
	}
	if n == 0 {
		c.R.Break(rule + ": no return of RunMachine is reachable from the installation of the new state")
	}
}

func flowsFrom(applies []*ssa.Store, fn *ssa.Function, b *ssa.BasicBlock) bool {
	for _, st := range applies {
		site := siteInFn(fn, st)
		if site != nil && (site.Block() == b || flow.Reachable(site.Block(), b, nil)) {
			return true
		}
	}
	return false
}

// c11StoreIgnoresCtx: C11-R11 / C16.  In mcrew a timeout is routed like any other action error only if the routing is
// also stored: by the time WriteState runs, the context under which the action was stopped has ended by definition.
// The store's write path does not consult the context.
func c11StoreIgnoresCtx(c *Ctx, rule string) {
	ws := c.P.Func("cmd/mcrew", "Storage", "WriteState")
	if ws == nil {
		c.R.Break(rule + ": cmd/mcrew.(*Storage).WriteState not found")
		return
	}
	var fns []*ssa.Function
	seen := map[*ssa.Function]bool{}
	for _, f := range append(ssau.WithAnon(ws), pkgClosure(ws)...) {
		if prog.PkgOf(f) == "cmd/mcrew" && f.Blocks != nil && !seen[f] {
			seen[f] = true
			fns = append(fns, f)
			for _, g := range ssau.WithAnon(f) {
				if !seen[g] {
					seen[g] = true
					fns = append(fns, g)
				}
			}
		}
	}
	bad := ""
	for _, f := range fns {
		c.R.Fn(fname(f))
		ssau.Instrs(f, func(in ssa.Instruction) {
			switch x := in.(type) {
			case ssa.CallInstruction:
				cm := x.Common()
				if cm.IsInvoke() && cm.Value.Type().String() == "context.Context" {
					switch cm.Method.Name() {
					case "Err", "Done", "Deadline":
						bad = "ctx." + cm.Method.Name() + "() at " + c.pos(in)
					}
				}
			}
		})
	}
	c.R.Check(bad == "", rule, "Storage.WriteState: the write does not depend on the state of the context", c.P.Pos(ws.Pos()), fmt.Sprintf("no use of the context's Err, Done or Deadline in %d functions of the write path", len(fns)), "the store consults the context ("+bad+") before or while writing: the routing of an action that was stopped by that very context (timeout, cancellation) is never stored, and Process then discards it — a timeout is not routed like any other action error")
}

// c13TextDecoded: C13-R1.  Under the "json" pattern syntax a pattern given as text means the JSON value it spells:
// in the default pattern parser every successful return taken for a string under that syntax lies after the JSON
// decoder was run on it (no shortcut that takes some texts as they stand).
func c13TextDecoded(c *Ctx, rule string) {
	parser := defaultPatternParserFn(c)
	if parser == nil {
		c.R.Break(rule + ": the default pattern parser (a literal of core's initialiser) was not found")
		return
	}
	n := 0
	var judge func(f *ssa.Function, pIdx int, needSyntax bool, depth int)
	judge = func(f *ssa.Function, pIdx int, needSyntax bool, depth int) {
		if depth > 3 || pIdx >= len(f.Params) {
			return
		}
		c.R.Fn(fname(f))
		var decodes []ssa.Instruction
		ssau.Instrs(f, func(in ssa.Instruction) {
			if ci, ok := in.(ssa.CallInstruction); ok {
				nm := ssau.CalleeName(ci)
				if nm == "encoding/json.Unmarshal" || nm == "(*encoding/json.Decoder).Decode" {
					decodes = append(decodes, in)
				} else if h := ci.Common().StaticCallee(); h != nil && h.Blocks != nil && prog.PkgOf(h) == "core" {
					// a helper that decodes (and answers one value: the decoded one)
					if h.Signature.Results().Len() == 2 && f.Signature.Results().Len() == 2 {
						return // judged as a delegate below
					}
					for _, g := range append([]*ssa.Function{h}, pkgClosure(h)...) {
						ssau.Instrs(g, func(in2 ssa.Instruction) {
							if c2, ok2 := in2.(ssa.CallInstruction); ok2 {
								if n2 := ssau.CalleeName(c2); n2 == "encoding/json.Unmarshal" || n2 == "(*encoding/json.Decoder).Decode" {
									decodes = append(decodes, in)
								}
							}
						})
					}
				}
			}
		})
		for _, b := range f.Blocks {
			ret, ok := b.Instrs[len(b.Instrs)-1].(*ssa.Return)
			if !ok || len(ret.Results) != 2 {
				continue
			}
			for _, d := range phiEdgesWithBlocks(ret.Results[1], b) {
				isJSON, isText, notText := !needSyntax, false, false
				if bt, isB := f.Params[pIdx].Type().Underlying().(*types.Basic); isB && bt.Kind() == types.String {
					isText = true // the helper is handed the text itself
				}
				for _, ft := range flow.Expand(flow.FactsAt(d.b)) {
					if bo, isB := ft.Cond.(*ssa.BinOp); isB && ((bo.Op == token.EQL && ft.True) || (bo.Op == token.NEQ && !ft.True)) {
						if sv, isS := ssau.ConstString(bo.Y); isS && sv == "json" && bo.X == ssa.Value(f.Params[0]) {
							isJSON = true
						}
					}
					if ex, isEx := ft.Cond.(*ssa.Extract); isEx && ex.Index == 1 {
						if ta, isTA := ex.Tuple.(*ssa.TypeAssert); isTA && ta.X == ssa.Value(f.Params[pIdx]) && ta.AssertedType.String() == "string" {
							if ft.True {
								isText = true
							} else {
								notText = true
							}
						}
					}
				}
				if !isJSON || notText {
					continue
				}
				// handed to a helper together with the pattern: judged there
				if ex, isEx := d.v.(*ssa.Extract); isEx {
					if cl, isCl := ex.Tuple.(*ssa.Call); isCl {
						if h := cl.Common().StaticCallee(); h != nil && h.Blocks != nil && prog.PkgOf(h) == "core" {
							for ai, a := range cl.Common().Args {
								if a == ssa.Value(f.Params[pIdx]) {
									judge(h, ai, false, depth+1)
								}
								// ... or the text that was asserted out of the pattern
								if ex2, isE := a.(*ssa.Extract); isE && ex2.Index == 0 {
									if ta, isTA := ex2.Tuple.(*ssa.TypeAssert); isTA && ta.X == ssa.Value(f.Params[pIdx]) {
										judge(h, ai, false, depth+1)
									}
								}
							}
							continue
						}
					}
				}
				if !ssau.IsNilConst(d.v) || !isText {
					continue
				}
				n++
				after := false
				for _, dc := range decodes {
					if dc.Block() == d.b || dc.Block().Dominates(d.b) {
						after = true
					}
				}
				c.R.Check(after, rule, fmt.Sprintf("DefaultPatternParser: success #%d for a text under the json syntax comes after the decoder", n), c.pos(ret), "json.Unmarshal dominates the return", "under the json pattern syntax some pattern texts are taken as they stand instead of being decoded: the same pattern written with another layout (leading white space, say) becomes a string constant that matches nothing")
			}
		}
	}
	judge(parser, 1, true, 0)
	if n == 0 {
		c.R.Break(rule + ": no successful return for a text under the json syntax found in the default pattern parser")
	}
}

// c19TimeoutArmedOnce: C19-R8.  "Fails when an expected message never arrives before the timeout": a step's timeout
// runs from the start of the step.  The timer (or timeout channel, or deadline context) that is made from the step's
// Timeout is made once per step: directly in the loop over the session's steps, not in a loop inside it, and not in a
// function literal that is called from such an inner loop (which would re-arm it on every pass).
func c19TimeoutArmedOnce(c *Ctx, rule string, run *ssa.Function) {
	loops := flow.Loops(run)
	// the loop over the steps: the outermost loop that contains the arming call
	outermost := func(b *ssa.BasicBlock) *flow.Loop {
		var out *flow.Loop
		for _, l := range loops {
			if l.Blocks[b] && (out == nil || len(l.Blocks) > len(out.Blocks)) {
				out = l
			}
		}
		return out
	}
	// (the arming call may sit in a literal of Run or in a helper / method of the package that Run reaches)
	scope := pkgClosure(run)
	isTimeout := func(v ssa.Value) bool {
		for _, d := range deepDefs(v, scope) {
			if ld, ok := d.(*ssa.UnOp); ok {
				if _, fld, _, isF := ssau.FieldOf(ld.X); isF && strings.Contains(fld, "Timeout") {
					return true
				}
			}
			if f, ok := d.(*ssa.Field); ok {
				if _, fld, _, isF := ssau.FieldOf(f); isF && strings.Contains(fld, "Timeout") {
					return true
				}
			}
		}
		return false
	}
	// closureUses: the calls (call, go, defer) of a function value made by mc, directly or through a local variable
	closureUses := func(mc *ssa.MakeClosure) []ssa.Instruction {
		uses := append([]ssa.Instruction{}, ssau.Referrers(mc)...)
		// a literal kept in a variable: the loads of that variable
		for _, r := range ssau.Referrers(mc) {
			if st, isSt := r.(*ssa.Store); isSt && st.Val == ssa.Value(mc) {
				if al, isAl := st.Addr.(*ssa.Alloc); isAl {
					for _, r2 := range ssau.Referrers(al) {
						if ld, isLd := r2.(*ssa.UnOp); isLd {
							uses = append(uses, ssau.Referrers(ld)...)
						}
					}
				}
			}
		}
		var out []ssa.Instruction
		for _, u := range uses {
			switch u.(type) {
			case *ssa.Call, *ssa.Go, *ssa.Defer:
				out = append(out, u)
			}
		}
		return out
	}
	// sitesInRun: the instructions of Run through which the instruction is executed (the instruction itself, the
	// call of the literal or helper it sits in, ...); why is set when that cannot be told or a loop lies on the way.
	var sitesInRun func(in ssa.Instruction, depth int) (sites []ssa.Instruction, why string)
	sitesInRun = func(in ssa.Instruction, depth int) ([]ssa.Instruction, string) {
		g := in.Parent()
		if g == run {
			return []ssa.Instruction{in}, ""
		}
		if depth > 6 {
			return nil, "the arming call is too many calls away from Run"
		}
		if flow.InCycle(in.Block()) {
			if g.Parent() != nil {
				return nil, "the arming call is inside a loop of the literal it sits in"
			}
			return nil, "armed from inside a loop (" + c.pos(in) + ")"
		}
		var next []ssa.Instruction
		if g.Parent() != nil {
			// every use of the literal g in its parent
			ssau.Instrs(g.Parent(), func(in2 ssa.Instruction) {
				if mc, isMC := in2.(*ssa.MakeClosure); isMC && mc.Fn == ssa.Value(g) {
					next = append(next, closureUses(mc)...)
				}
			})
			if len(next) == 0 {
				return nil, "the literal that arms the timeout is handed on as a value (its calls are not visible)"
			}
		} else {
			for _, s := range callSitesOf(g, scope) {
				next = append(next, s)
			}
			// the method used as a method value
			for _, f := range scope {
				ssau.Instrs(f, func(in2 ssa.Instruction) {
					mc, isMC := in2.(*ssa.MakeClosure)
					if !isMC {
						return
					}
					if w, isF := mc.Fn.(*ssa.Function); isF && w.Synthetic != "" && w.Name() == g.Name()+"$bound" && len(callSitesOf(g, []*ssa.Function{w})) > 0 {
						us := closureUses(mc)
						if len(us) == 0 {
							us = []ssa.Instruction{nil}
						}
						next = append(next, us...)
					}
				})
			}
			if len(next) == 0 {
				return nil, "the arming call is in a function that Run does not call"
			}
		}
		var out []ssa.Instruction
		for _, s := range next {
			if s == nil {
				return nil, "the function that arms the timeout is handed on as a value (its calls are not visible)"
			}
			ss, why := sitesInRun(s, depth+1)
			if why != "" {
				return nil, why
			}
			out = append(out, ss...)
		}
		return out, ""
	}
	n := 0
	for _, f := range scope {
		ssau.Instrs(f, func(in ssa.Instruction) {
			cl, ok := in.(*ssa.Call)
			if !ok {
				return
			}
			var dur ssa.Value
			switch ssau.CalleeName(cl) {
			case "time.After", "time.AfterFunc", "time.NewTimer", "time.Tick", "time.NewTicker":
				dur = cl.Common().Args[0]
			case "context.WithTimeout":
				dur = cl.Common().Args[1]
			default:
				return
			}
			if !isTimeout(dur) {
				return
			}
			n++
			// where is it executed: in Run itself, or through the literal(s) / helper(s) it sits in
			sites, why := sitesInRun(in, 0)
			if why == "" {
				for _, s := range sites {
					L := flow.InnermostLoop(loops, s.Block())
					if L != nil && L != outermost(s.Block()) {
						why = "armed on every pass of a loop inside the step (" + c.pos(s) + "): the deadline moves each time the loop goes round"
					}
				}
			}
			c.R.Check(why == "", rule, fmt.Sprintf("Run: the step's timeout #%d is armed once per step", n), c.pos(in), "made in the loop over the steps itself, outside every loop inside it", why+": an expected message that arrives after the timeout (counted from the start of the step) can still satisfy the step, and the session passes")
		})
	}
	if n == 0 {
		c.R.Break(rule + ": no timer, timeout channel or deadline made from a step's Timeout found in Session.Run")
	}
}

// c08Wrappers: C08-R1 (core).  Step attaches the events of whatever Execution it is handed, whether or not an error
// comes with it; so the contract "an error comes without an Execution" has to hold for every layer between the
// interpreter and Step: the function that ActionSource.Compile builds and FuncAction.Exec.  Each of their returns has
// a nil error, a nil Execution, or hands on both results of one and the same call.
func c08Wrappers(c *Ctx, rule string) {
	var fns []*ssa.Function
	seen := map[*ssa.Function]bool{}
	add := func(f *ssa.Function) {
		if f != nil && f.Blocks != nil && !seen[f] && f.Signature.Results().Len() == 2 && ssau.TypeIs(f.Signature.Results().At(0).Type(), prog.Abs("core"), "Execution") {
			seen[f] = true
			fns = append(fns, f)
		}
	}
	add(c.P.Func("core", "FuncAction", "Exec"))
	// what package core itself installs as a FuncAction's function
	for _, f := range c.P.FuncsIn("core") {
		for _, st := range storesTo(f, "FuncAction", "F") {
			switch x := st.Val.(type) {
			case *ssa.MakeClosure:
				add(x.Fn.(*ssa.Function))
			case *ssa.Function:
				add(x)
			}
		}
	}
	if len(fns) == 0 {
		c.R.Break(rule + ": core.(*FuncAction).Exec not found")
		return
	}
	for _, f := range fns {
		c.R.Fn(fname(f))
		scope := []*ssa.Function{f}
		for _, g := range pkgClosure(f) {
			if prog.PkgOf(g) == "core" && g != f {
				scope = append(scope, g)
			}
		}
		n := 0
		for _, b := range f.Blocks {
			ret, ok := b.Instrs[len(b.Instrs)-1].(*ssa.Return)
			if !ok || len(ret.Results) != 2 {
				continue
			}
			n++
			exe, err := ret.Results[0], ret.Results[1]
			okR := provablyNil(err, b) || provablyNil(exe, b)
			if !okR {
				// an Execution that comes from a call (and so may carry events) is only ever accompanied by that call's own error
				okR = true
				for _, de := range deepDefs(exe, scope) {
					ex, isEx := de.(*ssa.Extract)
					if !isEx || ex.Index != 0 {
						continue // nil, or an Execution made in this layer (nothing was emitted into it)
					}
					for _, dr := range deepDefs(err, scope) {
						if ssau.IsNilConst(dr) {
							continue
						}
						if er, isEr := dr.(*ssa.Extract); isEr && er.Tuple == ex.Tuple {
							continue
						}
						okR = false
					}
				}
			}
			// ... and the Execution of a completed run is handed on as it is: one made in this layer stands in only for a
			// missing (nil) one, never for the run's own (whose events would be lost)
			if okR {
				hasCallee := false
				for _, de := range deepDefs(exe, scope) {
					if ex, isEx := de.(*ssa.Extract); isEx && ex.Index == 0 {
						hasCallee = true
					}
				}
				for _, src := range sourcesWithFacts(exe, scope) {
					// an Execution made in this layer (NewExecution, or a literal)
					made := false
					if cl, isCl := src.leaf.(*ssa.Call); isCl && cl.Common().StaticCallee() != nil && cl.Common().StaticCallee().Name() == "NewExecution" {
						made = true
					}
					if al, isAl := src.leaf.(*ssa.Alloc); isAl && ssau.TypeIs(al.Type(), prog.Abs("core"), "Execution") {
						made = true
					}
					if !made || !hasCallee {
						continue
					}
					standIn := false
					for _, ft := range flow.Expand(src.facts) {
						if bo, isB := ft.Cond.(*ssa.BinOp); isB && ssau.IsNilConst(bo.Y) && ssau.TypeIs(bo.X.Type(), prog.Abs("core"), "Execution") && ((bo.Op == token.EQL && ft.True) || (bo.Op == token.NEQ && !ft.True)) {
							standIn = true
						}
					}
					if !standIn && f.Name() == "Exec" {
						okR = false
					}
				}
			}
			c.R.Check(okR, rule, fmt.Sprintf("%s: return #%d keeps 'an error comes without an Execution'", fname(f), n), c.pos(ret), "nil error, nil Execution, or an Execution handed on together with the error of the call it came from", "a layer between the interpreter and Step can return the Execution of a completed run together with an error of its own (Step attaches that Execution's events, so a failing action's emissions become visible), or it answers with an Execution of its own in place of the run's (what a completed action emitted is lost)")
		}
	}
}

// defaultPatternParserFn: the function that package core's initialiser stores into the variable DefaultPatternParser
// (a function literal, or a named function).
func defaultPatternParserFn(c *Ctx) *ssa.Function {
	pkg := c.P.SSAPkgs[prog.Abs("core")]
	if pkg == nil {
		return nil
	}
	g, _ := pkg.Members["DefaultPatternParser"].(*ssa.Global)
	if g == nil {
		return nil
	}
	var out *ssa.Function
	for _, f := range c.P.AllFuncs {
		if f.Pkg != pkg || !strings.HasPrefix(f.Name(), "init") || f.Blocks == nil {
			continue
		}
		ssau.Instrs(f, func(in ssa.Instruction) {
			st, ok := in.(*ssa.Store)
			if !ok || st.Addr != ssa.Value(g) {
				return
			}
			switch x := st.Val.(type) {
			case *ssa.MakeClosure:
				out, _ = x.Fn.(*ssa.Function)
			case *ssa.Function:
				out = x
			case *ssa.ChangeType:
				if fn, isF := x.X.(*ssa.Function); isF {
					out = fn
				}
			}
		})
	}
	if out != nil && out.Signature.Params().Len() == 2 && out.Signature.Results().Len() == 2 {
		return out
	}
	return nil
}

package rules

import (
	"fmt"
	"go/token"
	"go/types"
	"strings"

	"golang.org/x/tools/go/ssa"

	"sheensverif/internal/flow"
	"sheensverif/internal/prog"
	"sheensverif/internal/pta"
	"sheensverif/internal/ssau"
)

// Rules added after the fifth probing wave.

// c15StoreSeeded: C15-R8.  The stdio host keeps its own store (Stdio.state): the output loop applies every reported
// change to it and writeState serialises it.  That store equals the live crew only if it starts from what the crew was
// rebuilt from: Read decodes the state file into that very field and hands out what it holds.
func c15StoreSeeded(c *Ctx, rule string) {
	// the field that the store's writer serialises
	owner, field := "", ""
	for _, f := range c.P.FuncsIn("sio") {
		ssau.Instrs(f, func(in ssa.Instruction) {
			cl, ok := in.(*ssa.Call)
			if !ok || !strings.HasPrefix(ssau.CalleeName(cl), "encoding/json.Marshal") || len(cl.Common().Args) == 0 {
				return
			}
			v := cl.Common().Args[0]
			if mi, isMI := v.(*ssa.MakeInterface); isMI {
				v = mi.X
			}
			if ld, isLd := v.(*ssa.UnOp); isLd {
				v = ld.X
			}
			if n, fld, _, isF := ssau.FieldOf(v); isF && n != nil && n.Obj().Pkg() != nil && n.Obj().Pkg().Path() == prog.Abs("sio") {
				if pt, isP := v.Type().Underlying().(*types.Pointer); isP {
					if _, isMap := pt.Elem().Underlying().(*types.Map); isMap {
						owner, field = n.Obj().Name(), fld
					}
				}
			}
		})
	}
	if field == "" {
		c.R.Break(rule + ": no map field of a store in package sio is serialised")
		return
	}
	isStoreField := func(addr ssa.Value) bool { return ssau.IsField(addr, prog.Abs("sio"), owner, field) }
	total := 0
	for _, read := range c.P.FuncsIn("sio") {
		if read.Name() != "Read" || read.Signature.Recv() == nil || read.Signature.Results().Len() != 2 {
			continue
		}
		if _, isMap := read.Signature.Results().At(0).Type().Underlying().(*types.Map); !isMap {
			continue
		}
		c.R.Fn(fname(read))
		// decode targets
		n := 0
		ssau.Instrs(read, func(in ssa.Instruction) {
			cl, ok := in.(*ssa.Call)
			if !ok {
				return
			}
			name := ssau.CalleeName(cl)
			var target ssa.Value
			switch {
			case name == "encoding/json.Unmarshal" && len(cl.Common().Args) == 2:
				target = cl.Common().Args[1]
			case strings.HasSuffix(name, "json.Decoder).Decode") && len(cl.Common().Args) >= 1:
				target = cl.Common().Args[len(cl.Common().Args)-1]
			default:
				return
			}
			if mi, isMI := target.(*ssa.MakeInterface); isMI {
				target = mi.X
			}
			pt, isPtr := target.Type().Underlying().(*types.Pointer)
			if !isPtr {
				return
			}
			if _, isMap := pt.Elem().Underlying().(*types.Map); !isMap {
				return
			}
			n++
			total++
			okT := isStoreField(target)
			if al, isAl := target.(*ssa.Alloc); isAl && !okT {
				// decoded into a local variable that is then made the store
				for _, r := range ssau.Referrers(al) {
					if ld, isLd := r.(*ssa.UnOp); isLd {
						for _, r2 := range ssau.Referrers(ld) {
							if st, isSt := r2.(*ssa.Store); isSt && st.Val == ssa.Value(ld) && isStoreField(st.Addr) && cl.Block().Dominates(st.Block()) {
								okT = true
							}
						}
					}
				}
			}
			c.R.Check(okT, rule, fmt.Sprintf("%s: decode #%d fills the host's store", fname(read), n), c.pos(cl), "the persisted machines are decoded into "+owner+"."+field+", the map the output loop updates and writeState writes", "the state file is decoded into something else than "+owner+"."+field+": the host's store starts empty while the crew is rebuilt with every machine, so what is written at the next stop lacks the machines that have not changed since")
		})
	}
	if total == 0 {
		c.R.Break(rule + ": no Read method of package sio decodes persisted machines")
	}
}

// c20SpecUntouched: C20-R8.  Analysis and rendering describe the specification they are given and leave it as it was:
// E1 from the tools' entry points with the spec protected.  A renderer that adds placeholder nodes to Spec.Nodes, or
// parses the patterns in place, changes what the next analysis (or the host that runs the spec) sees.
func c20SpecUntouched(c *Ctx, rule string) {
	var entries []*ssa.Function
	roots := map[*ssa.Function]map[int]pta.RootSpec{}
	for _, f := range c.P.FuncsIn("tools") {
		if f.Parent() != nil || f.Object() == nil || !f.Object().Exported() || f.Signature.Recv() != nil {
			continue
		}
		r := map[int]pta.RootSpec{}
		for i, p := range f.Params {
			if ssau.TypeIs(p.Type(), prog.Abs("core"), "Spec") {
				r[i] = pta.RootSpec{Name: "spec", Levels: 5}
			}
		}
		if len(r) == 0 {
			continue
		}
		entries = append(entries, f)
		roots[f] = r
	}
	if len(entries) < 3 {
		c.R.Break(rule+": expected Analyze, Dot and Mermaid (at least) to take a *core.Spec, found %d entry points", len(entries))
		return
	}
	a := pta.New(pta.Config{Prog: c.P, EnginePkgs: map[string]bool{"tools": true, "core": true, "match": true}, Entries: entries, Roots: roots, External: stdExternal})
	a.Run()
	c.noteAnalysis(a)
	n := c.reportEffects(rule, a, func(e pta.Effect) bool { return strings.HasPrefix(e.Target.Name, "root:spec") })
	if n == 0 {
		var names []string
		for _, f := range entries {
			names = append(names, f.Name())
			c.R.Fn(fname(f))
		}
		c.R.Discharge(rule, "tools: the given specification is only read", c.P.Pos(entries[0].Pos()), fmt.Sprintf("%d write sites reachable from %s examined, none can reach the spec", countReachedWrites(a), strings.Join(names, ", ")))
	}
}

// c20Terminal: C20-R9.  The terminal nodes reported are the nodes without a branch: a node is added to the list on the
// edge that found its list of branches empty (len == 0; a nil list has length 0 too), and a node without any branching
// (nil Branches) is added as well — through its own nil test or because the list taken for such a node is nil.
func c20Terminal(c *Ctx, rule string, ana *ssa.Function, scope []*ssa.Function) {
	var apps []*ssa.Call
	for _, st := range storesToPkg(ana, "tools", "SpecAnalysis", "TerminalNodes") {
		for _, d := range deepDefs(st.Val, scope) {
			if cl, ok := d.(*ssa.Call); ok {
				if b, isB := cl.Common().Value.(*ssa.Builtin); isB && b.Name() == "append" && cl.Parent() == ana {
					apps = append(apps, cl)
				}
			}
		}
	}
	if len(apps) == 0 {
		c.R.Break(rule + ": no append feeding SpecAnalysis.TerminalNodes found in Analyze")
		return
	}
	isBranchList := func(v ssa.Value) (list, nilOK bool) {
		for _, d := range deepDefs(v, scope) {
			if _, is := isFieldLoad(d, "core", "Branches", "Branches"); is {
				list = true
			}
			if ssau.IsNilConst(d) {
				nilOK = true
			}
		}
		return
	}
	for i, ap := range apps {
		B := ap.Block()
		var edges [][]flow.Fact
		if len(B.Preds) <= 1 {
			edges = append(edges, flow.FactsAt(B))
		} else {
			for _, p := range B.Preds {
				edges = append(edges, append(append([]flow.Fact{}, flow.FactsAt(p)...), flow.EdgeFacts(p, B)...))
			}
		}
		emptyEdge, nilEdge := false, false
		for _, fs := range edges {
			for _, ft := range flow.Expand(fs) {
				bo, ok := ft.Cond.(*ssa.BinOp)
				if !ok {
					continue
				}
				eq := (bo.Op == token.EQL && ft.True) || (bo.Op == token.NEQ && !ft.True)
				x, y := bo.X, bo.Y
				if _, isC := x.(*ssa.Const); isC {
					x, y = y, x
				}
				if cl, isCl := x.(*ssa.Call); isCl && eq {
					if b, isB := cl.Common().Value.(*ssa.Builtin); isB && b.Name() == "len" {
						if k, isK := ssau.ConstInt(y); isK && k == 0 {
							if list, nilOK := isBranchList(cl.Common().Args[0]); list {
								emptyEdge = true
								if nilOK {
									nilEdge = true
								}
							}
						}
					}
				}
				// 0 < len(x) false, len(x) > 0 false, len(x) < 1 true ...: not the idiom of this code base; the rule would report them (see DESIGN)
				if eq && ssau.IsNilConst(y) {
					if list, nilOK := isBranchList(x); list && nilOK {
						nilEdge = true
					}
					for _, d := range deepDefs(x, scope) {
						if _, is := isFieldLoad(d, "core", "Node", "Branches"); is {
							nilEdge = true
						}
					}
				}
			}
		}
		var why []string
		if !emptyEdge {
			why = append(why, "no edge into the append tests the list of branches for being empty (a node whose branching has an empty list is not reported as terminal)")
		}
		if !nilEdge {
			why = append(why, "no edge into the append covers a node without any branching")
		}
		c.R.Check(len(why) == 0, rule, fmt.Sprintf("Analyze: terminal nodes #%d are the nodes without a branch", i+1), c.pos(ap), "added on the 'len(Branches.Branches) == 0' edge and for nil Branches", strings.Join(why, "; "))
	}
}

// c12OwnSpec: C12-R11.  The single-loop host compiles the specification of a machine in place (Spec.Compile writes the
// spec).  That is only harmless because the spec it compiles is its own: ResolveSpecSource works on a private copy of
// whatever it was given (the JSON round trip), so no two machines — and no machine and the caller — share a Spec that
// one of them is still compiling.  E1: nothing reachable from the given source is written, and neither result of
// ResolveSpecSource is (part of) what it was given.
func c12OwnSpec(c *Ctx, rule string) {
	rs := c.P.Func("sio", "", "ResolveSpecSource")
	if rs == nil || len(rs.Params) != 2 {
		c.R.Break(rule + ": sio.ResolveSpecSource(ctx, source) not found")
		return
	}
	c.R.Fn(fname(rs))
	a := pta.New(pta.Config{Prog: c.P, EnginePkgs: map[string]bool{"sio": true, "core": true, "match": true, "crew": true}, Entries: []*ssa.Function{rs},
		Roots: map[*ssa.Function]map[int]pta.RootSpec{rs: {1: {Name: "source", Levels: 6}}}, External: stdExternal})
	a.Run()
	c.noteAnalysis(a)
	n := c.reportEffects(rule, a, func(e pta.Effect) bool { return strings.HasPrefix(e.Target.Name, "root:source") })
	if n == 0 {
		c.R.Discharge(rule, "ResolveSpecSource: the given source is only read", c.P.Pos(rs.Pos()), fmt.Sprintf("%d write sites examined, none can reach what the caller gave", countReachedWrites(a)))
	}
	for ri, what := range []string{"spec source", "specification"} {
		locs := a.ReturnLocs(rs, ri)
		bad := ""
		for _, l := range locs {
			if l.Obj.Kind == pta.KRoot {
				bad = l.Obj.Name
			}
		}
		c.R.Check(bad == "" && len(locs) > 0, rule, "ResolveSpecSource: the "+what+" it answers is its own", c.P.Pos(rs.Pos()), "result is only: "+locsString(locs), "the "+what+" that ResolveSpecSource returns can be (part of) what the caller gave ("+bad+"): it is compiled in place and installed as the machine's, so machines made from one source value share one Spec with each other and with the caller")
	}
}

package rules

import (
	"fmt"
	"go/token"
	"go/types"
	"strings"

	"golang.org/x/tools/go/ssa"

	"sheensverif/internal/flow"
	"sheensverif/internal/prog"
	"sheensverif/internal/pta"
	"sheensverif/internal/ssau"
)

// Rules added after the fifth probing wave.

// c15StoreSeeded: C15-R8.  The stdio host keeps its own store (Stdio.state): the output loop applies every reported
// change to it and writeState serialises it.  That store equals the live crew only if it starts from what the crew was
// rebuilt from: Read decodes the state file into that very field and hands out what it holds.
func c15StoreSeeded(c *Ctx, rule string) {
	// the field that the store's writer serialises
	owner, field := "", ""
	for _, f := range c.P.FuncsIn("sio") {
		ssau.Instrs(f, func(in ssa.Instruction) {
			cl, ok := in.(*ssa.Call)
			if !ok || !strings.HasPrefix(ssau.CalleeName(cl), "encoding/json.Marshal") || len(cl.Common().Args) == 0 {
				return
			}
			v := cl.Common().Args[0]
			if mi, isMI := v.(*ssa.MakeInterface); isMI {
				v = mi.X
			}
			if ld, isLd := v.(*ssa.UnOp); isLd {
				v = ld.X
			}
			if n, fld, _, isF := ssau.FieldOf(v); isF && n != nil && n.Obj().Pkg() != nil && n.Obj().Pkg().Path() == prog.Abs("sio") {
				if pt, isP := v.Type().Underlying().(*types.Pointer); isP {
					if _, isMap := pt.Elem().Underlying().(*types.Map); isMap {
						owner, field = n.Obj().Name(), fld
					}
				}
			}
		})
	}
	if field == "" {
		c.R.Break(rule + ": no map field of a store in package sio is serialised")
		return
	}
	isStoreField := func(addr ssa.Value) bool { return ssau.IsField(addr, prog.Abs("sio"), owner, field) }
	total := 0
	for _, read := range c.P.FuncsIn("sio") {
		if read.Name() != "Read" || read.Signature.Recv() == nil || read.Signature.Results().Len() != 2 {
			continue
		}
		if _, isMap := read.Signature.Results().At(0).Type().Underlying().(*types.Map); !isMap {
			continue
		}
		c.R.Fn(fname(read))
		// decode targets
		n := 0
		ssau.Instrs(read, func(in ssa.Instruction) {
			cl, ok := in.(*ssa.Call)
			if !ok {
				return
			}
			name := ssau.CalleeName(cl)
			var target ssa.Value
			switch {
			case name == "encoding/json.Unmarshal" && len(cl.Common().Args) == 2:
				target = cl.Common().Args[1]
			case strings.HasSuffix(name, "json.Decoder).Decode") && len(cl.Common().Args) >= 1:
				target = cl.Common().Args[len(cl.Common().Args)-1]
			default:
				return
			}
			if mi, isMI := target.(*ssa.MakeInterface); isMI {
				target = mi.X
			}
			pt, isPtr := target.Type().Underlying().(*types.Pointer)
			if !isPtr {
				return
			}
			if _, isMap := pt.Elem().Underlying().(*types.Map); !isMap {
				return
			}
			n++
			total++
			okT := isStoreField(target)
			if al, isAl := target.(*ssa.Alloc); isAl && !okT {
				// decoded into a local variable that is then made the store
				for _, r := range ssau.Referrers(al) {
					if ld, isLd := r.(*ssa.UnOp); isLd {
						for _, r2 := range ssau.Referrers(ld) {
							if st, isSt := r2.(*ssa.Store); isSt && st.Val == ssa.Value(ld) && isStoreField(st.Addr) && cl.Block().Dominates(st.Block()) {
								okT = true
							}
						}
					}
				}
			}
			c.R.Check(okT, rule, fmt.Sprintf("%s: decode #%d fills the host's store", fname(read), n), c.pos(cl), "the persisted machines are decoded into "+owner+"."+field+", the map the output loop updates and writeState writes", "the state file is decoded into something else than "+owner+"."+field+": the host's store starts empty while the crew is rebuilt with every machine, so what is written at the next stop lacks the machines that have not changed since")
		})
	}
	if total == 0 {
		c.R.Break(rule + ": no Read method of package sio decodes persisted machines")
	}
}

// c20SpecUntouched: C20-R8.  Analysis and rendering describe the specification they are given and leave it as it was:
// E1 from the tools' entry points with the spec protected.  A renderer that adds placeholder nodes to Spec.Nodes, or
// parses the patterns in place, changes what the next analysis (or the host that runs the spec) sees.
func c20SpecUntouched(c *Ctx, rule string) {
	var entries []*ssa.Function
	roots := map[*ssa.Function]map[int]pta.RootSpec{}
	for _, f := range c.P.FuncsIn("tools") {
		if f.Parent() != nil || f.Object() == nil || !f.Object().Exported() || f.Signature.Recv() != nil {
			continue
		}
		r := map[int]pta.RootSpec{}
		for i, p := range f.Params {
			if ssau.TypeIs(p.Type(), prog.Abs("core"), "Spec") {
				r[i] = pta.RootSpec{Name: "spec", Levels: 5}
			}
		}
		if len(r) == 0 {
			continue
		}
		entries = append(entries, f)
		roots[f] = r
	}
	if len(entries) < 3 {
		c.R.Break(rule+": expected Analyze, Dot and Mermaid (at least) to take a *core.Spec, found %d entry points", len(entries))
		return
	}
	a := pta.New(pta.Config{Prog: c.P, EnginePkgs: map[string]bool{"tools": true, "core": true, "match": true}, Entries: entries, Roots: roots, External: stdExternal})
	a.Run()
	c.noteAnalysis(a)
	n := c.reportEffects(rule, a, func(e pta.Effect) bool { return strings.HasPrefix(e.Target.Name, "root:spec") })
	if n == 0 {
		var names []string
		for _, f := range entries {
			names = append(names, f.Name())
			c.R.Fn(fname(f))
		}
		c.R.Discharge(rule, "tools: the given specification is only read", c.P.Pos(entries[0].Pos()), fmt.Sprintf("%d write sites reachable from %s examined, none can reach the spec", countReachedWrites(a), strings.Join(names, ", ")))
	}
}

// c20Terminal: C20-R9.  The terminal nodes reported are the nodes without a branch: a node is added to the list on the
// edge that found its list of branches empty (len == 0; a nil list has length 0 too), and a node without any branching
// (nil Branches) is added as well — through its own nil test or because the list taken for such a node is nil.
func c20Terminal(c *Ctx, rule string, ana *ssa.Function, scope []*ssa.Function) {
	var apps []*ssa.Call
	for _, st := range storesToPkg(ana, "tools", "SpecAnalysis", "TerminalNodes") {
		for _, d := range deepDefs(st.Val, scope) {
			if cl, ok := d.(*ssa.Call); ok {
				if b, isB := cl.Common().Value.(*ssa.Builtin); isB && b.Name() == "append" && cl.Parent() == ana {
					apps = append(apps, cl)
				}
			}
		}
	}
	if len(apps) == 0 {
		c.R.Break(rule + ": no append feeding SpecAnalysis.TerminalNodes found in Analyze")
		return
	}
	isBranchList := func(v ssa.Value) (list, nilOK bool) {
		for _, d := range deepDefs(v, scope) {
			if _, is := isFieldLoad(d, "core", "Branches", "Branches"); is {
				list = true
			}
			if ssau.IsNilConst(d) {
				nilOK = true
			}
		}
		return
	}
	for i, ap := range apps {
		B := ap.Block()
		var edges [][]flow.Fact
		if len(B.Preds) <= 1 {
			edges = append(edges, flow.FactsAt(B))
		} else {
			for _, p := range B.Preds {
				edges = append(edges, append(append([]flow.Fact{}, flow.FactsAt(p)...), flow.EdgeFacts(p, B)...))
			}
		}
		emptyEdge, nilEdge := false, false
		for _, fs := range edges {
			for _, ft := range flow.Expand(fs) {
				bo, ok := ft.Cond.(*ssa.BinOp)
				if !ok {
					continue
				}
				eq := (bo.Op == token.EQL && ft.True) || (bo.Op == token.NEQ && !ft.True)
				x, y := bo.X, bo.Y
				if _, isC := x.(*ssa.Const); isC {
					x, y = y, x
				}
				if cl, isCl := x.(*ssa.Call); isCl && eq {
					if b, isB := cl.Common().Value.(*ssa.Builtin); isB && b.Name() == "len" {
						if k, isK := ssau.ConstInt(y); isK && k == 0 {
							if list, nilOK := isBranchList(cl.Common().Args[0]); list {
								emptyEdge = true
								if nilOK {
									nilEdge = true
								}
							}
						}
					}
				}
				// 0 < len(x) false, len(x) > 0 false, len(x) < 1 true ...: not the idiom of this code base; the rule would report them (see DESIGN)
				if eq && ssau.IsNilConst(y) {
					if list, nilOK := isBranchList(x); list && nilOK {
						nilEdge = true
					}
					for _, d := range deepDefs(x, scope) {
						if _, is := isFieldLoad(d, "core", "Node", "Branches"); is {
							nilEdge = true
						}
					}
				}
			}
		}
		var why []string
		if !emptyEdge {
			why = append(why, "no edge into the append tests the list of branches for being empty (a node whose branching has an empty list is not reported as terminal)")
		}
		if !nilEdge {
			why = append(why, "no edge into the append covers a node without any branching")
		}
		c.R.Check(len(why) == 0, rule, fmt.Sprintf("Analyze: terminal nodes #%d are the nodes without a branch", i+1), c.pos(ap), "added on the 'len(Branches.Branches) == 0' edge and for nil Branches", strings.Join(why, "; "))
	}
}

// c12OwnSpec: C12-R11.  The single-loop host compiles the specification of a machine in place (Spec.Compile writes the
// spec).  That is only harmless because the spec it compiles is its own: ResolveSpecSource works on a private copy of
// whatever it was given (the JSON round trip), so no two machines — and no machine and the caller — share a Spec that
// one of them is still compiling.  E1: nothing reachable from the given source is written, and neither result of
// ResolveSpecSource is (part of) what it was given.
func c12OwnSpec(c *Ctx, rule string) {
	rs := c.P.Func("sio", "", "ResolveSpecSource")
	if rs == nil || len(rs.Params) != 2 {
		c.R.Break(rule + ": sio.ResolveSpecSource(ctx, source) not found")
		return
	}
	c.R.Fn(fname(rs))
	a := pta.New(pta.Config{Prog: c.P, EnginePkgs: map[string]bool{"sio": true, "core": true, "match": true, "crew": true}, Entries: []*ssa.Function{rs},
		Roots: map[*ssa.Function]map[int]pta.RootSpec{rs: {1: {Name: "source", Levels: 6}}}, External: stdExternal})
	a.Run()
	c.noteAnalysis(a)
	n := c.reportEffects(rule, a, func(e pta.Effect) bool { return strings.HasPrefix(e.Target.Name, "root:source") })
	if n == 0 {
		c.R.Discharge(rule, "ResolveSpecSource: the given source is only read", c.P.Pos(rs.Pos()), fmt.Sprintf("%d write sites examined, none can reach what the caller gave", countReachedWrites(a)))
	}
	for ri, what := range []string{"spec source", "specification"} {
		locs := a.ReturnLocs(rs, ri)
		bad := ""
		for _, l := range locs {
			if l.Obj.Kind == pta.KRoot {
				bad = l.Obj.Name
			}
		}
		c.R.Check(bad == "" && len(locs) > 0, rule, "ResolveSpecSource: the "+what+" it answers is its own", c.P.Pos(rs.Pos()), "result is only: "+locsString(locs), "the "+what+" that ResolveSpecSource returns can be (part of) what the caller gave ("+bad+"): it is compiled in place and installed as the machine's, so machines made from one source value share one Spec with each other and with the caller")
	}
}

// c02ErrorOrigins: C02-R11.  Whether matching ends in an error is a property of the pattern (and the matcher's
// settings): every exit of the matcher that makes an error of its own — as opposed to handing on the error of a
// recursive call — is decided by tests on values that derive from the pattern, never from the message or from the
// sets of bindings found so far.  (A message that makes matching fail with an error is a message in which an embedded
// instance of the pattern is not found.)
func c02ErrorOrigins(c *Ctx, rule string, m *matchModel) {
	var condRoles func(v ssa.Value, depth int, out map[string]bool)
	condRoles = func(v ssa.Value, depth int, out map[string]bool) {
		if v == nil || depth > 8 {
			return
		}
		for r := range m.roles[v] {
			out[r] = true
		}
		switch x := v.(type) {
		case *ssa.BinOp:
			condRoles(x.X, depth+1, out)
			condRoles(x.Y, depth+1, out)
		case *ssa.UnOp:
			condRoles(x.X, depth+1, out)
		case *ssa.Extract:
			condRoles(x.Tuple, depth+1, out)
		case *ssa.TypeAssert:
			condRoles(x.X, depth+1, out)
		case *ssa.Phi:
			for _, e := range x.Edges {
				condRoles(e, depth+1, out)
			}
		case *ssa.Lookup:
			condRoles(x.X, depth+1, out)
			condRoles(x.Index, depth+1, out)
		case *ssa.Call:
			for _, a := range x.Common().Args {
				condRoles(a, depth+1, out)
			}
		}
	}
	fresh := func(v ssa.Value) bool {
		switch x := v.(type) {
		case *ssa.Call:
			n := ssau.CalleeName(x)
			return n == "errors.New" || n == "fmt.Errorf"
		case *ssa.MakeInterface:
			return true
		case *ssa.UnOp:
			_, isG := x.X.(*ssa.Global)
			return isG
		}
		return false
	}
	n := 0
	for _, f := range m.fns {
		res := f.Signature.Results()
		if res.Len() == 0 || res.At(res.Len()-1).Type().String() != "error" {
			continue
		}
		for _, b := range f.Blocks {
			ret, ok := b.Instrs[len(b.Instrs)-1].(*ssa.Return)
			if !ok {
				continue
			}
			for _, d := range phiEdgesWithBlocks(ret.Results[len(ret.Results)-1], b) {
				if !fresh(d.v) {
					continue
				}
				n++
				var bad []string
				for _, ft := range flow.FactsAt(d.b) {
					rs := map[string]bool{}
					condRoles(ft.Cond, 0, rs)
					if rs["F"] {
						bad = append(bad, fmt.Sprintf("%s (%s; derives from {%s})", ft.Cond.String(), c.pos(ft.If), keysOf(rs)))
					}
				}
				c.R.Check(len(bad) == 0, rule, fmt.Sprintf("%s: error exit #%d is decided by the pattern", fname(f), n), c.pos(ret), "every test on the way to this exit is on values that derive from the pattern or the matcher's settings", "matching can fail with an error of its own depending on the message or on the bindings found so far: "+strings.Join(bad, "; "))
			}
		}
	}
	if n == 0 {
		c.R.Break(rule + ": no error exit found in the matcher")
	}
}

// c01ArrayVariable: C01-R10.  In the array case of the matcher the pattern's variable and its constant elements are
// what getVariable found — nothing else takes their place — and a pattern array with a variable only matches through
// arraycatMatch, which gives the variable an element of its own (and is where a bound or inequality variable is
// judged): every success exit of the array case is under 'no variable' or after that call.
func c01ArrayVariable(c *Ctx, rule string) {
	match := c.P.Func("match", "Matcher", "match")
	getVar := c.P.Func("match", "Matcher", "getVariable")
	acm := c.P.Func("match", "Matcher", "arraycatMatch")
	if match == nil || getVar == nil || acm == nil {
		c.R.Break(rule + ": match, getVariable or arraycatMatch not found")
		return
	}
	scope := []*ssa.Function{match}
	for _, f := range pkgClosure(match) {
		if prog.PkgOf(f) == "match" && f != getVar && f != acm && f != match {
			scope = append(scope, f)
		}
	}
	var gv *ssa.Call
	ssau.Instrs(match, func(in ssa.Instruction) {
		if cl, ok := in.(*ssa.Call); ok && cl.Common().StaticCallee() == getVar {
			gv = cl
		}
	})
	if gv == nil {
		c.R.Break(rule + ": match does not call getVariable")
		return
	}
	var v, xs ssa.Value
	for _, r := range ssau.Referrers(gv) {
		if ex, ok := r.(*ssa.Extract); ok {
			switch ex.Index {
			case 0:
				v = ex
			case 1:
				xs = ex
			}
		}
	}
	if v == nil || xs == nil {
		c.R.Break(rule + ": getVariable's results are not used")
		return
	}
	onlyFrom := func(x ssa.Value, want ssa.Value) bool {
		if mi, ok := x.(*ssa.MakeInterface); ok {
			x = mi.X
		}
		ds := deepDefs(x, scope)
		if len(ds) == 0 {
			return false
		}
		for _, d := range ds {
			if mi, ok := d.(*ssa.MakeInterface); ok {
				d = mi.X
			}
			if d != want {
				return false
			}
		}
		return true
	}
	// the call that matches the variable
	var vcall *ssa.Call
	nacm := 0
	ssau.Instrs(match, func(in ssa.Instruction) {
		cl, ok := in.(*ssa.Call)
		if !ok || cl.Common().StaticCallee() != acm || len(cl.Common().Args) < 3 {
			return
		}
		nacm++
		p := cl.Common().Args[2]
		if mi, isMI := p.(*ssa.MakeInterface); isMI {
			if _, isStr := mi.X.Type().Underlying().(*types.Basic); isStr {
				vcall = cl
				c.R.Check(onlyFrom(p, v), rule, "match: the variable handed to arraycatMatch is the one getVariable found", c.pos(cl), "getVariable's first result, unchanged", "the variable matched against the left-over elements is not (only) the variable of the pattern array")
			}
		}
	})
	if vcall == nil {
		c.R.Violate(rule, "match: the array's variable is matched by arraycatMatch", c.pos(gv), "no call of arraycatMatch with the variable found")
		return
	}
	// the constants iterated are getVariable's
	nrange := 0
	for _, l := range flow.Loops(match) {
		op := loopOperand(l)
		if op == nil || !gv.Block().Dominates(l.Header) {
			continue
		}
		if sl, ok := op.Type().Underlying().(*types.Slice); !ok || !types.IsInterface(sl.Elem()) {
			continue
		}
		if onlyFrom(op, xs) {
			nrange++
		} else if ds := deepDefs(op, scope); len(ds) > 0 {
			for _, d := range ds {
				if d == xs {
					// xs mixed with something else
					c.R.Violate(rule, "match: the constant elements iterated are the ones getVariable found", c.pos(l.Header.Instrs[0]), "the list of the pattern array's other elements is extended or replaced before it is matched")
					nrange++
				}
			}
		}
	}
	if nrange == 0 {
		c.R.Violate(rule, "match: the constant elements iterated are the ones getVariable found", c.pos(gv), "no loop over getVariable's second result found")
	} else {
		c.R.Discharge(rule, "match: the constant elements iterated are the ones getVariable found", c.pos(gv), "the loop ranges over getVariable's second result itself")
	}
	// success exits
	n := 0
	for _, b := range match.Blocks {
		ret, ok := b.Instrs[len(b.Instrs)-1].(*ssa.Return)
		if !ok || len(ret.Results) != 2 || !gv.Block().Dominates(b) || b == gv.Block() {
			continue
		}
		for _, d := range phiEdgesWithBlocks(ret.Results[0], b) {
			if ssau.IsNilConst(d.v) {
				continue
			}
			n++
			noVar := false
			for _, ft := range flow.Expand(flow.FactsAt(d.b)) {
				if bo, isB := ft.Cond.(*ssa.BinOp); isB && ((bo.Op == token.EQL && ft.True) || (bo.Op == token.NEQ && !ft.True)) {
					x, y := bo.X, bo.Y
					if _, isC := x.(*ssa.Const); isC {
						x, y = y, x
					}
					if s, isS := ssau.ConstString(y); isS && s == "" && x == v {
						noVar = true
					}
				}
			}
			after := vcall.Block() == d.b || vcall.Block().Dominates(d.b)
			c.R.Check(noVar || after, rule, fmt.Sprintf("match: success exit #%d of the array case", n), c.pos(ret), "under 'the pattern array has no variable', or after arraycatMatch matched the variable", "a pattern array with a variable can match without the variable having been matched against an element of its own (arraycatMatch is also where a bound or inequality variable is judged)")
		}
	}
	if n == 0 {
		c.R.Break(rule + ": no success exit of the array case found")
	}
}

package rules

import (
	"go/constant"
	"go/token"

	"golang.org/x/tools/go/ssa"

	"sheensverif/internal/flow"
	"sheensverif/internal/ssau"
)

// This file holds two helpers for rules about a flag (or a value) that a refactoring may carry from the place where
// it is produced to the place where it is tested in a small record: a field of a local struct, a struct returned by
// value from a helper, a parameter, a result.
//
//   - scenario: evaluation of boolean SSA values under an assumption ("the lookup did not find the key and the
//     pattern value is not optional"), through such records, helper results and helper parameters; and the
//     exploration of the control flow that remains possible under the assumption.
//   - copiesOf: all the SSA values that are copies of a value (forward, through the same records).

// tri is a truth value that may be unknown.
type tri int

const (
	triUnknown tri = iota
	triTrue
	triFalse
)

func triOf(b bool) tri {
	if b {
		return triTrue
	}
	return triFalse
}

func (t tri) not() tri {
	switch t {
	case triTrue:
		return triFalse
	case triFalse:
		return triTrue
	}
	return triUnknown
}

// scFrame: the call through which the evaluation entered a helper (parameters of the helper are the arguments of
// that call, evaluated in the frame above).
type scFrame struct {
	call *ssa.Call
	up   *scFrame
}

// scenario is an assumption about some boolean values.
type scenario struct {
	vals  map[ssa.Value]bool              // values assumed
	calls func(cl *ssa.Call) tri          // calls whose result is assumed
	scope []*ssa.Function                 // the functions among which calls and call sites are followed
	in    map[*ssa.Function]bool          // scope as a set
	steps int                             // work counter (evaluation is abandoned as "unknown" when it runs away)
	busy  map[ssa.Value]map[*scFrame]bool // values under evaluation (a cycle is unknown)
}

func newScenario(scope []*ssa.Function) *scenario {
	s := &scenario{vals: map[ssa.Value]bool{}, scope: scope, in: map[*ssa.Function]bool{}, busy: map[ssa.Value]map[*scFrame]bool{}}
	for _, f := range scope {
		s.in[f] = true
	}
	return s
}

func joinTri(ts []tri) tri {
	if len(ts) == 0 {
		return triUnknown
	}
	for _, t := range ts {
		if t == triUnknown || t != ts[0] {
			return triUnknown
		}
	}
	return ts[0]
}

// contradicted: one of the facts is known not to hold under the scenario.
func (s *scenario) contradicted(facts []flow.Fact, fr *scFrame, depth int) bool {
	for _, f := range facts {
		if t := s.eval(f.Cond, fr, depth+1); t != triUnknown && (t == triTrue) != f.True {
			return true
		}
	}
	return false
}

// eval: the truth value of the boolean v under the scenario (fr: the call through which v's function was entered,
// nil when it was not entered through a call that is being followed).
func (s *scenario) eval(v ssa.Value, fr *scFrame, depth int) tri {
	s.steps++
	if v == nil || depth > 24 || s.steps > 20000 {
		return triUnknown
	}
	if b, ok := s.vals[v]; ok {
		return triOf(b)
	}
	if s.busy[v][fr] {
		return triUnknown
	}
	if s.busy[v] == nil {
		s.busy[v] = map[*scFrame]bool{}
	}
	s.busy[v][fr] = true
	defer delete(s.busy[v], fr)
	switch x := v.(type) {
	case *ssa.Const:
		if x.Value != nil && x.Value.Kind() == constant.Bool {
			return triOf(constant.BoolVal(x.Value))
		}
	case *ssa.UnOp:
		switch x.Op {
		case token.NOT:
			return s.eval(x.X, fr, depth+1).not()
		case token.MUL:
			return s.evalLoad(x, fr, depth+1)
		}
	case *ssa.ChangeType:
		return s.eval(x.X, fr, depth+1)
	case *ssa.Phi:
		var ts []tri
		for i, e := range x.Edges {
			if s.contradicted(flow.EdgeFacts(x.Block().Preds[i], x.Block()), fr, depth) {
				continue
			}
			ts = append(ts, s.eval(e, fr, depth+1))
		}
		return joinTri(ts)
	case *ssa.Parameter:
		fn := x.Parent()
		idx := -1
		for i, p := range fn.Params {
			if p == x {
				idx = i
			}
		}
		if idx < 0 {
			return triUnknown
		}
		if fr != nil && fr.call.Common().StaticCallee() == fn {
			if idx < len(fr.call.Common().Args) {
				return s.eval(fr.call.Common().Args[idx], fr.up, depth+1)
			}
			return triUnknown
		}
		// not entered through a call that is followed: every call site in scope
		if !s.onlyCalledDirectly(fn) {
			return triUnknown
		}
		var ts []tri
		for _, site := range callSitesOf(fn, s.scope) {
			cl, isCall := site.(*ssa.Call)
			if !isCall || idx >= len(cl.Common().Args) {
				return triUnknown
			}
			ts = append(ts, s.eval(cl.Common().Args[idx], nil, depth+1))
		}
		return joinTri(ts)
	case *ssa.Call:
		if s.calls != nil {
			if t := s.calls(x); t != triUnknown {
				return t
			}
		}
		return s.evalResult(x, 0, -1, fr, depth+1)
	case *ssa.Extract:
		if cl, ok := x.Tuple.(*ssa.Call); ok {
			return s.evalResult(cl, x.Index, -1, fr, depth+1)
		}
	case *ssa.Field:
		return s.evalField(x.X, x.Field, fr, depth+1)
	}
	return triUnknown
}

// onlyCalledDirectly: fn is an unexported, named function whose every use in scope is a direct call.
func (s *scenario) onlyCalledDirectly(fn *ssa.Function) bool {
	if fn.Parent() != nil || fn.Object() == nil || fn.Object().Exported() || !s.in[fn] {
		return false
	}
	ok := true
	n := 0
	for _, g := range s.scope {
		ssau.Instrs(g, func(in ssa.Instruction) {
			ci, isCall := in.(ssa.CallInstruction)
			for _, op := range in.Operands(nil) {
				if *op != ssa.Value(fn) {
					continue
				}
				if !isCall || ci.Common().Value != ssa.Value(fn) {
					ok = false
				} else {
					n++
				}
			}
		})
	}
	return ok && n > 0
}

// evalResult: result #ri of the call cl of an in-scope helper (field >= 0: that field of the struct-valued result),
// joined over the returns of the helper that are possible under the scenario.
func (s *scenario) evalResult(cl *ssa.Call, ri int, field int, fr *scFrame, depth int) tri {
	sc := cl.Common().StaticCallee()
	if sc == nil || sc.Blocks == nil || !s.in[sc] || depth > 24 {
		return triUnknown
	}
	inner := &scFrame{call: cl, up: fr}
	var ts []tri
	for _, b := range sc.Blocks {
		ret, ok := b.Instrs[len(b.Instrs)-1].(*ssa.Return)
		if !ok || ri >= len(ret.Results) {
			continue
		}
		if s.contradicted(flow.FactsAt(b), inner, depth) {
			continue
		}
		if field >= 0 {
			ts = append(ts, s.evalField(ret.Results[ri], field, inner, depth+1))
		} else {
			ts = append(ts, s.eval(ret.Results[ri], inner, depth+1))
		}
	}
	return joinTri(ts)
}

// evalField: field #f of the struct value sv.
func (s *scenario) evalField(sv ssa.Value, f int, fr *scFrame, depth int) tri {
	s.steps++
	if depth > 24 || s.steps > 20000 {
		return triUnknown
	}
	switch x := sv.(type) {
	case *ssa.UnOp:
		if al, ok := x.X.(*ssa.Alloc); ok && x.Op == token.MUL {
			return s.evalCell(al, f, x, fr, depth+1)
		}
	case *ssa.Call:
		return s.evalResult(x, 0, f, fr, depth+1)
	case *ssa.Extract:
		if cl, ok := x.Tuple.(*ssa.Call); ok {
			return s.evalResult(cl, x.Index, f, fr, depth+1)
		}
	case *ssa.Phi:
		var ts []tri
		for i, e := range x.Edges {
			if s.contradicted(flow.EdgeFacts(x.Block().Preds[i], x.Block()), fr, depth) {
				continue
			}
			ts = append(ts, s.evalField(e, f, fr, depth+1))
		}
		return joinTri(ts)
	case *ssa.ChangeType:
		return s.evalField(x.X, f, fr, depth+1)
	}
	return triUnknown
}

// evalLoad: a load of a local variable or of a field of a local struct variable.
func (s *scenario) evalLoad(ld *ssa.UnOp, fr *scFrame, depth int) tri {
	switch a := ld.X.(type) {
	case *ssa.Alloc:
		return s.evalCell(a, -1, ld, fr, depth)
	case *ssa.FieldAddr:
		if al, ok := a.X.(*ssa.Alloc); ok {
			return s.evalCell(al, a.Field, ld, fr, depth)
		}
	}
	return triUnknown
}

// privateRecord: the local variable al is only read and written in place (as a whole, or field by field): its
// address is not handed on.
func privateRecord(al *ssa.Alloc) bool {
	for _, r := range ssau.Referrers(al) {
		switch y := r.(type) {
		case *ssa.DebugRef:
		case *ssa.UnOp:
			if y.Op != token.MUL {
				return false
			}
		case *ssa.Store:
			if y.Addr != ssa.Value(al) || y.Val == ssa.Value(al) {
				return false
			}
		case *ssa.FieldAddr:
			for _, r2 := range ssau.Referrers(y) {
				switch z := r2.(type) {
				case *ssa.DebugRef:
				case *ssa.UnOp:
					if z.Op != token.MUL {
						return false
					}
				case *ssa.Store:
					if z.Addr != ssa.Value(y) || z.Val == ssa.Value(y) {
						return false
					}
				default:
					return false
				}
			}
		default:
			return false
		}
	}
	return true
}

// evalCell: what the instruction `at` reads from the local variable al (field < 0) or from its field #field.  The
// stores that can be seen are joined; the zero value counts when no store is certain to have happened before.
func (s *scenario) evalCell(al *ssa.Alloc, field int, at ssa.Instruction, fr *scFrame, depth int) tri {
	if !privateRecord(al) {
		return triUnknown
	}
	var ts []tri
	certain := false
	for _, r := range ssau.Referrers(al) {
		switch y := r.(type) {
		case *ssa.Store:
			// the variable is assigned as a whole
			if field < 0 {
				ts = append(ts, s.eval(y.Val, fr, depth+1))
			} else {
				ts = append(ts, s.evalField(y.Val, field, fr, depth+1))
			}
			certain = certain || flow.InstrDominates(y, at)
		case *ssa.FieldAddr:
			if y.Field != field {
				continue
			}
			for _, r2 := range ssau.Referrers(y) {
				if st, ok := r2.(*ssa.Store); ok {
					ts = append(ts, s.eval(st.Val, fr, depth+1))
					certain = certain || flow.InstrDominates(st, at)
				}
			}
		}
	}
	if !certain {
		ts = append(ts, triFalse) // the zero value
	}
	return joinTri(ts)
}

// endsUnder explores the control flow from the end of block `from` (the instructions of a block are executed
// together) under the scenario: a branch whose condition has a known value is followed on that side only.  Leaving
// a helper continues after each of its call sites in scope.  visit is asked about every block that is entered
// (ret == nil) and about every return that is reached: done ends the way there, and ok says whether that end is
// acceptable.  The answer is false if any way ended badly or could not be followed.
func (s *scenario) endsUnder(from *ssa.BasicBlock, visit func(b *ssa.BasicBlock, ret *ssa.Return) (done bool, ok bool)) bool {
	left := map[*ssa.BasicBlock]bool{}
	good := true
	var leave func(b *ssa.BasicBlock, depth int)
	enter := func(b *ssa.BasicBlock, depth int) {
		if !good {
			return
		}
		if done, ok := visit(b, nil); done {
			good = good && ok
			return
		}
		leave(b, depth)
	}
	leave = func(b *ssa.BasicBlock, depth int) {
		if !good || left[b] {
			return
		}
		left[b] = true
		switch last := b.Instrs[len(b.Instrs)-1].(type) {
		case *ssa.Jump:
			enter(b.Succs[0], depth)
		case *ssa.If:
			switch s.eval(last.Cond, nil, 0) {
			case triTrue:
				enter(b.Succs[0], depth)
			case triFalse:
				enter(b.Succs[1], depth)
			default:
				enter(b.Succs[0], depth)
				enter(b.Succs[1], depth)
			}
		case *ssa.Panic:
		case *ssa.Return:
			if done, ok := visit(b, last); done {
				good = good && ok
				return
			}
			// a helper: on after each of its calls
			fn := b.Parent()
			sites := callSitesOf(fn, s.scope)
			if depth > 4 || len(sites) == 0 || !s.onlyCalledDirectly(fn) {
				good = false
				return
			}
			for _, site := range sites {
				cl, isCall := site.(*ssa.Call)
				if !isCall {
					good = false
					return
				}
				leave(cl.Block(), depth+1)
			}
		default:
			good = false
		}
	}
	leave(from, 0)
	return good
}

// copiesOf: the SSA values that hold a copy of v — through phis and renamings, through a local variable or a field
// of a local struct variable that is read and written in place, through a struct that is copied or returned as a
// whole, through results of the functions in scope and (intoCalls) through their parameters.
func copiesOf(v ssa.Value, scope []*ssa.Function, intoCalls bool) []ssa.Value {
	type sfield struct {
		sv ssa.Value
		f  int
	}
	seen := map[ssa.Value]bool{}
	seenS := map[sfield]bool{}
	var out []ssa.Value
	var add func(x ssa.Value, depth int)
	var addS func(sv ssa.Value, f int, depth int)
	// results: what a call site sees of result #ri of fn
	results := func(fn *ssa.Function, ri int, each func(r ssa.Value)) {
		for _, site := range callSitesOf(fn, scope) {
			cl, ok := site.(*ssa.Call)
			if !ok {
				continue
			}
			if fn.Signature.Results().Len() == 1 {
				each(cl)
				continue
			}
			for _, r := range ssau.Referrers(cl) {
				if ex, isEx := r.(*ssa.Extract); isEx && ex.Index == ri {
					each(ex)
				}
			}
		}
	}
	// cell: the reads of field #f (f < 0: the whole) of the local variable al
	cell := func(al *ssa.Alloc, f int, depth int) {
		if !privateRecord(al) {
			return
		}
		for _, r := range ssau.Referrers(al) {
			switch y := r.(type) {
			case *ssa.UnOp:
				if f < 0 {
					add(y, depth+1)
				} else {
					addS(y, f, depth+1)
				}
			case *ssa.FieldAddr:
				if y.Field != f {
					continue
				}
				for _, r2 := range ssau.Referrers(y) {
					if ld, ok := r2.(*ssa.UnOp); ok && ld.Op == token.MUL {
						add(ld, depth+1)
					}
				}
			}
		}
	}
	// uses: follow the uses of a value (f < 0) or of field #f of a struct value
	uses := func(x ssa.Value, f int, depth int) {
		fwd := func(y ssa.Value) {
			if f < 0 {
				add(y, depth+1)
			} else {
				addS(y, f, depth+1)
			}
		}
		for _, r := range ssau.Referrers(x) {
			switch y := r.(type) {
			case *ssa.Phi:
				fwd(y)
			case *ssa.ChangeType:
				fwd(y)
			case *ssa.Store:
				if y.Val != x {
					continue
				}
				switch a := y.Addr.(type) {
				case *ssa.Alloc:
					if f < 0 {
						cell(a, -1, depth)
					} else {
						cell(a, f, depth)
					}
				case *ssa.FieldAddr:
					if al, ok := a.X.(*ssa.Alloc); ok && f < 0 {
						cell(al, a.Field, depth)
					}
				}
			case *ssa.Field:
				if f >= 0 && y.X == x && y.Field == f {
					add(y, depth+1)
				}
			case *ssa.Return:
				for i, res := range y.Results {
					if res == x {
						results(y.Parent(), i, fwd)
					}
				}
			case *ssa.Call:
				h := y.Common().StaticCallee()
				if h == nil || h.Blocks == nil || !intoCalls {
					continue
				}
				for i, a := range y.Common().Args {
					if a == x && i < len(h.Params) {
						fwd(h.Params[i])
					}
				}
			}
		}
	}
	add = func(x ssa.Value, depth int) {
		if seen[x] || depth > 12 {
			return
		}
		seen[x] = true
		out = append(out, x)
		uses(x, -1, depth)
	}
	addS = func(sv ssa.Value, f int, depth int) {
		if seenS[sfield{sv, f}] || depth > 12 {
			return
		}
		seenS[sfield{sv, f}] = true
		uses(sv, f, depth)
	}
	add(v, 0)
	return out
}

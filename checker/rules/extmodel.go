package rules

import (
	"strings"

	"golang.org/x/tools/go/ssa"

	"sheensverif/internal/pta"
	"sheensverif/internal/ssau"
)

// stdExternal is the external-call model A3 shared by all analyses: which
// std / third-party functions write through an argument, return an alias of an
// argument, hand a value to a script runtime, or return a value from it.
// Everything else returns a fresh object owned by the caller and writes nothing.
func stdExternal(a *pta.Analysis, site ssa.CallInstruction, callee *ssa.Function) bool {
	name := ssau.CalleeName(site)
	switch name {
	case "encoding/json.Unmarshal", "gopkg.in/yaml.v2.Unmarshal", "github.com/jsccast/yaml.Unmarshal":
		a.WriteThrough(site.Parent(), site, 1)
		return true
	case "(*github.com/dop251/goja.Runtime).Set":
		a.EscapeTo(site, 2, "goja.Runtime.Set")
		a.FreshResult(site)
		return true
	case "(*github.com/dop251/goja.Runtime).ToValue":
		a.EscapeTo(site, 1, "goja.Runtime.ToValue")
		a.ResultFromWorld(site)
		return true
	case "(*github.com/dop251/goja.Runtime).RunProgram", "(*github.com/dop251/goja.Runtime).RunString", "(*github.com/dop251/goja.Runtime).RunScript":
		a.FreshResult(site)
		a.ResultFromWorld(site)
		return true
	case "(github.com/dop251/goja.Value).Export", "(github.com/dop251/goja.Value).ToObject":
		a.FreshResult(site)
		a.ResultFromWorld(site)
		return true
	case "context.WithCancel", "context.WithTimeout", "context.WithDeadline", "context.WithValue":
		a.FreshResult(site)
		return true
	}
	// sort.* and strings.* etc.: no pointer-carrying effects.
	if strings.HasPrefix(name, "(*sync.Map).") || strings.HasPrefix(name, "(*sync.Pool).") {
		switch {
		case strings.HasSuffix(name, ".Load"), strings.HasSuffix(name, ".Range"):
		default:
			// Store, LoadOrStore, Delete, Swap, CompareAndSwap, Put, Get: the container changes
			a.ExternalWrite(site, 0, "shared container update")
		}
	}
	// sync/atomic loads: the result is what the cell holds
	if name == "sync/atomic.LoadPointer" || strings.HasPrefix(name, "(*sync/atomic.Pointer[") && strings.HasSuffix(name, ".Load") {
		a.ResultLoadsArg(site, 0, 0)
		return true
	}
	if name == "sync/atomic.StorePointer" || name == "sync/atomic.SwapPointer" {
		// `atomic.StorePointer(&x.f, p)` is `x.f = p` as far as pointers go
		a.ExternalWrite(site, 0, "atomic update")
		a.WriteArgThrough(site, 0, 1)
		return true
	}
	// sync/atomic: a store, swap, add or compare-and-swap changes what its first argument (receiver or address) points to
	if strings.HasPrefix(name, "(*sync/atomic.") || strings.HasPrefix(name, "sync/atomic.") {
		base := name[strings.LastIndex(name, ".")+1:]
		for _, w := range []string{"Store", "Swap", "CompareAndSwap", "Add", "And", "Or"} {
			if strings.HasPrefix(base, w) {
				a.ExternalWrite(site, 0, "atomic update")
				if strings.HasPrefix(name, "(*sync/atomic.Value).") || strings.HasPrefix(name, "(*sync/atomic.Pointer[") {
					// the value stored outlives the call
					for j := 1; j < len(site.Common().Args); j++ {
						a.EscapeToWorld(site, j, name, "sync")
					}
				}
				break
			}
		}
	}
	if strings.HasPrefix(name, "(*sync.Pool).Put") || strings.HasPrefix(name, "(*sync.Map).Store") || strings.HasPrefix(name, "(*sync.Map).LoadOrStore") {
		// a value parked in a pool / shared map outlives the call: model as escape to the world
		a.EscapeToWorld(site, 1, name, "sync")
		if strings.Contains(name, "Store") {
			a.EscapeToWorld(site, 2, name, "sync")
		}
		a.FreshResult(site)
		return true
	}
	if strings.HasPrefix(name, "(*sync.Pool).Get") || strings.HasPrefix(name, "(*sync.Map).Load") {
		a.FreshResult(site)
		a.ResultFromWorldNamed(site, "sync")
		return true
	}
	return false
}

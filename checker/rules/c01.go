package rules

import (
	"fmt"
	"go/constant"
	"go/token"
	"go/types"
	"sort"
	"strings"

	"golang.org/x/tools/go/ssa"

	"sheensverif/internal/flow"
	"sheensverif/internal/prog"
	"sheensverif/internal/pta"
	"sheensverif/internal/ssau"
)

func init() { Registry["C01"] = C01; Registry["C02"] = C02 }

func isBindingsT(t types.Type) bool { return ssau.TypeIs(t, prog.Abs("match"), "Bindings") }

// freshIn: value v (used at depth d: 0 the map itself, 1 a slice of maps) is
// created inside loop l of its function.
func (m *matchModel) freshIn(v ssa.Value, d int, l *flow.Loop, seen map[ssa.Value]bool) bool {
	if seen[v] {
		return true
	}
	seen[v] = true
	in, isIn := v.(ssa.Instruction)
	switch x := v.(type) {
	case *ssa.Call:
		if sc := x.Common().StaticCallee(); sc != nil && m.fresh[sc] >= d && isIn && l.Blocks[in.Block()] {
			return true
		}
		return false
	case *ssa.MakeMap:
		return d == 0 && l.Blocks[x.Block()]
	case *ssa.ChangeType:
		return m.freshIn(x.X, d, l, seen)
	case *ssa.Slice:
		if al, ok := x.X.(*ssa.Alloc); ok && d >= 1 && l.Blocks[al.Block()] {
			// composite literal: every stored element must be fresh at depth d-1
			for _, r := range ssau.Referrers(al) {
				if ia, ok := r.(*ssa.IndexAddr); ok {
					for _, r2 := range ssau.Referrers(ia) {
						if st, ok := r2.(*ssa.Store); ok && !m.freshIn(st.Val, d-1, l, seen) {
							return false
						}
					}
				}
			}
			return true
		}
		return false
	case *ssa.Phi:
		for _, e := range x.Edges {
			if !m.freshIn(e, d, l, seen) {
				return false
			}
		}
		return true
	case *ssa.Extract:
		// result #0 of a call inside the loop to a function whose first result is fresh
		if cl, ok := x.Tuple.(*ssa.Call); ok && x.Index == 0 {
			_ = cl
		}
	}
	return false
}

// enclosingLoops returns the loops of fn containing b, innermost first.
func enclosingLoops(loops []*flow.Loop, b *ssa.BasicBlock) []*flow.Loop {
	var out []*flow.Loop
	for _, l := range loops {
		if l.Blocks[b] {
			out = append(out, l)
		}
	}
	sort.Slice(out, func(i, j int) bool { return len(out[i].Blocks) < len(out[j].Blocks) })
	return out
}

// branchPrivacy: calls to functions that may write a Bindings reachable from an
// argument, made inside a loop over alternatives, must pass storage created in
// that iteration.
func (m *matchModel) branchPrivacy(rule string) int {
	c := m.c
	n := 0
	ord := map[string]int{}
	for _, f := range m.fns {
		loops := flow.Loops(f)
		ssau.Instrs(f, func(in ssa.Instruction) {
			var L *flow.Loop
			for _, l := range enclosingLoops(loops, in.Block()) {
				if d, _ := m.disjunctive(l); d {
					L = l
					break
				}
			}
			if L == nil {
				return
			}
			_, what := m.disjunctive(L)
			switch x := in.(type) {
			case *ssa.MapUpdate:
				if !isBindingsT(x.Map.Type()) {
					return
				}
				n++
				c.R.Check(m.freshIn(x.Map, 0, L, map[ssa.Value]bool{}), rule, fmt.Sprintf("%s: bind inside a loop over %s #%d", fname(f), what, n), c.pos(in),
					"the map written is created in this iteration", "a binding is written into a map shared between alternatives of a loop over "+what)
			case ssa.CallInstruction:
				cm := x.Common()
				for _, sc := range c.P.Callees(x) {
					if !m.inSet[sc] {
						continue
					}
					// every Bindings-carrying argument
					for ai, a := range cm.Args {
						depth := -1
						switch t := a.Type().Underlying().(type) {
						case *types.Map:
							if isBindingsT(a.Type()) {
								depth = 0
							}
						case *types.Slice:
							if isBindingsT(t.Elem()) {
								depth = 1
							} else if s2, ok := t.Elem().Underlying().(*types.Slice); ok && isBindingsT(s2.Elem()) {
								depth = 2
							}
						}
						if depth < 0 {
							continue
						}
						n++
						ord[fname(f)+sc.Name()]++
						key := fmt.Sprintf("%s: call %s #%d inside a loop over %s (arg %d)", fname(f), sc.Name(), ord[fname(f)+sc.Name()], what, ai)
						writes := false
						for k := range m.writers[sc] {
							if k[0] == ai {
								writes = true
							}
						}
						if !writes {
							c.R.Discharge(rule, key, c.pos(in), sc.Name()+" never extends the bindings it is given through this argument (it works on copies)")
							continue
						}
						ok := m.freshIn(a, depth, L, map[ssa.Value]bool{})
						c.R.Check(ok, rule, key, c.pos(in),
							"the bindings the callee may extend are created in this iteration", fmt.Sprintf("%s may extend bindings that are shared between the alternatives of a loop over %s: a binding made while trying one alternative leaks into the others", sc.Name(), what))
					}
				}
			}
		})
	}
	return n
}

// sliceParams: names of the parameters (of the value's own function) a value
// derives from, through data operations and in-package calls.
func paramSources(v ssa.Value, seen map[ssa.Value]bool, out map[string]bool) {
	paramSourcesD(v, seen, out, 0)
}

// calleeSources: for result ri of the static in-package callee of cl, the sources inside the callee mapped to
// the call's arguments: what the caller's value derives from.  ok=false when the callee cannot be looked into.
func calleeSources(cl *ssa.Call, ri int, seen map[ssa.Value]bool, out map[string]bool, depth int) bool {
	sc := cl.Common().StaticCallee()
	if sc == nil || sc.Blocks == nil || depth > 4 || cl.Parent() == nil || sc.Pkg != cl.Parent().Pkg || ri >= sc.Signature.Results().Len() {
		return false
	}
	inner := map[string]bool{}
	for _, b := range sc.Blocks {
		if ret, ok := b.Instrs[len(b.Instrs)-1].(*ssa.Return); ok && ri < len(ret.Results) {
			paramSourcesD(ret.Results[ri], map[ssa.Value]bool{}, inner, depth+1)
		}
	}
	byName := map[string]int{}
	for i, p := range sc.Params {
		byName[p.Name()] = i
	}
	for k := range inner {
		if i, isParam := byName[k]; isParam {
			if i < len(cl.Common().Args) {
				paramSourcesD(cl.Common().Args[i], seen, out, depth)
			}
			continue
		}
		out[k] = true // a lookup made by the callee
	}
	return true
}

func paramSourcesD(v ssa.Value, seen map[ssa.Value]bool, out map[string]bool, depth int) {
	if seen[v] {
		return
	}
	seen[v] = true
	switch x := v.(type) {
	case *ssa.Parameter:
		out[x.Name()] = true
	case *ssa.Const, *ssa.Global, *ssa.Function, *ssa.Alloc, *ssa.MakeMap, *ssa.MakeSlice:
	case *ssa.Phi:
		for _, e := range x.Edges {
			paramSourcesD(e, seen, out, depth)
		}
	case *ssa.Extract:
		// a result of a helper of the package: what that result is made of, in terms of this call's arguments
		if cl, ok := x.Tuple.(*ssa.Call); ok && calleeSources(cl, x.Index, seen, out, depth) {
			return
		}
		paramSourcesD(x.Tuple, seen, out, depth)
	case *ssa.Call:
		if _, isTup := x.Type().(*types.Tuple); !isTup && calleeSources(x, 0, seen, out, depth) {
			return
		}
		for _, a := range x.Common().Args {
			paramSourcesD(a, seen, out, depth)
		}
		if x.Common().IsInvoke() {
			paramSourcesD(x.Common().Value, seen, out, depth)
		}
	case *ssa.Lookup:
		paramSourcesD(x.X, seen, out, depth)
		out["<lookup in "+types.TypeString(x.X.Type(), func(p *types.Package) string { return p.Name() })+">"] = true
	default:
		if in, ok := v.(ssa.Instruction); ok {
			for _, op := range in.Operands(nil) {
				if *op != nil {
					paramSourcesD(*op, seen, out, depth)
				}
			}
		}
	}
}

// sameLocalCellRead: a (read for the instruction `from`) and b (read for the instruction `to`, which `from`
// dominates) are two reads of the same variable of the function — the same field of the same local struct — and
// the variable cannot have been written between the execution of `from` whose result is in use and `to`: the struct
// is only used through its fields, as a whole-value read, and as the receiver or argument of calls; no store into
// the field (or the whole struct) and no call that is given the struct's address lies on a way from `from` to `to`.
func sameLocalCellRead(a, b ssa.Value, from, to ssa.Instruction) bool {
	la, okA := a.(*ssa.UnOp)
	lb, okB := b.(*ssa.UnOp)
	if !okA || !okB || la.Op != token.MUL || lb.Op != token.MUL {
		return false
	}
	fa, okA := la.X.(*ssa.FieldAddr)
	fb, okB := lb.X.(*ssa.FieldAddr)
	if !okA || !okB || fa.Field != fb.Field || fa.X != fb.X {
		return false
	}
	al, isAl := fa.X.(*ssa.Alloc)
	if !isAl || al.Parent() != from.Parent() || from.Parent() != to.Parent() || !flow.InstrDominates(from, to) {
		return false
	}
	// the instructions that may write the field
	var writers []ssa.Instruction
	for _, ref := range ssau.Referrers(al) {
		switch y := ref.(type) {
		case *ssa.DebugRef:
		case *ssa.FieldAddr:
			for _, r2 := range ssau.Referrers(y) {
				switch z := r2.(type) {
				case *ssa.DebugRef:
				case *ssa.UnOp:
					if z.Op != token.MUL {
						return false
					}
				case *ssa.Store:
					if z.Addr != ssa.Value(y) || z.Val == ssa.Value(y) {
						return false
					}
					if y.Field == fa.Field {
						writers = append(writers, z)
					}
				default:
					return false // the field's address is handed out
				}
			}
		case *ssa.UnOp:
			if y.Op != token.MUL {
				return false
			}
		case *ssa.Store:
			if y.Val == ssa.Value(al) || y.Addr != ssa.Value(al) {
				return false
			}
			writers = append(writers, y)
		case ssa.CallInstruction:
			if _, isCall := y.(*ssa.Call); !isCall {
				return false // go / defer: runs at an unknown time
			}
			writers = append(writers, y)
		default:
			return false // the address is kept somewhere (closure, struct, phi, ...)
		}
	}
	return noWriterBetween(writers, la, lb, from, to)
}

// noWriterBetween: la (read for `from`) and lb (read for `to`, which `from` dominates) are two loads of one memory
// cell; none of the instructions that may write the cell can run after the earlier of la and `from` and before
// `to` without that earlier instruction running again in between.
func noWriterBetween(writers []ssa.Instruction, la, lb *ssa.UnOp, from, to ssa.Instruction) bool {
	start := ssa.Instruction(la)
	if !flow.InstrDominates(la, from) {
		if !flow.InstrDominates(from, la) {
			return false
		}
		start = from
	}
	if !flow.InstrDominates(start, lb) || !(ssa.Instruction(lb) == to || flow.InstrDominates(lb, to)) {
		return false
	}
	sb, tb := start.Block(), to.Block()
	avoid := map[*ssa.BasicBlock]bool{sb: true}
	after := flow.ReachableFrom(sb, avoid)
	for _, w := range writers {
		wb := w.Block()
		switch {
		case wb == sb && flow.Index(w) > flow.Index(start):
			if tb == sb {
				if flow.Index(w) < flow.Index(to) {
					return false
				}
				continue // after to: the way back to `to` passes start
			}
		case wb != sb && after[wb]:
			if tb == sb {
				continue // the way to `to` passes start
			}
			if wb == tb && flow.Index(w) < flow.Index(to) {
				return false
			}
		default:
			continue // does not run after start
		}
		// leaving the writer's block, `to` is reached without passing the block of start
		for _, s := range wb.Succs {
			if s != sb && flow.Reachable(s, tb, avoid) {
				return false
			}
		}
	}
	return true
}

// sameRecordFieldRead: a (read for `from`) and b (read for `to`) are two reads of the same field through the same
// pointer value (`st.fxs` twice, st a parameter), and between them the function neither stores into that field of
// any record of the type, nor overwrites such a record as a whole, nor calls anything but builtins (a callee might
// write the field).
func sameRecordFieldRead(a, b ssa.Value, from, to ssa.Instruction) bool {
	if a == b {
		return true
	}
	la, okA := a.(*ssa.UnOp)
	lb, okB := b.(*ssa.UnOp)
	if !okA || !okB || la.Op != token.MUL || lb.Op != token.MUL {
		return false
	}
	fa, okA := la.X.(*ssa.FieldAddr)
	fb, okB := lb.X.(*ssa.FieldAddr)
	if !okA || !okB || fa.Field != fb.Field || fa.X != fb.X {
		return false
	}
	fn := from.Parent()
	if to.Parent() != fn || la.Parent() != fn || lb.Parent() != fn || !flow.InstrDominates(from, to) {
		return false
	}
	var writers []ssa.Instruction
	ssau.Instrs(fn, func(in ssa.Instruction) {
		switch y := in.(type) {
		case *ssa.Store:
			if f2, isFA := y.Addr.(*ssa.FieldAddr); isFA {
				if f2.Field == fa.Field && types.Identical(f2.X.Type(), fa.X.Type()) {
					writers = append(writers, y)
				}
				return
			}
			if types.Identical(y.Addr.Type(), fa.X.Type()) || types.Identical(y.Addr.Type(), fa.Type()) {
				writers = append(writers, y) // the whole record, or through a pointer to a field of this type
			}
		case ssa.CallInstruction:
			if _, isB := y.Common().Value.(*ssa.Builtin); !isB {
				writers = append(writers, y)
			}
		}
	})
	return noWriterBetween(writers, la, lb, from, to)
}

// recordFieldValues: the values field #f of the records of type pt (a pointer to a struct) can hold, found by type:
// every store into that field anywhere in the repository, plus the zero value unless every place that makes such a
// record stores into the field before the record is used for anything but its fields.  ok is false when the field's
// contents cannot be listed this way: the address of the field is handed out, a record of the type is written as a
// whole, or a record lives in something other than a local allocation (a global, an element of a slice or map, a
// field of another struct).
func (c *Ctx) recordFieldValues(pt types.Type, f int) (vals []ssa.Value, zero bool, ok bool) {
	ptr, isPtr := pt.Underlying().(*types.Pointer)
	if !isPtr {
		return nil, false, false
	}
	stT, isSt := ptr.Elem().Underlying().(*types.Struct)
	if !isSt || f >= stT.NumFields() {
		return nil, false, false
	}
	ok = true
	for _, fn := range c.P.AllFuncs {
		if fn.Blocks == nil {
			continue
		}
		ssau.Instrs(fn, func(in ssa.Instruction) {
			for _, op := range in.Operands(nil) {
				if g, isG := (*op).(*ssa.Global); isG && types.Identical(g.Type(), pt) {
					zero = true // a package-level record starts out zero
				}
			}
			switch y := in.(type) {
			case *ssa.FieldAddr:
				if y.Field != f || !types.Identical(y.X.Type(), pt) {
					return
				}
				for _, r := range ssau.Referrers(y) {
					switch z := r.(type) {
					case *ssa.DebugRef:
					case *ssa.UnOp:
						if z.Op != token.MUL {
							ok = false
						}
					case *ssa.Store:
						if z.Addr != ssa.Value(y) || z.Val == ssa.Value(y) {
							ok = false
							return
						}
						vals = append(vals, z.Val)
					default:
						ok = false
					}
				}
			case *ssa.Store:
				if types.Identical(y.Addr.Type(), pt) {
					ok = false // a record overwritten as a whole
				}
			case *ssa.Alloc:
				if !types.Identical(y.Type(), pt) {
					return
				}
				// the field is set before the record is used as a whole
				var sets []ssa.Instruction
				for _, r := range ssau.Referrers(y) {
					if fa, isFA := r.(*ssa.FieldAddr); isFA && fa.Field == f {
						for _, r2 := range ssau.Referrers(fa) {
							if st, isStore := r2.(*ssa.Store); isStore && st.Addr == ssa.Value(fa) {
								sets = append(sets, st)
							}
						}
					}
				}
				for _, r := range ssau.Referrers(y) {
					var use ssa.Instruction
					switch z := r.(type) {
					case *ssa.DebugRef:
						continue
					case *ssa.FieldAddr:
						if z.Field != f {
							continue
						}
						for _, r2 := range ssau.Referrers(z) {
							if ld, isLd := r2.(*ssa.UnOp); isLd {
								use = ld
							}
						}
						if use == nil {
							continue
						}
					default:
						use = r
					}
					covered := false
					for _, st := range sets {
						if st != use && flow.InstrDominates(st, use) {
							covered = true
						}
					}
					if !covered {
						zero = true
					}
				}
			default:
				// a record of the type that is not a local allocation: a value of the struct type made or held elsewhere
				if _, isRange := in.(*ssa.Range); isRange {
					return // (its type is not a Go type)
				}
				if v, isV := in.(ssa.Value); isV {
					if types.Identical(v.Type(), ptr.Elem()) {
						if ld, isLd := v.(*ssa.UnOp); !isLd || ld.Op != token.MUL {
							ok = false
						}
					}
					if types.Identical(v.Type(), pt) {
						switch v.(type) {
						case *ssa.Call, *ssa.Phi, *ssa.Extract, *ssa.UnOp:
							// handed on / read from a variable: the records themselves are allocations seen elsewhere
						default:
							ok = false
						}
					}
				}
			}
		})
		if !ok {
			return nil, false, false
		}
	}
	return vals, zero, ok
}

// deepDefsRecordFields is deepDefs that also looks through reads of a field of a record held by pointer
// (`st.n` where st came from a constructor helper): such a read resolves to what recordFieldValues lists.
func (c *Ctx) deepDefsRecordFields(v ssa.Value, scope []*ssa.Function) []ssa.Value {
	var out []ssa.Value
	seen := map[ssa.Value]bool{}
	var rec func(v ssa.Value, depth int)
	rec = func(v ssa.Value, depth int) {
		for _, d := range deepDefs(v, scope) {
			if seen[d] {
				continue
			}
			seen[d] = true
			if ld, isLd := d.(*ssa.UnOp); isLd && ld.Op == token.MUL && depth < 4 {
				if fa, isFA := ld.X.(*ssa.FieldAddr); isFA {
					if vals, zero, ok := c.recordFieldValues(fa.X.Type(), fa.Field); ok && len(vals) > 0 {
						for _, x := range vals {
							rec(x, depth+1)
						}
						if zero {
							out = append(out, zeroConst(d.Type()))
						}
						continue
					}
				}
			}
			out = append(out, d)
		}
	}
	rec(v, 0)
	return out
}

func keysOf(m map[string]bool) string {
	var ks []string
	for k := range m {
		ks = append(ks, k)
	}
	sort.Strings(ks)
	return strings.Join(ks, ",")
}

func C01(c *Ctx) {
	c.R.Explanation = "Decides structural necessary conditions of match soundness on the SSA form of package match (closure of Matcher.Match): (R1) every write into a Bindings map is a bind-if-absent — dominated by the not-found edge of a lookup of the same key in the same map — and nothing is deleted from a Bindings map, so given bindings survive unchanged; (R2) the name bound derives only from the pattern side and the value bound only from the message side; (R3) a pattern key missing from the message ends the match unless the value is an optional variable; (R4) in the inequality helper each operator constant selects the comparison of that operator with the message value on the left and the bound on the right, a binding set is returned only when the relation held, and no operator in the prefix list is a prefix of a later one; (R5) a scalar message member matched by a pattern constant is removed from the set of available members; (R6) inside every loop over alternatives (message members, candidate binding sets) bindings are extended only in storage created in that iteration, so a binding made for a failed alternative cannot leak; (R7) as C03-R1 restricted to pattern and message: no instruction reachable from Match can write them, so the bindings returned are bindings for the pattern and message the caller still holds (a pattern rewritten in place makes the next answer an answer about a different pattern). Containment of the instantiated pattern in the message is not decided."
	c.R.Rule("C01-R1", "E3", "extension-only binding", 2)
	c.R.Rule("C01-R2", "E5", "key from the pattern, value from the message", 2)
	c.R.Rule("C01-R3", "E3", "missing key means no match unless optional", 1)
	c.R.Rule("C01-R4", "E6", "inequality table", 7)
	c.R.Rule("C01-R5", "E3", "matched scalar members are consumed", 1)
	c.R.Rule("C01-R6", "E5+E3", "bindings private to each alternative", 2)
	c.R.Rule("C01-R7", "E1", "matching leaves the pattern and the message intact (answers are about the pattern and message the caller holds)", 8)
	c.R.Rule("C01-R8", "E3+E5", "a pattern of one kind (map, array, number, boolean) is only matched by a message part of the same kind", 4)
	c.R.Rule("C01-R9", "E3", "the variable predicates mean what the documentation says", 2)
	c.shareRule("C02", "C02-R7", "C01-R13", "every key of the pattern is present in the message: presence is decided by the lookup's ok flag, not by the value found (an absent key reads as null)")
	c.shareRule("C03", "C03-R1", "C01-R11", "an answer is about the pattern and message of this call: the matcher keeps nothing between calls (a memo answers for another pattern)")
	c.shareRule("C02", "C02-R2", "C01-R17", "distinct pattern elements are matched to distinct message elements: the element an alternative matched is the one removed, from that alternative's own copy of the candidates")
	c.R.Rule("C01-R12", "E5+E3", "a pattern string is compared with a message string only once it is known to be a constant", 1)
	c.R.Rule("C01-R10", "E3+E5", "a pattern array's variable and constants are what getVariable found, and a variable is matched by arraycatMatch before the array case succeeds", 4)
	c01ArrayVariable(c, "C01-R10")
	m := c.newMatchModel()
	c01ConstantCompare(c, "C01-R12", m)
	c.R.Rule("C01-R16", "E3", "records of alternatives do not share a backing array", 1)
	c01AppendInLoopShares(c, "C01-R16", m.fns)
	c.R.Rule("C01-R15", "E5", "the strings compared are the strings given", 1)
	c01ComparedAsIs(c, "C01-R15", m)
	c.R.Rule("C01-R14", "E7", "numbers are compared as they are: the matcher does no arithmetic on them", 1)
	c01NoArithmetic(c, "C01-R14", m.fns)
	for _, f := range m.fns {
		c.R.Fn(fname(f))
	}
	if len(m.fns) < 8 {
		c.R.Break("C01: closure of Matcher.Match has only %d functions", len(m.fns))
		return
	}
	// ---- R1 / R2
	n1 := 0
	for _, f := range m.fns {
		ssau.Instrs(f, func(in ssa.Instruction) {
			if ci, ok := in.(ssa.CallInstruction); ok {
				if b, isB := ci.Common().Value.(*ssa.Builtin); isB && b.Name() == "delete" && isBindingsT(ci.Common().Args[0].Type()) {
					c.R.Violate("C01-R1", fname(f)+": delete from Bindings", c.pos(in), "a binding is removed during matching")
				}
				return
			}
			mu, ok := in.(*ssa.MapUpdate)
			if !ok || !isBindingsT(mu.Map.Type()) {
				return
			}
			if mm, isMake := mu.Map.(*ssa.MakeMap); isMake && mm.Parent() == f {
				return // filling a fresh copy
			}
			n1++
			key := fmt.Sprintf("%s: bind #%d", fname(f), n1)
			absent := false
			for _, fa := range flow.FactsAt(mu.Block()) {
				ex, isEx := fa.Cond.(*ssa.Extract)
				if !isEx || ex.Index != 1 || fa.True {
					continue
				}
				lk, isLk := ex.Tuple.(*ssa.Lookup)
				if isLk && lk.CommaOk && lk.X == mu.Map && (lk.Index == mu.Key || sameLocalCellRead(lk.Index, mu.Key, lk, mu)) {
					absent = true
				}
			}
			c.R.Check(absent, "C01-R1", key, c.pos(mu), "dominated by the not-found edge of a lookup of the same key in the same map", "a binding can overwrite an existing binding (not guarded by a lookup of the same key)")
			ks, vs := map[string]bool{}, map[string]bool{}
			paramSources(mu.Key, map[ssa.Value]bool{}, ks)
			paramSources(mu.Value, map[ssa.Value]bool{}, vs)
			// roles of the parameters involved
			okK, okV := true, true
			for _, p := range f.Params {
				if ks[p.Name()] && (m.has(p, "F") || isBindingsT(p.Type())) {
					okK = false
				}
				if vs[p.Name()] && (m.has(p, "P") && !m.has(p, "F") || isBindingsT(p.Type())) {
					okV = false
				}
			}
			for k := range vs {
				if strings.HasPrefix(k, "<lookup") {
					okV = false
				}
			}
			c.R.Check(okK && okV, "C01-R2", key+" provenance", c.pos(mu), "name from {"+keysOf(ks)+"}, value from {"+keysOf(vs)+"}", "the bound name does not derive from the pattern only, or the bound value not from the message only: name from {"+keysOf(ks)+"}, value from {"+keysOf(vs)+"}")
		})
	}
	// ---- R3
	mapcat := c.fn("match", "Matcher", "mapcatMatch")
	if mapcat != nil {
		// The member lookup is in mapcatMatch or in one of its own helpers (functions that do not lead back to it).
		// "The key is missing" is the assumption that the lookup's ok flag is false, "the pattern value is not an
		// optional variable" that IsOptionalVariable answers false: under both, every way on from the lookup ends in a
		// return of no match — it neither reaches the next key (the header of the loop around the lookup or around
		// the call that leads to it) nor returns bindings.  The flag may travel in a local record, through the
		// result of the helper and through parameters (scenario.go).
		scope := []*ssa.Function{mapcat}
		for _, h := range pkgClosure(mapcat) {
			if h != mapcat && m.inSet[h] && !inClosure(h, mapcat) {
				scope = append(scope, h)
			}
		}
		n3 := 0
		for _, f := range scope {
			ssau.Instrs(f, func(in ssa.Instruction) {
				lk, ok := in.(*ssa.Lookup)
				if !ok || !lk.CommaOk || !m.has(lk.X, "F") || m.has(lk.X, "P") || !m.has(lk.Index, "P") {
					return
				}
				n3++
				var found ssa.Value
				for _, r := range ssau.Referrers(lk) {
					if ex, isEx := r.(*ssa.Extract); isEx && ex.Index == 1 {
						found = ex
					}
				}
				ok3 := false
				if found != nil {
					// the loop(s) whose next round is the next key, and the functions that hold them
					headers := map[*ssa.BasicBlock]bool{}
					frames := map[*ssa.Function]bool{mapcat: true}
					var up func(b *ssa.BasicBlock, depth int)
					up = func(b *ssa.BasicBlock, depth int) {
						if L := flow.InnermostLoop(flow.Loops(b.Parent()), b); L != nil {
							headers[L.Header] = true
							frames[b.Parent()] = true
							return
						}
						if depth > 4 || b.Parent() == mapcat {
							return
						}
						for _, site := range callSitesOf(b.Parent(), scope) {
							up(site.Block(), depth+1)
						}
					}
					up(lk.Block(), 0)
					sc := newScenario(scope)
					sc.vals[found] = false
					sc.calls = func(cl *ssa.Call) tri {
						if h := cl.Common().StaticCallee(); h != nil && h.Name() == "IsOptionalVariable" {
							return triFalse
						}
						return triUnknown
					}
					ok3 = len(headers) > 0 && sc.endsUnder(lk.Block(), func(b *ssa.BasicBlock, ret *ssa.Return) (bool, bool) {
						if ret == nil {
							return headers[b], false
						}
						if !frames[b.Parent()] {
							return false, false // a helper: on in its callers
						}
						return true, len(ret.Results) > 0 && ssau.IsNilConst(ret.Results[0])
					})
				}
				c.R.Check(ok3, "C01-R3", fmt.Sprintf("mapcatMatch: missing key #%d", n3), c.pos(lk), "from the not-found edge only the optional-variable test leads on; otherwise the result is nil", "a pattern key that is missing from the message does not end the match")
			})
		}
	}
	// ---- R4
	c01Inequal(c, m)
	c01Kinds(c, m)
	c01Predicates(c)
	// ---- R5
	// (in match itself, or in whichever helper of the matcher holds the array case)
	n5 := 0
	for _, mt := range m.fns {
		ssau.Instrs(mt, func(in ssa.Instruction) {
			lk, ok := in.(*ssa.Lookup)
			if !ok || !lk.CommaOk {
				return
			}
			mtp, isMap := lk.X.Type().Underlying().(*types.Map)
			if !isMap || !types.IsInterface(mtp.Key()) {
				return
			}
			isSet := true
			for _, d := range c.deepDefsRecordFields(lk.X, m.fns) {
				if _, isMake := d.(*ssa.MakeMap); !isMake {
					isSet = false
				}
			}
			if !isSet {
				return
			}
			n5++
			var found ssa.Value
			for _, r := range ssau.Referrers(lk) {
				if ex, isEx := r.(*ssa.Extract); isEx && ex.Index == 1 {
					found = ex
				}
			}
			ok5 := false
			for _, r := range ssau.Referrers(found) {
				iff, isIf := r.(*ssa.If)
				if !isIf {
					continue
				}
				yes := iff.Block().Succs[0]
				// a delete(m, key) must be executed before control leaves the found block chain
				cur := yes
				for i := 0; i < 4 && cur != nil; i++ {
					for _, in2 := range cur.Instrs {
						if ci, isC := in2.(ssa.CallInstruction); isC {
							if b, isB := ci.Common().Value.(*ssa.Builtin); isB && b.Name() == "delete" && sameRecordFieldRead(lk.X, ci.Common().Args[0], lk, in2) && ci.Common().Args[1] == lk.Index {
								ok5 = true
							}
						}
					}
					if len(cur.Succs) == 1 && !ok5 {
						cur = cur.Succs[0]
					} else {
						cur = nil
					}
				}
				// and the not-found edge returns no match
				no := iff.Block().Succs[1]
				if !endsNoMatch(no, nil, m.fns, 0) {
					ok5 = false
				}
			}
			c.R.Check(ok5, "C01-R5", fmt.Sprintf("match: scalar set member #%d", n5), c.pos(lk), "found: the member is deleted from the set; not found: no match", "a scalar message member matched by a pattern constant stays available (two pattern constants can be matched by one message element), or a missing constant does not end the match")
		})
	}
	// ---- R6
	if m.branchPrivacy("C01-R6") == 0 {
		c.R.Break("C01-R6: no bind or writer call inside a loop over alternatives found")
	}
	// ---- R7: the pattern the caller holds is the pattern that was matched
	if a, _ := c.matchAnalysis(); a != nil {
		c.reportEffects("C01-R7", a, func(e pta.Effect) bool {
			return e.Target.Kind == pta.KRoot && (e.Target.Root == "pattern" || e.Target.Root == "fact")
		})
		c.dischargeWrites("C01-R7", a)
	}
	var ws []string
	for _, f := range m.fns {
		for k := range m.writers[f] {
			ws = append(ws, fmt.Sprintf("%s(param %d, depth %d)", fname(f), k[0], k[1]))
		}
	}
	sort.Strings(ws)
	c.R.Extra["functions_that_may_write_a_bindings_argument"] = ws
	var fr []string
	for _, f := range m.fns {
		if m.fresh[f] >= 0 {
			fr = append(fr, fmt.Sprintf("%s(level %d)", fname(f), m.fresh[f]))
		}
	}
	sort.Strings(fr)
	c.R.Extra["functions_returning_fresh_storage"] = fr
}

// endsNoMatch: block b returns "no match": a nil first result, or — in a helper that reports with a flag — false
// (the constant, or the flag `falseVal` already known to be false), and every caller of the helper answers a false
// flag with "no match" in turn.
func endsNoMatch(b *ssa.BasicBlock, falseVal ssa.Value, fns []*ssa.Function, depth int) bool {
	ret, isRet := b.Instrs[len(b.Instrs)-1].(*ssa.Return)
	if !isRet || len(ret.Results) == 0 || depth > 6 {
		return false
	}
	r0 := ret.Results[0]
	if ssau.IsNilConst(r0) {
		return true
	}
	isFalse := falseVal != nil && r0 == falseVal
	if cst, isC := r0.(*ssa.Const); isC && cst.Value != nil && cst.Value.Kind() == constant.Bool && !constant.BoolVal(cst.Value) {
		isFalse = true
	}
	if !isFalse {
		return false
	}
	sites := callSitesOf(b.Parent(), fns)
	if len(sites) == 0 {
		return false
	}
	for _, s := range sites {
		cl, isCall := s.(*ssa.Call)
		if !isCall {
			return false
		}
		res := func(v ssa.Value) (int, bool) {
			if v == ssa.Value(cl) {
				return 0, true
			}
			if ex, ok := v.(*ssa.Extract); ok && ex.Tuple == ssa.Value(cl) {
				return ex.Index, true
			}
			return 0, false
		}
		// walk from the call along the branches that this return decides, up to the test of the flag
		cur := cl.Block()
		var flag ssa.Value
		if _, isTup := cl.Type().(*types.Tuple); !isTup {
			flag = cl
		} else {
			for _, r := range ssau.Referrers(cl) {
				if ex, ok := r.(*ssa.Extract); ok && ex.Index == 0 {
					flag = ex
				}
			}
		}
		if flag == nil {
			return false
		}
		done := false
		for step := 0; step < 8 && !done; step++ {
			switch last := cur.Instrs[len(cur.Instrs)-1].(type) {
			case *ssa.Jump:
				cur = cur.Succs[0]
			case *ssa.Return:
				if !endsNoMatch(cur, flag, fns, depth+1) {
					return false
				}
				done = true
			case *ssa.If:
				cond, pol := last.Cond, true
				if u, ok := cond.(*ssa.UnOp); ok && u.Op == token.NOT {
					cond, pol = u.X, false
				}
				if cond == flag {
					// the flag is false here
					next := cur.Succs[1]
					if !pol {
						next = cur.Succs[0]
					}
					// the branch taken on a false flag answers "no match" (possibly handing the flag on)
					if !endsNoMatch(next, flag, fns, depth+1) {
						return false
					}
					done = true
					continue
				}
				bo, isB := cond.(*ssa.BinOp)
				if !isB || (bo.Op != token.EQL && bo.Op != token.NEQ) {
					return false
				}
				x, y := bo.X, bo.Y
				if ssau.IsNilConst(x) {
					x, y = y, x
				}
				j, ok := res(x)
				if !ok || !ssau.IsNilConst(y) || j >= len(ret.Results) || !ssau.IsNilConst(ret.Results[j]) {
					return false
				}
				// result j is nil on this return
				isTrue := (bo.Op == token.EQL) == pol
				if isTrue {
					cur = cur.Succs[0]
				} else {
					cur = cur.Succs[1]
				}
			default:
				return false
			}
		}
		if !done {
			return false
		}
	}
	return true
}

func relTok(s string) token.Token {
	switch s {
	case "<":
		return token.LSS
	case "<=":
		return token.LEQ
	case ">":
		return token.GTR
	case ">=":
		return token.GEQ
	case "!=":
		return token.NEQ
	}
	return token.ILLEGAL
}

func c01Inequal(c *Ctx, m *matchModel) {
	f := c.fn("match", "Matcher", "inequal")
	if f == nil {
		return
	}
	isRel := func(v ssa.Value) (*ssa.BinOp, bool) {
		bo, ok := v.(*ssa.BinOp)
		if !ok {
			return nil, false
		}
		switch bo.Op {
		case token.LSS, token.LEQ, token.GTR, token.GEQ, token.NEQ:
			if b, isB := bo.X.Type().Underlying().(*types.Basic); isB && b.Info()&types.IsFloat != 0 {
				return bo, true
			}
		}
		return nil, false
	}
	// operator dispatch, wherever in the matcher it lives
	ops := map[string]bool{}
	relHeld := map[*ssa.BasicBlock]bool{}
	for _, g := range m.fns {
		ssau.Instrs(g, func(in ssa.Instruction) {
			bo, ok := in.(*ssa.BinOp)
			if !ok || bo.Op != token.EQL {
				return
			}
			s, isS := ssau.ConstString(bo.Y)
			if !isS || relTok(s) == token.ILLEGAL {
				return
			}
			okCase := false
			why := "no comparison under this case"
			for _, r := range ssau.Referrers(bo) {
				iff, isIf := r.(*ssa.If)
				if !isIf {
					continue
				}
				body := iff.Block().Succs[0]
				for _, in2 := range body.Instrs {
					rel, isR := isRel(valueOf(in2))
					if !isR {
						continue
					}
					leftMsg := m.has(rel.X, "F") && !m.has(rel.X, "B") && !m.has(rel.X, "P")
					rightBound := m.has(rel.Y, "B") && !m.has(rel.Y, "F")
					if rel.Op == relTok(s) && leftMsg && rightBound {
						okCase = true
						if bi, isIf2 := body.Instrs[len(body.Instrs)-1].(*ssa.If); isIf2 && bi.Cond == ssa.Value(rel) {
							relHeld[body.Succs[0]] = true
						}
					} else {
						why = fmt.Sprintf("case %q executes '%s' with left operand of role {%s} and right operand of role {%s}", s, rel.Op, keysOf(m.roles[rel.X]), keysOf(m.roles[rel.Y]))
					}
				}
			}
			if okCase || !ops[s] {
				ops[s] = okCase
			}
			c.R.Check(okCase, "C01-R4", fmt.Sprintf("inequality operator %q", s), c.pos(in), "message value "+s+" bound", why)
		})
	}
	for _, s := range []string{"<", "<=", ">", ">=", "!="} {
		if _, seen := ops[s]; !seen {
			c.R.Violate("C01-R4", fmt.Sprintf("inequality operator %q", s), c.P.Pos(f.Pos()), "operator is not dispatched")
		}
	}
	// relationValue: v is true only if a relation test succeeded
	var relationValue func(v ssa.Value, at *ssa.BasicBlock, depth int) bool
	relationValue = func(v ssa.Value, at *ssa.BasicBlock, depth int) bool {
		if depth > 8 {
			return false
		}
		if _, isR := isRel(v); isR {
			return true
		}
		if cst, isC := v.(*ssa.Const); isC && cst.Value != nil {
			if cst.Value.String() == "false" {
				return true
			}
			// constant true: only where a relation is known to hold
			if relHeld[at] {
				return true
			}
			for _, f2 := range flow.FactsAt(at) {
				if _, isR := isRel(f2.Cond); isR && f2.True {
					return true
				}
			}
			return false
		}
		if phi, isPhi := v.(*ssa.Phi); isPhi {
			for i, e := range phi.Edges {
				pred := phi.Block().Preds[i]
				ok := relationValue(e, pred, depth+1)
				if !ok {
					if cst, isC := e.(*ssa.Const); isC && cst.Value != nil && cst.Value.String() == "true" {
						for _, f2 := range flow.EdgeFacts(pred, phi.Block()) {
							if _, isR := isRel(f2.Cond); isR && f2.True {
								ok = true
							}
						}
					}
				}
				if !ok {
					return false
				}
			}
			return len(phi.Edges) > 0
		}
		if cl, isC := v.(*ssa.Call); isC {
			if sc := cl.Common().StaticCallee(); sc != nil && m.inSet[sc] && sc.Signature.Results().Len() == 1 {
				n := 0
				for _, b := range sc.Blocks {
					if ret, ok := b.Instrs[len(b.Instrs)-1].(*ssa.Return); ok {
						n++
						if !relationValue(ret.Results[0], b, depth+1) {
							return false
						}
					}
				}
				return n > 0
			}
		}
		return false
	}
	// a binding set is returned with using=true only when the relation held
	nret := 0
	for _, b := range f.Blocks {
		ret, ok := b.Instrs[len(b.Instrs)-1].(*ssa.Return)
		if !ok {
			continue
		}
		if len(ret.Results) != 3 || ssau.IsNilConst(ret.Results[1]) {
			// the outcome handed back in a small record: the return counts when the record's list of binding sets
			// can be non-nil
			carries := false
			if len(ret.Results) != 3 {
				for _, r := range ret.Results {
					if recordCarriesBindingList(r, m.inSet, 0) {
						carries = true
					}
				}
			}
			if !carries {
				continue
			}
		}
		nret++
		held := false
		for _, fa := range flow.FactsAt(b) {
			if fa.True && relationValue(fa.Cond, fa.If.Block(), 0) {
				if cst, isC := fa.Cond.(*ssa.Const); !isC || cst == nil {
					held = true
				}
			}
		}
		c.R.Check(held, "C01-R4", fmt.Sprintf("inequal: result #%d only when the relation holds", nret), c.pos(ret), "dominated by the relation's true outcome", "a binding set is returned for an inequality variable without the stated relation having been tested on this path")
	}
	if nret == 0 {
		c.R.Break("C01-R4: inequal never returns a binding set")
	}
	// prefix list order
	var list []string
	// opItems: the string constants stored into the elements of an array, if one of them is an operator
	opItems := func(al ssa.Value) []string {
		pt, isP := al.Type().Underlying().(*types.Pointer)
		if !isP {
			return nil
		}
		arr, isArr := pt.Elem().Underlying().(*types.Array)
		if !isArr {
			return nil
		}
		if b, isB := arr.Elem().Underlying().(*types.Basic); !isB || b.Kind() != types.String {
			return nil
		}
		items := make([]string, arr.Len())
		isOps := false
		for _, r := range ssau.Referrers(al) {
			if ia, ok := r.(*ssa.IndexAddr); ok {
				if idx, isC := ssau.ConstInt(ia.Index); isC {
					for _, r2 := range ssau.Referrers(ia) {
						if st, ok := r2.(*ssa.Store); ok {
							if s, isS := ssau.ConstString(st.Val); isS {
								items[idx] = s
								if relTok(s) != token.ILLEGAL {
									isOps = true
								}
							}
						}
					}
				}
			}
		}
		if !isOps {
			return nil
		}
		return items
	}
	listWritten := ""
	seenGlobal := map[*ssa.Global]bool{}
	for _, g := range m.fns {
		ssau.Instrs(g, func(in ssa.Instruction) {
			if al, ok := in.(*ssa.Alloc); ok {
				if items := opItems(al); items != nil {
					list = items
				}
			}
			// a list kept in a package-level variable: what the package initialiser stores there, provided nothing
			// else ever stores to the variable
			for _, opp := range in.Operands(nil) {
				gl, isG := (*opp).(*ssa.Global)
				if !isG || seenGlobal[gl] || gl.Pkg == nil {
					continue
				}
				seenGlobal[gl] = true
				var elem types.Type
				switch t := gl.Type().Underlying().(*types.Pointer).Elem().Underlying().(type) {
				case *types.Slice:
					elem = t.Elem()
				case *types.Array:
					elem = t.Elem()
				}
				if elem == nil {
					continue
				}
				if b, isB := elem.Underlying().(*types.Basic); !isB || b.Kind() != types.String {
					continue
				}
				ini := gl.Pkg.Func("init")
				var items []string
				for _, h := range append(c.P.FuncsIn(prog.PkgOf(g)), ini) {
					if h == nil {
						continue
					}
					ssau.Instrs(h, func(in2 ssa.Instruction) {
						switch y := in2.(type) {
						case *ssa.Store:
							if y.Addr != ssa.Value(gl) {
								return
							}
							if h != ini {
								listWritten = c.pos(y)
								return
							}
							if sv, isS := y.Val.(*ssa.Slice); isS && sv.Low == nil && sv.High == nil {
								if it := opItems(sv.X); it != nil {
									items = it
								}
							}
						case *ssa.IndexAddr:
							// an array variable is filled element by element
							if y.X != ssa.Value(gl) {
								return
							}
							for _, r2 := range ssau.Referrers(y) {
								st, isSt := r2.(*ssa.Store)
								if !isSt || st.Addr != ssa.Value(y) {
									continue
								}
								if h != ini {
									listWritten = c.pos(st)
									continue
								}
								arr := gl.Type().Underlying().(*types.Pointer).Elem().Underlying().(*types.Array)
								if items == nil {
									items = make([]string, arr.Len())
								}
								if idx, isC := ssau.ConstInt(y.Index); isC {
									if sv, isS := ssau.ConstString(st.Val); isS && int(idx) < len(items) {
										items[idx] = sv
									}
								}
							}
						}
					})
				}
				isOps := false
				for _, it := range items {
					if relTok(it) != token.ILLEGAL {
						isOps = true
					}
				}
				if isOps {
					list = items
				}
			}
		})
	}
	if listWritten != "" {
		list = nil
	}
	okList := len(list) > 0
	for i := range list {
		for j := i + 1; j < len(list); j++ {
			if strings.HasPrefix(list[j], list[i]) && list[i] != list[j] {
				okList = false
			}
		}
	}
	c.R.Check(okList, "C01-R4", "inequality operator prefixes are tried longest first", c.P.Pos(f.Pos()), "list: "+strings.Join(list, " "), "an operator is listed before a longer operator it is a prefix of: "+strings.Join(list, " "))
}

// valueOf returns the instruction as a value, or nil.
func valueOf(in ssa.Instruction) ssa.Value {
	v, _ := in.(ssa.Value)
	return v
}

func C02(c *Ctx) {
	c.R.Explanation = "Decides structural necessary conditions of match completeness on the SSA form of package match: (R1) a loop over alternatives (message members or candidate binding sets) is left only by exhaustion or by returning an error — no 'first match wins' exit; (R2) consumed message elements are removed from a copy made for that alternative, never from the map being ranged or shared with another alternative, and every recorded success records its own remaining-elements copy; (R3) in the map case nothing compares the size of the message map and the message map is ranged only for a property variable, so extra members cannot prevent a match; (R4) left-over scalar members are merged under fresh indexes starting at the length of the message array, so they cannot overwrite remaining structured members; (R5) as C01-R6: bindings are private to each alternative; (R6) as C03-R1 restricted to pattern and message: no instruction can write them, so a pattern keeps its solutions across uses; (R7) every lookup of a pattern-named member in a message map uses the comma-ok form, branches on the ok flag and never tests the value for nil, so a null member is present; (R8) Bindings.Copy returns a map made in the call on every path and Match hands exactly such a copy to the internal matcher, whose 'no match' sentinel is nil bindings. That the union of explored branches is the full set of embeddings is not decided."
	c.R.Rule("C02-R1", "E3", "no early success exit from a loop over alternatives", 4)
	c.R.Rule("C02-R2", "E1", "consumption on a private copy", 2)
	c.R.Rule("C02-R3", "E6", "extra members never consulted", 1)
	c.R.Rule("C02-R4", "E5", "left-over members merged under fresh indexes", 1)
	c.R.Rule("C02-R5", "E5+E3", "bindings private to each alternative", 2)
	c.shareRule("C03", "C03-R1", "C02-R9", "the matcher keeps nothing between calls (a memo answers for another pattern)")
	c.shareRule("C13", "C13-R1", "C02-R13", "the patterns a compiled spec hands to the matcher are in the plain JSON form it recognises (parsed once, canonicalised)")
	c.shareRule("C09", "C09-R6", "C02-R18", "a number bound from a state that was read back is a number the matcher knows (float64): a pattern with that variable still finds its instance")
	c.shareRule("C01", "C01-R15", "C02-R17", "a pattern constant is found in a message that holds that very string: the strings compared are the strings given")
	c.shareRule("C14", "C14-R11", "C02-R16", "the single-loop host matches a machine's patterns against the message it was given, not an edited copy")
	c.shareRule("C09", "C09-R2", "C02-R12", "what a script returns as bindings is brought into the plain JSON form the matcher recognises (an int64 left in the bindings is matched by no number)")
	c.shareRule("C09", "C09-R1", "C02-R10", "values the engine itself binds are plain JSON values, which is all the matcher recognises")
	c.R.Rule("C02-R8", "E3", "matching starts from a non-nil copy of the given bindings (nil is the internal no-match sentinel)", 2)
	c.R.Rule("C02-R7", "E5", "a message member's presence is decided by the lookup's ok flag (null is a value)", 1)
	c.R.Rule("C02-R6", "E1", "matching leaves the pattern and the message intact (a modified pattern loses solutions on its next use)", 8)
	m := c.newMatchModel()
	c.R.Rule("C02-R11", "E5+E3", "whether matching fails with an error depends on the pattern alone", 4)
	c.R.Rule("C02-R14", "E5", "every matching step inside the matcher continues from the candidate bindings", 1)
	c.R.Rule("C02-R15", "E7", "values and binding sets are never identified by their printed or encoded form", 1)
	c02CandidateBindings(c, "C02-R14", "C02-R15", m)
	c02ErrorOrigins(c, "C02-R11", m)
	for _, f := range m.fns {
		c.R.Fn(fname(f))
	}
	// ---- R1
	for _, f := range m.fns {
		loops := flow.Loops(f)
		for li, l := range loops {
			d, what := m.disjunctive(l)
			if !d {
				continue
			}
			key := fmt.Sprintf("%s: loop #%d over %s", fname(f), li+1, what)
			bad := ""
			for _, ex := range l.Exits() {
				from, to := ex[0], ex[1]
				if from == l.Header {
					continue // exhaustion
				}
				// allowed: the target returns a non-nil error under err != nil
				okExit := false
				if ret, isRet := to.Instrs[len(to.Instrs)-1].(*ssa.Return); isRet {
					last := ret.Results[len(ret.Results)-1]
					if !ssau.IsNilConst(last) && types.Identical(last.Type(), types.Universe.Lookup("error").Type()) {
						okExit = true
					}
				}
				if !okExit {
					bad = "the loop can be left at " + c.pos(from.Instrs[len(from.Instrs)-1]) + " without exhausting the alternatives and without an error"
				}
			}
			c.R.Check(bad == "", "C02-R1", key, c.pos(l.Header.Instrs[0]), "left only by exhaustion or an error return", bad)
		}
	}
	// ---- R2
	n2 := 0
	for _, f := range m.fns {
		loops := flow.Loops(f)
		ssau.Instrs(f, func(in ssa.Instruction) {
			ci, ok := in.(ssa.CallInstruction)
			if !ok {
				return
			}
			b, isB := ci.Common().Value.(*ssa.Builtin)
			if !isB || b.Name() != "delete" {
				return
			}
			mp := ci.Common().Args[0]
			mt, isMap := mp.Type().Underlying().(*types.Map)
			if !isMap {
				return
			}
			if bk, isBasic := mt.Key().Underlying().(*types.Basic); !isBasic || bk.Info()&types.IsInteger == 0 {
				return
			}
			n2++
			key := fmt.Sprintf("%s: consume element #%d", fname(f), n2)
			L := flow.InnermostLoop(loops, in.Block())
			okFresh := false
			if cl, isCall := mp.(*ssa.Call); isCall && L != nil && L.Blocks[cl.Block()] {
				if sc := cl.Common().StaticCallee(); sc != nil && m.fresh[sc] >= 0 {
					okFresh = true
					// the copy is of the map being ranged, and the deleted key is the ranged key
					if op := loopOperand(L); op != nil && cl.Common().Args[0] != op {
						okFresh = false
					}
				}
			}
			// the copy spelled out in place: a map made in this iteration and filled from the ranged map
			if mk, isMk := mp.(*ssa.MakeMap); isMk && L != nil && L.Blocks[mk.Block()] {
				op := loopOperand(L)
				for _, l2 := range loops {
					if l2 == L || !L.Blocks[l2.Header] {
						continue
					}
					if op2 := loopOperand(l2); op2 == nil || op == nil || op2 != op {
						continue
					}
					for b2 := range l2.Blocks {
						for _, i2 := range b2.Instrs {
							if mu, isMU := i2.(*ssa.MapUpdate); isMU && mu.Map == ssa.Value(mk) {
								okFresh = true
							}
						}
					}
				}
			}
			// the consumption sits in a helper of its own (outside any loop there): the helper copies the map it is
			// given on every call, so the copy is made in the iteration that calls it — the map handed in must be
			// the one that iteration ranges over
			if cl, isCall := mp.(*ssa.Call); isCall && L == nil && !okFresh {
				if sc := cl.Common().StaticCallee(); sc != nil && m.fresh[sc] >= 0 && len(cl.Common().Args) > 0 {
					if pa, isP := cl.Common().Args[0].(*ssa.Parameter); isP && pa.Parent() == f {
						okFresh = m.rangedAtEverySite(f, paramIdx(pa), 0)
					}
				}
			}
			c.R.Check(okFresh, "C02-R2", key, c.pos(in), "deletes from a copy of the ranged map made in this iteration", "a consumed element is removed from a map shared with other alternatives (or from the map being ranged)")
			// pairing: the copy is appended to the list of remaining-element maps in the same block as the success is recorded
			appended := m.recordedCopy(mp, 0)
			c.R.Check(appended, "C02-R2", key+" recorded", c.pos(in), "the reduced copy is what is recorded for this alternative", "the reduced copy is not recorded with the success")
		})
		// the consumption folded into the copy: no delete at all, the map made in this iteration is filled from the
		// ranged map under `key != the key of this iteration`. The copy is private by construction; what remains
		// to be shown is that it leaves out exactly this iteration's element and that it is recorded.
		ssau.Instrs(f, func(in ssa.Instruction) {
			mk, ok := in.(*ssa.MakeMap)
			if !ok {
				return
			}
			mt, isMap := mk.Type().Underlying().(*types.Map)
			if !isMap {
				return
			}
			if bk, isBasic := mt.Key().Underlying().(*types.Basic); !isBasic || bk.Info()&types.IsInteger == 0 {
				return
			}
			L := flow.InnermostLoop(loops, mk.Block())
			if L == nil {
				return
			}
			op, kL := loopOperand(L), rangeKey(L)
			if op == nil || kL == nil {
				return
			}
			if _, opMap := op.Type().Underlying().(*types.Map); !opMap {
				return
			}
			filtered, unfiltered := 0, 0
			var at ssa.Instruction
			for _, r := range ssau.Referrers(mk) {
				mu, isMU := r.(*ssa.MapUpdate)
				if !isMU || mu.Map != ssa.Value(mk) {
					continue
				}
				l2 := flow.InnermostLoop(loops, mu.Block())
				if l2 == nil || l2 == L || !L.Blocks[l2.Header] || loopOperand(l2) != op || rangeKey(l2) == nil || mu.Key != rangeKey(l2) {
					unfiltered++
					continue
				}
				k2 := rangeKey(l2)
				skip := false
				for _, fa := range flow.FactsAt(mu.Block()) {
					bo, isBO := fa.Cond.(*ssa.BinOp)
					if !isBO || !((bo.X == k2 && bo.Y == kL) || (bo.X == kL && bo.Y == k2)) {
						continue
					}
					if (bo.Op == token.NEQ && fa.True) || (bo.Op == token.EQL && !fa.True) {
						skip = true
					}
				}
				if skip {
					filtered++
					at = mu
				} else {
					unfiltered++
				}
			}
			if filtered == 0 || unfiltered > 0 {
				return
			}
			// a delete on the same map was counted above
			for _, r := range ssau.Referrers(mk) {
				if ci, isCI := r.(ssa.CallInstruction); isCI {
					if b, isB := ci.Common().Value.(*ssa.Builtin); isB && b.Name() == "delete" {
						return
					}
				}
			}
			n2++
			key := fmt.Sprintf("%s: consume element #%d", fname(f), n2)
			c.R.Discharge("C02-R2", key, c.pos(at), "the copy of the ranged map made in this iteration leaves out the element of this iteration")
			c.R.Check(m.recordedCopy(mk, 0), "C02-R2", key+" recorded", c.pos(at), "the reduced copy is what is recorded for this alternative", "the reduced copy is not recorded with the success")
		})
	}
	// ---- R3
	if mapcat := c.fn("match", "Matcher", "mapcatMatch"); mapcat != nil {
		bad := ""
		ssau.Instrs(mapcat, func(in ssa.Instruction) {
			if cl, ok := in.(*ssa.Call); ok {
				if b, isB := cl.Common().Value.(*ssa.Builtin); isB && b.Name() == "len" {
					a := cl.Common().Args[0]
					if m.has(a, "F") && !m.has(a, "P") {
						if _, isMap := a.Type().Underlying().(*types.Map); isMap {
							bad = "the number of members of the message map is consulted at " + c.pos(in)
						}
					}
				}
			}
			if rg, ok := in.(*ssa.Range); ok && m.has(rg.X, "F") && !m.has(rg.X, "P") {
				// must be under IsVariable(key) (property variable)
				under := false
				for _, fa := range flow.FactsAt(rg.Block()) {
					if cl, isC := fa.Cond.(*ssa.Call); isC && fa.True && cl.Common().StaticCallee() != nil && cl.Common().StaticCallee().Name() == "IsVariable" {
						under = true
					}
					// `!IsConstant(key)`, where IsConstant is the negation of IsVariable
					if cl, isC := fa.Cond.(*ssa.Call); isC && !fa.True && negationOf(cl.Common().StaticCallee(), "IsVariable") {
						under = true
					}
				}
				if !under {
					bad = "the message map is ranged outside the property-variable case at " + c.pos(in)
				}
			}
		})
		c.R.Check(bad == "", "C02-R3", "mapcatMatch: message members not named by the pattern are ignored", c.P.Pos(mapcat.Pos()), "no len() of the message map; ranged only for a property variable", bad)
	}
	// ---- R4
	n4 := 0
	for _, f := range m.fns {
		ssau.Instrs(f, func(in ssa.Instruction) {
			mu, ok := in.(*ssa.MapUpdate)
			if !ok {
				return
			}
			mt, isMap := mu.Map.Type().Underlying().(*types.Map)
			if !isMap {
				return
			}
			if bk, isBasic := mt.Key().Underlying().(*types.Basic); !isBasic || bk.Info()&types.IsInteger == 0 {
				return
			}
			phi, isPhi := mu.Key.(*ssa.Phi)
			if !isPhi {
				return // keyed by the range index of the message array: an original position
			}
			// an index loop over the message array that files each element under its own position
			val := mu.Value
			if mi, isMI := val.(*ssa.MakeInterface); isMI {
				val = mi.X
			}
			if ld, isLd := val.(*ssa.UnOp); isLd && ld.Op == token.MUL {
				if ia, isIA := ld.X.(*ssa.IndexAddr); isIA && ia.Index == ssa.Value(phi) && m.has(ia.X, "F") {
					return
				}
			}
			n4++
			okInit := false
			var why string
			for _, e := range phi.Edges {
				if bo, isB := e.(*ssa.BinOp); isB && bo.Op == token.ADD && bo.X == ssa.Value(phi) {
					continue // i++
				}
				// the starting value, possibly handed in by the caller of a helper
				for _, d := range c.deepDefsRecordFields(e, m.fns) {
					if bo, isB := d.(*ssa.BinOp); isB && bo.Op == token.ADD {
						if p2, isP := bo.X.(*ssa.Phi); isP && p2 == phi {
							continue
						}
					}
					if cl, isC := d.(*ssa.Call); isC {
						if b, isB := cl.Common().Value.(*ssa.Builtin); isB && b.Name() == "len" {
							a := cl.Common().Args[0]
							if _, isSl := a.Type().Underlying().(*types.Slice); isSl && m.has(a, "F") {
								okInit = true
								continue
							}
							why = "fresh indexes start at len(" + a.Name() + "), which is not the message array"
							continue
						}
					}
					why = "fresh indexes start at " + d.String()
				}
			}
			c.R.Check(okInit && why == "", "C02-R4", fmt.Sprintf("%s: merged member index #%d", fname(f), n4), c.pos(mu), "starts at the length of the message array, advanced by one", "left-over members can overwrite remaining structured members: "+why)
		})
	}
	if n4 == 0 {
		c.R.Break("C02-R4: the merge of left-over members was not found")
	}
	// ---- R7: presence of a member is decided by the lookup's ok flag
	n7 := 0
	for _, f := range m.fns {
		ssau.Instrs(f, func(in ssa.Instruction) {
			lk, ok := in.(*ssa.Lookup)
			if !ok || !m.has(lk.X, "F") || m.has(lk.X, "P") || !m.has(lk.Index, "P") {
				return
			}
			if _, isMap := lk.X.Type().Underlying().(*types.Map); !isMap {
				return
			}
			n7++
			key := fmt.Sprintf("%s: message member lookup #%d", fname(f), n7)
			if !lk.CommaOk {
				c.R.Violate("C02-R7", key, c.pos(lk), "the message member named by the pattern is read without the presence flag: a member whose value is null cannot be told from an absent member, so a pattern that requires (or binds) null finds no match")
				return
			}
			var val, found ssa.Value
			for _, r := range ssau.Referrers(lk) {
				if ex, isEx := r.(*ssa.Extract); isEx {
					if ex.Index == 0 {
						val = ex
					} else {
						found = ex
					}
				}
			}
			// the flag and the value may be carried to where they are used in a local record, through a helper's
			// result or a parameter: every copy counts
			okFlag := false
			if found != nil {
				for _, cp := range copiesOf(found, m.fns, true) {
					for _, r := range ssau.Referrers(cp) {
						if _, isIf := r.(*ssa.If); isIf {
							okFlag = true
						}
					}
				}
			}
			nilTest := ""
			if val != nil {
				// (not into the functions it is handed to: the matcher's own comparison of a message value with a null
				// of the pattern is no presence test)
				for _, cp := range copiesOf(val, m.fns, false) {
					for _, r := range ssau.Referrers(cp) {
						if bo, isB := r.(*ssa.BinOp); isB && (bo.Op == token.EQL || bo.Op == token.NEQ) && (ssau.IsNilConst(bo.X) || ssau.IsNilConst(bo.Y)) {
							nilTest = c.pos(bo)
						}
					}
				}
			}
			c.R.Check(okFlag && nilTest == "", "C02-R7", key, c.pos(lk), "presence is decided by the lookup's ok flag; the value is not tested for nil", "presence of the member is not decided by the ok flag alone (ok flag branches="+fmt.Sprint(okFlag)+", nil test of the value at "+nilTest+"): a null member is treated as absent")
		})
	}
	// ---- R8: the exported entry points start the internal matcher from a non-nil map (nil is its "no match" sentinel)
	c.freshMapResult("C02-R8", "Bindings.Copy: never nil", c.P.Func("match", "Bindings", "Copy"), "Bindings.Copy can return nil: Match(pattern, message, nil) then hands the internal matcher its own 'no match' sentinel and every match with absent initial bindings is lost")
	if mm := c.P.Func("match", "Matcher", "Match"); mm != nil {
		inner := c.P.Func("match", "Matcher", "match")
		cp := c.P.Func("match", "Bindings", "Copy")
		n8 := 0
		ssau.Instrs(mm, func(in ssa.Instruction) {
			cl, ok := in.(*ssa.Call)
			if !ok || inner == nil || cl.Common().StaticCallee() != inner {
				return
			}
			n8++
			okArg := false
			for _, a := range cl.Common().Args {
				if !isBindingsT(a.Type()) {
					continue
				}
				okArg = true
				for _, d := range phiDefs(a, nil, map[ssa.Value]bool{}) {
					dc, isC := d.(*ssa.Call)
					if _, isMk := d.(*ssa.MakeMap); isMk {
						continue
					}
					if !isC || dc.Common().StaticCallee() == nil || (dc.Common().StaticCallee() != cp && dc.Common().StaticCallee().Name() != "NewBindings") {
						okArg = false
					}
				}
			}
			c.R.Check(okArg, "C02-R8", fmt.Sprintf("Match: internal matcher starts from a fresh non-nil map #%d", n8), c.pos(cl), "bindings.Copy() (or a new map)", "the internal matcher can be started on the caller's own (possibly nil) bindings")
		})
	}
	// ---- R6
	if a, _ := c.matchAnalysis(); a != nil {
		c.reportEffects("C02-R6", a, func(e pta.Effect) bool {
			return e.Target.Kind == pta.KRoot && (e.Target.Root == "pattern" || e.Target.Root == "fact")
		})
		c.dischargeWrites("C02-R6", a)
	}
	// ---- R5
	if m.branchPrivacy("C02-R5") == 0 {
		c.R.Break("C02-R5: no bind or writer call inside a loop over alternatives found")
	}
}

// siteArgs is a call of a function with the arguments lined up with the function's parameters (a call through a
// bound method value `x.m` has the receiver among the closure's bindings).
type siteArgs struct {
	site ssa.CallInstruction
	args []ssa.Value
}

// sitesWithArgs lists the static calls of fn inside fns and the calls of fn through a bound method value.
func sitesWithArgs(fn *ssa.Function, fns []*ssa.Function) []siteArgs {
	var out []siteArgs
	for _, g := range fns {
		ssau.Instrs(g, func(in ssa.Instruction) {
			ci, ok := in.(ssa.CallInstruction)
			if !ok {
				return
			}
			if ci.Common().StaticCallee() == fn {
				out = append(out, siteArgs{ci, ci.Common().Args})
				return
			}
			mc, isMC := ci.Common().Value.(*ssa.MakeClosure)
			if !isMC || len(mc.Bindings) != 1 {
				return
			}
			w, isF := mc.Fn.(*ssa.Function)
			if !isF || w.Synthetic == "" || w.Name() != fn.Name()+"$bound" {
				return
			}
			calls := false
			ssau.Instrs(w, func(in2 ssa.Instruction) {
				if c2, ok := in2.(ssa.CallInstruction); ok && c2.Common().StaticCallee() == fn {
					calls = true
				}
			})
			if calls {
				out = append(out, siteArgs{ci, append([]ssa.Value{mc.Bindings[0]}, ci.Common().Args...)})
			}
		})
	}
	return out
}

// rangedAtEverySite: every call of f sits in a loop whose operand is the argument handed to parameter pi (or, when
// the call is itself outside any loop, hands on a parameter of its own function for which the same holds).
func (m *matchModel) rangedAtEverySite(f *ssa.Function, pi int, depth int) bool {
	sites := sitesWithArgs(f, m.fns)
	if len(sites) == 0 || depth > 3 || pi < 0 {
		return false
	}
	for _, s := range sites {
		if pi >= len(s.args) {
			return false
		}
		g := s.site.Parent()
		a := s.args[pi]
		if L := flow.InnermostLoop(flow.Loops(g), s.site.Block()); L != nil {
			if op := loopOperand(L); op == nil || op != a {
				return false
			}
			continue
		}
		pa, isP := a.(*ssa.Parameter)
		if !isP || pa.Parent() != g || !m.rangedAtEverySite(g, paramIdx(pa), depth+1) {
			return false
		}
	}
	return true
}

// recordedCopy: the map v ends up in a list — it is appended to one here, or handed to a helper of the matcher
// that appends its parameter, or returned to callers that all do one of these with the result.
func (m *matchModel) recordedCopy(v ssa.Value, depth int) bool {
	if depth > 4 {
		return false
	}
	for _, r := range ssau.Referrers(v) {
		switch x := r.(type) {
		case *ssa.Store:
			if x.Val != v {
				continue
			}
			if ia, isIA := x.Addr.(*ssa.IndexAddr); isIA {
				if _, isAl := ia.X.(*ssa.Alloc); isAl {
					return true
				}
			}
		case *ssa.Return:
			f := x.Parent()
			ri := -1
			for i, res := range x.Results {
				if res == v {
					ri = i
				}
			}
			sites := sitesWithArgs(f, m.fns)
			if ri < 0 || len(sites) == 0 {
				continue
			}
			all := true
			for _, s := range sites {
				cl, isCall := s.site.(*ssa.Call)
				if !isCall {
					all = false
					break
				}
				var res ssa.Value = cl
				if _, isTup := cl.Type().(*types.Tuple); isTup {
					res = nil
					for _, r2 := range ssau.Referrers(cl) {
						if ex, ok := r2.(*ssa.Extract); ok && ex.Index == ri {
							res = ex
						}
					}
				}
				if res == nil || !m.recordedCopy(res, depth+1) {
					all = false
					break
				}
			}
			if all {
				return true
			}
		case ssa.CallInstruction:
			var callee *ssa.Function
			var args []ssa.Value
			if sc := x.Common().StaticCallee(); sc != nil && m.inSet[sc] {
				callee, args = sc, x.Common().Args
			}
			if callee == nil {
				continue
			}
			for i, a := range args {
				if a == v && i < len(callee.Params) && m.recordedCopy(callee.Params[i], depth+1) {
					return true
				}
			}
		}
	}
	return false
}

// negationOf: f does nothing but return the negation of a call of the function named name on its own operands.
func negationOf(f *ssa.Function, name string) bool {
	if f == nil || len(f.Blocks) != 1 {
		return false
	}
	ret, ok := f.Blocks[0].Instrs[len(f.Blocks[0].Instrs)-1].(*ssa.Return)
	if !ok || len(ret.Results) != 1 {
		return false
	}
	not, ok := ret.Results[0].(*ssa.UnOp)
	if !ok || not.Op != token.NOT {
		return false
	}
	cl, ok := not.X.(*ssa.Call)
	if !ok || cl.Common().StaticCallee() == nil || cl.Common().StaticCallee().Name() != name {
		return false
	}
	for _, a := range cl.Common().Args {
		if _, isP := a.(*ssa.Parameter); !isP {
			return false
		}
	}
	return true
}

// c01Kinds: C01-R8.  Where the pattern is known to be a map, an array, a number or a boolean, every exit that
// answers "matched" (a non-nil list without an error) lies under a successful test that the message part is of
// that same kind.  (A string pattern is a constant, compared as a string, or a variable, which binds anything.)
func c01Kinds(c *Ctx, m *matchModel) {
	kindOf := func(t types.Type) string {
		switch u := t.Underlying().(type) {
		case *types.Map:
			return "map"
		case *types.Slice:
			return "array"
		case *types.Basic:
			switch u.Kind() {
			case types.Float64:
				return "number"
			case types.Bool:
				return "boolean"
			}
		}
		return ""
	}
	n := 0
	for _, f := range m.fns {
		seenKind := map[string]bool{}
		ssau.Instrs(f, func(in ssa.Instruction) {
			ta, ok := in.(*ssa.TypeAssert)
			if !ok || !ta.CommaOk || !m.has(ta.X, "P") {
				return
			}
			k := kindOf(ta.AssertedType)
			if k == "" || seenKind[k] {
				return
			}
			var okv ssa.Value
			for _, r := range ssau.Referrers(ta) {
				if ex, isEx := r.(*ssa.Extract); isEx && ex.Index == 1 {
					okv = ex
				}
			}
			if okv == nil {
				return
			}
			seenKind[k] = true
			n++
			bad := ""
			for _, b := range f.Blocks {
				ret, isRet := b.Instrs[len(b.Instrs)-1].(*ssa.Return)
				if !isRet || len(ret.Results) != 2 || ssau.IsNilConst(ret.Results[0]) || !ssau.IsNilConst(ret.Results[1]) {
					continue
				}
				inCase, same := false, false
				for _, ft := range flow.FactsAt(b) {
					if ft.Cond == okv && ft.True {
						inCase = true
					}
					if ex, isEx := ft.Cond.(*ssa.Extract); isEx && ex.Index == 1 && ft.True {
						if t2, isTA := ex.Tuple.(*ssa.TypeAssert); isTA && t2 != ta && kindOf(t2.AssertedType) == k && m.has(t2.X, "F") && !m.has(t2.X, "P") {
							same = true
						}
					}
				}
				if inCase && !same {
					bad = c.pos(ret)
				}
			}
			c.R.Check(bad == "", "C01-R8", fmt.Sprintf("%s: a %s pattern is matched only by a %s", fname(blameCaller(f, m.fns)), k, k), c.pos(ta), "every matching exit of the case lies under a test that the message part is a "+k, "with a "+k+" pattern the matcher can answer 'matched' at "+bad+" without having tested that the message part is a "+k+": the instantiated pattern is then not contained in the message")
		})
	}
	if n == 0 {
		c.R.Break("C01-R8: no type test of the pattern found in the matcher")
	}
}

// c01Predicates: C01-R9.  IsVariable answers true only for a string that starts with '?', IsOptionalVariable only
// for one that starts with "??" (the matcher skips a missing key on its word).
func c01Predicates(c *Ctx) {
	for _, pr := range []struct {
		name, prefix string
	}{{"IsVariable", "?"}, {"IsOptionalVariable", "??"}} {
		h := c.fn("match", "Matcher", pr.name)
		if h == nil {
			continue
		}
		c.R.Fn(fname(h))
		hasPrefix := func(b *ssa.BasicBlock, extra []flow.Fact) bool {
			chars := map[int64]bool{}
			for _, ft := range append(flow.FactsAt(b), flow.Expand(extra)...) {
				if !ft.True {
					continue
				}
				if cl, isC := ft.Cond.(*ssa.Call); isC && ssau.CalleeName(cl) == "strings.HasPrefix" && len(cl.Common().Args) == 2 {
					if sv, isS := ssau.ConstString(cl.Common().Args[1]); isS && strings.HasPrefix(sv, pr.prefix) {
						return true
					}
				}
				if bo, isB := ft.Cond.(*ssa.BinOp); isB && bo.Op == token.EQL {
					// s[i] == '?'
					if ix, isIx := bo.X.(*ssa.Index); isIx {
						if i, isCI := ssau.ConstInt(ix.Index); isCI {
							if ch, isCh := ssau.ConstInt(bo.Y); isCh && ch == '?' {
								chars[i] = true
							}
						}
					}
					// s[:k] == "??" / s == "?"
					if sv, isS := ssau.ConstString(bo.Y); isS && strings.HasPrefix(sv, pr.prefix) {
						return true
					}
				}
			}
			for i := 0; i < len(pr.prefix); i++ {
				if !chars[int64(i)] {
					return false
				}
			}
			return true
		}
		ok := trueImplies(h, 0, hasPrefix)
		c.R.Check(ok, "C01-R9", pr.name+": true only for a string that starts with "+fmt.Sprintf("%q", pr.prefix), c.P.Pos(h.Pos()), "every way to answer true lies under strings.HasPrefix(s, "+fmt.Sprintf("%q", pr.prefix)+") (or the same test spelled out)", pr.name+" can answer true for a string that does not start with "+fmt.Sprintf("%q", pr.prefix)+": the matcher then treats a constant as a variable (binds it, or skips it when its key is missing)")
	}
}

// rangeKey: the key (index) value of a range loop over a map, string or channel: the first component of the
// header's next instruction.
func rangeKey(l *flow.Loop) ssa.Value {
	for _, in := range l.Header.Instrs {
		nx, ok := in.(*ssa.Next)
		if !ok {
			continue
		}
		for _, r := range ssau.Referrers(nx) {
			if ex, isEx := r.(*ssa.Extract); isEx && ex.Index == 1 {
				return ex
			}
		}
	}
	return nil
}

// isBindingList: a slice type that mentions Bindings ([]Bindings, [][]Bindings).
func isBindingList(t types.Type) bool {
	_, isSl := t.Underlying().(*types.Slice)
	return isSl && strings.Contains(t.String(), "Bindings")
}

// recordCarriesBindingList: v is a struct value (or a pointer to one) with a field that is a list of binding sets,
// and that field may be non-nil in v. The record is resolved through the local it was built in (field stores and
// whole-value stores), phis and the results of helpers in the set; anything that cannot be resolved counts as
// carrying a list.
func recordCarriesBindingList(v ssa.Value, inSet map[*ssa.Function]bool, depth int) bool {
	t := v.Type()
	if pt, isP := t.Underlying().(*types.Pointer); isP {
		t = pt.Elem()
	}
	st, isSt := t.Underlying().(*types.Struct)
	if !isSt {
		return false
	}
	fields := map[int]bool{}
	for i := 0; i < st.NumFields(); i++ {
		if isBindingList(st.Field(i).Type()) {
			fields[i] = true
		}
	}
	if len(fields) == 0 {
		return false
	}
	if depth > 6 {
		return true
	}
	var fromAlloc func(al *ssa.Alloc) bool
	fromAlloc = func(al *ssa.Alloc) bool {
		for _, r := range ssau.Referrers(al) {
			switch x := r.(type) {
			case *ssa.FieldAddr:
				if !fields[x.Field] {
					continue
				}
				for _, r2 := range ssau.Referrers(x) {
					st, isStore := r2.(*ssa.Store)
					if isStore && st.Addr == ssa.Value(x) {
						if !ssau.IsNilConst(st.Val) {
							return true
						}
						continue
					}
					if ld, isLd := r2.(*ssa.UnOp); isLd && ld.Op == token.MUL {
						continue
					}
					return true // the field's address escapes
				}
			case *ssa.Store:
				if x.Addr == ssa.Value(al) {
					if recordCarriesBindingList(x.Val, inSet, depth+1) {
						return true
					}
					continue
				}
				return true
			case *ssa.UnOp, *ssa.DebugRef:
			default:
				return true
			}
		}
		return false
	}
	switch x := v.(type) {
	case *ssa.Const:
		return false // the zero record
	case *ssa.Alloc:
		return fromAlloc(x)
	case *ssa.UnOp:
		if x.Op == token.MUL {
			if al, isAl := x.X.(*ssa.Alloc); isAl {
				return fromAlloc(al)
			}
		}
	case *ssa.Phi:
		for _, e := range x.Edges {
			if recordCarriesBindingList(e, inSet, depth+1) {
				return true
			}
		}
		return false
	case *ssa.Call:
		if sc := x.Common().StaticCallee(); sc != nil && inSet[sc] && len(sc.Blocks) > 0 && sc.Signature.Results().Len() == 1 {
			for _, b := range sc.Blocks {
				if ret, ok := b.Instrs[len(b.Instrs)-1].(*ssa.Return); ok {
					if recordCarriesBindingList(ret.Results[0], inSet, depth+1) {
						return true
					}
				}
			}
			return false
		}
	}
	return true
}

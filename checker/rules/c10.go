package rules

import (
	"fmt"
	"go/types"
	"sort"
	"strings"

	"golang.org/x/tools/go/ssa"

	"sheensverif/internal/prog"
	"sheensverif/internal/pta"
	"sheensverif/internal/ssau"
)

func init() { Registry["C10"] = C10 }

const gojaRuntime = "github.com/dop251/goja"

// ecmaAnalysis runs E1 from (*ecmascript.Interpreter).Exec.
func (c *Ctx) ecmaAnalysis() (*pta.Analysis, *ssa.Function) {
	exec := c.fn("interpreters/ecmascript", "Interpreter", "Exec")
	if exec == nil {
		return nil, nil
	}
	roots := map[int]pta.RootSpec{}
	for i, p := range exec.Params {
		switch {
		case i == 0:
			roots[i] = pta.RootSpec{Name: "interp", Levels: 3}
		case ssau.TypeIs(p.Type(), prog.Abs("match"), "Bindings"):
			roots[i] = pta.RootSpec{Name: "bs", Levels: 4}
		case ssau.TypeIs(p.Type(), prog.Abs("core"), "StepProps"):
			roots[i] = pta.RootSpec{Name: "props", Levels: 3}
		case i >= 4:
			roots[i] = pta.RootSpec{Name: fmt.Sprintf("code%d", i), Levels: 2}
		}
	}
	if _, ok := a2has(roots, "bs"); !ok {
		c.R.Break("anchor changed: Interpreter.Exec has no match.Bindings parameter")
		return nil, nil
	}
	if _, ok := a2has(roots, "props"); !ok {
		c.R.Break("anchor changed: Interpreter.Exec has no core.StepProps parameter")
		return nil, nil
	}
	a := pta.New(pta.Config{
		Prog:       c.P,
		EnginePkgs: map[string]bool{"interpreters/ecmascript": true, "core": true, "match": true},
		Entries:    []*ssa.Function{exec},
		Roots:      map[*ssa.Function]map[int]pta.RootSpec{exec: roots},
		External:   stdExternal,
		// the JSON round trip: one abstract result per call site, so that the copy handed to the script and the
		// copy put on the emitted list are different objects (canonFresh checks that it is a round trip)
		Fresh: c.canonFresh(),
	})
	a.Run()
	c.noteAnalysis(a)
	return a, exec
}

// jsonRoundTrip is the shape test of the JSON round trip, for one json.Unmarshal call um: the variable(s) it fills
// are local variables (dsts; the address may have travelled through parameters inside scope) and the bytes it decodes
// are, whatever the path, the first result of a json.Marshal call (marshals).  ok is false when either is not so.
func jsonRoundTrip(um *ssa.Call, scope []*ssa.Function) (dsts []*ssa.Alloc, marshals []*ssa.Call, ok bool) {
	if ssau.CalleeName(um) != "encoding/json.Unmarshal" || len(um.Common().Args) != 2 {
		return nil, nil, false
	}
	for _, t := range deepDefs(um.Common().Args[1], scope) {
		a, isAl := t.(*ssa.Alloc)
		if !isAl {
			return nil, nil, false
		}
		dsts = append(dsts, a)
	}
	srcs := deepDefs(um.Common().Args[0], scope)
	for _, s := range srcs {
		ex, isEx := s.(*ssa.Extract)
		if !isEx || ex.Index != 0 {
			return nil, nil, false
		}
		m, isCall := ex.Tuple.(*ssa.Call)
		if !isCall || ssau.CalleeName(m) != "encoding/json.Marshal" {
			return nil, nil, false
		}
		marshals = append(marshals, m)
	}
	if len(srcs) == 0 || len(dsts) == 0 {
		return nil, nil, false
	}
	return dsts, marshals, true
}

// canonFresh: core.Canonicalize qualifies as a per-call-site fresh-result
// function if its non-nil result is only ever the variable that json.Unmarshal
// filled from bytes produced by json.Marshal in the same call.  The round trip
// may sit in a helper of Canonicalize that is handed the address of the
// variable (and hands the bytes on through results or parameters).
func (c *Ctx) canonFresh() map[*ssa.Function]bool {
	canon := c.P.Func("core", "", "Canonicalize")
	if canon == nil {
		return nil
	}
	scope := pkgClosure(canon)
	var al *ssa.Alloc
	unmarshals, fromMarshal := 0, true
	for _, f := range scope {
		ssau.Instrs(f, func(in ssa.Instruction) {
			cl, ok := in.(*ssa.Call)
			if !ok || ssau.CalleeName(cl) != "encoding/json.Unmarshal" {
				return
			}
			unmarshals++
			// the variable that is filled: a local of Canonicalize (its address may have come in as a parameter);
			// the bytes that are decoded: what json.Marshal returned in this call
			dsts, _, ok := jsonRoundTrip(cl, scope)
			if !ok {
				fromMarshal = false
				return
			}
			for _, a := range dsts {
				if a.Parent() != canon || (al != nil && al != a) {
					fromMarshal = false
					return
				}
				al = a
			}
		})
	}
	if al == nil || unmarshals == 0 || !fromMarshal {
		return nil
	}
	for _, b := range canon.Blocks {
		ret, ok := b.Instrs[len(b.Instrs)-1].(*ssa.Return)
		if !ok {
			continue
		}
		for _, d := range phiDefs(ret.Results[0], nil, map[ssa.Value]bool{}) {
			if ssau.IsNilConst(d) {
				continue
			}
			ld, isLd := d.(*ssa.UnOp)
			if !isLd || ld.X != ssa.Value(al) {
				return nil
			}
		}
	}
	return map[*ssa.Function]bool{canon: true}
}

func a2has(m map[int]pta.RootSpec, name string) (int, bool) {
	for i, r := range m {
		if r.Name == name {
			return i, true
		}
	}
	return -1, false
}

// runtimeValues lists, per function in the closure, the values of type *goja.Runtime used as call receivers.
func runtimeUses(a *pta.Analysis) []struct {
	Site ssa.CallInstruction
	Recv ssa.Value
} {
	var out []struct {
		Site ssa.CallInstruction
		Recv ssa.Value
	}
	var fns []*ssa.Function
	for f := range a.Reached {
		fns = append(fns, f)
	}
	sort.Slice(fns, func(i, j int) bool { return fname(fns[i]) < fname(fns[j]) })
	for _, f := range fns {
		ssau.Instrs(f, func(in ssa.Instruction) {
			ci, ok := in.(ssa.CallInstruction)
			if !ok {
				return
			}
			name := ssau.CalleeName(ci)
			if !strings.HasPrefix(name, "(*"+gojaRuntime+".Runtime).") {
				return
			}
			args := ci.Common().Args
			if len(args) == 0 {
				return
			}
			out = append(out, struct {
				Site ssa.CallInstruction
				Recv ssa.Value
			}{ci, args[0]})
		})
	}
	return out
}

// containsRuntime reports whether type t mentions *goja.Runtime or a pool/cache that could hold one.
func containsRuntime(t types.Type, depth int, seen map[types.Type]bool) (bool, string) {
	if depth > 6 || seen[t] {
		return false, ""
	}
	seen[t] = true
	if ssau.TypeIs(t, gojaRuntime, "Runtime") {
		return true, "*goja.Runtime"
	}
	switch u := t.Underlying().(type) {
	case *types.Pointer:
		return containsRuntime(u.Elem(), depth+1, seen)
	case *types.Slice:
		return containsRuntime(u.Elem(), depth+1, seen)
	case *types.Array:
		return containsRuntime(u.Elem(), depth+1, seen)
	case *types.Chan:
		return containsRuntime(u.Elem(), depth+1, seen)
	case *types.Map:
		if ok, w := containsRuntime(u.Key(), depth+1, seen); ok {
			return ok, w
		}
		return containsRuntime(u.Elem(), depth+1, seen)
	case *types.Struct:
		for i := 0; i < u.NumFields(); i++ {
			if ok, w := containsRuntime(u.Field(i).Type(), depth+1, seen); ok {
				return ok, u.Field(i).Name() + ": " + w
			}
		}
	}
	return false, ""
}

// scriptIsolation is the shared rule "arguments reach scripts only through
// copies": nothing reachable from the caller's bindings (and not the props map
// itself) is reachable from a value handed to the script runtime.  Used by
// C06-R3 and C18-R4 (C10-R2 is the same rule).
func (c *Ctx) scriptIsolation(rule string, a *pta.Analysis, bindingsOnly bool) int {
	n := 0
	eidx := map[string]int{}
	for _, e := range a.Escapes {
		if strings.HasPrefix(e.To, "(*sync.") {
			continue
		}
		reach := a.Reach(a.NodeLocs(e.Node))
		base := fname(e.Instr.Parent()) + ":" + e.To
		eidx[base]++
		key := fmt.Sprintf("%s#%d", base, eidx[base])
		var bad []string
		for o := range reach {
			if (o.Kind == pta.KGlobal || o.Kind == pta.KGlobalSub) && !bindingsOnly {
				bad = append(bad, o.Name+" (package-level: shared by every execution)")
				continue
			}
			if o.Kind != pta.KRoot {
				continue
			}
			switch {
			case o.Root == "bs":
				bad = append(bad, o.Name)
			case o.Root == "props" && o.Depth == 0 && !bindingsOnly:
				bad = append(bad, o.Name)
			}
		}
		sort.Strings(bad)
		n++
		c.R.Check(len(bad) == 0, rule, key, c.pos(e.Instr),
			fmt.Sprintf("%d objects reachable from the value; none is the caller's bindings (any depth)", len(reach)),
			"a value handed to the script runtime can reach caller-owned or shared data, so a script can change it in place: "+strings.Join(bad, ", "))
	}
	return n
}

// runtimeFresh is the shared rule "the goja runtime used by an execution is
// created by goja.New() in that activation of Exec" (C10-R1, C12-R6).
func (c *Ctx) runtimeFresh(rule string, a *pta.Analysis, exec *ssa.Function) {
	// R1a: runtime receivers
	uses := runtimeUses(a)
	if len(uses) == 0 {
		c.R.Break("C10-R1: no call on *goja.Runtime found in Exec's closure")
	}
	idx := map[string]int{}
	for _, u := range uses {
		locs := a.PointsTo(u.Recv)
		ok := len(locs) > 0
		var names []string
		for _, l := range locs {
			names = append(names, pta.LocString(l))
			o := l.Obj
			fresh := o.Kind == pta.KExternal && o.Instr != nil && strings.HasSuffix(ssau.CalleeName(o.Instr.(ssa.CallInstruction)), gojaRuntime+".New") && l.Path == ""
			if !fresh {
				ok = false
			}
			if fresh {
				// created in the same top-level activation: the creating call must be in Exec or one of its closures
				top := o.InFunc
				for top != nil && top.Parent() != nil {
					top = top.Parent()
				}
				if top != exec {
					ok = false
				}
			}
		}
		base := fname(u.Site.Parent()) + ":" + strings.TrimPrefix(ssau.CalleeName(u.Site), "(*"+gojaRuntime+".Runtime).")
		idx[base]++
		c.R.Check(ok, rule, fmt.Sprintf("%s#%d", base, idx[base]), c.pos(u.Site), "receiver is only the goja.New() result of this activation",
			"runtime receiver may be something other than a runtime created by goja.New() in this execution: "+strings.Join(names, ", "))
	}
}

// C10: ECMAScript isolation.
func C10(c *Ctx) {
	c.R.Explanation = "Decides structural necessary conditions of 'scripts are isolated from the host and from each other': (R1) the goja runtime used by an execution is created by goja.New() in that same activation of Exec, and no package-level variable or struct field of package ecmascript can hold a runtime (directly, or in a sync.Pool/sync.Map); (R2) nothing reachable from the caller's bindings, and not the caller's props map itself, is reachable from any value handed to the runtime (Runtime.Set / ToValue), i.e. arguments reach scripts only through copies; (R3) no instruction in Exec's closure writes through the receiver, the parameters or a package-level variable. Decided for all scripts and schedules by points-to analysis; goja internals are assumed isolated per runtime (A3)."
	c.R.Rule("C10-R1", "E1+E7", "runtime is fresh per execution; no field/global can hold a runtime", 3)
	c.R.Rule("C10-R2", "E1", "caller's bindings (any depth) and props map never reachable from values given to the runtime", 1)
	c.R.Rule("C10-R3", "E1", "Exec writes nothing shared (receiver, parameters, globals)", 5)
	c.shareRule("C06", "C06-R4", "C10-R5", "the wrapper every action and guard runs through keeps nothing between executions (nothing of one execution is visible to a later or concurrent one)")
	c.R.Rule("C10-R6", "E6", "step properties hold scalars or structures made for the call, no references into host-owned data", 3)
	c10PropsValues(c, "C10-R6")
	c.R.Rule("C10-R4", "E5", "a host makes the step properties for each walk", 1)
	c10HostProps(c)
	a, exec := c.ecmaAnalysis()
	if a == nil {
		return
	}
	c.runtimeFresh("C10-R1", a, exec)
	// R1b: no storage for runtimes
	if pk := c.P.SSAPkgs[prog.Abs("interpreters/ecmascript")]; pk != nil {
		var names []string
		for n := range pk.Members {
			names = append(names, n)
		}
		sort.Strings(names)
		for _, n := range names {
			switch m := pk.Members[n].(type) {
			case *ssa.Global:
				bad, why := containsRuntime(m.Type(), 0, map[types.Type]bool{})
				c.R.Check(!bad, "C10-R1", "global "+n, c.P.Pos(m.Pos()), "type cannot hold a runtime", "package-level variable can hold a runtime across executions: "+why)
			case *ssa.Type:
				bad, why := containsRuntime(m.Type(), 0, map[types.Type]bool{})
				if bad && !m.Object().Exported() {
					// an unexported helper type (say the per-call record a watcher goroutine works on) holds a
					// runtime only for as long as something holds it: the globals and the exported types
					// (Interpreter) are judged themselves, through their own fields; a value parked in a
					// pool is found by the points-to rule above
					c.R.Discharge("C10-R1", "type "+n, c.P.Pos(m.Pos()), "unexported: can hold a runtime only as a local of an execution (its holders are judged: "+why+")")
					continue
				}
				c.R.Check(!bad, "C10-R1", "type "+n, c.P.Pos(m.Pos()), "type cannot hold a runtime", "type can hold a runtime across executions: "+why)
			}
		}
	} else {
		c.R.Break("package interpreters/ecmascript not loaded")
	}
	// R2: escapes
	if len(a.Escapes) == 0 {
		c.R.Break("C10-R2: no value handed to the runtime found (Runtime.Set/ToValue)")
	}
	eidx := map[string]int{}
	for _, e := range a.Escapes {
		reach := a.Reach(a.NodeLocs(e.Node))
		base := fname(e.Instr.Parent()) + ":" + e.To
		eidx[base]++
		key := fmt.Sprintf("%s#%d", base, eidx[base])
		if strings.HasPrefix(e.To, "(*sync.") {
			// a value parked in a pool / shared map outlives the execution:
			// it must be neither a runtime nor caller-owned data
			var bad []string
			for o := range reach {
				if o.Kind == pta.KRoot {
					bad = append(bad, o.Name)
				}
				if o.Kind == pta.KExternal && o.Instr != nil {
					if ci, ok := o.Instr.(ssa.CallInstruction); ok && strings.HasPrefix(ssau.CalleeName(ci), gojaRuntime+".") {
						bad = append(bad, o.Name)
					}
				}
			}
			sort.Strings(bad)
			c.R.Check(len(bad) == 0, "C10-R1", key, c.pos(e.Instr), "value kept across executions holds no runtime and no caller data",
				"a runtime or caller-owned data is kept in a shared container across executions: "+strings.Join(bad, ", "))
			continue
		}
		var bad []string
		for o := range reach {
			if o.Kind == pta.KGlobal || o.Kind == pta.KGlobalSub {
				bad = append(bad, o.Name+" (package-level: shared by every execution)")
				continue
			}
			if o.Kind != pta.KRoot {
				continue
			}
			switch {
			case o.Root == "bs":
				bad = append(bad, o.Name)
			case o.Root == "props" && o.Depth == 0:
				bad = append(bad, o.Name)
			case o.Root == "interp" && o.Depth >= 1:
				// what the interpreter itself holds is shared by every
				// execution it runs: a container of it in the runtime's reach
				// is a place where one execution's writes meet another's
				bad = append(bad, o.Name+" (held by the interpreter: shared by every execution)")
			}
		}
		sort.Strings(bad)
		c.R.Check(len(bad) == 0, "C10-R2", key, c.pos(e.Instr),
			fmt.Sprintf("%d objects reachable from the value; none is the caller's bindings (any depth) or props map", len(reach)),
			"value handed to the script runtime can reach data that outlives the execution: "+strings.Join(bad, ", "))
	}
	// R3
	c.reportEffects("C10-R3", a, nil)
	c.dischargeWrites("C10-R3", a)
	c.R.Extra["escapes"] = len(a.Escapes)
}

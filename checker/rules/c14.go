package rules

import (
	"fmt"
	"go/constant"
	"go/token"
	"go/types"
	"sort"
	"strings"

	"golang.org/x/tools/go/ssa"

	"sheensverif/internal/flow"
	"sheensverif/internal/prog"
	"sheensverif/internal/ssau"
)

func init() { Registry["C14"] = C14; Registry["C15"] = C15 }

// cellStores: all values stored into a heap cell, in the function and its literals.
func cellStoresDeep(cell ssa.Value, fn *ssa.Function) []*ssa.Store {
	var out []*ssa.Store
	for _, r := range ssau.Referrers(cell) {
		if st, ok := r.(*ssa.Store); ok && st.Addr == cell {
			out = append(out, st)
		}
		if mc, ok := r.(*ssa.MakeClosure); ok {
			lit := mc.Fn.(*ssa.Function)
			for i, b := range mc.Bindings {
				if b == cell && i < len(lit.FreeVars) {
					out = append(out, cellStoresDeep(lit.FreeVars[i], lit)...)
				}
			}
		}
	}
	return out
}

// isLoadOf: v is a load of cell (directly or the same captured cell inside a literal).
func isLoadOfCell(v ssa.Value, cell ssa.Value) bool {
	u, ok := v.(*ssa.UnOp)
	if !ok || u.Op != token.MUL {
		return false
	}
	if u.X == cell {
		return true
	}
	if fv, ok := u.X.(*ssa.FreeVar); ok {
		// which cell is it bound to?
		lit := fv.Parent()
		if lit.Parent() != nil {
			for _, r := range ssau.Referrers(cell) {
				if mc, ok := r.(*ssa.MakeClosure); ok && mc.Fn == ssa.Value(lit) {
					for i, b := range mc.Bindings {
						if b == cell && i < len(lit.FreeVars) && lit.FreeVars[i] == fv {
							return true
						}
					}
				}
			}
		}
	}
	return false
}

// c14RoutesNowhere: every return reachable over the CFG edge from -> to answers "no machine" to Route's caller.
// In Route itself that is `return nil, false, ...`.  In a helper of Route with a single bool result it is: all these
// returns give the same constant verdict, and at every call of the helper in Route the branch taken on that verdict
// routes nowhere.
func c14RoutesNowhere(route *ssa.Function, from, to *ssa.BasicBlock, depth int) bool {
	f := to.Parent()
	reach := flow.ReachableFrom(to, nil)
	reach[to] = true
	// the values result i can have at the return in block b when coming over the edge
	resultsAt := func(b *ssa.BasicBlock, v ssa.Value) []ssa.Value {
		phi, isPhi := v.(*ssa.Phi)
		if !isPhi || phi.Block() != b {
			return []ssa.Value{v}
		}
		var out []ssa.Value
		for i, e := range phi.Edges {
			if pr := b.Preds[i]; reach[pr] || (b == to && pr == from) {
				out = append(out, e)
			}
		}
		return out
	}
	isBool := func(v ssa.Value, want bool) bool {
		cst, isC := v.(*ssa.Const)
		return isC && cst.Value != nil && cst.Value.Kind() == constant.Bool && constant.BoolVal(cst.Value) == want
	}
	var rets []*ssa.Return
	for b := range reach {
		if ret, isRet := b.Instrs[len(b.Instrs)-1].(*ssa.Return); isRet {
			rets = append(rets, ret)
		}
	}
	if len(rets) == 0 {
		return false
	}
	if f == route {
		for _, ret := range rets {
			if len(ret.Results) < 2 {
				return false
			}
			for _, v := range resultsAt(ret.Block(), ret.Results[0]) {
				if !ssau.IsNilConst(v) {
					return false
				}
			}
			for _, v := range resultsAt(ret.Block(), ret.Results[1]) {
				if !isBool(v, false) {
					return false
				}
			}
		}
		return true
	}
	if depth > 0 || f.Signature.Results().Len() != 1 || !types.Identical(f.Signature.Results().At(0).Type().Underlying(), types.Typ[types.Bool]) {
		return false
	}
	verdicts := map[bool]bool{}
	for _, ret := range rets {
		for _, v := range resultsAt(ret.Block(), ret.Results[0]) {
			switch {
			case isBool(v, true):
				verdicts[true] = true
			case isBool(v, false):
				verdicts[false] = true
			default:
				return false
			}
		}
	}
	if len(verdicts) != 1 {
		return false
	}
	verdict := verdicts[true]
	sites := callSitesOf(f, []*ssa.Function{route})
	if len(sites) == 0 {
		return false
	}
	for _, site := range sites {
		cl, isCall := site.(*ssa.Call)
		if !isCall {
			return false
		}
		decided := false
		var visit func(v ssa.Value, pol bool) bool
		visit = func(v ssa.Value, pol bool) bool {
			for _, r := range ssau.Referrers(v) {
				switch x := r.(type) {
				case *ssa.If:
					succ := x.Block().Succs[0]
					if !pol {
						succ = x.Block().Succs[1]
					}
					if !c14RoutesNowhere(route, x.Block(), succ, depth+1) {
						return false
					}
					decided = true
				case *ssa.UnOp:
					if x.Op != token.NOT || !visit(x, !pol) {
						return false
					}
				case *ssa.DebugRef:
				default:
					return false // the verdict goes somewhere this rule does not follow
				}
			}
			return true
		}
		if !visit(cl, verdict) || !decided {
			return false
		}
	}
	return true
}

// c14DiffersFrom: the package-level ids (by name) that the facts prove the value id to differ from: a comparison
// `id == G` known false / `id != G` known true, or the verdict of a boolean helper of the package that was handed id
// and cannot give that verdict when id is G.
func c14DiffersFrom(id ssa.Value, facts []flow.Fact, depth int) map[string]bool {
	out := map[string]bool{}
	if depth > 3 {
		return out
	}
	globalOf := func(v ssa.Value) *ssa.Global {
		if u, isU := v.(*ssa.UnOp); isU && u.Op == token.MUL {
			g, _ := u.X.(*ssa.Global)
			return g
		}
		return nil
	}
	for _, f := range facts {
		switch x := f.Cond.(type) {
		case *ssa.BinOp:
			if !(x.Op == token.EQL && !f.True) && !(x.Op == token.NEQ && f.True) {
				continue
			}
			if g := globalOf(x.Y); g != nil && x.X == id {
				out[g.Name()] = true
			} else if g := globalOf(x.X); g != nil && x.Y == id {
				out[g.Name()] = true
			}
		case *ssa.Call:
			h := x.Common().StaticCallee()
			if h == nil || h.Blocks == nil || x.Common().IsInvoke() || h.Signature.Results().Len() != 1 {
				continue
			}
			for i, a := range x.Common().Args {
				if a != id || i >= len(h.Params) {
					continue
				}
				// whenever h answers f.True, its parameter differs from ...
				var all map[string]bool
				n := 0
				for _, b := range h.Blocks {
					ret, isRet := b.Instrs[len(b.Instrs)-1].(*ssa.Return)
					if !isRet {
						continue
					}
					for _, d := range phiEdgesWithBlocks(ret.Results[0], b) {
						fs := append([]flow.Fact{}, flow.FactsAt(d.b)...)
						if cst, isC := d.v.(*ssa.Const); isC {
							if cst.Value == nil || cst.Value.Kind() != constant.Bool {
								return map[string]bool{}
							}
							if constant.BoolVal(cst.Value) != f.True {
								continue // this way out gives the other verdict
							}
						} else {
							fs = append(fs, flow.Expand([]flow.Fact{{Cond: d.v, True: f.True}})...)
						}
						n++
						got := c14DiffersFrom(h.Params[i], fs, depth+1)
						if all == nil {
							all = got
						} else {
							for k := range all {
								if !got[k] {
									delete(all, k)
								}
							}
						}
					}
				}
				if n > 0 {
					for k := range all {
						out[k] = true
					}
				}
			}
		}
	}
	return out
}

// walkSite: a place in RunMachines where machines are walked.
type walkSite struct {
	call *ssa.Call
	once bool // one machine at most, once at most, per execution of the call
	// each: the call is of a helper that is handed the walking function (a method value, a function literal) and calls
	// it at this one place of its own (`eachMid(mids, run.present)` with `f(mids[i])` in a loop of eachMid); once then
	// says that one call of the function handed over walks one machine at most, once at most
	each *ssa.Call
}

// c14FuncValue: the function a function-valued argument stands for: a method value (bound method closure), a function
// literal, or a named function; nil for anything else.
func c14FuncValue(v ssa.Value) *ssa.Function {
	switch x := v.(type) {
	case *ssa.Function:
		return x
	case *ssa.MakeClosure:
		w, ok := x.Fn.(*ssa.Function)
		if !ok {
			return nil
		}
		if w.Synthetic == "" {
			return w
		}
		if !strings.HasSuffix(w.Name(), "$bound") || len(x.Bindings) != 1 {
			return nil
		}
		var m *ssa.Function
		ssau.Instrs(w, func(in ssa.Instruction) {
			if ci, ok := in.(ssa.CallInstruction); ok {
				if sc := ci.Common().StaticCallee(); sc != nil && sc.Name()+"$bound" == w.Name() {
					m = sc
				}
			}
		})
		return m
	case *ssa.ChangeType:
		return c14FuncValue(x.X)
	}
	return nil
}

// c14WalkSites lists the places of f where a machine is walked: the calls of RunMachine and the calls of helpers of
// the same package that walk (transitively).  A helper call walks once if the helper has a single walk site, itself
// walking once, that is not on a cycle of the helper.
func c14WalkSites(f, rm *ssa.Function, depth int) []walkSite {
	var out []walkSite
	if f == nil || rm == nil {
		return nil
	}
	ssau.Instrs(f, func(in ssa.Instruction) {
		cl, ok := in.(*ssa.Call)
		if !ok {
			return
		}
		h := cl.Common().StaticCallee()
		switch {
		case h == nil:
		case h == rm:
			out = append(out, walkSite{call: cl, once: true})
		case h.Blocks != nil && h != f && depth < 3 && prog.PkgOf(h) == prog.PkgOf(f):
			inner := c14WalkSites(h, rm, depth+1)
			if len(inner) > 0 {
				out = append(out, walkSite{call: cl, once: len(inner) == 1 && inner[0].once && inner[0].each == nil && !flow.InCycle(inner[0].call.Block())})
				return
			}
			// the helper does not walk by itself: it calls a function it is handed, and that function walks
			for ai, a := range cl.Common().Args {
				tgt := c14FuncValue(a)
				if tgt == nil || tgt.Blocks == nil || prog.PkgOf(tgt) != prog.PkgOf(f) || ai >= len(h.Params) {
					continue
				}
				once := tgt == rm
				if !once {
					tw := c14WalkSites(tgt, rm, depth+1)
					if len(tw) == 0 {
						continue
					}
					once = len(tw) == 1 && tw[0].once && tw[0].each == nil && !flow.InCycle(tw[0].call.Block())
				}
				var pcs []*ssa.Call
				onlyCalled := true
				for _, u := range ssau.Referrers(h.Params[ai]) {
					if pc, isC := u.(*ssa.Call); isC && pc.Common().Value == ssa.Value(h.Params[ai]) {
						pcs = append(pcs, pc)
					} else if _, isDbg := u.(*ssa.DebugRef); !isDbg {
						onlyCalled = false
					}
				}
				switch {
				case len(pcs) == 1 && onlyCalled:
					out = append(out, walkSite{call: cl, once: once, each: pcs[0]})
				default:
					out = append(out, walkSite{call: cl}) // walks, one cannot say how often
				}
			}
		}
	})
	return out
}

// c14Excluded: the ids that no append in fn can add to a list.
func c14Excluded(fn *ssa.Function) map[string]bool {
	var all map[string]bool
	ssau.Instrs(fn, func(in ssa.Instruction) {
		ap, ok := in.(*ssa.Call)
		if !ok {
			return
		}
		if b, isB := ap.Common().Value.(*ssa.Builtin); !isB || b.Name() != "append" {
			return
		}
		got := map[string]bool{}
		if elems, spread := appended(ap); spread == nil && len(elems) == 1 {
			got = c14DiffersFrom(elems[0], flow.FactsAt(ap.Block()), 0)
		}
		if all == nil {
			all = got
			return
		}
		for k := range all {
			if !got[k] {
				delete(all, k)
			}
		}
	})
	if all == nil {
		all = map[string]bool{}
	}
	return all
}

func isBuiltinAppend(cl *ssa.Call) bool {
	b, isB := cl.Common().Value.(*ssa.Builtin)
	return isB && b.Name() == "append" && len(cl.Common().Args) == 2
}

// c14SeenGuarded: the append runs only under !seen[k] for a set made in this function in which the same k is recorded.
func c14SeenGuarded(cl *ssa.Call) bool {
	for _, fa := range flow.FactsAt(cl.Block()) {
		// !seen[x]  (lookup in a map[string]bool made in this function)
		var lk *ssa.Lookup
		neg := false
		if u, isU := fa.Cond.(*ssa.UnOp); isU && u.Op == token.NOT {
			lk, _ = u.X.(*ssa.Lookup)
			neg = fa.True
		} else if l, isL := fa.Cond.(*ssa.Lookup); isL {
			lk, neg = l, !fa.True
		} else if ex, isEx := fa.Cond.(*ssa.Extract); isEx && ex.Index == 1 {
			lk, _ = ex.Tuple.(*ssa.Lookup)
			neg = !fa.True
		}
		if lk != nil && neg {
			if _, isMake := lk.X.(*ssa.MakeMap); isMake {
				// the same key is recorded in the set
				for _, r := range ssau.Referrers(lk.X) {
					if mu, isMU := r.(*ssa.MapUpdate); isMU && mu.Key == lk.Index {
						return true
					}
				}
			}
		}
	}
	return false
}

// c14DedupChain: v is a list that starts empty (make with length 0, or nil) and grows only by appends each guarded by
// the seen-set (the construct a de-duplicating helper consists of, wherever it stands). bases collects the empty
// lists it starts from.
func c14DedupChain(v ssa.Value, bases, seen map[ssa.Value]bool) bool {
	if seen[v] {
		return true
	}
	seen[v] = true
	switch x := v.(type) {
	case *ssa.Phi:
		for _, e := range x.Edges {
			if !c14DedupChain(e, bases, seen) {
				return false
			}
		}
		return true
	case *ssa.MakeSlice:
		if k, isK := x.Len.(*ssa.Const); isK && k.Value != nil && k.Int64() == 0 {
			bases[x] = true
			return true
		}
	case *ssa.Const:
		return x.IsNil()
	case *ssa.Call:
		if isBuiltinAppend(x) && c14SeenGuarded(x) {
			return c14DedupChain(x.Common().Args[0], bases, seen)
		}
	}
	return false
}

func C14(c *Ctx) {
	c.R.Explanation = "Decides structural necessary conditions of exactly-once routing for both crew hosts: (R1) every list of recipients returned by the sio recipient selection is the key set of the live machine map computed in that call, a singleton, or the result of the de-duplicating helper (whose appends are guarded by a seen-set bind-if-absent); (R2) the ids excluded from broadcast are the service machine ids and mcrew's reserved names route to no machine; (R3) sio.ProcessMsg's pending queue is a front-pop FIFO (the message processed is element 0, the queue continues as [1:], new messages are appended at the back, the loop runs until it is empty) and every recipient returned is walked once; (R4) mcrew re-injects every emitted message by its own goroutine, unconditionally, once per element of every stride's Emitted. Counts over real histories are not decided."
	c.R.Rule("C14-R1", "E5", "duplicate-free, live recipient lists", 4)
	c.R.Rule("C14-R2", "E6", "reserved ids", 3)
	c.R.Rule("C14-R3", "E5", "breadth-first FIFO queue; each recipient walked once", 3)
	c.R.Rule("C14-R5", "E3+E1", "every emitted message is fed back once and reported once, in batches private to one machine (= C08-R5)", 3)
	c.R.Rule("C14-R6", "E3", "one machine's failure does not discard what the others emitted", 1)
	c.R.Rule("C14-R8", "E7", "mcrew's transports do not edit the message they deliver (it is also the report)", 0)
	c14HandedOn(c)
	c.R.Rule("C14-R10", "E3", "the crew loop processes each received message once and hands on every result", 2)
	c14Loop(c, "C14-R10")
	c14BroadcastDecision(c, "C14-R1")
	c.R.Rule("C14-R11", "E3+E5", "a selected machine that exists is walked, with the message as it was routed", 2)
	c14RoutedAsIs(c, "C14-R11")
	c.shareRule("C04", "C04-R3", "C14-R9", "a message a machine was shown is recorded as consumed whatever came of it: Walk pops only on that record, so a machine is not shown the same message twice")
	c.R.Rule("C14-R7", "E1", "Walk never writes the batch it is given: every recipient of a broadcast is offered the same messages", 1)
	c.batchUntouched("C14-R7")
	c14RunMachines(c)
	crewEmitted(c, "C14-R5")
	c.R.Rule("C14-R4", "E3", "mcrew fan-out once per emitted message", 1)
	toM := c.fn("sio", "Crew", "toMachines")
	allM := c.fn("sio", "Crew", "allMachines")
	runMs := c.fn("sio", "Crew", "RunMachines")
	pm := c.fn("sio", "Crew", "ProcessMsg")
	if toM == nil || allM == nil || runMs == nil || pm == nil {
		return
	}
	c.R.Fn(fname(toM), fname(allM), fname(runMs), fname(pm))
	// ---- R1: dedupe helper(s): functions in sio returning []string whose appends are guarded by a seen set
	dedupe := map[*ssa.Function]bool{}
	for _, f := range c.P.FuncsIn("sio") {
		if f.Signature.Results().Len() != 1 || f.Signature.Results().At(0).Type().String() != "[]string" || f.Signature.Params().Len() != 1 {
			continue
		}
		okAll, n := true, 0
		ssau.Instrs(f, func(in ssa.Instruction) {
			cl, ok := in.(*ssa.Call)
			if !ok {
				return
			}
			b, isB := cl.Common().Value.(*ssa.Builtin)
			if !isB || b.Name() != "append" {
				return
			}
			n++
			guarded := c14SeenGuarded(cl)
			if !guarded {
				okAll = false
			}
		})
		if okAll && n > 0 {
			dedupe[f] = true
			c.R.Fn(fname(f))
		}
	}
	nret := 0
	// every list toMachines can answer with, looked up through the helpers it is split into (the functions that
	// produce a list known to be duplicate-free stay leaves)
	var scope []*ssa.Function
	for _, f := range pkgClosure(toM) {
		if f != allM && !dedupe[f] && prog.PkgOf(f) == "sio" {
			scope = append(scope, f)
		}
	}
	seenLeaf := map[ssa.Value]bool{}
	// (the de-duplication written out in place: a list that starts empty and grows only by appends guarded by the
	// seen-set is de-duplicated wherever the loop stands; the empty list it starts from is one of its leaves)
	inlineBases := map[ssa.Value]bool{}
	nInline := 0
	for _, b := range toM.Blocks {
		ret, ok := b.Instrs[len(b.Instrs)-1].(*ssa.Return)
		if !ok || len(ret.Results) != 2 || ssau.IsNilConst(ret.Results[0]) {
			continue
		}
		for _, v := range resolveThroughLocals(ret.Results[0], scope) {
			if cl, isCl := v.(*ssa.Call); isCl && isBuiltinAppend(cl) {
				bases := map[ssa.Value]bool{}
				if c14DedupChain(cl, bases, map[ssa.Value]bool{}) {
					nInline++
					inlineBases[cl] = true
					for k := range bases {
						inlineBases[k] = true
					}
				}
			}
		}
	}
	for _, b := range toM.Blocks {
		ret, ok := b.Instrs[len(b.Instrs)-1].(*ssa.Return)
		if !ok || len(ret.Results) != 2 || ssau.IsNilConst(ret.Results[0]) {
			continue
		}
		// (a list kept in a field of a local record that helpers fill through a pointer is looked up in what they store)
		for _, v := range resolveThroughLocals(ret.Results[0], scope) {
			if ssau.IsNilConst(v) || seenLeaf[v] {
				continue
			}
			seenLeaf[v] = true
			nret++
			why := "returns a list that is neither the live key set, a singleton, nor de-duplicated: " + v.String()
			okR := inlineBases[v]
			switch x := v.(type) {
			case *ssa.Call:
				if sc := x.Common().StaticCallee(); sc == allM || (sc != nil && dedupe[sc]) {
					okR = true
				}
			case *ssa.Slice:
				if al, isAl := x.X.(*ssa.Alloc); isAl {
					if arr, isArr := al.Type().Underlying().(*types.Pointer).Elem().Underlying().(*types.Array); isArr && arr.Len() == 1 {
						okR = true
					}
				}
			}
			c.R.Check(okR, "C14-R1", fmt.Sprintf("toMachines: recipients #%d", nret), c.posv(v), "live key set, singleton, or de-duplicated", why)
		}
	}
	if nret < 3 {
		c.R.Break("C14-R1: toMachines has %d recipient-returning exits", nret)
	}
	c.R.Check(len(dedupe) >= 1 || nInline >= 1, "C14-R1", "sio: a de-duplicating helper exists", c.P.Pos(toM.Pos()), "appends guarded by a seen-set", "no helper de-duplicates recipient lists")
	// allMachines: computed from the live map in this call
	okLive := true
	nLiveRet := 0
	whyLive := "allMachines does not return a list built in this call from the live machine map"
	for _, b := range allM.Blocks {
		ret, ok := b.Instrs[len(b.Instrs)-1].(*ssa.Return)
		if !ok {
			continue
		}
		nLiveRet++
		origins := sliceOrigins(ret.Results[0], map[ssa.Value]bool{})
		if len(origins) == 0 {
			okLive = false
		}
		for _, o := range origins {
			switch x := o.(type) {
			case *ssa.MakeSlice:
			case *ssa.Alloc:
				if _, isArr := x.Type().Underlying().(*types.Pointer).Elem().Underlying().(*types.Array); !isArr {
					okLive = false
				}
			default:
				okLive = false
				whyLive = "allMachines can return " + o.String() + " (not a list built in this call; e.g. a cached list)"
			}
		}
	}
	rangesLive := false
	ssau.Instrs(allM, func(in ssa.Instruction) {
		if rg, ok := in.(*ssa.Range); ok {
			if _, is := ssau.LoadOfField(rg.X, prog.Abs("sio"), "Crew", "Machines"); is {
				rangesLive = true
			}
		}
	})
	c.R.Check(okLive && nLiveRet > 0 && rangesLive, "C14-R1", "allMachines: the live machine map's keys", c.P.Pos(allM.Pos()), "a fresh list appended from a range over Crew.Machines", whyLive)
	// ---- R2 reserved ids
	// an id is excluded if, at every append of allMachines, the conditions in force say that the appended id is not
	// that id (a `switch`, an `if ... { continue }`, or a predicate helper that is handed the id)
	excluded := c14Excluded(allM)
	var ex []string
	for k := range excluded {
		ex = append(ex, k)
	}
	sort.Strings(ex)
	c.R.Check(excluded["TimersMachine"] && excluded["CaptainMachine"], "C14-R2", "allMachines: service machines excluded from broadcast", c.P.Pos(allM.Pos()), "excluded: "+strings.Join(ex, ", "), "a service machine (timers / captain) receives unaddressed messages; excluded: "+strings.Join(ex, ", "))
	// mcrew Route
	if route := c.fn("cmd/mcrew", "Service", "Route"); route != nil {
		c.R.Fn(fname(route))
		names := map[string]bool{}
		// the comparisons may sit in Route or in a helper that answers "a service took it" (a bool) to Route
		nameFns := []*ssa.Function{route}
		for _, h := range pkgClosure(route) {
			if h != route && h.Parent() == nil && len(callSitesOf(h, []*ssa.Function{route})) > 0 {
				nameFns = append(nameFns, h)
			}
		}
		for _, h := range nameFns {
			h := h
			ssau.Instrs(h, func(in ssa.Instruction) {
				bo, ok := in.(*ssa.BinOp)
				if !ok || bo.Op != token.EQL {
					return
				}
				s, isS := ssau.ConstString(bo.Y)
				if !isS {
					return
				}
				for _, r := range ssau.Referrers(bo) {
					iff, isIf := r.(*ssa.If)
					if !isIf {
						continue
					}
					// all returns reachable from the true edge (before any other case) return nil ids and all=false
					if c14RoutesNowhere(route, iff.Block(), iff.Block().Succs[0], 0) {
						names[s] = true
					}
				}
			})
		}
		var nl []string
		for k := range names {
			nl = append(nl, k)
		}
		sort.Strings(nl)
		c.R.Check(names["timers"] && names["http"] && names["ws"], "C14-R2", "mcrew Route: reserved names reach no machine", c.P.Pos(route.Pos()), "reserved: "+strings.Join(nl, ", "), "a reserved service name is routed to machines; reserved names that return no ids: "+strings.Join(nl, ", "))
		// default: exactly the named id
		okOne := false
		for _, b := range route.Blocks {
			if ret, isRet := b.Instrs[len(b.Instrs)-1].(*ssa.Return); isRet {
				if sl, isSl := ret.Results[0].(*ssa.Slice); isSl {
					if al, isAl := sl.X.(*ssa.Alloc); isAl {
						if arr, isArr := al.Type().Underlying().(*types.Pointer).Elem().Underlying().(*types.Array); isArr && arr.Len() == 1 {
							okOne = true
						}
					}
				}
			}
		}
		c.R.Check(okOne, "C14-R2", "mcrew Route: a machine id addresses exactly that machine", c.P.Pos(route.Pos()), "singleton", "a routing target does not yield exactly the named machine")
	}
	// ---- R3 queue in ProcessMsg
	cq := findCrewQueue(c.P, pm)
	if cq == nil {
		c.R.Violate("C14-R3", "ProcessMsg: pending queue", c.P.Pos(pm.Pos()), "the pending queue is not a slice variable whose first element is taken in a loop (cannot establish FIFO order)")
	} else {
		w := cq.web
		okQ := true
		var why []string
		pops, pushes := 0, 0
		// inCycle: the instruction can run more than once per ProcessMsg call: it is on a cycle of its function, or it
		// sits in a helper / method that the dequeue loop runs
		inCycle := func(in ssa.Instruction) bool {
			if flow.InCycle(in.Block()) {
				return true
			}
			if in.Parent() == pm {
				return false
			}
			site := w.liftTo(pm, in)
			return site == nil || flow.InCycle(site.Block())
		}
		// nilBack: a helper the queue is handed to can give back no queue
		nilBack := func(cl *ssa.Call, idx int) bool {
			h := cl.Common().StaticCallee()
			if h == nil {
				return true
			}
			for _, b := range h.Blocks {
				if ret, isRet := b.Instrs[len(b.Instrs)-1].(*ssa.Return); isRet && idx < len(ret.Results) && ssau.IsNilConst(ret.Results[idx]) {
					if c14NilWithError(cl, ret) {
						continue // no queue comes back together with an error, on which the caller stops working the queue
					}
					return true
				}
			}
			return false
		}
		for _, m := range w.members(cq.q) {
			switch v := m.(type) {
			case *ssa.Slice:
				n, isC := ssau.ConstInt(v.Low)
				if w.same(v.X, cq.q) && v.X != ssa.Value(v) && isSliceT(v.X.Type()) {
					if isC && n == 1 && v.High == nil && v.Max == nil {
						pops++
						if !cq.inLoop(v) {
							okQ = false
							why = append(why, "pop outside the loop")
						}
						continue
					}
					okQ = false
					why = append(why, "queue re-sliced as "+v.String())
					continue
				}
				if _, isAl := v.X.(*ssa.Alloc); isAl && !inCycle(v) {
					continue // initial make / literal
				}
				okQ = false
				why = append(why, "queue re-sliced as "+v.String())
			case *ssa.Call:
				if bi, isB := v.Common().Value.(*ssa.Builtin); isB && bi.Name() == "append" {
					pushes++
					continue
				}
				if w.linked[v] && !nilBack(v, 0) {
					continue // the queue comes back from the helper it was handed to (the helper's code is part of the web)
				}
				okQ = false
				why = append(why, "queue assigned "+v.String())
			case *ssa.MakeSlice:
				if inCycle(v) {
					okQ = false
					why = append(why, "queue re-made inside the loop")
				}
			case *ssa.Phi, *ssa.Alloc, *ssa.FreeVar:
			case *ssa.FieldAddr:
				// the queue is kept in a field of a struct local to ProcessMsg
			case *ssa.UnOp:
				if v.Op != token.MUL {
					okQ = false
					why = append(why, "queue assigned "+v.String())
				}
			default:
				if ex, isEx := m.(*ssa.Extract); isEx && w.linked[m] {
					if cl, isCl := ex.Tuple.(*ssa.Call); isCl && !nilBack(cl, ex.Index) {
						continue // result through which the queue comes back from a helper
					}
				} else if _, isPar := m.(*ssa.Parameter); isPar && w.linked[m] {
					continue // parameter through which the queue is handed to a helper
				}
				okQ = false
				why = append(why, "queue assigned "+m.String())
			}
		}
		sort.Strings(why)
		c.R.Check(okQ && pops == 1 && pushes >= 2, "C14-R3", "ProcessMsg: pending is popped only at the front and pushed only at the back", c.pos(cq.head), fmt.Sprintf("%d pop ([1:]), %d pushes (append)", pops, pushes), fmt.Sprintf("the pending queue is not a plain FIFO (%d pops, %d pushes): %s", pops, pushes, strings.Join(why, "; ")))
		// processed message = element 0 before the pop; loop until empty
		okHead, okLoop := false, false
		if n, isC := ssau.ConstInt(cq.head.Index); isC && n == 0 {
			okHead = true
		}
		ssau.Instrs(pm, func(in ssa.Instruction) {
			if bo, ok := in.(*ssa.BinOp); ok && (bo.Op == token.LSS || bo.Op == token.GTR || bo.Op == token.NEQ) {
				for _, side := range []ssa.Value{bo.X, bo.Y} {
					if cl, isC := side.(*ssa.Call); isC {
						if bi, isB := cl.Common().Value.(*ssa.Builtin); isB && bi.Name() == "len" && w.same(cl.Common().Args[0], cq.q) {
							for _, r := range ssau.Referrers(bo) {
								if iff, isIf := r.(*ssa.If); isIf && iff.Block() == cq.loop.Header {
									okLoop = true
								}
							}
						}
					}
				}
			}
		})
		// the head is taken from the queue as it stands before the pop of the same trip
		for _, m := range w.members(cq.q) {
			if sl, isSl := m.(*ssa.Slice); isSl && w.same(sl.X, cq.q) && cq.inLoop(sl) {
				if !cq.headBefore(sl) {
					okHead = false
				}
				if sameSliceValue(w, sl.X, cq.head.X) == false {
					okHead = false
				}
			}
		}
		c.R.Check(okHead && okLoop, "C14-R3", "ProcessMsg: processes element 0 until the queue is empty", c.pos(cq.head), "head element taken; loop condition is the queue's length", "the loop does not take the first pending message / does not run until the queue is empty")
	}
	// RunMachines walks each returned recipient once: a single range over the ids with one RunMachine call
	runM := c.P.Func("sio", "Crew", "RunMachine")
	// the walk may be a call of RunMachine or of a helper of the package that runs one machine at most once
	walks := c14WalkSites(runMs, runM, 0)
	okWalk := len(walks) == 1 && walks[0].once
	if okWalk {
		walkCall := walks[0].call
		L := flow.InnermostLoop(flow.Loops(runMs), walkCall.Block())
		var opScope []*ssa.Function
		if each := walks[0].each; each != nil {
			// the loop over the ids is in the helper that is handed the walking function: the helper is called once,
			// and its loop runs over what RunMachines hands it
			if L != nil {
				L = nil
			} else {
				L = flow.InnermostLoop(flow.Loops(each.Parent()), each.Block())
				opScope = []*ssa.Function{runMs, each.Parent()}
			}
		}
		okWalk = L != nil
		if L != nil {
			op := loopOperand(L)
			fromTo := false
			if op != nil {
				defs := phiDefs(op, nil, map[ssa.Value]bool{})
				if opScope != nil {
					defs = deepDefs(op, opScope)
				}
				for _, d := range defs {
					if ex, isEx := d.(*ssa.Extract); isEx {
						if cl, isC := ex.Tuple.(*ssa.Call); isC && cl.Common().StaticCallee() == toM {
							fromTo = true
						}
					}
				}
			}
			okWalk = fromTo
		}
	}
	c.R.Check(okWalk, "C14-R3", "RunMachines: each selected recipient is walked once", c.P.Pos(runMs.Pos()), "one RunMachine call in a loop over toMachines' result", "recipients are not walked exactly once each")
	// ---- R4 mcrew fan-out
	if proc := c.fn("cmd/mcrew", "Service", "Process"); proc != nil {
		c.R.Fn(fname(proc))
		var gos []*ssa.Go
		// Process and the helpers of the package it is split into
		var procFns []*ssa.Function
		seenPF := map[*ssa.Function]bool{}
		for _, f := range pkgClosure(proc) {
			if prog.PkgOf(f) != "cmd/mcrew" {
				continue
			}
			for _, g := range ssau.WithAnon(f) {
				if !seenPF[g] {
					seenPF[g] = true
					procFns = append(procFns, g)
				}
			}
		}
		for _, f := range procFns {
			ssau.Instrs(f, func(in ssa.Instruction) {
				if g, ok := in.(*ssa.Go); ok && (g.Call.StaticCallee() == proc || f == proc || f.Parent() == proc) {
					gos = append(gos, g)
				}
			})
		}
		okFan := false
		why := fmt.Sprintf("%d go statements in Process", len(gos))
		for _, g := range gos {
			if g.Parent().Parent() != nil || g.Call.StaticCallee() != proc {
				why = "emitted messages are not re-processed by one Process goroutine each"
				continue
			}
			// the place that is judged: the go statement itself, or — when it sits in an unexported helper that runs once
			// (unconditionally) for the message it is handed — the place where that helper runs (a call, or a call of
			// its method value inside the function that holds the loops: `b.eachEmitted(r.emit)`)
			var at ssa.Instruction = g
			var msgv ssa.Value
			if len(g.Call.Args) >= 3 {
				msgv = g.Call.Args[2]
			}
			lifted := true
			for depth := 0; depth < 3 && at.Parent() != proc && !flow.InCycle(at.Block()); depth++ {
				h := at.Parent()
				par, isPar := msgv.(*ssa.Parameter)
				if !isPar || par.Parent() != h || h.Parent() != nil || len(h.Blocks) == 0 || (h.Object() != nil && h.Object().Exported() && h.Synthetic == "") {
					break
				}
				pi := -1
				for i, fp := range h.Params {
					if fp == par {
						pi = i
					}
				}
				if at.Block() != h.Blocks[0] && !flow.NewPostDom(h).PostDominates(at.Block(), h.Blocks[0]) {
					lifted = false // the helper re-injects its message on some ways only
					break
				}
				vs, complete := runSitesThroughValues(h, procFns)
				if !complete || len(vs) != 1 || pi-vs[0].shift < 0 || pi-vs[0].shift >= len(vs[0].site.Common().Args) {
					break
				}
				cl, isCall := vs[0].site.(*ssa.Call)
				if !isCall {
					break
				}
				at, msgv = cl, cl.Common().Args[pi-vs[0].shift]
			}
			if !lifted {
				why = "the function that re-injects an emitted message does so on some ways only"
				continue
			}
			if at.Parent() != proc && len(callSitesOf(at.Parent(), []*ssa.Function{proc})) == 0 {
				why = "the function that re-injects emitted messages is not called by Process"
				continue
			}
			loops := enclosingLoops(flow.Loops(at.Parent()), at.Block())
			if len(loops) < 3 {
				why = "the re-injection is not inside the loop over every stride's emitted messages"
				continue
			}
			inner := loops[0]
			op := loopOperand(inner)
			_, isEmitted := ssau.LoadOfField(op, prog.Abs("core"), "Events", "Emitted")
			if !isEmitted {
				// Stride embeds *Events: the load goes through the Events pointer
				isEmitted = op != nil && strings.Contains(op.String(), "Emitted")
			}
			// unconditional in the innermost body: the go's block post-dominates the body entry
			body := inner.Header.Succs[0]
			if !inner.Blocks[body] {
				body = inner.Header.Succs[1]
			}
			uncond := true
			// every path from body back to the header passes the go block
			seen := map[*ssa.BasicBlock]bool{}
			stack := []*ssa.BasicBlock{body}
			for len(stack) > 0 {
				b := stack[len(stack)-1]
				stack = stack[:len(stack)-1]
				if seen[b] || b == at.Block() {
					continue
				}
				seen[b] = true
				for _, s := range b.Succs {
					if s == inner.Header {
						uncond = false
					}
					if inner.Blocks[s] {
						stack = append(stack, s)
					}
				}
			}
			// the message handed on is the loop's element
			msgOK := false
			if msgv != nil {
				if ld, isLd := msgv.(*ssa.UnOp); isLd {
					if ia, isIA := ld.X.(*ssa.IndexAddr); isIA && ia.X == op {
						msgOK = true
					}
				}
			}
			if isEmitted && uncond && msgOK {
				okFan = true
			} else {
				why = fmt.Sprintf("re-injection: over Emitted=%v, unconditional=%v, passes the emitted message=%v", isEmitted, uncond, msgOK)
			}
		}
		c.R.Check(okFan, "C14-R4", "mcrew Process: every emitted message is re-injected by its own goroutine", c.P.Pos(proc.Pos()), "go s.Process(ctx, msg, ctl) unconditionally in the loop over every stride's Emitted", why)
	}
}

// c14NilWithError: the return ret of the helper called at cl hands back, as another result, a value that is known not
// to be nil there (`return nil, nil, err` under err != nil), and the caller, on finding that result not nil, does not
// come back to the call (it leaves the loop the call is in).
func c14NilWithError(cl *ssa.Call, ret *ssa.Return) bool {
	for j, r := range ret.Results {
		nonNil := false
		for _, f := range flow.FactsAt(ret.Block()) {
			bo, ok := f.Cond.(*ssa.BinOp)
			if !ok || bo.X != r || !ssau.IsNilConst(bo.Y) {
				continue
			}
			if (bo.Op == token.NEQ && f.True) || (bo.Op == token.EQL && !f.True) {
				nonNil = true
			}
		}
		if !nonNil {
			continue
		}
		var ex *ssa.Extract
		for _, u := range ssau.Referrers(cl) {
			if e, ok := u.(*ssa.Extract); ok && e.Index == j {
				ex = e
			}
		}
		if ex == nil {
			continue
		}
		// the ways on from the call, in this activation, with ex != nil (ex keeps its value until the call is made again)
		seen := map[*ssa.BasicBlock]bool{}
		stack := []*ssa.BasicBlock{}
		next := func(b *ssa.BasicBlock) {
			succs := b.Succs
			if iff, ok := b.Instrs[len(b.Instrs)-1].(*ssa.If); ok {
				if bo, isB := iff.Cond.(*ssa.BinOp); isB && bo.X == ssa.Value(ex) && ssau.IsNilConst(bo.Y) {
					switch bo.Op {
					case token.NEQ:
						succs = b.Succs[:1]
					case token.EQL:
						succs = b.Succs[1:2]
					}
				}
			}
			for _, s := range succs {
				if !seen[s] {
					seen[s] = true
					stack = append(stack, s)
				}
			}
		}
		next(cl.Block())
		for len(stack) > 0 {
			b := stack[len(stack)-1]
			stack = stack[:len(stack)-1]
			if b != cl.Block() {
				next(b)
			}
		}
		if !seen[cl.Block()] {
			return true
		}
	}
	return false
}

package rules

import (
	"fmt"
	"go/token"
	"go/types"
	"sort"
	"strings"

	"golang.org/x/tools/go/ssa"

	"sheensverif/internal/flow"
	"sheensverif/internal/prog"
	"sheensverif/internal/pta"
	"sheensverif/internal/ssau"
)

func init() { Registry["C08"] = C08 }

// provablyNil: v is the nil constant, or the use block is dominated by the
// true edge of `v == nil` / false edge of `v != nil`.
func provablyNil(v ssa.Value, at *ssa.BasicBlock) bool {
	if ssau.IsNilConst(v) {
		return true
	}
	for _, f := range flow.FactsAt(at) {
		b, ok := f.Cond.(*ssa.BinOp)
		if !ok {
			continue
		}
		var other ssa.Value
		if b.X == v {
			other = b.Y
		} else if b.Y == v {
			other = b.X
		} else {
			continue
		}
		if !ssau.IsNilConst(other) {
			continue
		}
		if (b.Op.String() == "==" && f.True) || (b.Op.String() == "!=" && !f.True) {
			return true
		}
	}
	return false
}

// callsRuntime: functions (within the given set) that directly or transitively run a goja program.
func runsProgram(fns []*ssa.Function) map[*ssa.Function]bool {
	runs := map[*ssa.Function]bool{}
	direct := func(f *ssa.Function) bool {
		found := false
		ssau.Instrs(f, func(in ssa.Instruction) {
			if ci, ok := in.(ssa.CallInstruction); ok {
				n := ssau.CalleeName(ci)
				if strings.HasPrefix(n, "(*"+gojaRuntime+".Runtime).Run") {
					found = true
				}
			}
		})
		return found
	}
	for _, f := range fns {
		if direct(f) {
			runs[f] = true
		}
	}
	for changed := true; changed; {
		changed = false
		for _, f := range fns {
			if runs[f] {
				continue
			}
			ssau.Instrs(f, func(in ssa.Instruction) {
				if ci, ok := in.(ssa.CallInstruction); ok {
					if sc := ci.Common().StaticCallee(); sc != nil && runs[sc] {
						if !runs[f] {
							runs[f] = true
							changed = true
						}
					}
				}
			})
		}
	}
	return runs
}

func C08(c *Ctx) {
	c.R.Explanation = "Decides structural necessary conditions of 'emission is atomic and ordered': (R1) in the ECMAScript interpreter every return that can carry a non-nil error after the program has run returns a nil Execution (core adds an Execution's events whenever it is non-nil, so this is the point that carries atomicity); (R2) the emit callback appends only to the Execution allocated by this call, and every emitted value is a private copy (not reachable from the script world or the caller's data); (R3) from the result of a guard execution only Bs and Events.Traces are read — it never reaches AddEvents/AddEmitted; (R4) the accumulation functions — every function of core or of the interpreter that extends or enumerates an ordered record (Events.Emitted, Traces.Messages, Walked.Strides), and the emit callback — contain no go statement, never extend an ordered record or call an accumulator inside a range over a map, and every such append extends its own first operand; (R5) in sio.ProcessMsg the re-queue and report appends are unconditional in the per-message callback, and each reported batch is a slice allocated inside the per-machine loop; (R6) every return of core Step that is reachable after the action's events were attached returns that stride unless the action itself failed, and Walk hands every stride returned by Step to Walked.add before the next step or a return. (R7) in cmd/mcrew every send of an emitted message on Service.Emitted is executed by Process (or a helper it calls) itself — never from a goroutine it starts, which would lose the order — inside the loop over each stride's Emitted, with that loop's element as the value. Timeouts at run time and native actions are not decided."
	c.R.Rule("C08-R1", "E3", "no emissions together with an error from the interpreter", 2)
	c.R.Rule("C08-R2", "E1", "private emit buffer; emitted values are private copies", 2)
	c.R.Rule("C08-R3", "E5", "guard executions contribute traces only", 1)
	c.R.Rule("C08-R4", "E3", "accumulators keep order: no map range, no go, append extends its own operand", 5)
	c.R.Rule("C08-R5", "E3+E1", "crew re-queues and reports every emitted message once; batches are private", 3)
	c.R.Rule("C08-R7", "E3+E7", "mcrew reports emitted messages in emission order: the hand-over to Service.Emitted is made by Process itself, inside the loop over the strides' Emitted", 1)
	c.R.Rule("C08-R6", "E3", "a completed action's events leave Step with the stride, and Walk records every stride", 3)

	a, exec := c.ecmaAnalysis()
	if a == nil {
		return
	}
	// ---- R1
	fns := ssau.WithAnon(exec)
	for f := range a.Reached {
		fns = append(fns, f)
	}
	runs := runsProgram(fns)
	var runCalls []ssa.CallInstruction
	ssau.Instrs(exec, func(in ssa.Instruction) {
		if ci, ok := in.(ssa.CallInstruction); ok {
			if sc := ci.Common().StaticCallee(); sc != nil && runs[sc] {
				runCalls = append(runCalls, ci)
			} else if strings.HasPrefix(ssau.CalleeName(ci), "(*"+gojaRuntime+".Runtime).Run") {
				runCalls = append(runCalls, ci)
			}
		}
	})
	if len(runCalls) == 0 {
		c.R.Break("C08-R1: no call that runs the program found in Interpreter.Exec")
	}
	after := map[*ssa.BasicBlock]bool{}
	for _, rc := range runCalls {
		after[rc.Block()] = true
		for b := range flow.ReachableFrom(rc.Block(), nil) {
			after[b] = true
		}
	}
	ri := 0
	for _, b := range exec.Blocks {
		ret, ok := b.Instrs[len(b.Instrs)-1].(*ssa.Return)
		if !ok || len(ret.Results) != 2 {
			continue
		}
		if !after[b] {
			continue
		}
		exe, err := ret.Results[0], ret.Results[1]
		ri++
		key := fmt.Sprintf("Exec:return-after-run#%d", ri)
		if provablyNil(err, b) {
			c.R.Discharge("C08-R1", key, c.pos(ret), "error operand is nil on this return (success)")
			continue
		}
		c.R.Check(provablyNil(exe, b), "C08-R1", key, c.pos(ret), "returns a nil Execution with the error",
			"a return that can carry a non-nil error after the program ran also returns an Execution (its emissions would be added to the stride)")
	}

	// ---- R2
	addEmitted := c.fn("core", "Events", "AddEmitted")
	n2 := 0
	if addEmitted != nil {
		var fl []*ssa.Function
		for f := range a.Reached {
			fl = append(fl, f)
		}
		sort.Slice(fl, func(i, j int) bool { return fname(fl[i]) < fname(fl[j]) })
		for _, f := range fl {
			if prog.PkgOf(f) != "interpreters/ecmascript" {
				continue
			}
			ssau.Instrs(f, func(in ssa.Instruction) {
				ci, ok := in.(ssa.CallInstruction)
				if !ok || ci.Common().StaticCallee() != addEmitted {
					return
				}
				n2++
				args := ci.Common().Args
				// receiver: *Events of the private Execution
				var badRecv []string
				for _, l := range a.PointsTo(args[0]) {
					if l.Obj.Kind != pta.KAlloc {
						badRecv = append(badRecv, pta.LocString(l))
					}
				}
				c.R.Check(len(badRecv) == 0 && len(a.PointsTo(args[0])) > 0, "C08-R2", fmt.Sprintf("%s:AddEmitted#%d:buffer", fname(f), n2), c.pos(in),
					"buffer is only: "+locsString(a.PointsTo(args[0])), "emit buffer may be shared: "+strings.Join(badRecv, ", "))
				// value
				var bad []string
				for o := range a.Reach(a.PointsTo(args[1])) {
					if o.Kind == pta.KRoot || o.Kind == pta.KWorld || o.Kind == pta.KGlobal || o.Kind == pta.KGlobalSub {
						bad = append(bad, o.Name)
					}
				}
				sort.Strings(bad)
				// ... and the other way round: nothing in the script world may still hold the emitted value (the
				// callback handing it back as its result, or keeping it somewhere the script can reach)
				worldReach := a.Reach(a.Contents(a.World, ""))
				for _, l := range a.PointsTo(args[1]) {
					if l.Obj.Kind == pta.KAlloc || l.Obj.Kind == pta.KExternal {
						if worldReach[l.Obj] {
							bad = append(bad, "the script world keeps a reference to "+l.Obj.Name+" (the emit callback returns or stores the very value it queued)")
						}
					}
				}
				sort.Strings(bad)
				c.R.Check(len(bad) == 0, "C08-R2", fmt.Sprintf("%s:AddEmitted#%d:value", fname(f), n2), c.pos(in),
					"emitted value is a private copy: "+locsString(a.PointsTo(args[1])), "emitted value stays reachable from the script world or caller data (can change after the emit): "+strings.Join(bad, ", "))
			})
		}
	}
	if n2 == 0 {
		c.R.Break("C08-R2: no AddEmitted call found in package ecmascript")
	}

	c.R.Rule("C08-R8", "E3", "a successful Exec hands back the execution that collected the emitted messages", 1)
	c08ExecHandsBack(c, "C08-R8")
	c08Wrappers(c, "C08-R1")
	c.shareRule("C11", "C11-R9", "C08-R10", "an execution whose context has ended does not count as run: it returns the timeout error and no Execution, so nothing it emitted is handed on")
	c.R.Rule("C08-R9", "E3", "only nothing, a map or bindings count as the bindings an action returned", 1)
	c08ResultKinds(c, "C08-R9")
	c08WalkHandedBack(c, "C08-R5")
	c08Guards(c)
	c08Order(c)
	c08Enumerations(c)
	c08Crew(c)
	c08Step(c)
	c08Mcrew(c)
}

// c08Guards: forward slice of every guard execution result in core.
func c08Guards(c *Ctx) {
	found := 0
	for _, f := range c.P.FuncsIn("core") {
		ssau.Instrs(f, func(in ssa.Instruction) {
			call, ok := in.(*ssa.Call)
			if !ok || !call.Common().IsInvoke() || call.Common().Method.Name() != "Exec" {
				return
			}
			if _, ok := ssau.LoadOfField(call.Common().Value, prog.Abs("core"), "Branch", "Guard"); !ok {
				// the guard handed to a helper (possibly through an interface of its own)
				isGuard := false
				ds := deepDefs(call.Common().Value, c.P.FuncsIn("core"))
				for _, d := range ds {
					if _, is := isFieldLoad(d, "core", "Branch", "Guard"); is {
						isGuard = true
					} else {
						isGuard = false
						break
					}
				}
				if !isGuard {
					return
				}
			}
			found++
			// result #0
			var exe ssa.Value
			for _, r := range ssau.Referrers(call) {
				if ex, ok := r.(*ssa.Extract); ok && ex.Index == 0 {
					exe = ex
				}
			}
			key := fmt.Sprintf("%s:guard#%d", fname(f), found)
			if exe == nil {
				c.R.Discharge("C08-R3", key, c.pos(in), "execution result unused")
				return
			}
			guardSliceScope = nil
			for _, g := range c.P.FuncsIn("core") {
				guardSliceScope = append(guardSliceScope, ssau.WithAnon(g)...)
			}
			bad := guardSlice(exe, 0, "", map[ssa.Value]bool{})
			c.R.Check(len(bad) == 0, "C08-R3", key, c.pos(in), "only .Bs and .Events.Traces.Messages are read from the guard's execution", "guard execution flows beyond Bs/Traces: "+strings.Join(bad, "; "))
		})
	}
	if found == 0 {
		c.R.Break("C08-R3: no guard execution (invoke Action.Exec on Branch.Guard) found in core")
	}
}

// guardSlice follows uses of the guard's *Execution; returns descriptions of disallowed uses.
func guardSlice(v ssa.Value, depth int, path string, seen map[ssa.Value]bool) []string {
	if seen[v] || depth > 12 {
		return nil
	}
	seen[v] = true
	var bad []string
	for _, r := range ssau.Referrers(v) {
		switch u := r.(type) {
		case *ssa.FieldAddr:
			_, fld, _, _ := ssau.FieldOf(u)
			np := path + "." + fld
			switch np {
			case ".Bs", ".Events", ".Events.Traces", ".Events.Traces.Messages":
				bad = append(bad, guardSlice(u, depth+1, np, seen)...)
			default:
				bad = append(bad, "reads "+np)
			}
		case *ssa.UnOp: // load
			if path == ".Bs" || path == ".Events.Traces.Messages" {
				continue // value reads of the allowed leaves are free
			}
			bad = append(bad, guardSlice(u, depth+1, path, seen)...)
		case *ssa.BinOp, *ssa.If, *ssa.DebugRef:
		case *ssa.Phi:
			bad = append(bad, guardSlice(u, depth+1, path, seen)...)
		case ssa.CallInstruction:
			bad = append(bad, fmt.Sprintf("passes execution%s to %s", path, pta.DescribeCall(u)))
		case *ssa.Store:
			if u.Val == v {
				bad = append(bad, "stores execution"+path)
			}
		case *ssa.Return:
			// a helper that runs the guard hands the execution to its callers: the slice goes on at every place the
			// helper runs (its static calls and the calls of its method value), which must all be known
			handed := false
			if path == "" && guardSliceScope != nil && u.Parent() != nil {
				sites, complete := valueCallSites(u.Parent(), guardSliceScope)
				if complete && len(sites) > 0 {
					handed = true
					for i, res := range u.Results {
						if res != v {
							continue
						}
						for _, s := range sites {
							sv := s.Value()
							if sv == nil {
								continue // go / defer: the result is dropped
							}
							if len(u.Results) == 1 {
								bad = append(bad, guardSlice(sv, depth+1, path, seen)...)
								continue
							}
							for _, r2 := range ssau.Referrers(sv) {
								if ex, isEx := r2.(*ssa.Extract); isEx && ex.Index == i {
									bad = append(bad, guardSlice(ex, depth+1, path, seen)...)
								} else if !isEx {
									if _, isDbg := r2.(*ssa.DebugRef); !isDbg {
										bad = append(bad, fmt.Sprintf("the results of %s are used as a whole by %T", u.Parent().Name(), r2))
									}
								}
							}
						}
					}
				}
			}
			if !handed {
				bad = append(bad, fmt.Sprintf("execution%s used by %T", path, r))
			}
		default:
			bad = append(bad, fmt.Sprintf("execution%s used by %T", path, r))
		}
	}
	return bad
}

// guardSliceScope: the functions in which the callers of a helper that returns a guard's execution are looked for.
var guardSliceScope []*ssa.Function

// c08Order: accumulators.  An accumulator is any function of core or of the
// interpreter that extends one of the ordered record fields (Events.Emitted,
// Traces.Messages, Walked.Strides) or enumerates one (ranges over
// Walked.Strides / Events.Emitted), plus every function literal of the
// interpreter that calls one (the emit callback).  Found by what they do, not
// by name.
func c08Order(c *Ctx) {
	ordered := [][2]string{{"Events", "Emitted"}, {"Traces", "Messages"}, {"Walked", "Strides"}}
	isOrderedAddr := func(addr ssa.Value) (string, bool) {
		for _, of := range ordered {
			if ssau.IsField(addr, prog.Abs("core"), of[0], of[1]) {
				return of[0] + "." + of[1], true
			}
		}
		return "", false
	}
	// a value loaded from an ordered record (possibly re-sliced)
	var loadOfOrdered func(v ssa.Value) bool
	loadOfOrdered = func(v ssa.Value) bool {
		switch x := v.(type) {
		case *ssa.UnOp:
			_, is := isOrderedAddr(x.X)
			return is
		case *ssa.Slice:
			return loadOfOrdered(x.X)
		}
		return false
	}
	var fns []*ssa.Function
	seen := map[*ssa.Function]bool{}
	for _, f := range c.P.FuncsIn("core", "interpreters/ecmascript") {
		for _, g := range ssau.WithAnon(f) {
			if !seen[g] && g.Blocks != nil {
				seen[g] = true
				fns = append(fns, g)
			}
		}
	}
	sort.Slice(fns, func(i, j int) bool { return fname(fns[i]) < fname(fns[j]) })
	isAcc := map[*ssa.Function]bool{}
	for _, f := range fns {
		ssau.Instrs(f, func(in ssa.Instruction) {
			switch x := in.(type) {
			case *ssa.Store:
				if _, is := isOrderedAddr(x.Addr); is {
					if cl, isC := x.Val.(*ssa.Call); isC {
						if b, isB := cl.Common().Value.(*ssa.Builtin); isB && b.Name() == "append" {
							isAcc[f] = true
						}
					}
					if sl, isSl := x.Val.(*ssa.Slice); isSl && loadOfOrdered(sl.X) {
						isAcc[f] = true
					}
				}
			}
		})
		for _, l := range flow.Loops(f) {
			if op := loopOperand(l); op != nil {
				if ld, isLd := op.(*ssa.UnOp); isLd {
					if _, is := isOrderedAddr(ld.X); is {
						isAcc[f] = true
					}
				}
			}
		}
	}
	// literals of the interpreter that call an accumulator
	for _, f := range fns {
		if f.Parent() == nil || prog.PkgOf(f) != "interpreters/ecmascript" {
			continue
		}
		ssau.Instrs(f, func(in ssa.Instruction) {
			if ci, ok := in.(ssa.CallInstruction); ok {
				if sc := ci.Common().StaticCallee(); sc != nil && isAcc[sc] {
					isAcc[f] = true
				}
			}
		})
	}
	for _, f := range fns {
		if !isAcc[f] {
			continue
		}
		c.R.Fn(fname(f))
		loops := flow.Loops(f)
		inMapRange := func(b *ssa.BasicBlock) bool {
			for _, l := range enclosingLoops(loops, b) {
				if op := loopOperand(l); op != nil {
					if _, isMap := op.Type().Underlying().(*types.Map); isMap {
						return true
					}
				}
			}
			return false
		}
		var bad []string
		ssau.Instrs(f, func(in ssa.Instruction) {
			switch x := in.(type) {
			case *ssa.Go:
				bad = append(bad, "go statement")
			case *ssa.If:
				// what is recorded does not depend on how much the record already holds
				var lens func(v ssa.Value, depth int) bool
				lens = func(v ssa.Value, depth int) bool {
					if depth > 4 {
						return false
					}
					switch y := v.(type) {
					case *ssa.BinOp:
						return lens(y.X, depth+1) || lens(y.Y, depth+1)
					case *ssa.UnOp:
						return lens(y.X, depth+1)
					case *ssa.Phi:
						for _, e := range y.Edges {
							if lens(e, depth+1) {
								return true
							}
						}
					case *ssa.Call:
						if bi, isBI := y.Common().Value.(*ssa.Builtin); isBI && bi.Name() == "len" && loadOfOrdered(y.Common().Args[0]) {
							return true
						}
					}
					return false
				}
				if lens(x.Cond, 0) && !flow.InCycle(x.Block()) {
					bad = append(bad, "a decision depends on how many elements the record already holds ("+c.pos(x)+"): elements beyond a limit are dropped silently")
				}
			case *ssa.Store:
				// a record only grows: it is never cut down or overwritten in place
				if _, is := isOrderedAddr(x.Addr); is {
					if sl, isSl := x.Val.(*ssa.Slice); isSl && loadOfOrdered(sl.X) && (sl.Low != nil || sl.High != nil) {
						bad = append(bad, "an ordered record is replaced by a part of itself (recorded elements are dropped)")
					}
				}
				if ia, isIA := x.Addr.(*ssa.IndexAddr); isIA && loadOfOrdered(ia.X) {
					bad = append(bad, "an element of an ordered record is overwritten in place")
				}
			case *ssa.Call:
				if b, ok := x.Common().Value.(*ssa.Builtin); ok && b.Name() == "copy" && loadOfOrdered(x.Common().Args[0]) {
					bad = append(bad, "copy() into an ordered record (recorded elements are overwritten)")
				}
				if b, ok := x.Common().Value.(*ssa.Builtin); ok && b.Name() == "append" {
					// only appends whose result goes to an ordered record (directly or through an accumulator) matter
					toOrdered := false
					for _, r := range ssau.Referrers(x) {
						if st, ok := r.(*ssa.Store); ok && st.Val == ssa.Value(x) {
							if _, is := isOrderedAddr(st.Addr); is {
								toOrdered = true
							}
						}
					}
					if !toOrdered {
						return
					}
					if inMapRange(x.Block()) {
						bad = append(bad, "an ordered record is extended inside a range over a map (order would follow map iteration)")
					}
					// result must be stored back to where the first operand was loaded from
					first := x.Common().Args[0]
					ld, ok := first.(*ssa.UnOp)
					if !ok {
						bad = append(bad, "append on a value that is not loaded from its destination")
						return
					}
					okStore := false
					for _, r := range ssau.Referrers(x) {
						if st, ok := r.(*ssa.Store); ok && st.Val == ssa.Value(x) && sameAddr(st.Addr, ld.X) {
							okStore = true
						}
					}
					if !okStore {
						bad = append(bad, "append result not stored back to its own operand")
					}
				} else if sc := x.Common().StaticCallee(); sc != nil && isAcc[sc] && inMapRange(x.Block()) {
					bad = append(bad, "an accumulator ("+sc.Name()+") is called inside a range over a map (order would follow map iteration)")
				}
			}
		})
		c.R.Check(len(bad) == 0, "C08-R4", fname(f), c.P.Pos(f.Pos()), "no go; ordered records are never extended inside a map range; appends extend their own operand; a record is never cut down or overwritten in place", strings.Join(bad, "; "))
	}
}

// sameAddr: two address expressions denote the same field of the same base value.
func sameAddr(a, b ssa.Value) bool {
	if a == b {
		return true
	}
	fa, ok1 := a.(*ssa.FieldAddr)
	fb, ok2 := b.(*ssa.FieldAddr)
	if ok1 && ok2 {
		return fa.Field == fb.Field && (fa.X == fb.X || sameLoad(fa.X, fb.X))
	}
	return false
}

func sameLoad(a, b ssa.Value) bool {
	ua, ok1 := a.(*ssa.UnOp)
	ub, ok2 := b.(*ssa.UnOp)
	if ok1 && ok2 {
		return sameAddr(ua.X, ub.X)
	}
	return false
}

// crewQueue finds the pending queue of ProcessMsg: the slice variable (web)
// whose element 0 is taken inside a loop.
type crewQueue struct {
	web  *sliceWeb
	q    ssa.Value      // a member of the queue's web
	head *ssa.IndexAddr // &pending[0]
	loop *flow.Loop     // the dequeue loop
	pm   *ssa.Function
}

func findCrewQueue(p *prog.Program, pm *ssa.Function) *crewQueue {
	w := newSliceWebDeep(p, pm)
	loops := flow.Loops(pm)
	var out *crewQueue
	// the head may be taken in ProcessMsg itself or in a helper / method of the web that has a single call (a
	// `pop()` of a queue struct): the dequeue loop is then the loop of ProcessMsg that runs that call
	fns := []*ssa.Function{pm}
	for _, f := range w.fns {
		if f != pm && w.site[f] != nil {
			fns = append(fns, f)
		}
	}
	for _, f := range fns {
		ssau.Instrs(f, func(in ssa.Instruction) {
			ia, ok := in.(*ssa.IndexAddr)
			if !ok || out != nil {
				return
			}
			sl, isSl := ia.X.Type().Underlying().(*types.Slice)
			if !isSl || !types.IsInterface(sl.Elem()) {
				return
			}
			site := w.liftTo(pm, ia)
			if site == nil {
				return
			}
			L := flow.InnermostLoop(loops, site.Block())
			if L == nil {
				return
			}
			// the same web must be re-sliced inside the loop or tested by the loop condition
			out = &crewQueue{web: w, q: ia.X, head: ia, loop: L, pm: pm}
		})
	}
	return out
}

// inLoop: the instruction runs inside the dequeue loop (directly, or in a single-call helper that the loop calls).
func (cq *crewQueue) inLoop(in ssa.Instruction) bool {
	site := cq.web.liftTo(cq.pm, in)
	return site != nil && cq.loop.Blocks[site.Block()]
}

// headBefore: the head element is taken before instruction in runs, on every way to it: in the same function by
// dominance, else by dominance of the places in ProcessMsg through which the two are reached.
func (cq *crewQueue) headBefore(in ssa.Instruction) bool {
	if cq.head.Parent() == in.Parent() {
		return flow.InstrDominates(cq.head, in)
	}
	a, b := cq.web.liftTo(cq.pm, cq.head), cq.web.liftTo(cq.pm, in)
	return a != nil && b != nil && a != b && flow.InstrDominates(a, b)
}

// c08Crew: sio.ProcessMsg re-queue and report.
func c08Crew(c *Ctx) { crewEmitted(c, "C08-R5") }

// crewEmitted: the re-queue / report rules of sio.ProcessMsg, shared by C08-R5 and C14-R5.
func crewEmitted(c *Ctx, rule string) {
	pm := c.fn("sio", "Crew", "ProcessMsg")
	if pm == nil {
		return
	}
	c.R.Fn(fname(pm))
	cq := findCrewQueue(c.P, pm)
	if cq == nil {
		c.R.Break("%s: cannot find the pending queue of ProcessMsg (no slice of messages indexed inside a loop)", rule)
		return
	}
	w := cq.web
	loopsOf := map[*ssa.Function][]*flow.Loop{}
	loopsIn := func(f *ssa.Function) []*flow.Loop {
		if _, ok := loopsOf[f]; !ok {
			loopsOf[f] = flow.Loops(f)
		}
		return loopsOf[f]
	}
	// perMachine: the per-machine loop around the block that starts the gathering — in ProcessMsg, or in a helper
	// that ProcessMsg's dequeue loop reaches through calls made from one place each (the frame) —, and checks
	// that the gathering starts on every trip.  A gathering that sits in a helper without a loop of its own (the
	// helper handles one walk) is judged at the call of that helper.
	type gathered struct {
		ok    bool
		why   string
		frame *ssa.Function // the function that holds the per-machine loop
		loop  *flow.Loop    // the per-machine loop
	}
	perMachine := func(anchor *ssa.BasicBlock, walked ssa.Value) gathered {
		for depth := 0; depth < 4; depth++ {
			if anchor == nil {
				break
			}
			F := anchor.Parent()
			if F != pm && w.site[F] == nil {
				break
			}
			// the loop over the walkeds: innermost loop containing the anchor whose header is not the anchor itself
			var L *flow.Loop
			for _, l := range enclosingLoops(loopsIn(F), anchor) {
				if l.Header != anchor {
					L = l
					break
				}
			}
			if L == nil && F != pm {
				// the helper gathers for the one walk it is given, on every way through it: judged at its call
				cl := w.site[F]
				for _, b := range F.Blocks {
					if _, isRet := b.Instrs[len(b.Instrs)-1].(*ssa.Return); isRet && !anchor.Dominates(b) {
						return gathered{why: "helper " + F.Name() + " can return without gathering the emitted messages"}
					}
				}
				par, isPar := walked.(*ssa.Parameter)
				if !isPar || par.Parent() != F {
					return gathered{why: "helper " + F.Name() + " does not enumerate the walk it is given"}
				}
				for i, hp := range F.Params {
					if hp == par && i < len(cl.Common().Args) {
						walked = stripDeref(cl.Common().Args[i])
					}
				}
				anchor = cl.Block()
				continue
			}
			if L == nil || L == cq.loop {
				return gathered{why: "emitted messages are not gathered inside a loop over the walked machines"}
			}
			if F != pm {
				// the helper that holds the per-machine loop is run by the dequeue loop
				site := w.liftTo(pm, w.site[F])
				if site == nil || !cq.loop.Blocks[site.Block()] {
					return gathered{why: "the enumeration of emitted messages does not start in ProcessMsg's loop"}
				}
			}
			for _, latch := range L.Latch {
				if !anchor.Dominates(latch) {
					return gathered{why: "emitted messages are not gathered for every walked machine"}
				}
			}
			wi, isIn := walked.(ssa.Instruction)
			if !isIn || wi.Parent() != F || !L.Blocks[wi.Block()] {
				return gathered{why: "the walk whose messages are gathered is not the loop's current machine"}
			}
			return gathered{ok: true, frame: F, loop: L}
		}
		return gathered{why: "the enumeration of emitted messages does not start in ProcessMsg"}
	}
	// ---- re-queue: pushes into the pending web inside the dequeue loop
	requeues := 0
	for _, ap := range w.appendsInto(cq.q) {
		inLoop := ap.Parent() != pm || cq.loop.Blocks[ap.Block()]
		if !inLoop {
			continue // initial message
		}
		requeues++
		elems, spread := appended(ap)
		ok, why := false, ""
		switch {
		case spread != nil:
			bi := batchOfIn(c.P, w, spread, 0)
			ok, why = bi.ok, "the re-queued batch "+bi.why
			if bi.ok {
				g := perMachine(bi.anchor, bi.walked)
				ok, why = g.ok, g.why
				if ok {
					L := flow.InnermostLoop(loopsIn(ap.Parent()), ap.Block())
					if L == nil || !lenGuardOnly(w, spread, ap.Block(), L) {
						ok, why = false, "the batch is re-queued only conditionally"
					}
				}
			}
		case len(elems) == 1:
			src := emittedSource(c.P, elems[0], ap.Block())
			switch {
			case !src.isSource:
				why = "a value other than an emitted message is queued"
			case !src.once:
				why = "the emitted message is queued conditionally or repeatedly, or the enumeration can stop early"
			default:
				g := perMachine(src.anchor, src.walked)
				ok, why = g.ok, g.why
			}
		default:
			why = "several values are queued at once"
		}
		c.R.Check(ok, rule, fmt.Sprintf("ProcessMsg:re-queue#%d", requeues), c.pos(ap), "every emitted message of every walked machine is appended to the pending queue exactly once", why)
	}
	c.R.Check(requeues == 1, rule, "ProcessMsg:one re-queue site", c.P.Pos(pm.Pos()), "one append to the pending queue per emitted message", fmt.Sprintf("expected exactly one place that re-queues emitted messages, found %d", requeues))
	// ---- report: appends to Result.Emitted
	found := 0
	for _, f := range w.fns {
		ssau.Instrs(f, func(in ssa.Instruction) {
			call, ok := in.(*ssa.Call)
			if !ok {
				return
			}
			b, ok := call.Common().Value.(*ssa.Builtin)
			if !ok || b.Name() != "append" || call.Type().String() != "[][]interface{}" {
				return
			}
			found++
			elems, spread := appended(call)
			ok2, why := false, ""
			if spread != nil || len(elems) != 1 {
				why = "something other than one batch is reported"
			} else {
				bi := batchOfIn(c.P, w, elems[0], 0)
				ok2, why = bi.ok, "the reported batch "+bi.why
				var g gathered
				if bi.ok {
					g = perMachine(bi.anchor, bi.walked)
					ok2, why = g.ok, g.why
				}
				// the report may sit in a helper (called from one place) below the function that holds the
				// per-machine loop: every level must run the next one on each way through it, unless the batch is empty
				at := ssa.Instruction(call)
				for depth := 0; ok2 && at.Parent() != g.frame; depth++ {
					cl := w.site[at.Parent()]
					switch {
					case cl == nil || depth > 3:
						ok2, why = false, "the batch is not reported from the per-machine loop"
					case !lenGuardOnlyFn(w, elems[0], at.Block()):
						ok2, why = false, "a non-empty batch may go unreported"
					default:
						at = cl
					}
				}
				if ok2 {
					L := flow.InnermostLoop(loopsIn(g.frame), at.Block())
					switch {
					case L == nil || (at != ssa.Instruction(call) && L != g.loop):
						ok2, why = false, "the batch is not reported from the per-machine loop"
					case !lenGuardOnly(w, elems[0], at.Block(), L):
						ok2, why = false, "a non-empty batch may go unreported"
					default:
						for _, o := range bi.origin {
							// storage made in a helper that the loop calls is made on that call
							oi, isIn := o.(ssa.Instruction)
							if isIn {
								oi = w.liftTo(g.frame, oi)
							}
							if !isIn || oi == nil || !L.Blocks[oi.Block()] {
								ok2, why = false, fmt.Sprintf("batch storage %s is created outside the per-machine loop (batches of different machines would share memory)", o.Name())
							}
						}
					}
				}
			}
			c.R.Check(ok2, rule, fmt.Sprintf("ProcessMsg:batch#%d reported and private", found), c.pos(in), "each walked machine's emitted messages are reported as one batch made inside the per-machine loop", why)
		})
	}
	if found == 0 {
		c.R.Break("%s: no append to Result.Emitted found in ProcessMsg", rule)
	}
}

// sliceOrigins: the allocation instructions (make / append growth is ignored) a slice value may start from.
func sliceOrigins(v ssa.Value, seen map[ssa.Value]bool) []ssa.Value {
	return sliceOriginsIn(nil, v, seen)
}

// sliceOriginsIn: sliceOrigins within a deep slice web (w may be nil): loads of the fields of a local struct and
// values that pass through a single-call helper are followed too.
func sliceOriginsIn(w *sliceWeb, v ssa.Value, seen map[ssa.Value]bool) []ssa.Value {
	if seen[v] {
		return nil
	}
	seen[v] = true
	if from, ok := w.deepOrigins(v); ok {
		var out []ssa.Value
		for _, f := range from {
			out = append(out, sliceOriginsIn(w, f, seen)...)
		}
		return out
	}
	switch x := v.(type) {
	case *ssa.MakeSlice:
		return []ssa.Value{x}
	case *ssa.Alloc:
		if _, isArr := x.Type().Underlying().(*types.Pointer).Elem().Underlying().(*types.Array); isArr {
			return []ssa.Value{x} // backing array of make([]T, n) with constant n
		}
		// (captured) slice variable: look at stores into it
		var out []ssa.Value
		collect := func(fn *ssa.Function) {}
		_ = collect
		for _, r := range ssau.Referrers(x) {
			if st, ok := r.(*ssa.Store); ok && st.Addr == ssa.Value(x) {
				out = append(out, sliceOriginsIn(w, st.Val, seen)...)
			}
			if mc, ok := r.(*ssa.MakeClosure); ok {
				fn := mc.Fn.(*ssa.Function)
				for i, b := range mc.Bindings {
					if b == ssa.Value(x) && i < len(fn.FreeVars) {
						for _, r2 := range ssau.Referrers(fn.FreeVars[i]) {
							if st, ok := r2.(*ssa.Store); ok && st.Addr == ssa.Value(fn.FreeVars[i]) {
								out = append(out, sliceOriginsIn(w, st.Val, seen)...)
							}
						}
					}
				}
			}
		}
		return out
	case *ssa.UnOp:
		return sliceOriginsIn(w, x.X, seen)
	case *ssa.Slice:
		return sliceOriginsIn(w, x.X, seen)
	case *ssa.Phi:
		var out []ssa.Value
		for _, e := range x.Edges {
			out = append(out, sliceOriginsIn(w, e, seen)...)
		}
		return out
	case *ssa.FreeVar:
		return nil
	case *ssa.Call:
		if b, ok := x.Common().Value.(*ssa.Builtin); ok && b.Name() == "append" {
			return sliceOriginsIn(w, x.Common().Args[0], seen)
		}
		return []ssa.Value{x}
	}
	return []ssa.Value{v}
}

// c08Step: once a completed action's events have been attached to the stride,
// the stride leaves Step (R6a) and Walk records it (R6b).
func c08Step(c *Ctx) {
	step := c.fn("core", "Spec", "Step")
	walk := c.fn("core", "Spec", "Walk")
	addEvents := c.P.Func("core", "Events", "AddEvents")
	if step == nil || walk == nil {
		return
	}
	c.R.Fn(fname(step))
	scope := pkgClosure(step)
	// base of a field path: stride.Events -> stride
	var base func(v ssa.Value) ssa.Value
	base = func(v ssa.Value) ssa.Value {
		switch x := v.(type) {
		case *ssa.FieldAddr:
			return base(x.X)
		case *ssa.Field:
			return base(x.X)
		case *ssa.UnOp:
			if x.Op == token.MUL {
				if fa, ok := x.X.(*ssa.FieldAddr); ok {
					return base(fa.X)
				}
			}
		}
		return v
	}
	leaves := func(v ssa.Value) map[ssa.Value]bool {
		out := map[ssa.Value]bool{}
		for _, d := range deepDefs(v, scope) {
			out[d] = true
		}
		return out
	}
	// Step and the helpers of package core it runs the action in (not branch evaluation)
	var stepFns []*ssa.Function
	{
		skip := map[*ssa.Function]bool{}
		if cons := c.P.Func("core", "Branches", "consider"); cons != nil {
			for _, f := range pkgClosure(cons) {
				skip[f] = true
			}
		}
		for _, f := range scope {
			if prog.PkgOf(f) == "core" && !skip[f] {
				stepFns = append(stepFns, f)
			}
		}
	}
	// the action's error
	var actErr ssa.Value
	for _, f := range stepFns {
		ssau.Instrs(f, func(in ssa.Instruction) {
			if ex, ok := in.(*ssa.Extract); ok && ex.Index == 1 {
				if cl, ok := ex.Tuple.(*ssa.Call); ok && cl.Common().IsInvoke() && cl.Common().Method.Name() == "Exec" {
					actErr = ex
				}
			}
		})
	}
	actionFailedAt := func(b *ssa.BasicBlock) bool {
		if actErr == nil {
			return false
		}
		for _, f := range flow.FactsAt(b) {
			bo, ok := f.Cond.(*ssa.BinOp)
			if !ok {
				continue
			}
			var v ssa.Value
			switch {
			case ssau.IsNilConst(bo.Y):
				v = bo.X
			case ssau.IsNilConst(bo.X):
				v = bo.Y
			default:
				continue
			}
			if !((bo.Op == token.NEQ && f.True) || (bo.Op == token.EQL && !f.True)) {
				continue
			}
			// the value tested is the action's error (or, along other ways, the nil constant: a helper's
			// `return bs, false, nil`), so "not nil" means the action failed
			hit, only := false, true
			for _, d := range deepDefsRecords(v, scope) {
				switch {
				case d == actErr:
					hit = true
				case ssau.IsNilConst(d):
				default:
					only = false
				}
			}
			if only && hit {
				return true
			}
		}
		return false
	}
	n := 0
	var attach []ssa.CallInstruction
	for _, f := range stepFns {
		ssau.Instrs(f, func(in ssa.Instruction) {
			if ci, ok := in.(ssa.CallInstruction); ok && ci.Common().StaticCallee() != nil && ci.Common().StaticCallee() == addEvents {
				attach = append(attach, ci)
			}
		})
	}
	for _, ci := range attach {
		site := siteInFn(step, ci)
		if site == nil {
			continue
		}
		n++
		// the stride the events are attached to: the base of the receiver `stride.Events`, also when a helper is
		// handed the stride's Events (`s.execAction(ctx, n, bs, props, stride.Events)`: the receiver is then a
		// parameter whose argument is that field of the stride)
		strideLeaves := map[ssa.Value]bool{}
		var toStride func(v ssa.Value, depth int)
		toStride = func(v ssa.Value, depth int) {
			for d := range leaves(base(v)) {
				if b2 := base(d); b2 != d && depth < 4 {
					toStride(b2, depth+1)
					continue
				}
				strideLeaves[d] = true
			}
		}
		toStride(ci.Common().Args[0], 0)
		after := flow.ReachableFrom(site.Block(), nil)
		after[site.Block()] = true
		ri := 0
		for _, b := range step.Blocks {
			ret, ok := b.Instrs[len(b.Instrs)-1].(*ssa.Return)
			if !ok || !after[b] || len(ret.Results) == 0 {
				continue
			}
			ri++
			key := fmt.Sprintf("Step:return#%d after the action's events were attached", ri)
			same := !ssau.IsNilConst(ret.Results[0])
			for d := range leaves(ret.Results[0]) {
				if !strideLeaves[d] {
					same = false
				}
			}
			switch {
			case same:
				c.R.Discharge("C08-R6", key, c.pos(ret), "returns the stride that carries the events")
			case actionFailedAt(b):
				c.R.Discharge("C08-R6", key, c.pos(ret), "reached only when the action itself failed (C08-R1: a failed execution carries no events)")
			default:
				c.R.Violate("C08-R6", key, c.pos(ret), "Step can return without the stride after a successfully completed action's events were attached to it: the action's emitted messages are dropped")
			}
		}
	}
	if n == 0 {
		c.R.Break("C08-R6: Step does not attach the action's events with Events.AddEvents")
	}
	// R6b: Walk records the stride Step returned
	c.R.Fn(fname(walk))
	// the record: a call of a function that appends its argument to Walked.Strides, or that append spelled out in Walk
	appendsToStrides := func(f *ssa.Function) (elem ssa.Value, at ssa.Instruction) {
		ssau.Instrs(f, func(in ssa.Instruction) {
			st, ok := in.(*ssa.Store)
			if !ok || !ssau.IsField(st.Addr, prog.Abs("core"), "Walked", "Strides") {
				return
			}
			if cl, isC := st.Val.(*ssa.Call); isC {
				if b, isB := cl.Common().Value.(*ssa.Builtin); isB && b.Name() == "append" {
					if es, _ := appended(cl); len(es) == 1 {
						elem, at = es[0], in
					}
				}
			}
		})
		return
	}
	var stepCall *ssa.Call
	var rec ssa.Instruction
	var recArg ssa.Value
	stepCall, _, _ = walkStepSite(c, walk, step)
	// frame: the function in which a step is taken and recorded: Walk, or — when Walk's loop body is a function of
	// its own (a method of a per-walk record, say) — the one function in Walk's closure that calls Step
	frame := walk
	if stepCall == nil {
		var holders []*ssa.Call
		for _, f := range walkScope(walk, step) {
			ssau.Instrs(f, func(in ssa.Instruction) {
				if cl, ok := in.(*ssa.Call); ok && cl.Common().StaticCallee() == step {
					holders = append(holders, cl)
				}
			})
		}
		if len(holders) == 1 {
			stepCall, frame = holders[0], holders[0].Parent()
			c.R.Fn(fname(frame))
		}
	}
	ssau.Instrs(frame, func(in ssa.Instruction) {
		if ci, ok := in.(ssa.CallInstruction); ok {
			if sc := ci.Common().StaticCallee(); sc != nil && sc.Blocks != nil && prog.PkgOf(sc) == "core" {
				if e, _ := appendsToStrides(sc); e != nil {
					if pr, isP := e.(*ssa.Parameter); isP {
						for i, fp := range sc.Params {
							if fp == pr && i < len(ci.Common().Args) {
								rec, recArg = in, ci.Common().Args[i]
							}
						}
					}
				}
			}
		}
	})
	if rec == nil {
		if e, at := appendsToStrides(frame); e != nil {
			rec, recArg = at, e
		}
	}
	if stepCall == nil || rec == nil {
		c.R.Break("C08-R6: Walk's Step call or the append to Walked.Strides not found")
		return
	}
	ok := false
	// (the stride may pass through helpers of Walk that hand it on: `stride, err = ensureStride(st, stride, err)`)
	var wscope []*ssa.Function
	for _, f := range walkScope(walk, step) {
		if f == walk || f != stepCall.Common().StaticCallee() {
			wscope = append(wscope, f)
		}
	}
	// (or a record private to the iteration whose field holds it: `attempt.ensureStride(); stride = attempt.stride`)
	for _, d := range deepDefsRecords(recArg, wscope) {
		if ex, isEx := d.(*ssa.Extract); isEx && ex.Tuple == ssa.Value(stepCall) && ex.Index == 0 {
			ok = true
		}
		if d == ssa.Value(stepCall) {
			ok = true // the step helper's result (walkStepSite)
		}
	}
	why := "Walked.add is not given the stride returned by Step"
	if ok && rec.Block() == stepCall.Block() && flow.Index(stepCall) < flow.Index(rec) {
		// recorded in the very block that takes the step
	} else if ok {
		L := flow.InnermostLoop(flow.Loops(frame), stepCall.Block())
		after := flow.ReachableFrom(stepCall.Block(), map[*ssa.BasicBlock]bool{rec.Block(): true})
		for b := range after {
			if b == rec.Block() {
				continue
			}
			last := b.Instrs[len(b.Instrs)-1]
			if _, isRet := last.(*ssa.Return); isRet {
				ok, why = false, "Walk can return after a step without recording its stride ("+c.pos(last)+")"
			}
			if L != nil && b == L.Header {
				ok, why = false, "Walk can start the next step without recording the previous stride"
			}
		}
	}
	c.R.Check(ok, "C08-R6", "Walk: every stride returned by Step is recorded", c.pos(rec), "the append of the stride to Walked.Strides lies on every path from the Step call to the next step or a return", why)
}

// c08Mcrew: C08-R7.
func c08Mcrew(c *Ctx) {
	proc := c.fn("cmd/mcrew", "Service", "Process")
	if proc == nil {
		return
	}
	// goroutine bodies started from Process's closure
	goBodies := map[*ssa.Function]bool{}
	var fns []*ssa.Function
	seen := map[*ssa.Function]bool{}
	for _, f := range pkgClosure(proc) {
		if prog.PkgOf(f) != "cmd/mcrew" {
			continue
		}
		for _, g := range ssau.WithAnon(f) {
			if !seen[g] {
				seen[g] = true
				fns = append(fns, g)
			}
		}
	}
	for _, f := range fns {
		ssau.Instrs(f, func(in ssa.Instruction) {
			if g, ok := in.(*ssa.Go); ok {
				if mc, isMC := g.Call.Value.(*ssa.MakeClosure); isMC {
					goBodies[mc.Fn.(*ssa.Function)] = true
				}
			}
		})
	}
	n := 0
	for _, st := range emittedSendSites(fns) {
		in, f := st.in, st.in.Parent()
		n++
		ok, why := true, ""
		// not in a goroutine started by Process (walk up the literal nesting)
		for g := f; g != nil; g = g.Parent() {
			if goBodies[g] {
				ok, why = false, "the send is made from a goroutine: messages of one action can be reported out of order (and a loop variable shared by the goroutines can be reported several times)"
			}
		}
		// inside a loop over Events.Emitted, sending that loop's element; a send that sits in a helper which is
		// handed the message is judged at every call of that helper
		if ok {
			ok, why = c08InEmittedLoop(in, st.val, fns, goBodies, 0)
		}
		c.R.Check(ok, "C08-R7", fmt.Sprintf("%s: hand-over to Service.Emitted #%d", fname(f), n), c.pos(in), "sent by Process itself, in emission order", why)
	}
	if n == 0 {
		c.R.Break("C08-R7: mcrew never sends on Service.Emitted")
	}
}

// c08InEmittedLoop: the instruction (a send of val, or a call that leads to one) runs inside a loop over a stride's
// Emitted — in its own function, or, when it sits in an unexported helper that sends the message it is handed, at
// every call of that helper (none of them a go statement or inside a goroutine started by Process).
func c08InEmittedLoop(in ssa.Instruction, val ssa.Value, fns []*ssa.Function, goBodies map[*ssa.Function]bool, depth int) (bool, string) {
	const notIn = "the send is not inside the loop over a stride's emitted messages"
	f := in.Parent()
	for _, l := range enclosingLoops(flow.Loops(f), in.Block()) {
		if op := loopOperand(l); op != nil {
			if _, is := ssau.LoadOfField(op, prog.Abs("core"), "Events", "Emitted"); is || strings.Contains(op.String(), "Emitted") {
				return true, ""
			}
		}
	}
	if flow.InCycle(in.Block()) {
		return false, notIn // in some other loop: not once per emitted message
	}
	par, isPar := val.(*ssa.Parameter)
	if !isPar || par.Parent() != f || f.Parent() != nil || depth > 2 || (f.Object() != nil && f.Object().Exported()) {
		return false, notIn
	}
	pi := -1
	for i, fp := range f.Params {
		if fp == par {
			pi = i
		}
	}
	// the helper may also run as a method value handed to the function that holds the loop (`b.eachEmitted(r.emit)`)
	vsites, complete := runSitesThroughValues(f, fns)
	if len(vsites) == 0 || pi < 0 || !complete {
		return false, notIn
	}
	for _, vs := range vsites {
		site := vs.site
		if _, isCall := site.(*ssa.Call); !isCall {
			return false, "the send is made from a goroutine (or deferred): messages of one action can be reported out of order"
		}
		for g := site.Parent(); g != nil; g = g.Parent() {
			if goBodies[g] {
				return false, "the send is made from a goroutine: messages of one action can be reported out of order (and a loop variable shared by the goroutines can be reported several times)"
			}
		}
		args := site.Common().Args
		if pi-vs.shift < 0 || pi-vs.shift >= len(args) {
			return false, notIn
		}
		if ok, why := c08InEmittedLoop(site, args[pi-vs.shift], fns, goBodies, depth+1); !ok {
			return false, why
		}
	}
	return true, ""
}

// sendSite: a place where a message is sent on Service.Emitted — the send itself, or the call of a helper that
// sends on the channel it is given, at a call site that gives it Service.Emitted.
type sendSite struct {
	in  ssa.Instruction
	val ssa.Value // the message, in terms of in's function (nil if the helper sends something else)
}

func emittedSendSites(fns []*ssa.Function) []sendSite {
	isEmittedChan := func(ch ssa.Value) bool {
		_, is := ssau.LoadOfField(ch, prog.Abs("cmd/mcrew"), "Service", "Emitted")
		return is
	}
	var out []sendSite
	var up func(f *ssa.Function, ch, val ssa.Value, at ssa.Instruction, depth int)
	up = func(f *ssa.Function, ch, val ssa.Value, at ssa.Instruction, depth int) {
		if isEmittedChan(ch) {
			out = append(out, sendSite{at, val})
			return
		}
		pr, isP := ch.(*ssa.Parameter)
		if !isP || depth > 2 || f.Parent() != nil {
			return
		}
		pi, vi := -1, -1
		for i, fp := range f.Params {
			if fp == pr {
				pi = i
			}
			if fp == val {
				vi = i
			}
		}
		for _, site := range callSitesOf(f, fns) {
			args := site.Common().Args
			if pi < 0 || pi >= len(args) {
				continue
			}
			var v2 ssa.Value
			if vi >= 0 && vi < len(args) {
				v2 = args[vi]
			}
			up(site.Parent(), args[pi], v2, site, depth+1)
		}
	}
	for _, f := range fns {
		ssau.Instrs(f, func(in ssa.Instruction) {
			switch x := in.(type) {
			case *ssa.Send:
				up(f, x.Chan, x.X, in, 0)
			case *ssa.Select:
				for _, st := range x.States {
					if st.Dir == types.SendOnly {
						up(f, st.Chan, st.Send, in, 0)
					}
				}
			}
		})
	}
	return out
}

// c08Enumerations (C08-R4): a counted loop over an ordered record (Walked.Strides, Events.Emitted,
// Traces.Messages) in core or the hosts visits all of it: the counter starts at 0 and is tested with `<` against
// the plain length of the record — not a length that has been reduced (the last stride of a walk that ended at its
// limit or at a breakpoint is a step that was taken, and its messages are part of the output).
func c08Enumerations(c *Ctx) {
	isRecord := func(v ssa.Value) string {
		for _, of := range [][2]string{{"Events", "Emitted"}, {"Traces", "Messages"}, {"Walked", "Strides"}} {
			if _, is := ssau.LoadOfField(v, prog.Abs("core"), of[0], of[1]); is {
				return of[0] + "." + of[1]
			}
			// a field of a struct value held in a variable (value receiver): w.Strides with w spilled
			if f, isF := v.(*ssa.Field); isF {
				if n, ok := f.X.Type().(*types.Named); ok && n.Obj().Name() == of[0] && n.Obj().Pkg() != nil && n.Obj().Pkg().Path() == prog.Abs("core") {
					if st, isSt := n.Underlying().(*types.Struct); isSt && st.Field(f.Field).Name() == of[1] {
						return of[0] + "." + of[1]
					}
				}
			}
		}
		return ""
	}
	lenOfRecord := func(v ssa.Value) string {
		cl, ok := v.(*ssa.Call)
		if !ok {
			return ""
		}
		if b, isB := cl.Common().Value.(*ssa.Builtin); !isB || b.Name() != "len" {
			return ""
		}
		return isRecord(cl.Common().Args[0])
	}
	// does v derive from len(record) by arithmetic?
	var derived func(v ssa.Value, depth int) string
	derived = func(v ssa.Value, depth int) string {
		if depth > 3 {
			return ""
		}
		if r := lenOfRecord(v); r != "" {
			return r
		}
		if bo, ok := v.(*ssa.BinOp); ok {
			if r := derived(bo.X, depth+1); r != "" {
				return r
			}
			return derived(bo.Y, depth+1)
		}
		return ""
	}
	n := 0
	for _, f := range c.P.FuncsIn("core", "sio", "cmd/mcrew", "cmd/msimple", "cmd/sheensio", "interpreters/ecmascript") {
		for _, l := range flow.Loops(f) {
			// a loop whose counter indexes an ordered record
			var ph *ssa.Phi
			rec := ""
			for b := range l.Blocks {
				for _, in := range b.Instrs {
					ia, ok := in.(*ssa.IndexAddr)
					if !ok {
						continue
					}
					r := isRecord(ia.X)
					if r == "" {
						continue
					}
					if p, isPhi := ia.Index.(*ssa.Phi); isPhi && p.Block() == l.Header {
						ph, rec = p, r
					}
				}
			}
			iff, isIf := l.Header.Instrs[len(l.Header.Instrs)-1].(*ssa.If)
			if ph == nil && isIf {
				// or whose header tests a counter against the record's length
				if bo, ok := iff.Cond.(*ssa.BinOp); ok {
					if r := derived(bo.Y, 0); r != "" {
						if p, isPhi := bo.X.(*ssa.Phi); isPhi && p.Block() == l.Header {
							ph, rec = p, r
						}
					}
				}
			}
			if ph == nil || !isIf {
				continue
			}
			n++
			out, _ := splitPhi(l, ph)
			okScan := false
			if bo, ok := iff.Cond.(*ssa.BinOp); ok && len(out) == 1 {
				// forward: from 0 while i < len(rec)
				if k, isC := ssau.ConstInt(out[0]); isC && k == 0 && bo.Op == token.LSS && bo.X == ssa.Value(ph) && lenOfRecord(bo.Y) != "" {
					okScan = true
				}
				// backward: from len(rec)-1 while 0 <= i (or i >= 0)
				if sub, isSub := out[0].(*ssa.BinOp); isSub && sub.Op == token.SUB && lenOfRecord(sub.X) != "" {
					if one, isC := ssau.ConstInt(sub.Y); isC && one == 1 {
						zeroL, isZL := ssau.ConstInt(bo.X)
						zeroR, isZR := ssau.ConstInt(bo.Y)
						if (bo.Op == token.LEQ && isZL && zeroL == 0 && bo.Y == ssa.Value(ph)) || (bo.Op == token.GEQ && isZR && zeroR == 0 && bo.X == ssa.Value(ph)) {
							okScan = true
						}
					}
				}
			}
			// no second bound on the counter: an exit from inside the loop that is decided by comparing the counter
			for b := range l.Blocks {
				if b == l.Header || len(b.Instrs) == 0 {
					continue
				}
				bi, isBI := b.Instrs[len(b.Instrs)-1].(*ssa.If)
				if !isBI {
					continue
				}
				leaves := false
				for _, sc := range b.Succs {
					if !l.Blocks[sc] {
						leaves = true
					}
				}
				if bo, isBO := bi.Cond.(*ssa.BinOp); isBO && leaves && (bo.X == ssa.Value(ph) || bo.Y == ssa.Value(ph)) {
					switch bo.Op {
					case token.LSS, token.LEQ, token.GTR, token.GEQ:
						okScan = false
					}
				}
			}
			c.R.Check(okScan, "C08-R4", fmt.Sprintf("%s: counted loop over %s #%d visits every element", fname(f), rec, n), c.pos(iff), "from 0 while i < len("+rec+"), or from len-1 down to 0", "a loop over "+rec+" does not scan all of it (it starts late, stops short, or carries a second bound): strides that were taken — and what they emitted or where they led — are left out of the answer")
		}
	}
	c.R.Extra["counted_loops_over_ordered_records"] = n
}

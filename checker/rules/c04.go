package rules

import (
	"fmt"
	"go/constant"
	"go/token"
	"go/types"
	"sort"
	"strings"

	"golang.org/x/tools/go/ssa"

	"sheensverif/internal/flow"
	"sheensverif/internal/nilc"
	"sheensverif/internal/prog"
	"sheensverif/internal/ssau"
)

func init() { Registry["C04"] = C04 }

// storesTo returns the stores in fn whose address is the given field of the given core type.
func storesTo(fn *ssa.Function, typ, field string) []*ssa.Store {
	var out []*ssa.Store
	ssau.Instrs(fn, func(in ssa.Instruction) {
		if st, ok := in.(*ssa.Store); ok && ssau.IsField(st.Addr, prog.Abs("core"), typ, field) {
			out = append(out, st)
		}
	})
	return out
}

// ifaceParam returns the (first) parameter of f whose type is the empty
// interface: the pending message of Step/consider, the value matched against in try.
func ifaceParam(f *ssa.Function) *ssa.Parameter {
	for _, p := range f.Params {
		if it, ok := p.Type().Underlying().(*types.Interface); ok && it.NumMethods() == 0 {
			if _, named := p.Type().(*types.Named); !named {
				return p
			}
		}
	}
	return nil
}

func C04(c *Ctx) {
	c.R.Explanation = "Decides structural necessary conditions of the documented transition rule on the SSA form of Spec.Step, Branches.consider and Branch.try: (R1) branches are tried in ascending slice order and the first non-nil result or error leaves the loop; (R2) with a guard the bindings of the next state derive only from the guard execution's non-nil Bs, without a guard only from the single match result — the input bindings and the raw candidate never become the result; (R3) the 'consumed' flag is exactly Type==\"message\", Stride.Consumed is stored only under it, the value matched against is the pending message under the flag and the current bindings otherwise, a missing message returns before any branch is tried, and the branching-type constants form one set; (R4) the action runs before the branches and on its success the bindings given to branch evaluation are the execution's Bs; (R5) the branch target is resolved from the same bindings that become the next state's bindings; (R6) no 'no match' exit precedes the matcher: every plain nil-state return of try is after the Match call (or on the pattern-less path). (R7) an ECMAScript guard that rejects, or an action that fails, cannot have changed the current bindings in place, because nothing reachable from them is reachable from what the script is given. (R8) in the ECMAScript interpreter, wherever the script's result is known to be an object (the map case of the result conversion), the bindings that leave that case are never the nil constant: nil bindings mean 'the guard rejected'. (R9) no function of package core assigns Spec.ActionErrorNode or Spec.ActionErrorBranches of an existing spec: where a failed action takes the machine is the spec author's setting, which Step reads at run time. Agreement with a reference interpreter on generated specs is not decided."
	c.R.Rule("C04-R1", "E3", "listed order, first success wins", 3)
	c.R.Rule("C04-R2", "E5", "guard gating", 2)
	c.R.Rule("C04-R3", "E5+E6", "consumption discipline", 5)
	c.R.Rule("C04-R4", "E5", "action result replaces bindings", 2)
	c.R.Rule("C04-R5", "E5", "target resolved from the resulting bindings", 1)
	c.R.Rule("C04-R6", "E3", "only the matcher and the guard decide a branch", 2)
	c.R.Rule("C04-R8", "E3", "a script that returns an object yields non-nil bindings (an accepting guard is not read as a rejecting one)", 1)
	c.shareRule("C13", "C13-R2", "C04-R15", "the action and guards that run are the node's own sources, each compiled (by the interpreter it names)")
	c.shareRule("C02", "C02-R8", "C04-R12", "a state without bindings is stepped like one with empty bindings: the branches' patterns are matched from a non-nil copy")
	c.shareRule("C15", "C15-R6", "C04-R13", "what an action or guard answers depends on the bindings and message of this step only: no script runtime survives from an earlier execution")
	c.shareRule("C02", "C02-R4", "C04-R14", "the pattern of a branch is matched against the whole message: members of an array that were not consumed stay available (merged under fresh indexes)")
	c.shareRule("C18", "C18-R3", "C04-R10", "a guard's rejection survives the wrapper every guard runs through: nil bindings stay nil")
	c.R.Rule("C04-R11", "E3", "a failed action is routed by the spec's settings alone: the exits on the failed-action path depend only on the action's result, ActionErrorBranches and ActionErrorNode", 2)
	c.R.Rule("C04-R16", "E3", "every candidate the matcher found is offered to the guard", 1)
	c04AllCandidates(c, "C04-R16")
	c.shareRule("C13", "C13-R1", "C04-R20", "a branch pattern is matched in the form JSON gives it: what ParsePatterns stores is the canonicalised parser output, whatever the pattern looks like")
	c.shareRule("C18", "C18-R10", "C04-R19", "the bindings the branches see, and the state that continues, are what the action or guard returned: the engine removes none of them")
	c.R.Rule("C04-R17", "E3", "a guard's error ends the step", 1)
	c04GuardErrorEnds(c, "C04-R17")
	c.R.Rule("C04-R18", "E7", "who may call: the engine hands the context on and never consults it", 1)
	c04EngineIgnoresCtx(c, "C04-R18")
	c.R.Rule("C04-R9", "E7", "who may write: the engine never assigns the spec's action-error routing settings", 1)
	c.R.Rule("C04-R7", "E1", "a guard or action cannot change the current bindings in place (scripts see copies)", 1)
	step := c.fn("core", "Spec", "Step")
	consider := c.fn("core", "Branches", "consider")
	try := c.fn("core", "Branch", "try")
	if step == nil || consider == nil || try == nil {
		return
	}
	c.R.Fn(fname(step), fname(consider), fname(try))

	// ------------------------------------------------------------ R7
	if ea, _ := c.ecmaAnalysis(); ea != nil {
		if c.scriptIsolation("C04-R7", ea, true) == 0 {
			c.R.Break("C04-R7: no value handed to the script runtime found")
		}
	}
	// ------------------------------------------------------------ R8
	c04ObjectResult(c)
	// ------------------------------------------------------------ R9: how action errors are routed is the spec author's setting
	{
		var bad []string
		nread := 0
		for _, f := range c.P.FuncsIn("core") {
			for _, fld := range []string{"ActionErrorNode", "ActionErrorBranches"} {
				for _, st := range storesTo(f, "Spec", fld) {
					if _, _, base, _ := ssau.FieldOf(st.Addr); localFresh(base) {
						continue // building a new Spec value (Copy): judged by C12-R5
					}
					bad = append(bad, fmt.Sprintf("%s assigns Spec.%s (%s)", fname(f), fld, c.pos(st)))
				}
				nread += len(nilc.FieldLoads([]*ssa.Function{f}, prog.Abs("core"), "Spec", fld))
			}
		}
		sort.Strings(bad)
		c.R.Check(len(bad) == 0 && nread >= 2, "C04-R9", "core: the action-error routing settings are only read", c.P.Pos(step.Pos()), fmt.Sprintf("%d reads, no assignment of Spec.ActionErrorNode / Spec.ActionErrorBranches in package core", nread), strings.Join(bad, "; ")+": the engine changes where a failed action takes the machine (the setting is the spec's, and Step reads it at run time)")
	}
	// ------------------------------------------------------------ R1 (consider)
	// consider with the helpers it may be split into (Branch.try and what it runs stay opaque)
	considerFns := []*ssa.Function{consider}
	{
		skip := map[*ssa.Function]bool{}
		for _, f := range pkgClosure(try) {
			skip[f] = true
		}
		for _, f := range pkgClosure(consider) {
			if f != consider && f != step && !skip[f] && prog.PkgOf(f) == "core" {
				considerFns = append(considerFns, f)
			}
		}
	}
	var tryCalls []*ssa.Call
	ssau.Instrs(consider, func(in ssa.Instruction) {
		if ci, ok := in.(*ssa.Call); ok && ci.Common().StaticCallee() == try {
			tryCalls = append(tryCalls, ci)
		}
	})
	if len(tryCalls) != 1 {
		c.R.Violate("C04-R1", "consider: one try call in the branch loop", c.P.Pos(consider.Pos()), fmt.Sprintf("%d calls of Branch.try in consider", len(tryCalls)))
	} else {
		tc := tryCalls[0]
		loops := flow.Loops(consider)
		L := flow.InnermostLoop(loops, tc.Block())
		if L == nil {
			c.R.Violate("C04-R1", "consider: branch loop", c.pos(tc), "Branch.try is not called in a loop over the branches")
		} else {
			// receiver = *(&slice[idx]) with slice = load Branches.Branches
			okRecv, okOrder := false, false
			if ld, ok := tc.Common().Args[0].(*ssa.UnOp); ok {
				if ia, ok := ld.X.(*ssa.IndexAddr); ok {
					if _, is := isFieldLoad(ia.X, "core", "Branches", "Branches"); is {
						okRecv = true
					}
					// index: phi or phi+1 with phi back edge phi+1, init constant, loop exits on idx < len false
					idx := ia.Index
					var phi *ssa.Phi
					if b, ok := idx.(*ssa.BinOp); ok && b.Op == token.ADD {
						if p, ok := b.X.(*ssa.Phi); ok {
							if n, isC := ssau.ConstInt(b.Y); isC && n == 1 {
								phi = p
							}
						}
					} else if p, ok := idx.(*ssa.Phi); ok {
						phi = p
					}
					if phi != nil && phi.Block() == L.Header {
						out, back := splitPhi(L, phi)
						good := len(out) == 1 && len(back) >= 1
						if good {
							_, good = ssau.ConstInt(out[0])
						}
						for _, bv := range back {
							b, ok := bv.(*ssa.BinOp)
							if !ok || b.Op != token.ADD || b.X != ssa.Value(phi) {
								good = false
								continue
							}
							if n, isC := ssau.ConstInt(b.Y); !isC || n != 1 {
								good = false
							}
						}
						okOrder = good
					}
				}
			}
			c.R.Check(okRecv, "C04-R1", "consider: tries elements of Branches.Branches", c.pos(tc), "receiver of try is an element of the node's branch slice", "try is not applied to the elements of Branches.Branches")
			c.R.Check(okOrder, "C04-R1", "consider: ascending order", c.pos(tc), "index starts at a constant and advances by +1", "branches are not visited in ascending listed order")
			// first success / error leaves the loop
			// (try may hand its results back as a tuple or bundled in one struct: then every read of the field is the
			// result)
			tryStateIdx, tryErrIdx := 0, 2
			if resultStruct(try.Signature) != nil {
				tryStateIdx = logicalResultIdx(try.Signature, func(t types.Type) bool { return ssau.TypeIs(t, prog.Abs("core"), "State") })
				tryErrIdx = logicalResultIdx(try.Signature, isErrorType)
			}
			toAll := map[ssa.Value]bool{}
			errAll := map[ssa.Value]bool{}
			if tryStateIdx >= 0 {
				for _, v := range callResultParts(tc, tryStateIdx) {
					toAll[v] = true
				}
			}
			if tryErrIdx >= 0 {
				for _, v := range callResultParts(tc, tryErrIdx) {
					errAll[v] = true
				}
			}
			leave := func(vs map[ssa.Value]bool, what string) {
				if len(vs) == 0 {
					c.R.Violate("C04-R1", "consider: "+what+" leaves the loop", c.pos(tc), what+" of try is ignored")
					return
				}
				ok := false
				for _, b := range consider.Blocks {
					iff, isIf := b.Instrs[len(b.Instrs)-1].(*ssa.If)
					if !isIf {
						continue
					}
					bo, isB := iff.Cond.(*ssa.BinOp)
					if !isB || !vs[bo.X] || !ssau.IsNilConst(bo.Y) || !L.Blocks[b] {
						continue
					}
					succ := 0
					if bo.Op == token.EQL {
						succ = 1
					}
					s := b.Succs[succ]
					// from s the loop header must be unreachable
					if !flow.Reachable(s, L.Header, nil) {
						ok = true
						// and the function returns v (for the state) from there
					}
				}
				if !ok {
					// the test may live in a helper that is handed the result and tells whether the loop is over
					// (`if acc.record(br, to, traces, err) { break }`): on the edge that stays in the loop the helper's
					// verdict implies that the result was nil
					for _, b := range consider.Blocks {
						iff, isIf := b.Instrs[len(b.Instrs)-1].(*ssa.If)
						if !isIf || !L.Blocks[b] || len(b.Succs) != 2 {
							continue
						}
						for si, s := range b.Succs {
							if flow.Reachable(s, L.Header, nil) {
								continue
							}
							// s leaves the loop for good: what does the other verdict of the helper say?
							for _, f := range flow.Expand([]flow.Fact{{Cond: iff.Cond, True: si == 0, If: iff}}) {
								var cl *ssa.Call
								ri := 0
								switch x := f.Cond.(type) {
								case *ssa.Call:
									cl = x
								case *ssa.Extract:
									if c2, isC := x.Tuple.(*ssa.Call); isC {
										cl, ri = c2, x.Index
									}
								}
								if cl == nil {
									continue
								}
								h := cl.Common().StaticCallee()
								inScope := false
								for _, g := range considerFns {
									inScope = inScope || (g == h && h != consider)
								}
								if !inScope {
									continue
								}
								for ai, a := range cl.Common().Args {
									if !vs[a] || ai >= len(h.Params) {
										continue
									}
									par := h.Params[ai]
									isNil := func(b *ssa.BasicBlock, extra []flow.Fact) bool {
										for _, ft := range append(append([]flow.Fact{}, flow.FactsAt(b)...), extra...) {
											if bo, isB := ft.Cond.(*ssa.BinOp); isB && bo.X == ssa.Value(par) && ssau.IsNilConst(bo.Y) {
												if (bo.Op == token.EQL && ft.True) || (bo.Op == token.NEQ && !ft.True) {
													return true
												}
											}
										}
										return false
									}
									if f.True && falseImplies(h, ri, isNil) {
										ok = true
									}
									if !f.True && trueImplies(h, ri, isNil) {
										ok = true
									}
								}
							}
						}
					}
				}
				c.R.Check(ok, "C04-R1", "consider: "+what+" leaves the loop", c.pos(tc), "a non-nil "+what+" ends the loop (later branches are not tried)", "a non-nil "+what+" does not end the branch loop")
			}
			leave(toAll, "next state")
			leave(errAll, "error")
			// the returned state is try's state
			okRet := false
			considerStateIdx := logicalResultIdx(consider.Signature, func(t types.Type) bool { return ssau.TypeIs(t, prog.Abs("core"), "State") })
			for _, b := range consider.Blocks {
				ret, ok := b.Instrs[len(b.Instrs)-1].(*ssa.Return)
				if !ok {
					continue
				}
				lr := logicalResults(ret)
				if lr == nil && resultStruct(consider.Signature) != nil {
					c.R.Violate("C04-R1", "consider: returns the state of the first successful branch", c.pos(ret), "cannot tell which state this return of consider hands back (the result struct is not built at the return)")
					continue
				}
				if len(lr) != 4 || considerStateIdx < 0 || ssau.IsNilConst(lr[considerStateIdx]) {
					continue
				}
				res := lr[considerStateIdx]
				// (the state may come back through a private record that a helper fills: then every state it can hold
				// at this return other than nil is try's)
				viaRecord, nState := !toAll[res], 0
				if viaRecord {
					for _, d := range resolveCells(res, consider, considerFns) {
						if ssau.IsNilConst(d) {
							continue
						}
						nState++
						if !toAll[d] {
							viaRecord = false
						}
					}
				}
				if viaRecord && nState == 0 {
					continue // nil at this return
				}
				if toAll[res] || viaRecord {
					okRet = true
				} else {
					okRet = false
					c.R.Violate("C04-R1", "consider: returns the state of the first successful branch", c.pos(ret), "consider returns a state that is not the result of the branch that succeeded")
				}
			}
			c.R.Check(okRet, "C04-R1", "consider: returns the state of the first successful branch", c.pos(tc), "the non-nil state returned is try's result", "no return of try's state")
		}
	}

	// ------------------------------------------------------------ R3 (consider + Step)
	var consumer *ssa.BinOp
	ssau.Instrs(consider, func(in ssa.Instruction) {
		if b, ok := in.(*ssa.BinOp); ok && b.Op == token.EQL {
			if _, is := isFieldLoad(b.X, "core", "Branches", "Type"); is {
				if s, isS := ssau.ConstString(b.Y); isS && s == "message" {
					consumer = b
				}
			}
		}
	})
	if consumer == nil {
		c.R.Violate("C04-R3", "consider: consumer flag", c.P.Pos(consider.Pos()), "no test Type == \"message\" in consider")
	} else {
		// isConsumer: the branching-type test itself, or a read of a private local cell (a field of a local struct, say)
		// that holds nothing but that test
		isConsumer := func(v ssa.Value) bool {
			if v == ssa.Value(consumer) {
				return true
			}
			defs, zero, ok := privateCellDefs(v)
			if !ok {
				// ... or of a field of a private record that helpers of consider read and write
				ds := resolveCells(v, consider, considerFns)
				for _, d := range ds {
					if d != ssa.Value(consumer) {
						return false
					}
				}
				return len(ds) > 0
			}
			if zero || len(defs) == 0 {
				return false
			}
			for _, d := range defs {
				if d.v != ssa.Value(consumer) {
					return false
				}
			}
			return true
		}
		// isFalse: the constant false, also as the value a private record's field has before it was written
		isFalse := func(v ssa.Value) bool {
			ds := []ssa.Value{v}
			if _, isC := v.(*ssa.Const); !isC {
				ds = resolveCells(v, consider, considerFns)
			}
			for _, d := range ds {
				cst, isC := d.(*ssa.Const)
				if !isC || cst.Value == nil || cst.Value.String() != "false" {
					return false
				}
			}
			return len(ds) > 0
		}
		// consumerFact: what the facts say about the branching-type test
		consumerFact := func(facts []flow.Fact) (known, val bool) {
			for _, f := range facts {
				if isConsumer(f.Cond) {
					known, val = true, f.True
				}
			}
			return
		}
		nret := 0
		for _, b := range consider.Blocks {
			ret, ok := b.Instrs[len(b.Instrs)-1].(*ssa.Return)
			if !ok {
				continue
			}
			// (the results may be bundled in one struct built at the return: then the consumed result is its bool field)
			lres, flagIdx := logicalResults(ret), 2
			if resultStruct(consider.Signature) != nil {
				flagIdx = logicalResultIdx(consider.Signature, isBoolType)
				if lres == nil || flagIdx < 0 {
					c.R.Violate("C04-R3", fmt.Sprintf("consider: return#%d reports Type==\"message\"", nret+1), c.pos(ret), "cannot tell what this return of consider reports as consumed (the result struct is not built at the return)")
					nret++
					continue
				}
			}
			if len(lres) != 4 {
				continue
			}
			retFlag := lres[flagIdx]
			if !consumer.Block().Dominates(b) || consumer.Block() == b && false {
				// before the flag is known (nil branches): must be false
				c.R.Check(isFalse(retFlag), "C04-R3", fmt.Sprintf("consider: return#%d before branching type is read reports not consumed", nret), c.pos(ret), "constant false", "consumed reported without message branching")
				nret++
				continue
			}
			nret++
			same := isConsumer(retFlag)
			if cst, isC := retFlag.(*ssa.Const); isC && cst.Value != nil && cst.Value.Kind() == constant.Bool {
				// a literal where the test is already decided the same way is the test's value
				if known, val := consumerFact(flow.FactsAt(b)); known && val == constant.BoolVal(cst.Value) {
					same = true
				}
			}
			c.R.Check(same, "C04-R3", fmt.Sprintf("consider: return#%d reports Type==\"message\"", nret), c.pos(ret), "consumed result is the branching-type test", "the consumed result is not exactly 'Type == \"message\"'")
		}
		// against
		if len(tryCalls) == 1 {
			ag := tryCalls[0].Common().Args[3]
			// the ways the matched value comes about, each with the facts of that way: the edges of a phi, or the
			// stores into a private local cell
			type agWay struct {
				v     ssa.Value
				facts []flow.Fact
			}
			var ways []agWay
			if p, ok := ag.(*ssa.Phi); ok {
				for i, e := range p.Edges {
					ways = append(ways, agWay{e, flow.EdgeFacts(p.Block().Preds[i], p.Block())})
				}
			} else if defs, zero, ok := privateCellDefs(ag); ok && !zero {
				for _, d := range defs {
					ways = append(ways, agWay{d.v, flow.FactsAt(d.b)})
				}
			}
			okAg := len(ways) >= 2
			nMsg, nBs := 0, 0
			for _, w := range ways {
				_, isMsg := consumerFact(w.facts)
				if pr, isP := w.v.(*ssa.Parameter); isP && pr == ifaceParam(consider) {
					nMsg++
					if !isMsg {
						okAg = false
					}
				} else if pr, isP := ssau.Strip(w.v).(*ssa.Parameter); isP {
					nBs++
					if !ssau.TypeIs(pr.Type(), prog.Abs("match"), "Bindings") || isMsg {
						okAg = false
					}
				} else {
					okAg = false
				}
			}
			if _, isPhi := ag.(*ssa.Phi); isPhi && len(ways) != 2 {
				okAg = false
			}
			if nMsg == 0 || nBs == 0 {
				okAg = false
			}
			c.R.Check(okAg, "C04-R3", "consider: matched against message or bindings", c.pos(tryCalls[0]), "pending message under message branching, current bindings otherwise", "the value the patterns are matched against is not (message under message branching | bindings otherwise)")
			// missing message: some return that cannot reach the branch loop holds (consumer, pending == nil),
			// and the message reaches try only where it is known non-nil
			okMissing := false
			isPendingNil := func(f flow.Fact, wantNil bool) bool {
				bo, isB := f.Cond.(*ssa.BinOp)
				if !isB || !ssau.IsNilConst(bo.Y) {
					return false
				}
				pr, isP := bo.X.(*ssa.Parameter)
				if !isP || pr != ifaceParam(consider) {
					return false
				}
				isNil := (bo.Op == token.EQL && f.True) || (bo.Op == token.NEQ && !f.True)
				return isNil == wantNil
			}
			for _, b := range consider.Blocks {
				if _, isRet := b.Instrs[len(b.Instrs)-1].(*ssa.Return); !isRet || flow.Reachable(b, tryCalls[0].Block(), nil) {
					continue
				}
				hasNil := false
				for _, f := range flow.FactsAt(b) {
					if isPendingNil(f, true) {
						hasNil = true
					}
				}
				if known, val := consumerFact(flow.FactsAt(b)); known && val && hasNil {
					okMissing = true
				}
			}
			if okMissing {
				for _, w := range ways {
					if pr, isP := w.v.(*ssa.Parameter); isP && pr == ifaceParam(consider) {
						nonNil := false
						for _, f := range w.facts {
							if isPendingNil(f, false) {
								nonNil = true
							}
						}
						if !nonNil {
							okMissing = false
						}
					}
				}
			}
			c.R.Check(okMissing, "C04-R3", "consider: no message, nothing happens", c.P.Pos(consider.Pos()), "message branching without a pending message returns before any branch is tried", "message branching without a pending message still tries branches")
		}
	}
	// Step: Stride.Consumed stored only under consider's flag, value = pending parameter
	var considerCall *ssa.Call
	ssau.Instrs(step, func(in ssa.Instruction) {
		if ci, ok := in.(*ssa.Call); ok && ci.Common().StaticCallee() == consider {
			considerCall = ci
		}
	})
	if considerCall == nil {
		c.R.Break("C04: Step does not call Branches.consider")
		return
	}
	// the consumed flag: result #2 of consider, or every read of the bool field of the struct consider bundles its results in
	considerFlagIdx := 2
	if resultStruct(consider.Signature) != nil {
		considerFlagIdx = logicalResultIdx(consider.Signature, isBoolType)
	}
	isFlag := func(v ssa.Value) bool { return isCallResultPart(v, considerCall, considerFlagIdx) }
	cs := storesTo(step, "Stride", "Consumed")
	c.R.Check(len(cs) == 1, "C04-R3", "Step: one store to Stride.Consumed", c.P.Pos(step.Pos()), "one store", fmt.Sprintf("%d stores to Stride.Consumed", len(cs)))
	for _, st := range cs {
		under := false
		for _, f := range flow.FactsAt(st.Block()) {
			if isFlag(f.Cond) && f.True {
				under = true
			}
		}
		// ... and under nothing else that is decided after branch evaluation (whether or not a branch was taken, or failed)
		before := map[flow.Fact]bool{}
		for _, f := range flow.FactsAt(considerCall.Block()) {
			before[f] = true
		}
		for _, f := range flow.FactsAt(st.Block()) {
			if !before[f] && !(isFlag(f.Cond) && f.True) {
				under = false
			}
		}
		pr, isP := st.Val.(*ssa.Parameter)
		c.R.Check(under && isP && pr == ifaceParam(step), "C04-R3", "Step: Consumed = pending under the consumed flag", c.pos(st), "stored only when consider reports consumption", "Stride.Consumed is not (pending message iff message branching)")
	}
	// branching-type constants
	consts := map[string]bool{}
	for _, f := range c.P.FuncsIn("core") {
		ssau.Instrs(f, func(in ssa.Instruction) {
			if b, ok := in.(*ssa.BinOp); ok && (b.Op == token.EQL || b.Op == token.NEQ) {
				if _, is := isFieldLoad(b.X, "core", "Branches", "Type"); is {
					if s, isS := ssau.ConstString(b.Y); isS {
						consts[s] = true
					}
				}
			}
		})
	}
	var cl []string
	for k := range consts {
		cl = append(cl, fmt.Sprintf("%q", k))
	}
	sort.Strings(cl)
	okSet := true
	for k := range consts {
		if k != "" && k != "message" && k != "bindings" {
			okSet = false
		}
	}
	c.R.Check(okSet && consts["message"], "C04-R3", "core: branching type constants", c.P.Pos(consider.Pos()), "compared constants: "+strings.Join(cl, ","), "branching type is compared with a constant outside {\"\", \"message\", \"bindings\"}: "+strings.Join(cl, ","))

	// ------------------------------------------------------------ R4 (Step, and the helper it may run the action in)
	var stepFns []*ssa.Function
	{
		skip := map[*ssa.Function]bool{}
		for _, f := range pkgClosure(consider) {
			skip[f] = true
		}
		for _, f := range pkgClosure(step) {
			if prog.PkgOf(f) == "core" && !skip[f] {
				stepFns = append(stepFns, f)
			}
		}
	}
	var actionCall *ssa.Call
	for _, f := range stepFns {
		ssau.Instrs(f, func(in ssa.Instruction) {
			if ci, ok := in.(*ssa.Call); ok && ci.Common().IsInvoke() && ci.Common().Method.Name() == "Exec" {
				all := true
				ds := deepDefs(ci.Common().Value, stepFns)
				for _, d := range ds {
					if _, is := isFieldLoad(d, "core", "Node", "Action"); !is {
						all = false
					}
				}
				if all && len(ds) > 0 {
					actionCall = ci
				}
			}
		})
	}
	var actionSite ssa.Instruction
	if actionCall != nil {
		actionSite = siteInFn(step, actionCall)
	}
	if actionCall == nil || actionSite == nil {
		c.R.Violate("C04-R4", "Step: executes the node's action", c.P.Pos(step.Pos()), "no invoke of Node.Action.Exec in Step")
	} else {
		// runs first
		c.R.Check(flow.Reachable(actionSite.Block(), considerCall.Block(), nil) && !flow.Reachable(considerCall.Block(), actionSite.Block(), nil), "C04-R4", "Step: action before branches", c.pos(actionCall), "the action call precedes branch evaluation", "branch evaluation can precede the action")
		// action gets the state's bindings
		isStBs := true
		bl := deepDefs(actionCall.Common().Args[1], stepFns)
		for _, d := range bl {
			if _, is := isFieldLoad(d, "core", "State", "Bs"); !is {
				isStBs = false
			}
		}
		c.R.Check(isStBs && len(bl) > 0, "C04-R4", "Step: action receives the current bindings", c.pos(actionCall), "State.Bs of the given state", "the action is not given the current state's bindings")
		var exe, aerr ssa.Value
		for _, r := range ssau.Referrers(actionCall) {
			if ex, ok := r.(*ssa.Extract); ok {
				if ex.Index == 0 {
					exe = ex
				} else {
					aerr = ex
				}
			}
		}
		bsArg := considerCall.Common().Args[2]
		okRepl := false
		var why []string
		for _, src := range sourcesWithFacts(bsArg, stepFns) {
			succ := false
			if fs := flow.Expand(src.facts); factsContradict(fs, fs) {
				// a way that cannot be taken: it needs the same test to come out both ways (`if err != nil {...}`
				// followed by `switch { case err == nil: ...`): the value that flows along it never arrives
				continue
			}
			for _, f := range flow.Expand(src.facts) {
				if b, isB := f.Cond.(*ssa.BinOp); isB && sameValue(b.X, aerr, actionCall.Parent()) && ssau.IsNilConst(b.Y) {
					if (b.Op == token.EQL && f.True) || (b.Op == token.NEQ && !f.True) {
						succ = true
					}
				}
			}
			if succ {
				base, is := isFieldLoad(src.leaf, "core", "Execution", "Bs")
				if is && sameValue(base, exe, actionCall.Parent()) {
					okRepl = true
				} else {
					why = append(why, "on the action's success edge the bindings are "+src.leaf.Name()+", not the execution's Bs")
					okRepl = false
					break
				}
			}
		}
		c.R.Check(okRepl, "C04-R4", "Step: action result replaces bindings", c.pos(considerCall), "on err == nil branch evaluation gets Execution.Bs", "after a successful action the branches do not see the bindings the action returned; "+strings.Join(why, "; "))
	}

	// ------------------------------------------------------------ R11: where a failed action goes is decided by the spec's two settings alone
	if actionCall != nil {
		var exe, aerr ssa.Value
		for _, r := range ssau.Referrers(actionCall) {
			if ex, ok := r.(*ssa.Extract); ok {
				if ex.Index == 0 {
					exe = ex
				} else {
					aerr = ex
				}
			}
		}
		// what a condition is about: "exec" (the execution's results), "setting" (the two routing settings), "" (anything else)
		var about func(v ssa.Value, depth int) map[string]bool
		about = func(v ssa.Value, depth int) map[string]bool {
			out := map[string]bool{}
			if depth > 6 {
				out["other"] = true
				return out
			}
			merge := func(m map[string]bool) {
				for k := range m {
					out[k] = true
				}
			}
			switch x := v.(type) {
			case *ssa.Const:
				return out
			case *ssa.BinOp:
				merge(about(x.X, depth+1))
				merge(about(x.Y, depth+1))
				return out
			case *ssa.UnOp:
				if x.Op == token.NOT {
					return about(x.X, depth+1)
				}
			case *ssa.Call:
				if b, isB := x.Common().Value.(*ssa.Builtin); isB && b.Name() == "len" {
					return about(x.Common().Args[0], depth+1)
				}
			}
			if sameValue(v, aerr, actionCall.Parent()) || sameValue(v, exe, actionCall.Parent()) {
				out["exec"] = true
				return out
			}
			ds := deepDefs(v, stepFns)
			if len(ds) == 0 {
				out["other"] = true
			}
			for _, d := range ds {
				if d == aerr || d == exe {
					out["exec"] = true
					continue
				}
				if _, isC := d.(*ssa.Const); isC {
					continue
				}
				if _, is := isFieldLoad(d, "core", "Spec", "ActionErrorNode"); is {
					out["node"] = true
					continue
				}
				if _, is := isFieldLoad(d, "core", "Spec", "ActionErrorBranches"); is {
					out["branches"] = true
					continue
				}
				if d != v {
					if _, isB := d.(*ssa.BinOp); isB {
						merge(about(d, depth+1))
						continue
					}
				}
				out["other"] = true
			}
			return out
		}
		n11 := 0
		for _, f := range stepFns {
			site := siteInFn(f, actionCall)
			if site == nil {
				continue
			}
			before := map[flow.Fact]bool{}
			for _, ft := range flow.FactsAt(site.Block()) {
				before[ft] = true
			}
			for _, b := range f.Blocks {
				if len(b.Instrs) == 0 {
					continue
				}
				ret, isRet := b.Instrs[len(b.Instrs)-1].(*ssa.Return)
				if !isRet || !flow.Reachable(site.Block(), b, nil) {
					continue
				}
				failed := false
				var post []flow.Fact
				for _, ft := range flow.FactsAt(b) {
					if before[ft] {
						continue
					}
					post = append(post, ft)
					if bo, isB := ft.Cond.(*ssa.BinOp); isB && ssau.IsNilConst(bo.Y) && ((bo.Op == token.NEQ && ft.True) || (bo.Op == token.EQL && !ft.True)) {
						if _, isErr := bo.X.Type().Underlying().(*types.Interface); isErr && bo.X.Type().String() == "error" && about(bo.X, 0)["exec"] {
							failed = true
						}
					}
				}
				if !failed {
					continue
				}
				// the exits this return stands for: itself, or — when it hands on the results of a helper that was
				// called on the failed-action path (actionFailed(...) returning a "done" flag, say) — the returns of
				// that helper which the facts here allow, each with the facts that hold there
				type exit struct {
					ret  *ssa.Return
					post []flow.Fact
				}
				var exits []exit
				var expand func(ret *ssa.Return, post []flow.Fact, depth int)
				expand = func(ret *ssa.Return, post []flow.Fact, depth int) {
					var via *ssa.Call
					if depth < 3 {
						cands := map[*ssa.Call]bool{}
						note := func(v ssa.Value) {
							var cl *ssa.Call
							switch x := v.(type) {
							case *ssa.Extract:
								cl, _ = x.Tuple.(*ssa.Call)
							case *ssa.Call:
								cl = x
							}
							if cl != nil {
								cands[cl] = true
							}
						}
						for _, r := range ret.Results {
							for _, pe := range phiEdgesWithBlocks(r, ret.Block()) {
								note(pe.v)
							}
						}
						for _, ft := range post {
							note(ft.Cond)
						}
						for cl := range cands {
							h := cl.Common().StaticCallee()
							if h == nil || h.Blocks == nil || cl.Parent() != ret.Parent() || ssa.Instruction(cl) == siteInFn(cl.Parent(), actionCall) {
								continue
							}
							inStep, holdsAction := false, false
							for _, g := range stepFns {
								if g == h {
									inStep = true
								}
							}
							for _, g := range pkgClosure(h) {
								if g == actionCall.Parent() {
									holdsAction = true
								}
							}
							if !inStep || holdsAction {
								continue
							}
							// the helper is called on the failed-action path (in the function that holds the action call: after
							// the failure is known; deeper: anywhere, the whole helper is on that path)
							onFailed := depth > 0
							for _, ft := range flow.FactsAt(cl.Block()) {
								if bo, isB := ft.Cond.(*ssa.BinOp); isB && ssau.IsNilConst(bo.Y) && ((bo.Op == token.NEQ && ft.True) || (bo.Op == token.EQL && !ft.True)) {
									if bo.X.Type().String() == "error" && about(bo.X, 0)["exec"] {
										onFailed = true
									}
								}
							}
							if onFailed && (via == nil || cl.Pos() < via.Pos()) {
								via = cl
							}
						}
					}
					if via == nil {
						exits = append(exits, exit{ret, post})
						return
					}
					known := flow.Expand(append([]flow.Fact{}, flow.FactsAt(ret.Block())...))
					n := 0
					for _, hb := range via.Common().StaticCallee().Blocks {
						r2, isRet := hb.Instrs[len(hb.Instrs)-1].(*ssa.Return)
						if !isRet || !feasibleReturn(via, r2, known) {
							continue
						}
						n++
						expand(r2, append(append([]flow.Fact{}, post...), flow.FactsAt(hb)...), depth+1)
					}
					if n == 0 {
						exits = append(exits, exit{ret, post})
					}
				}
				expand(ret, post, 0)
				for _, ex := range exits {
					n11++
					var bad []string
					for _, ft := range ex.post {
						a := about(ft.Cond, 0)
						if a["other"] {
							bad = append(bad, "the exit depends on "+ft.Cond.String()+" ("+c.pos(ft.If)+"), which is neither the action's result nor one of the spec's routing settings")
						}
					}
					c.R.Check(len(bad) == 0, "C04-R11", fmt.Sprintf("%s: exit #%d on the failed-action path is chosen by the routing settings", fname(f), n11), c.pos(ex.ret), "after the action failed, only the action's result, Spec.ActionErrorBranches and Spec.ActionErrorNode decide this exit", strings.Join(bad, "; ")+": some failures of an action (a timeout, say) are then routed differently from the others")
				}
			}
		}
	}

	// ------------------------------------------------------------ R2, R5, R6 (try and the helpers it is split into)
	var closure []*ssa.Function
	for _, f := range pkgClosure(try) {
		if prog.PkgOf(f) == "core" && f != step && f != consider {
			closure = append(closure, f)
		}
	}
	var matchCall, guardCall *ssa.Call
	matchArg0 := 1 // index of the pattern among the call's operands (an invoke has no receiver operand)
	for _, f := range closure {
		ssau.Instrs(f, func(in ssa.Instruction) {
			ci, ok := in.(*ssa.Call)
			if !ok {
				return
			}
			if sc := ci.Common().StaticCallee(); sc != nil && sc.Name() == "Match" && prog.PkgOf(sc) == "match" {
				matchCall = ci
				matchArg0 = 1
			}
			if ci.Common().IsInvoke() && ci.Common().Method.Name() == "Match" {
				// the matcher handed through an interface: resolved by the call graph
				for _, cal := range c.P.Callees(ci) {
					if cal.Name() == "Match" && prog.PkgOf(cal) == "match" {
						matchCall = ci
						matchArg0 = 0
					}
				}
			}
			if ci.Common().IsInvoke() && ci.Common().Method.Name() == "Exec" {
				for _, d := range deepDefs(ci.Common().Value, closure) {
					if _, is := isFieldLoad(d, "core", "Branch", "Guard"); is {
						guardCall = ci
					}
				}
			}
		})
	}
	if matchCall == nil || guardCall == nil {
		c.R.Break("C04: Branch.try (with its helpers) lacks the matcher call or the guard call")
		return
	}
	for _, f := range closure {
		c.R.Fn(fname(f))
	}
	// siteIn: the instruction of try through which the given call is reached
	siteIn := func(call *ssa.Call) ssa.Instruction {
		if call.Parent() == try {
			return call
		}
		var site ssa.Instruction
		ssau.Instrs(try, func(in ssa.Instruction) {
			ci, ok := in.(ssa.CallInstruction)
			if !ok || site != nil {
				return
			}
			sc := ci.Common().StaticCallee()
			if sc == nil {
				return
			}
			for _, g := range pkgClosure(sc) {
				if g == call.Parent() {
					site = in
				}
			}
		})
		return site
	}
	mSite := siteIn(matchCall)
	if mSite == nil {
		c.R.Break("C04: cannot relate the matcher call to Branch.try")
		return
	}
	allLeaves := func(v ssa.Value, pred func(d ssa.Value) bool) bool {
		ds := deepDefs(v, closure)
		if len(ds) == 0 {
			return false
		}
		for _, d := range ds {
			if !pred(d) {
				return false
			}
		}
		return true
	}
	// matcher arguments: (matcher, b.Pattern, against, bs)
	patOK := allLeaves(matchCall.Common().Args[matchArg0], func(d ssa.Value) bool { _, is := isFieldLoad(d, "core", "Branch", "Pattern"); return is })
	agOK := allLeaves(matchCall.Common().Args[matchArg0+1], func(d ssa.Value) bool { return d == ssa.Value(ifaceParam(try)) })
	bsOK := allLeaves(matchCall.Common().Args[matchArg0+2], func(d ssa.Value) bool {
		pr, isP := d.(*ssa.Parameter)
		return isP && pr.Parent() == try && ssau.TypeIs(pr.Type(), prog.Abs("match"), "Bindings")
	})
	c.R.Check(patOK && agOK && bsOK, "C04-R6", "try: Match(pattern, against, bs)", c.pos(matchCall), "the branch's own pattern against the given value with the given bindings", "the matcher is not applied to (branch pattern, value to match, current bindings)")
	// R6: plain no-match returns of try
	nr := 0
	for _, b := range try.Blocks {
		ret, ok := b.Instrs[len(b.Instrs)-1].(*ssa.Return)
		if !ok {
			continue
		}
		// (try may bundle its results in one struct built at the return: the state and the error are its fields)
		tres, si, ei := logicalResults(ret), 0, 2
		if resultStruct(try.Signature) != nil {
			si = logicalResultIdx(try.Signature, func(t types.Type) bool { return ssau.TypeIs(t, prog.Abs("core"), "State") })
			ei = logicalResultIdx(try.Signature, isErrorType)
			if tres == nil || si < 0 || ei < 0 {
				c.R.Violate("C04-R6", fmt.Sprintf("try: no-match return #%d decided by matcher/guard", nr+1), c.pos(ret), "cannot tell what this return of try hands back (the result struct is not built at the return)")
				nr++
				continue
			}
		}
		if len(tres) != 3 || !ssau.IsNilConst(tres[si]) || !ssau.IsNilConst(tres[ei]) {
			continue
		}
		nr++
		after := mSite.Block().Dominates(b) || flow.Reachable(mSite.Block(), b, nil)
		patternless := false
		for _, f := range flow.FactsAt(b) {
			if bo, isB := f.Cond.(*ssa.BinOp); isB && ssau.IsNilConst(bo.Y) {
				if _, is := isFieldLoad(bo.X, "core", "Branch", "Pattern"); is && ((bo.Op == token.NEQ && !f.True) || (bo.Op == token.EQL && f.True)) {
					patternless = true
				}
			}
		}
		// a return reachable without passing the Match call on a path where the pattern is present is a pre-filter
		pre := !mSite.Block().Dominates(b) && flow.Reachable(try.Blocks[0], b, map[*ssa.BasicBlock]bool{mSite.Block(): true}) && !patternlessOnly(try, b, mSite.Block())
		c.R.Check((after || patternless) && !pre, "C04-R6", fmt.Sprintf("try: no-match return #%d decided by matcher/guard", nr), c.pos(ret), "after the Match call or on the pattern-less path", "a branch can be rejected before (or without) consulting the matcher")
	}
	// ... and of the helper that holds the Match call: "no candidates" is only concluded after the matcher ran
	if mf := matchCall.Parent(); mf != try {
		for _, b := range mf.Blocks {
			ret, ok := b.Instrs[len(b.Instrs)-1].(*ssa.Return)
			if !ok || len(ret.Results) == 0 {
				continue
			}
			last := ret.Results[len(ret.Results)-1]
			if !ssau.IsNilConst(ret.Results[0]) || !ssau.IsNilConst(last) {
				continue
			}
			nr++
			after := matchCall.Block().Dominates(b) || flow.Reachable(matchCall.Block(), b, nil)
			patternless := false
			for _, f := range flow.FactsAt(b) {
				if bo, isB := f.Cond.(*ssa.BinOp); isB && ssau.IsNilConst(bo.Y) {
					if _, is := isFieldLoad(bo.X, "core", "Branch", "Pattern"); is && ((bo.Op == token.NEQ && !f.True) || (bo.Op == token.EQL && f.True)) {
						patternless = true
					}
				}
			}
			c.R.Check(after || patternless, "C04-R6", fmt.Sprintf("%s: no-candidates return #%d decided by the matcher", mf.Name(), nr), c.pos(ret), "after the Match call or on the pattern-less path", "a branch can be rejected before (or without) consulting the matcher")
		}
	}
	// R2/R5: the next state built by try
	var bsStores, nnStores []*ssa.Store
	for _, f := range closure {
		for _, st := range storesTo(f, "State", "Bs") {
			if _, _, base, _ := ssau.FieldOf(st.Addr); localFresh(base) {
				bsStores = append(bsStores, st)
			}
		}
		for _, st := range storesTo(f, "State", "NodeName") {
			if _, _, base, _ := ssau.FieldOf(st.Addr); localFresh(base) {
				nnStores = append(nnStores, st)
			}
		}
	}
	if len(bsStores) != 1 || len(nnStores) != 1 {
		c.R.Violate("C04-R2", "try: one next-state literal", c.P.Pos(try.Pos()), fmt.Sprintf("%d/%d stores to State.Bs/NodeName", len(bsStores), len(nnStores)))
		return
	}
	resBs := bsStores[0].Val
	var guardExe ssa.Value
	for _, r := range ssau.Referrers(guardCall) {
		if ex, ok := r.(*ssa.Extract); ok && ex.Index == 0 {
			guardExe = ex
		}
	}
	var matchBss ssa.Value
	for _, r := range ssau.Referrers(matchCall) {
		if ex, ok := r.(*ssa.Extract); ok && ex.Index == 0 {
			matchBss = ex
		}
	}
	// the guard's execution, also as the result of a helper that runs the guard and hands the execution on
	guardExes := handedOnResults(guardExe, closure)
	fromMatcher := func(v ssa.Value) bool {
		for _, d := range deepDefs(v, closure) {
			if d == matchBss {
				return true
			}
		}
		return false
	}
	isNonNilFact := func(f flow.Fact, of ssa.Value) bool {
		bo, isB := f.Cond.(*ssa.BinOp)
		if !isB || !ssau.IsNilConst(bo.Y) {
			return false
		}
		nn := (bo.Op == token.NEQ && f.True) || (bo.Op == token.EQL && !f.True)
		if !nn {
			return false
		}
		if b2, is2 := isFieldLoad(bo.X, "core", "Execution", "Bs"); is2 && guardExes[b2] {
			return true
		}
		return bo.X == of
	}
	// every way the stored bindings can come about (through helper results and parameters), with the branch facts
	// of that way and the values it passes through
	ways := chainWays(resBs, bsStores[0].Block(), closure)
	// wayNonNil: on this way the value is known not to be nil where it is handed on: a non-nil test of a value the
	// way passes through (or, for the guard's bindings, of another read of the same Execution.Bs)
	wayNonNil := func(w chainWay) bool {
		for _, f := range w.facts {
			bo, isB := f.Cond.(*ssa.BinOp)
			if !isB || !ssau.IsNilConst(bo.Y) {
				continue
			}
			if !((bo.Op == token.NEQ && f.True) || (bo.Op == token.EQL && !f.True)) {
				continue
			}
			for _, x := range w.chain {
				if bo.X == x {
					return true
				}
			}
			if base, is := isFieldLoad(w.leaf, "core", "Execution", "Bs"); is && guardExes[base] && isNonNilFact(f, w.leaf) {
				return true
			}
		}
		return false
	}
	okGate := true
	var why []string
	addWhy := func(s string) {
		for _, o := range why {
			if o == s {
				return
			}
		}
		why = append(why, s)
	}
	if len(ways) == 0 {
		okGate = false
		addWhy("the result bindings cannot be resolved")
	}
	for _, w := range ways {
		d := w.leaf
		if ssau.IsNilConst(d) {
			continue // rejected: filtered by the nil test below
		}
		if base, is := isFieldLoad(d, "core", "Execution", "Bs"); is && guardExes[base] {
			// must be under Bs != nil: where it is read, where it is chosen (phi edge), where it is returned from a
			// helper, or where the value it became is tested before the state is built
			if !wayNonNil(w) {
				okGate = false
				addWhy("guard bindings used without the non-nil test")
			}
			continue
		}
		if ld, ok := d.(*ssa.UnOp); ok {
			if ia, ok := ld.X.(*ssa.IndexAddr); ok {
				if n, isC := ssau.ConstInt(ia.Index); isC && n == 0 {
					// element 0 of the match result, only without a guard
					noGuard := false
					for _, f := range append(append([]flow.Fact{}, flow.FactsAt(ld.Block())...), w.facts...) {
						if bo, isB := f.Cond.(*ssa.BinOp); isB && ssau.IsNilConst(bo.Y) {
							if _, is := isFieldLoad(bo.X, "core", "Branch", "Guard"); is && ((bo.Op == token.EQL && f.True) || (bo.Op == token.NEQ && !f.True)) {
								noGuard = true
							}
						}
					}
					if fromMatcher(ia.X) && noGuard {
						continue
					}
					addWhy(fmt.Sprintf("match candidate becomes the result (from matcher=%v, on the guard-less path=%v)", fromMatcher(ia.X), noGuard))
				}
			}
		}
		okGate = false
		addWhy("result bindings may be " + d.Name() + " (" + d.String() + ")")
	}
	// a rejecting verdict does not end the guard loop: the loop around the guard is left only when the candidates
	// are used up, when the guard failed, or when the guard's bindings are not nil
	if gl, gsite := guardLoopOf(guardCall, closure); gl != nil {
		var guardErr ssa.Value
		for _, r := range ssau.Referrers(guardCall) {
			if ex, ok := r.(*ssa.Extract); ok && ex.Index == 1 {
				guardErr = ex
			}
		}
		guardErrs := handedOnResults(guardErr, closure)
		guardOnly := func(v ssa.Value) bool {
			n := 0
			for _, d := range deepDefs(v, closure) {
				if ssau.IsNilConst(d) {
					continue
				}
				if base, is := isFieldLoad(d, "core", "Execution", "Bs"); is && guardExes[base] {
					n++
					continue
				}
				return false
			}
			return n > 0
		}
		isGuardErr := func(v ssa.Value) bool {
			for _, d := range deepDefs(v, closure) {
				if guardErr != nil && guardErrs[d] {
					return true
				}
			}
			return false
		}
		exits := gl.Exits()
		sort.Slice(exits, func(i, j int) bool {
			if exits[i][0].Index != exits[j][0].Index {
				return exits[i][0].Index < exits[j][0].Index
			}
			return exits[i][1].Index < exits[j][1].Index
		})
		for _, e := range exits {
			okExit := false
			if iff, isIf := e[0].Instrs[len(e[0].Instrs)-1].(*ssa.If); isIf {
				// the loop's own bound: a comparison of a counter carried by the loop, or the end of a range
				if bo, isB := iff.Cond.(*ssa.BinOp); isB && (bo.Op == token.LSS || bo.Op == token.GTR || bo.Op == token.LEQ || bo.Op == token.GEQ) {
					for i, x := range []ssa.Value{bo.X, bo.Y} {
						if inc, isInc := x.(*ssa.BinOp); isInc && inc.Op == token.ADD {
							x = inc.X // the range form compares the advanced counter
						}
						ph, isPhi := x.(*ssa.Phi)
						if !isPhi || ph.Block() != gl.Header {
							continue
						}
						if bt, isBasic := ph.Type().Underlying().(*types.Basic); !isBasic || bt.Info()&types.IsInteger == 0 {
							continue
						}
						// ... with the length of a list
						bound := []ssa.Value{bo.Y, bo.X}[i]
						isLen := false
						for _, d := range deepDefs(bound, closure) {
							cl, isC := d.(*ssa.Call)
							if !isC {
								isLen = false
								break
							}
							if bi, isBi := cl.Common().Value.(*ssa.Builtin); !isBi || bi.Name() != "len" {
								isLen = false
								break
							}
							isLen = true
						}
						if isLen {
							okExit = true
						}
					}
				}
				if ex, isEx := iff.Cond.(*ssa.Extract); isEx {
					if _, isNext := ex.Tuple.(*ssa.Next); isNext && ex.Index == 0 {
						okExit = true
					}
				}
			}
			for _, f := range flow.EdgeFacts(e[0], e[1]) {
				bo, isB := f.Cond.(*ssa.BinOp)
				if !isB || !ssau.IsNilConst(bo.Y) || !((bo.Op == token.NEQ && f.True) || (bo.Op == token.EQL && !f.True)) {
					continue
				}
				if isGuardErr(bo.X) || guardOnly(bo.X) {
					okExit = true
				}
			}
			if !okExit {
				okGate = false
				addWhy("the loop that offers the candidates to the guard (" + c.pos(gsite) + ") can end at " + c.pos(e[0].Instrs[len(e[0].Instrs)-1]) + " although the guard rejected a candidate and others are left: guard bindings used without the non-nil test")
			}
		}
		// ... and an accepting verdict ends it: from the guard round the loop to the guard again, every way passes a
		// test that finds the guard's bindings nil
		{
			nilEdge := func(u, v *ssa.BasicBlock) bool {
				iff, isIf := u.Instrs[len(u.Instrs)-1].(*ssa.If)
				if !isIf || len(u.Succs) != 2 || u.Succs[0] == u.Succs[1] {
					return false
				}
				for _, f := range flow.Expand([]flow.Fact{{Cond: iff.Cond, True: u.Succs[0] == v, If: iff}}) {
					bo, isB := f.Cond.(*ssa.BinOp)
					if !isB || !ssau.IsNilConst(bo.Y) || !((bo.Op == token.EQL && f.True) || (bo.Op == token.NEQ && !f.True)) {
						continue
					}
					if guardOnly(bo.X) {
						return true
					}
				}
				return false
			}
			start := gsite.Block()
			seen := map[*ssa.BasicBlock]bool{}
			stack := []*ssa.BasicBlock{start}
			again := false
			for len(stack) > 0 {
				u := stack[len(stack)-1]
				stack = stack[:len(stack)-1]
				for _, v := range u.Succs {
					if !gl.Blocks[v] || nilEdge(u, v) {
						continue
					}
					if v == start {
						again = true
					}
					if !seen[v] {
						seen[v] = true
						stack = append(stack, v)
					}
				}
			}
			if again {
				okGate = false
				addWhy("the loop that offers the candidates to the guard (" + c.pos(gsite) + ") can go on to the next candidate after the guard accepted one: guard bindings used without the non-nil test")
			}
		}
	}
	c.R.Check(okGate, "C04-R2", "try: result bindings come from the guard (or the single match without a guard)", c.pos(bsStores[0]), "guard's non-nil Bs, or match result #0 when there is no guard", strings.Join(why, "; "))
	// the nil test before building the state: on no way do nil bindings reach the literal
	nilTest := len(ways) > 0
	for _, w := range ways {
		if !wayNonNil(w) {
			nilTest = false
		}
	}
	c.R.Check(nilTest, "C04-R2", "try: nil bindings mean the branch is not followed", c.pos(bsStores[0]), "the next state is built only under 'bs != nil'", "a next state can be built from nil (rejected) bindings")
	// guard receives the candidates one by one
	okCand := false
	if cands := deepDefs(guardCall.Common().Args[1], closure); len(cands) > 0 {
		okCand = true
		for _, d := range cands {
			isElem := false
			if ld, ok := d.(*ssa.UnOp); ok {
				if ia, ok := ld.X.(*ssa.IndexAddr); ok && fromMatcher(ia.X) {
					isElem = true
				}
			}
			okCand = okCand && isElem
		}
	}
	c.R.Check(okCand, "C04-R2", "try: guard is given the match candidates", c.pos(guardCall), "guard executes with an element of the match result", "the guard does not receive the bindings produced by the pattern match")
	// absent current bindings: on the pattern-less path the only candidate is the current bindings themselves,
	// and nil there would be read as "the branch is not followed"
	{
		okAbsent, whyAbsent := false, "no pattern-less candidate list found"
		var bsPar *ssa.Parameter
		for _, p := range try.Params {
			if ssau.TypeIs(p.Type(), prog.Abs("match"), "Bindings") {
				bsPar = p
			}
		}
		for _, f := range closure {
			ssau.Instrs(f, func(in ssa.Instruction) {
				st, ok := in.(*ssa.Store)
				if !ok {
					return
				}
				ia, isIA := st.Addr.(*ssa.IndexAddr)
				if !isIA {
					return
				}
				al, isAl := ia.X.(*ssa.Alloc)
				if !isAl {
					return
				}
				arr, isArr := al.Type().Underlying().(*types.Pointer).Elem().Underlying().(*types.Array)
				if !isArr || !isBindingsT(arr.Elem()) {
					return
				}
				// []Bindings{x}: every definition of x that is the current bindings is chosen where they are non-nil
				okAbsent, whyAbsent = true, ""
				for _, da := range phiEdgesWithBlocks(st.Val, st.Block()) {
					isCur := false
					for _, d := range deepDefs(da.v, closure) {
						if pr, isP := d.(*ssa.Parameter); isP && pr == bsPar {
							isCur = true
						}
					}
					if !isCur {
						continue
					}
					nonNil := false
					for _, blk := range []*ssa.BasicBlock{da.b, st.Block()} {
						for _, fc := range flow.FactsAt(blk) {
							if bo, isB := fc.Cond.(*ssa.BinOp); isB && ssau.IsNilConst(bo.Y) && ((bo.Op == token.NEQ && fc.True) || (bo.Op == token.EQL && !fc.True)) {
								for _, d := range deepDefs(bo.X, closure) {
									if pr, isP := d.(*ssa.Parameter); isP && pr == bsPar {
										nonNil = true
									}
								}
							}
						}
					}
					if ph, isPhi := st.Val.(*ssa.Phi); isPhi {
						for i, e := range ph.Edges {
							if e == da.v && ph.Block().Preds[i] == da.b {
								for _, fc := range flow.EdgeFacts(da.b, ph.Block()) {
									if bo, isB := fc.Cond.(*ssa.BinOp); isB && ssau.IsNilConst(bo.Y) && ((bo.Op == token.NEQ && fc.True) || (bo.Op == token.EQL && !fc.True)) {
										for _, d := range deepDefs(bo.X, closure) {
											if pr, isP := d.(*ssa.Parameter); isP && pr == bsPar {
												nonNil = true
											}
										}
									}
								}
							}
						}
					}
					if !nonNil {
						okAbsent, whyAbsent = false, "the current bindings become the only candidate of a pattern-less branch as they are ("+c.pos(st)+"): from a state with absent (nil) bindings the branch is then never followed, because nil means 'not followed'"
					}
				}
			})
		}
		c.R.Check(okAbsent, "C04-R2", "try: absent bindings are empty bindings on the pattern-less path", c.pos(bsStores[0]), "the candidate is the current bindings only where they are non-nil (else new bindings)", whyAbsent)
	}
	// R5: every value the next node's name can take is the branch's Target, or was looked up in the very bindings that become the next state's bindings
	resLeaves := map[ssa.Value]bool{resBs: true}
	for _, d := range deepDefs(resBs, closure) {
		resLeaves[d] = true
	}
	sameAsRes := func(v ssa.Value) bool {
		if v == resBs {
			return true
		}
		ds := deepDefs(v, closure)
		if len(ds) == 0 {
			return false
		}
		for _, d := range ds {
			if !resLeaves[d] {
				return false
			}
		}
		return true
	}
	okT := true
	whyT := ""
	nLookup := 0
	for _, d := range deepDefs(nnStores[0].Val, closure) {
		if _, is := isFieldLoad(d, "core", "Branch", "Target"); is {
			continue
		}
		// s, is := x.(string) where x, have := bs[...]
		v := d
		for i := 0; i < 4; i++ {
			switch x := v.(type) {
			case *ssa.Extract:
				v = x.Tuple
				continue
			case *ssa.TypeAssert:
				v = x.X
				continue
			}
			break
		}
		if lk, isLk := v.(*ssa.Lookup); isLk {
			nLookup++
			if !sameAsRes(lk.X) {
				okT, whyT = false, "the @variable target is looked up in bindings other than the ones that become the next state's bindings ("+c.pos(lk)+")"
			}
			continue
		}
		okT, whyT = false, "the next node can be "+d.String()
	}
	if nLookup == 0 && okT {
		okT, whyT = false, "no @variable target resolution found"
	}
	c.R.Check(okT, "C04-R5", "try: target resolved from the result bindings", c.pos(nnStores[0]), "NodeName is Branch.Target or a string looked up in the bindings stored as the state's bindings", "the next node is not resolved from the bindings that become the next state's bindings: "+whyT)
}

// chainWay is one way a value can come about: the defining leaf, the branch facts that hold along that way and the
// values the way passes through (the value itself first).
type chainWay struct {
	leaf  ssa.Value
	facts []flow.Fact
	chain []ssa.Value
}

// chainWays resolves v, used in block at, like deepDefs and keeps for every leaf the facts of the way taken: the
// facts at the use, of each phi edge, at the return of an in-scope helper that produced the value, and at the call
// site that handed it to a helper as an argument.  A return of a helper that the facts known so far rule out (a fact
// on another result of the same call) is not followed.
func chainWays(v ssa.Value, at *ssa.BasicBlock, scope []*ssa.Function) []chainWay {
	inScope := map[*ssa.Function]bool{}
	for _, f := range scope {
		inScope[f] = true
	}
	var out []chainWay
	var rec func(v ssa.Value, facts []flow.Fact, chain []ssa.Value)
	rec = func(v ssa.Value, facts []flow.Fact, chain []ssa.Value) {
		if v == nil || len(chain) > 24 || len(out) > 256 {
			return
		}
		for _, x := range chain {
			if x == v {
				return // a cycle (loop-carried value): the other edges of the phi are the ways in
			}
		}
		chain = append(chain[:len(chain):len(chain)], v)
		with := func(extra []flow.Fact) []flow.Fact {
			return append(facts[:len(facts):len(facts)], extra...)
		}
		returnsOf := func(cl *ssa.Call, idx int) bool {
			sc := cl.Common().StaticCallee()
			if sc == nil || sc.Blocks == nil || !inScope[sc] {
				return false
			}
			known := flow.Expand(append([]flow.Fact{}, facts...))
			for _, b := range sc.Blocks {
				if ret, ok := b.Instrs[len(b.Instrs)-1].(*ssa.Return); ok && idx < len(ret.Results) {
					if !feasibleReturn(cl, ret, known) {
						continue
					}
					rec(ret.Results[idx], with(flow.FactsAt(b)), chain)
				}
			}
			return true
		}
		switch x := v.(type) {
		case *ssa.Phi:
			for i, e := range x.Edges {
				rec(e, with(flow.EdgeFacts(x.Block().Preds[i], x.Block())), chain)
			}
			return
		case *ssa.ChangeType:
			rec(x.X, facts, chain)
			return
		case *ssa.MakeInterface:
			rec(x.X, facts, chain)
			return
		case *ssa.ChangeInterface:
			rec(x.X, facts, chain)
			return
		case *ssa.Call:
			if x.Common().Signature().Results().Len() == 1 && returnsOf(x, 0) {
				return
			}
		case *ssa.Extract:
			if cl, ok := x.Tuple.(*ssa.Call); ok && returnsOf(cl, x.Index) {
				return
			}
		case *ssa.Parameter:
			fn := x.Parent()
			idx := -1
			for i, p := range fn.Params {
				if p == x {
					idx = i
				}
			}
			sites := callSitesOf(fn, scope)
			if idx >= 0 && len(sites) > 0 && len(scope) > 0 && fn != scope[0] {
				n := 0
				for _, s := range sites {
					if args := s.Common().Args; idx < len(args) {
						n++
						rec(args[idx], with(flow.FactsAt(s.Block())), chain)
					}
				}
				if n > 0 {
					return
				}
			}
		}
		// what deepDefs can see through in one more step (variable cells, captured variables, bound receivers)
		ds := deepDefs(v, scope)
		if len(ds) == 1 && ds[0] == v {
			out = append(out, chainWay{v, facts, chain})
			return
		}
		if len(ds) == 0 {
			out = append(out, chainWay{v, facts, chain})
			return
		}
		for _, d := range ds {
			if d == v {
				out = append(out, chainWay{v, facts, chain})
				continue
			}
			rec(d, facts, chain)
		}
	}
	rec(v, append([]flow.Fact{}, flow.FactsAt(at)...), nil)
	return out
}

// guardLoopOf: the innermost loop in which the given call is executed — in its own function, or (when that function
// has no loop around it) around the only place from which that function is called inside scope, through static
// calls and called method values.  Also returns the instruction inside the loop that leads to the call.
func guardLoopOf(call ssa.Instruction, scope []*ssa.Function) (*flow.Loop, ssa.Instruction) {
	in := call
	for depth := 0; depth < 6; depth++ {
		f := in.Parent()
		if L := flow.InnermostLoop(flow.Loops(f), in.Block()); L != nil {
			return L, in
		}
		sites := callSitesOf(f, scope)
		if len(sites) != 1 {
			return nil, nil
		}
		in = sites[0]
	}
	return nil, nil
}

// patternlessOnly: every path from entry to b that avoids `avoid` passes an edge on which Branch.Pattern is nil.
func patternlessOnly(fn *ssa.Function, b, avoid *ssa.BasicBlock) bool {
	// find the If on Pattern != nil
	for _, blk := range fn.Blocks {
		iff, ok := blk.Instrs[len(blk.Instrs)-1].(*ssa.If)
		if !ok {
			continue
		}
		bo, isB := iff.Cond.(*ssa.BinOp)
		if !isB || !ssau.IsNilConst(bo.Y) {
			continue
		}
		if _, is := isFieldLoad(bo.X, "core", "Branch", "Pattern"); !is {
			continue
		}
		// successor where the pattern is present
		present := blk.Succs[0]
		if bo.Op == token.EQL {
			present = blk.Succs[1]
		}
		// is b reachable from `present` while avoiding the matcher block?
		if present == avoid {
			return true
		}
		return !flow.Reachable(present, b, map[*ssa.BasicBlock]bool{avoid: true})
	}
	return false
}

// c04ObjectResult: C04-R8.
func c04ObjectResult(c *Ctx) {
	exec := c.P.Func("interpreters/ecmascript", "Interpreter", "Exec")
	if exec == nil {
		return
	}
	n := 0
	for _, f := range pkgClosure(exec) {
		if prog.PkgOf(f) != "interpreters/ecmascript" {
			continue
		}
		var tas []*ssa.TypeAssert
		ssau.Instrs(f, func(in ssa.Instruction) {
			ta, ok := in.(*ssa.TypeAssert)
			if !ok || !ta.CommaOk {
				return
			}
			mt, isMap := ta.AssertedType.Underlying().(*types.Map)
			if !isMap || !types.IsInterface(mt.Elem()) {
				return
			}
			if _, named := ta.AssertedType.(*types.Named); named {
				return // match.Bindings: a host value, not a script object
			}
			// only result conversions: the function returns or stores Bindings
			tas = append(tas, ta)
		})
		for _, ta := range tas {
			inCase := func(b *ssa.BasicBlock) bool {
				for _, fc := range flow.FactsAt(b) {
					if ex, isEx := fc.Cond.(*ssa.Extract); isEx && ex.Tuple == ssa.Value(ta) && ex.Index == 1 && fc.True {
						return true
					}
				}
				return false
			}
			var bad []string
			uses := 0
			ssau.Instrs(f, func(in ssa.Instruction) {
				switch x := in.(type) {
				case *ssa.Phi:
					if !isBindingsT(x.Type()) {
						return
					}
					for i, e := range x.Edges {
						if inCase(x.Block().Preds[i]) && !inCase(x.Block()) {
							uses++
							if ssau.IsNilConst(e) {
								bad = append(bad, "the bindings that leave the object case can be nil ("+c.pos(x.Block().Preds[i].Instrs[len(x.Block().Preds[i].Instrs)-1])+")")
							}
						}
					}
				case *ssa.Store:
					if ssau.IsField(x.Addr, prog.Abs("core"), "Execution", "Bs") && inCase(x.Block()) {
						uses++
						if ssau.IsNilConst(x.Val) {
							bad = append(bad, "nil bindings stored in the object case ("+c.pos(x)+")")
						}
					}
				case *ssa.Return:
					if !inCase(x.Block()) {
						return
					}
					for i, r := range x.Results {
						if isBindingsT(r.Type()) {
							uses++
							errNil := true
							if i+1 < len(x.Results) {
								errNil = ssau.IsNilConst(x.Results[len(x.Results)-1])
							}
							if ssau.IsNilConst(r) && errNil {
								bad = append(bad, "nil bindings returned without an error in the object case ("+c.pos(x)+")")
							}
						}
					}
				}
			})
			if uses == 0 {
				continue // not a result conversion
			}
			n++
			sort.Strings(bad)
			c.R.Check(len(bad) == 0, "C04-R8", fmt.Sprintf("%s: object result #%d gives non-nil bindings", fname(f), n), c.pos(ta), "every value that leaves the map case is a converted map", strings.Join(bad, "; ")+": a guard that accepts by returning an empty object would be read as rejecting, and an action's {} would lose the restore of permanent bindings")
		}
	}
	if n == 0 {
		c.R.Break("C04-R8: no conversion of an object result to bindings found in the interpreter")
	}
}

// handedOnResults: the values that are v (a result of a call made in a helper) in the callers of the helper: when
// every return of the helper hands v on as its result #i, result #i of every place where the helper runs (its static
// calls and the calls of its method value, which must all be known) is v; and so on, up a few levels.
func handedOnResults(v ssa.Value, scope []*ssa.Function) map[ssa.Value]bool {
	out := map[ssa.Value]bool{}
	if v == nil {
		return out
	}
	out[v] = true
	work := []ssa.Value{v}
	for depth := 0; len(work) > 0 && depth < 4; depth++ {
		var next []ssa.Value
		for _, x := range work {
			in, ok := x.(ssa.Instruction)
			if !ok || in.Parent() == nil {
				continue
			}
			f := in.Parent()
			nres := f.Signature.Results().Len()
			for i := 0; i < nres; i++ {
				all, n := true, 0
				for _, b := range f.Blocks {
					ret, isRet := b.Instrs[len(b.Instrs)-1].(*ssa.Return)
					if !isRet || i >= len(ret.Results) {
						continue
					}
					n++
					for _, d := range phiDefs(ret.Results[i], nil, map[ssa.Value]bool{}) {
						if d != x {
							all = false
						}
					}
				}
				if !all || n == 0 {
					continue
				}
				sites, complete := valueCallSites(f, scope)
				if !complete {
					continue
				}
				for _, s := range sites {
					sv := s.Value()
					if sv == nil {
						continue
					}
					if nres == 1 {
						if !out[sv] {
							out[sv] = true
							next = append(next, sv)
						}
						continue
					}
					for _, r := range ssau.Referrers(sv) {
						if ex, isEx := r.(*ssa.Extract); isEx && ex.Index == i && !out[ex] {
							out[ex] = true
							next = append(next, ex)
						}
					}
				}
			}
		}
		work = next
	}
	return out
}

// Package rules instantiates the engines per property (tables + anchors).
package rules

import (
	"fmt"
	"sort"
	"strings"

	"golang.org/x/tools/go/ssa"

	"sheensverif/internal/prog"
	"sheensverif/internal/pta"
	"sheensverif/internal/report"
)

type Ctx struct {
	P    *prog.Program
	R    *report.Result
	Tier string
	// Shared: this run only feeds another property's check (shareRule); it shares nothing itself.
	Shared bool
}

type RuleFunc func(c *Ctx)

var Registry = map[string]RuleFunc{}

// Assumptions shared by all checks (DESIGN.md section 3).
var Assumptions = []string{
	"A1 go/types, go/ssa, go/cfg and the VTA-over-CHA call graph of x/tools v0.29.0 are correct; no reflection-based calls in the engine packages",
	"A2 caller-supplied callbacks (actions, guards, breakpoints, pattern parsers) own their results and do not write their arguments",
	"A3 external model: std / goja / bbolt / yaml functions do not write memory reachable from their arguments except the listed writers; goja Program immutable, Runtime isolated",
	"A4 no unsafe pointer arithmetic, cgo or reflect writes in the engine packages",
	"A5 messages, patterns and bindings handed to the API are JSON-decoded values",
}

// fn resolves an anchor function or records a checker failure.
func (c *Ctx) fn(pkg, recv, name string) *ssa.Function {
	f := c.P.Func(pkg, recv, name)
	if f == nil || f.Blocks == nil {
		c.R.Break("anchor unresolved: %s.%s.%s", pkg, recv, name)
		return nil
	}
	return f
}

func (c *Ctx) pos(in ssa.Instruction) string { return c.P.InstrPos(in) }

func fname(f *ssa.Function) string { return prog.FuncName(f) }

// paramIndex finds a parameter by name.
func paramIndex(f *ssa.Function, name string) int {
	for i, p := range f.Params {
		if p.Name() == name {
			return i
		}
	}
	return -1
}

// rootsByName builds a root table for an entry from parameter names.
func (c *Ctx) rootsByName(f *ssa.Function, specs map[string]pta.RootSpec) map[int]pta.RootSpec {
	out := map[int]pta.RootSpec{}
	for name, sp := range specs {
		i := paramIndex(f, name)
		if i < 0 {
			// receiver may be unnamed in source; SSA names it
			c.R.Break("anchor unresolved: parameter %q of %s", name, fname(f))
			continue
		}
		out[i] = sp
	}
	return out
}

// rootsByPos builds a root table from parameter positions (receiver = 0).
func rootsByPos(names []string, levels []int) map[int]pta.RootSpec {
	out := map[int]pta.RootSpec{}
	for i, n := range names {
		if n == "" {
			continue
		}
		out[i] = pta.RootSpec{Name: n, Levels: levels[i]}
	}
	return out
}

func locsString(ls []pta.Loc) string {
	var ss []string
	for _, l := range ls {
		ss = append(ss, pta.LocString(l))
	}
	sort.Strings(ss)
	return strings.Join(ss, ", ")
}

// reportEffects turns write effects into obligations of a rule.
func (c *Ctx) reportEffects(rule string, a *pta.Analysis, filter func(e pta.Effect) bool) int {
	n := 0
	for _, e := range a.Effects() {
		if filter != nil && !filter(e) {
			continue
		}
		n++
		tgt := e.Target.Name
		c.R.Violate(rule, fmt.Sprintf("%s|writes %s", e.Key, tgt), c.pos(e.Site.Instr),
			fmt.Sprintf("%s in %s may write %s; path: %s", e.Site.Kind, fname(e.Site.Fn), tgt, strings.Join(e.Origin, " -> ")))
	}
	return n
}

// writesSummary discharges one obligation per write site that provably
// targets only private (non-root, non-global) objects.
func (c *Ctx) dischargeWrites(rule string, a *pta.Analysis) {
	idx := map[string]int{}
	for _, w := range a.Writes {
		if !a.Reached[w.Fn] {
			continue
		}
		bad := false
		locs := a.NodeLocs(w.Ptr)
		for _, L := range locs {
			switch L.Obj.Kind {
			case pta.KRoot, pta.KGlobal, pta.KGlobalSub:
				bad = true
			}
		}
		if bad {
			continue
		}
		base := fname(w.Fn) + ":" + w.Kind + ":" + describeInstr(w.Instr)
		idx[base]++
		key := fmt.Sprintf("%s#%d", base, idx[base])
		var targets []string
		for _, L := range locs {
			targets = append(targets, L.Obj.Name)
		}
		sort.Strings(targets)
		if len(targets) > 4 {
			targets = append(targets[:4], "...")
		}
		c.R.Discharge(rule, key, c.pos(w.Instr), "targets only private objects: "+strings.Join(targets, ", "))
	}
}

func describeInstr(in ssa.Instruction) string {
	switch x := in.(type) {
	case *ssa.MapUpdate:
		if k, ok := x.Key.(*ssa.Const); ok && k.Value != nil {
			return "map[" + k.Value.ExactString() + "]"
		}
		return "map[?]"
	case *ssa.Store:
		switch ad := x.Addr.(type) {
		case *ssa.FieldAddr:
			return "field" + fieldNameOf(ad)
		case *ssa.IndexAddr:
			return "elem"
		case *ssa.Global:
			return "global " + ad.Name()
		case *ssa.Alloc:
			return "local " + ad.Comment
		case *ssa.FreeVar:
			return "captured " + ad.Name()
		}
		return "ptr"
	case ssa.CallInstruction:
		return pta.DescribeCall(x)
	}
	return fmt.Sprintf("%T", in)
}

func fieldNameOf(fa *ssa.FieldAddr) string {
	return pta.FieldName(fa.X.Type(), fa.Field)
}

func (c *Ctx) noteAnalysis(a *pta.Analysis) {
	c.R.Fn(a.ReachedNames()...)
	var cbs []string
	seen := map[string]bool{}
	for _, s := range a.Callbacks {
		k := fname(s.Parent()) + ":" + pta.DescribeCall(s)
		if !seen[k] {
			seen[k] = true
			cbs = append(cbs, k)
		}
	}
	sort.Strings(cbs)
	if len(cbs) > 0 {
		c.R.Remark("calls treated as caller-supplied callbacks (A2): %s", strings.Join(cbs, "; "))
	}
	var ex []string
	for n := range a.Externals {
		ex = append(ex, n)
	}
	sort.Strings(ex)
	if len(ex) > 0 {
		c.R.Remark("external calls modelled by A3: %s", strings.Join(ex, "; "))
	}
}

// posv: position of a value (instruction position if it is one, else its own).
func (c *Ctx) posv(v ssa.Value) string {
	if in, ok := v.(ssa.Instruction); ok {
		return c.P.InstrPos(in)
	}
	return c.P.Pos(v.Pos())
}

// freshMapResult: every return of the (single-result) function is a map made
// in that call: the function never returns nil, whatever it is given.
func (c *Ctx) freshMapResult(rule, key string, f *ssa.Function, why string) {
	if f == nil {
		return
	}
	c.R.Fn(fname(f))
	ok, n := true, 0
	bad := ""
	for _, b := range f.Blocks {
		ret, isRet := b.Instrs[len(b.Instrs)-1].(*ssa.Return)
		if !isRet || len(ret.Results) != 1 {
			continue
		}
		n++
		for _, d := range phiDefs(ret.Results[0], nil, map[ssa.Value]bool{}) {
			if _, isMk := d.(*ssa.MakeMap); !isMk {
				ok, bad = false, d.String()+" at "+c.pos(ret)
			}
		}
	}
	c.R.Check(ok && n > 0, rule, key, c.P.Pos(f.Pos()), "every return is a map made in the call", why+" (can return "+bad+")")
}

// shareRule runs the rules of another property on the same program and takes over the obligations of one of its
// rules under an id of this property.  It is used where one mechanism is a necessary condition of several
// properties (a change that breaks it should be reported by the check of each of them).  A source rule that did not
// produce anything (its anchor is gone) counts as a checker failure here too.
func (c *Ctx) shareRule(from string, srcRule, dstRule, text string) {
	if c.Shared {
		return
	}
	rf := Registry[from]
	if rf == nil {
		c.R.Break("%s: rules of %s not registered", dstRule, from)
		return
	}
	tmp := report.New(from, c.R.Tier, 0)
	func() {
		defer func() {
			if r := recover(); r != nil {
				tmp.Break("analysis panic: %v", r)
			}
		}()
		rf(&Ctx{P: c.P, R: tmp, Tier: c.Tier, Shared: true})
	}()
	min := 1
	for _, ri := range tmp.Rules {
		if ri.ID == srcRule && ri.Min > 0 {
			min = ri.Min
		}
	}
	c.R.Rule(dstRule, "shared", text+" (= "+srcRule+")", min)
	n := 0
	for _, o := range tmp.Obls {
		if o.Rule != srcRule {
			continue
		}
		n++
		key := strings.TrimPrefix(o.Key, srcRule+"|")
		switch o.Status {
		case report.OK:
			c.R.Discharge(dstRule, key, o.Pos, o.Arg)
		default:
			c.R.Violate(dstRule, key, o.Pos, o.Detail)
		}
	}
	for _, b := range tmp.Broken {
		if strings.Contains(b, srcRule) {
			c.R.Break("%s (shared from %s): %s", dstRule, srcRule, b)
		}
	}
	if n == 0 {
		c.R.Break("%s: the shared rule %s produced no obligation", dstRule, srcRule)
	}
}
